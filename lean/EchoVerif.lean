import EchoVerif.Model.Basic
import EchoVerif.Model.SMap
import EchoVerif.Model.Bus
import EchoVerif.Lemmas.FoldPerm
