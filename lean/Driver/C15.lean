import Driver.Parse
import EchoVerif.Model.Settle

/-! Line protocol of stream `C15.run` (see harness/src/c15.rs for the grammar). -/
namespace Driver.C15
open EchoVerif EchoVerif.Settle Driver

def slot : P Slot := do
  let t ← tok
  match t.toList with
  | 'n' :: rest => match (String.ofList rest).toNat? with
    | some n => pure (.node n)
    | none => throw s!"bad slot {t}"
  | 'a' :: rest => match (String.ofList rest).toNat? with
    | some n => pure (.att n)
    | none => throw s!"bad slot {t}"
  | _ => throw s!"bad slot {t}"

def instr : P Instr := do
  let t ← tok
  match t with
  | "up" => do let n ← num; let ty ← num; pure (.up n ty)
  | "del" => do let n ← num; pure (.del n)
  | "set" => do let n ← num; let v ← num; pure (.set n v)
  | "clr" => do let n ← num; pure (.clr n)
  | "cp" => do let s ← num; let d ← num; pure (.cp s d)
  | x => throw s!"bad instr {x}"

def lit (s : String) : P Unit := do
  let t ← tok
  if t = s then pure () else throw s!"expected {s} got {t}"

def prog : P Prog := do
  lit "I"; let is ← counted instr
  lit "R"; let xr ← counted slot
  lit "W"; let xw ← counted slot
  pure { instrs := is, xr := xr, xw := xw }

inductive Cmd where
  | ing (w : Nat) (p : Prog)
  | pass
  | fork (rq : ForkReq)
  | plan (sid : Nat) (pol : Bool)
  | settle (sid : Nat) (pol : Bool) (fail : Fail)

def failP : P Fail := do
  let t ← tok
  match t.toList with
  | ['-'] => pure .none
  | ['s', 'h'] => pure .shell
  | 'a' :: rest => match (String.ofList rest).toNat? with
    | some k => pure (.before k)
    | none => throw s!"bad fail {t}"
  | _ => throw s!"bad fail {t}"

def cmd : P Cmd := do
  let t ← tok
  match t with
  | "ing" => do let w ← num; let p ← prog; pure (.ing w p)
  | "pass" => pure .pass
  | "fork" => do
    let sid ← num; let src ← num; let tick ← num; let child ← num; let head ← num; let sh ← num
    pure (.fork { sid, src, tick, child, head, shared := sh != 0 })
  | "plan" => do let sid ← num; let pol ← num; pure (.plan sid (pol != 0))
  | "settle" => do let sid ← num; let pol ← num; let f ← failP; pure (.settle sid (pol != 0) f)
  | x => throw s!"bad op {x}"

def slotTok : Slot → String
  | .node n => s!"n{n}"
  | .att n => s!"a{n}"

def slotsTok (univ : List Slot) (l : List Slot) : String :=
  let c := univ.filter (fun s => l.contains s)
  if c.isEmpty then "-" else ".".intercalate (c.map slotTok)

def valTok : Val → String
  | none => "-"
  | some v => toString v

def valsTok (vs : List Val) : String := ",".intercalate (vs.map valTok)

def opKey : Op → Nat × Nat
  | .del n => (0, n) | .up n _ => (1, n) | .set n _ => (2, n)

def insOp (o : Op) : List Op → List Op
  | [] => [o]
  | x :: xs =>
    let a := opKey o; let b := opKey x
    if a.1 < b.1 || (a.1 == b.1 && a.2 ≤ b.2) then o :: x :: xs else x :: insOp o xs

def opTok : Op → String
  | .del n => s!"d{n}"
  | .up n ty => s!"u{n}={ty}"
  | .set n v => s!"s{n}={valTok v}"

def opsTok (ops : List Op) : String :=
  let l := ops.foldr insOp []
  if l.isEmpty then "-" else ",".intercalate (l.map opTok)

def reasonTok : Reason → String
  | .channelPolicy => "channel" | .unsupported => "unsupported" | .baseDivergence => "basediv"
  | .overlap => "overlap" | .quantum => "quantum" | .pluralUpstream => "pluralup"

def decTok (univ : List Slot) : Decision → String
  | .imp t _ none => s!"i{t}"
  | .imp t _ (some (.clean s)) => s!"i{t}:c={slotsTok univ s}"
  | .imp t _ (some (.obstructed s)) => s!"i{t}:o={slotsTok univ s}"
  | .imp t _ (some (.conflict s)) => s!"i{t}:x={slotsTok univ s}"
  | .conf t r none => s!"c{t}:{reasonTok r}"
  | .conf t r (some (.clean s)) => s!"c{t}:{reasonTok r}:c={slotsTok univ s}"
  | .conf t r (some (.obstructed s)) => s!"c{t}:{reasonTok r}:o={slotsTok univ s}"
  | .conf t r (some (.conflict s)) => s!"c{t}:{reasonTok r}:x={slotsTok univ s}"
  | .plur t s => s!"p{t}:{slotsTok univ s}"

def basisTok (univ : List Slot) : Basis → String
  | .atAnchor => "anchor"
  | .disjoint => "disj"
  | .reval s => s!"reval:{slotsTok univ s}"

def planTok (univ : List Slot) (pl : Plan) : String :=
  s!"basis={basisTok univ pl.basis} n={pl.decisions.length}"
    ++ String.join (pl.decisions.map (fun d => " " ++ decTok univ d))

def settleErrTok : SettleErr → String
  | .strandNotFound => "nostrand" | .nonShared => "nonshared" | .unknownWorldline => "unkwl"
  | .gtickOverflow => "goverflow" | .apply => "apply" | .rootMismatch => "rootmismatch"
  | .missingPatch => "nopatch" | .shell => "shell" | .pluralBound => "pluralbound"

def forkErrTok : ForkErr → String
  | .unknownWorldline => "unkwl" | .tick => "tick" | .dupWorldline => "dupwl"
  | .dupStrand => "dupstrand" | .replay => "replay"

def dump (univ : List Slot) (rt : Rt) (pv : Pv) : String :=
  let keys := sortNats (rt.lanes.map (·.1))
  let lanes := keys.map (fun w =>
    match lookup w rt.lanes, lookup w pv.hists with
    | some l, some h => s!" | {w} {h.length} {if l.pending.isSome then 1 else 0} {valsTok (rootOf univ l.state)}"
    | _, _ => s!" | {w} ?")
  String.join lanes ++ s!" | g={rt.gtick} sh={pv.shells.length} st={rt.strands.length}"

/-- description of the last entry of a lane (the tick patch a pass committed) -/
def lastEntryTok (univ : List Slot) (w : Nat) (pv : Pv) : String :=
  match (lookup w pv.hists).bind (fun h => h.getLast?) with
  | some e => match e.patch with
    | some p => s!"{w}:in={slotsTok univ p.ins}:out={slotsTok univ p.outs}:ops={opsTok p.ops}"
    | none => s!"{w}:nopatch"
  | none => s!"{w}:none"

def progOk (n : Nat) (p : Prog) : Bool :=
  let okN := fun k => decide (1 ≤ k ∧ k ≤ n)
  let okS := fun s => match s with | Slot.node k => okN k | Slot.att k => okN k
  p.wellFormed && p.instrs.all (fun i => match i with
    | .up k ty => okN k && decide (ty < 200)
    | .del k => okN k
    | .set k v => okN k && decide (v < 256)
    | .clr k => okN k
    | .cp s d => okN s && okN d) && p.xr.all okS && p.xw.all okS

def run : P String := do
  lit "U"; let nperm ← num; let neph ← num
  lit "L"; let nl ← num
  lit "O"; let cmds ← counted cmd
  done
  let n := nperm + neph
  if n > 12 || nl = 0 || nl > 3 then throw "bad universe" else
  let univ : List Slot := (List.range n).map (fun i => Slot.node (i + 1)) ++ (List.range n).map (fun i => Slot.att (i + 1))
  let init : St := fun s => match s with
    | .node k => if 1 ≤ k ∧ k ≤ nperm then some 1 else none
    | .att _ => none
  let rt0 : Rt := { lanes := (List.range nl).map (fun i => (i + 1, { state := init, pending := none, head := 1 })),
                    strands := [], gtick := 0 }
  let pv0 : Pv := { hists := (List.range nl).map (fun i => (i + 1, [])), shells := [], plurals := [] }
  let step := fun (acc : (Rt × Pv) × List String) (c : Cmd) =>
    let rt := acc.1.1; let pv := acc.1.2
    match c with
    | .ing w p =>
      if !progOk n p then (acc.1, acc.2 ++ ["ing badprog"]) else
      let (o, rt') := ingest w p rt
      let t := match o with | .accepted => "acc" | .busy => "busy" | .unknown => "unk"
      ((rt', pv), acc.2 ++ [s!"ing {t}"])
    | .pass =>
      let committed := (sortNats (rt.lanes.map (·.1))).filter (fun w =>
        match lookup w rt.lanes with | some l => l.pending.isSome | none => false)
      let (rt', pv') := pass univ rt pv
      let recs := committed.map (fun w => " " ++ lastEntryTok univ w pv')
      ((rt', pv'), acc.2 ++ [s!"pass {committed.length}" ++ String.join recs ++ dump univ rt' pv'])
    | .fork rq =>
      match fork init rq rt pv with
      | .error e => (acc.1, acc.2 ++ [s!"fork err {forkErrTok e}"])
      | .ok (rt', pv', rc) =>
        ((rt', pv'), acc.2 ++ [s!"fork ok {rc.sid} {rc.src} {rc.tick} {rc.child} {rc.head} basis={valsTok rc.basisRoot}"
          ++ dump univ rt' pv'])
    | .plan sid pol =>
      match plan univ pol sid rt pv with
      | .error e => (acc.1, acc.2 ++ [s!"plan err {settleErrTok e}"])
      | .ok pl => (acc.1, acc.2 ++ [s!"plan {planTok univ pl}"])
    | .settle sid pol f =>
      match settle univ pol f sid rt pv with
      | (.error e, rt', pv') => ((rt', pv'), acc.2 ++ [s!"settle err {settleErrTok e}" ++ dump univ rt' pv'])
      | (.ok r, rt', pv') =>
        ((rt', pv'), acc.2 ++ [s!"settle ok i={r.imports} c={r.conflicts} p={r.plurals} sh={if r.shell then 1 else 0} "
          ++ planTok univ r.plan ++ dump univ rt' pv'])
  let res := cmds.foldl step ((rt0, pv0), [])
  pure (" ; ".intercalate res.2)

def handlers : List (String × (List String → String)) :=
  [("C15.run", runP run)]

end Driver.C15
