import Driver.Parse
import EchoVerif.Model.ExtAct
import EchoVerif.Model.ExtActEmpty

namespace Driver.C17
open EchoVerif EchoVerif.ExtAct Driver

/-! ### pre-image rendering (digests are evaluated by `harness hashx` with the real BLAKE3) -/

def ascii (s : String) : String := bytesToHex s.toUTF8.toList
def domRequestId := ascii "echo:external-action:request-id:v1\x00"
def domAttemptId := ascii "echo:external-action:attempt-id:v1\x00"
def domIdem := ascii "echo:external-action:idempotency-key:v1\x00"
def domLeaf := ascii "echo:external-action:index-leaf:v1\x00"
def domNode := ascii "echo:external-action:index-node:v1\x00"

def hx (n : Nat) : String := id32Tok n
def le (len n : Nat) : String := bytesToHex (natToLE len n)

def requestFields (r : Request) : String :=
  s!"{hx r.worldline} {hx r.operation} {hx r.inSchema} {hx r.setSchema} {hx r.scope} {hx r.basis} " ++
  s!"{le 8 r.maxBytes} {le 4 r.maxAttempts} {hx r.input} {hx r.law}"

def ridExpr (r : Request) : String := s!"(h {domRequestId} {requestFields r})"

def requestPayload (r : Request) : String := s!"{ascii "EAR1"} {hx r.rid} {requestFields r}"

def attemptExpr : AttemptId → String
  | .derived rid ord adapter lease policy =>
    s!"(h {domAttemptId} {hx rid} {le 4 ord} {hx adapter} {hx lease} {hx policy})"
  | .raw x => hx x

def claimPayload (c : Claim) : String :=
  s!"{ascii "EAC1"} {hx c.rid} {attemptExpr c.attempt} {le 4 c.ordinal} {hx c.adapter} {hx c.lease} " ++
  s!"(h {domIdem} {hx c.rid} {hx c.law}) {hx c.law} {hx c.basis} {hx c.policy}"

def settlementPayload (s : Settlement) : String :=
  s!"{ascii "EAS1"} {hx s.rid} {attemptExpr s.attempt} {hx s.adapter} {le 1 s.kind} {hx s.schema} " ++
  s!"{hx s.basis} {le 8 s.bytes.length} {bytesTok s.bytes} (h {bytesTok s.bytes}) {hx s.schemaEv} {hx s.extEv}"

def leafExpr (r : Request) (c : Option Claim) (s : Option Settlement) : String :=
  let cp := match c with
    | some c => s!"01 {le 8 264} {claimPayload c}"
    | none => "00"
  let sp := match s with
    | some s => s!"01 {le 8 (269 + s.bytes.length)} {settlementPayload s}"
    | none => "00"
  s!"(h {domLeaf} {hx r.rid} {le 8 304} {requestPayload r} {cp} {sp})"

def renderDX : DX → String
  | .empty d => emptyHexTable.getD d "missing-empty"
  | .leaf r c s => leafExpr r c s
  | .node d l r => "(h " ++ domNode ++ " " ++ le 2 d ++ " " ++ renderDX l ++ " " ++ renderDX r ++ ")"

/-! ### case parsing -/

structure Hdr where
  policy : Nat
  bindings : List (Nat × Nat × Nat)
  shAdapter : Nat
  shLease : Nat
  reqs : Array Request

def request : P Request := do
  let rid ← id32
  let worldline ← id32
  let operation ← id32
  let inSchema ← id32
  let setSchema ← id32
  let scope ← id32
  let basis ← id32
  let maxBytes ← num
  let maxAttempts ← num
  let input ← id32
  let law ← id32
  pure { rid, idOk := true, worldline, operation, inSchema, setSchema, scope, basis, maxBytes,
         maxAttempts, input, law }

def hdr : P Hdr := do
  let policy ← id32
  let bindings ← counted (do let o ← id32; let s ← id32; let a ← id32; pure (o, s, a))
  let shAdapter ← id32
  let shLease ← id32
  let reqs ← counted request
  pure { policy, bindings, shAdapter, shLease, reqs := reqs.toArray }

def otherBasis : Nat := 0xBA5
def tamperedBasis : Nat := 0xBAD
def otherSchema : Nat := 0x5C4
def otherAdapter : Nat := 0xADA
def rawAttempt : Nat := 0xA77
def shadowCommit : Nat := 1000000

def reqAt (h : Hdr) : P Request := do
  let i ← num
  match h.reqs[i]? with
  | some r => pure r
  | none => throw "bad request index"

def errS (e : Err) : String := "E:" ++ e.name

def outS : Out → String
  | .recorded _ c => s!"ok c{c}"
  | .grant _ cl c => s!"ok c{c} att {attemptExpr cl.attempt}"
  | .admitted st c => s!"ok c{c} k{st.kind} {bytesTok st.bytes}"
  | .err e => errS e
  | .done => "ok"

def optC : Option Nat → String
  | some c => s!"c{c}"
  | none => "-"

def postureS : Posture → String
  | .requested => "R"
  | .claimed => "C"
  | .settled k => s!"S{k}"

def dumpS (h : Hdr) (s : Sys) : String :=
  let es := s.coord.index.entries.map (fun (rid, e) =>
    s!" {hx rid} {postureS e.posture} c{e.reqCommit} {optC e.claimCommit} {optC e.setCommit}")
  let gs := h.reqs.toList.map (fun r =>
    " " ++ outS (recordedRequest s.coord r.rid) ++ " | " ++ outS (claimGrant s.coord r.rid) ++ " | " ++
      outS (admittedSettlement s.coord r.rid) ++ " ,")
  s!"[idx {es.length}" ++ String.join es ++ " root " ++ renderDX s.coord.index.rootDigest ++
    s!" commits={s.store.commits.length} grants" ++ String.join gs ++ "]"

/-- candidate modifiers shared by `settle` and `retry`. -/
def candidate (rid : Nat) (req : Request) (att : AttemptId) (adapter : Nat) : P Candidate := do
  let attSel ← num
  let adSel ← num
  let kind ← num
  let schSel ← num
  let basSel ← num
  let bs ← bytes
  let dig ← num
  let schemaEv ← id32
  let extEv ← id32
  pure { rid, attempt := if attSel = 0 then att else .raw rawAttempt,
         adapter := if adSel = 0 then adapter else otherAdapter, kind,
         schema := if schSel = 0 then req.setSchema else otherSchema,
         basis := if basSel = 0 then req.basis else otherBasis,
         bytes := bs, digestOk := dig = 1, schemaEv, extEv }

def oneOp (h : Hdr) (s : Sys) : P (Sys × String) := do
  let t ← tok
  match t with
  | "req" =>
    let r ← reqAt h
    let tamper ← num
    let r := if tamper = 0 then r else { r with basis := tamperedBasis, idOk := false }
    let (s', o) := step s (.request r)
    pure (s', outS o)
  | "claim" =>
    let r ← reqAt h
    let src ← num
    let x ← reqAt h
    let adapter ← id32
    let cb ← num
    let ord ← num
    let lease ← id32
    -- the token: live = coordinator.recorded_request(rid); shadow = the same request recorded elsewhere
    let token : Except String Request :=
      if src = 0 then
        match recordedRequest s.coord r.rid with
        | .recorded q _ => .ok q
        | o => .error (outS o ++ "@token")
      else .ok r
    match token with
    | .error e => pure (s, e)
    | .ok q =>
      match authorize h.bindings h.policy x adapter with
      | .error e => pure (s, errS e ++ "@authorize")
      | .ok a =>
        let (s', o) := step s (.claim q a (if cb = 0 then r.basis else otherBasis) ord lease)
        pure (s', outS o)
  | "settle" =>
    let r ← reqAt h
    let src ← num
    let cr ← reqAt h
    let grant : Except String (Request × Claim × Nat) :=
      if src = 0 then
        match claimGrant s.coord r.rid with
        | .grant q cl c => .ok (q, cl, c)
        | o => .error (outS o ++ "@grant")
      else .ok (r, Claim.forRequest r h.shAdapter 0 h.shLease h.policy, shadowCommit)
    match grant with
    | .error e =>
      -- consume the candidate tokens so that the line stays aligned
      let _ ← candidate cr.rid r (.raw 0) 0
      pure (s, e)
    | .ok (q, cl, c) =>
      let k ← candidate cr.rid q cl.attempt cl.adapter
      let (s', o) := step s (.settle q cl c k)
      pure (s', outS o)
  | "retry" =>
    let r ← reqAt h
    let (att, ad) := match s.coord.index.get r.rid with
      | some e => match e.claim with
        | some cl => (cl.attempt, cl.adapter)
        | none => (AttemptId.raw rawAttempt, otherAdapter)
      | none => (AttemptId.raw rawAttempt, otherAdapter)
    let k ← candidate r.rid r att ad
    let (s', o) := step s (.retry k)
    pure (s', outS o)
  | "rr" => let r ← reqAt h; pure (s, outS (step s (.recordedRequest r.rid)).2)
  | "cg" => let r ← reqAt h; pure (s, outS (step s (.claimGrant r.rid)).2)
  | "as" => let r ← reqAt h; pure (s, outS (step s (.admittedSettlement r.rid)).2)
  | "recover" => let (s', o) := step s .recover; pure (s', outS o)
  | "trunc" => let (s', o) := step s .trunc; pure (s', outS o)
  | "fault" => let k ← num; let (s', o) := step s (.fault k); pure (s', outS o)
  | "dump" => pure (s, dumpS h s)
  | o => throw s!"bad op {o}"

def opsLoop (h : Hdr) : Nat → Sys → List String → P (List String)
  | 0, _, acc => pure acc.reverse
  | n + 1, s, acc => do
    let (s', o) ← oneOp h s
    opsLoop h n s' (o :: acc)

def ext : P String := do
  let h ← hdr
  let n ← num
  let outs ← opsLoop h n genesis []
  done
  let rids := h.reqs.toList.map (fun r => ridExpr r)
  pure ("rids " ++ " ".intercalate rids ++ " ; " ++ " ; ".intercalate outs)

/-- `ExternalActionRequestV1::new`: budget checks, then the identity pre-image. -/
def newReq : P String := do
  let r ← request
  done
  match budgetCheck r.maxBytes r.maxAttempts with
  | .error e => pure (errS e)
  | .ok () => pure ("ok " ++ ridExpr r)

def handlers : List (String × (List String → String)) :=
  [("C17.ext", runP ext), ("C17.fs", runP ext), ("C17.new", runP newReq)]

end Driver.C17
