import Driver.GraphIO
import EchoVerif.Model.Tick
import EchoVerif.Model.TickDigest
import EchoVerif.Generated.Radix
import EchoVerif.Generated.Conflict

namespace Driver.C01
open EchoVerif EchoVerif.Graph EchoVerif.Exec EchoVerif.Tick Driver Driver.GraphIO

def progTy : Nat := 0x99

def akey : P AKey := do
  let t ← tok
  match t with
  | "n" => do let i ← id32; pure (.node i)
  | "e" => do let i ← id32; pure (.edge i)
  | x => throw s!"bad akey {x}"

def instr : P Instr := do
  let t ← tok
  match t with
  | "E" => do let o ← op; pure (.emit o)
  | "IFN" => do let n ← id32; let o ← op; pure (.ifNode n o)
  | "IFA" => do let n ← id32; let a ← op; let b ← op; pure (.ifAtt n a b)
  | "IFE" => do let e ← id32; let o ← op; pure (.ifEdge e o)
  | "ADJ" => do let n ← id32; let k ← num; let o ← op; pure (.adj n k o)
  | "CP" => do let s ← id32; let d ← id32; pure (.copy s d)
  | "CPE" => do let e ← id32; let d ← id32; pure (.copyEdge e d)
  | "PANIC" => pure .panic
  | x => throw s!"bad instr {x}"

def program : P Program := do
  let p ← tok
  if p != "P" then throw "no P"
  let nr ← counted id32
  let nw ← counted id32
  let er ← counted id32
  let ew ← counted id32
  let ar ← counted akey
  let aw ← counted akey
  let body ← counted instr
  done
  pure { fp := { nr, nw, er, ew, ar, aw }, body }

def bytesToString (b : Bytes) : String := String.ofList (b.map (fun x => Char.ofNat x.toNat))

/-- the matcher: scope node carries an atom of the program type whose bytes parse -/
def progOf (s : WState) (w i : Nat) : Option Program :=
  match s.store? w with
  | none => none
  | some st =>
    match SMap.find? i st.nodeAtt with
    | some (.atom ty b) =>
      if ty = progTy then
        match (program.run (tokens (bytesToString b))) with
        | .ok (p, _) => some p
        | .error _ => none
      else none
    | _ => none

def cand : P TCand := do
  let r ← tok
  let rule ← (match r with
    | "a" => pure 0
    | "b" => pure 1
    | x => throw s!"bad rule {x}" : P Nat)
  let w ← id32
  let s ← id32
  let h ← id32
  pure { rule, warp := w, scope := s, shash := h }

def failStr : Fail → String
  | .unknownWarp => "err apply:UnknownWarp"
  | .drainPanic => "panic scheduler"
  | .receiptCorruption => "err commit:InternalCorruption__scheduler_rejected_rewrite_but_no_blockers_were_found__"
  | .violation => "panic footprint-violation"
  | .progPanic => "panic verif-program-panic"
  | .bothPanic => "panic other"
  | .mergeConflict => "err commit:InternalCorruption__merge_parallel_deltas:_conflicting_ops_share_sort_key__"
  | .applyFailed => "err commit:InternalCorruption__apply_reserved_rewrites:_failed_to_apply_ops__"

/-- `POLICY_ID_NO_POLICY_V0 = u32::from_le_bytes(*b"NOP0")` (the harness builds the engine with the default) -/
def policyId : Nat := 0x30504F4E

def tickCfg : Cfg := { sort := Generated.sortCfg, confl := Generated.conflictCfg }

def tickLine : P String := do
  let pre ← state
  let rw ← id32
  let rn ← id32
  let kind ← tok
  let radix ← (match kind with
    | "radix" => pure true
    | "legacy" => pure false
    | x => throw s!"bad scheduler kind {x}" : P Bool)
  let _workers ← num
  let cands ← counted cand
  done
  let (bs, res) := tick tickCfg (progOf pre) pre radix cands
  let ap := String.join (bs.map (fun b => if b then "M" else "N"))
  match res with
  | .error f =>
    -- an UnknownWarp stops `apply` before commit: the harness prints it in the same slot
    pure s!"apply {ap} ; {failStr f}"
  | .ok s =>
    let ent := s.entries.map (fun e =>
      let r := if e.cand.rule = 0 then "a" else "b"
      if e.applied then s!" {r} {id32Tok e.cand.warp} {id32Tok e.cand.scope} A"
      else s!" {r} {id32Tok e.cand.warp} {id32Tok e.cand.scope} R {e.blockers.length} " ++ " ".intercalate (e.blockers.map toString))
    -- digests as pre-images (evaluated by `harness hashx` with the real BLAKE3)
    let ctx : TickDigest.Ctx := { root := (rw, rn), policy := policyId, ruleIds := [ruleBase, ruleBase + 1], parents := [] }
    let d := TickDigest.digestsOf ctx s
    let dig := s!" ; policy {policyId} ; root {d.root.render} ; patchdigest {d.patch.render} ; commit {d.commit.render}" ++
      s!" ; receiptdigest {d.receipt.render} ; plan {d.plan.render} ; rewrites {d.rewrites.render}"
    pure (s!"apply {ap} ; receipt {s.entries.length}" ++ String.join ent ++ s!" ; patch {opsStr s.patch} ; post {stateStr s.post}" ++ dig)

def handlers : List (String × (List String → String)) :=
  [("C01.tick", runP tickLine)]

end Driver.C01
