import Driver.C07

namespace Driver.C05

/-- `C05.mutate`: a real history, one alteration of a retained field (or a structural edit), rebuilt
    through `append_local_commit`, then probed with replay / seek / add_checkpoint / fork. Same case
    language and model as `C07.seek`. -/
def handlers : List (String × (List String → String)) :=
  [("C05.mutate", Driver.C07.chainHandler)]

end Driver.C05
