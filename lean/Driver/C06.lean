import Driver.GraphIO
import EchoVerif.Model.Root
import EchoVerif.Model.RootAccum

namespace Driver.C06
open EchoVerif EchoVerif.Graph EchoVerif.Root Driver Driver.GraphIO

def rootsStr (s : WState) (r : NKey) : String :=
  s!"root {(rootPreimage s r).render} accum {(accumPreimage s r).render}"

/-- `C06.root <state> <root warp> <root node>` -/
def root : P String := do
  let s ← state
  let w ← id32
  let n ← id32
  done
  pure (rootsStr s (w, n))

/-- the accumulator's own outcome on the op list (`SnapshotAccumulator::apply_ops` then `build`):
    its state-root pre-image, or `panic` when one of its `assert!`/`panic!` sites fires -/
def aopsStr (s : WState) (l : List Op) (r : NKey) : String :=
  match (Acc.ofState s).applyOps l with
  | some a' => s!"aops {(accPreimageOf a' r).render}"
  | none => "aops panic"

/-- `C06.ops <state> <ops> <root warp> <root node>`: ops applied to the store, then both roots;
    and, for EVERY case (also when the store rejects), the accumulator's own outcome. -/
def opsH : P String := do
  let s ← state
  let l ← ops
  let w ← id32
  let n ← id32
  done
  let a := aopsStr s l (w, n)
  match applyOps s l with
  | .ok s' => pure ("ok " ++ rootsStr s' (w, n) ++ " " ++ a)
  | .error e => pure s!"err {errStr e} {a}"

/-- `C06.wsc <state>`: a columnar snapshot written and read back denotes the same state. -/
def wsc : P String := do
  let s ← state
  done
  pure ("ok " ++ stateStr s)

/-- `C06.pair <stateA> <rootA> <stateB> <rootB>`; `equal` compares the two byte streams. -/
def pair : P String := do
  let a ← state
  let wa ← id32
  let na ← id32
  let b ← state
  let wb ← id32
  let nb ← id32
  done
  let eq := if rootBytes a (wa, na) = rootBytes b (wb, nb) then "1" else "0"
  pure s!"A {rootsStr a (wa, na)} B {rootsStr b (wb, nb)} equal {eq}"

def handlers : List (String × (List String → String)) :=
  [("C06.root", runP root), ("C06.pair", runP pair), ("C06.ops", runP opsH), ("C06.wsc", runP wsc)]

end Driver.C06
