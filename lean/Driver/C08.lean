import Driver.Parse
import EchoVerif.Model.Inbox

namespace Driver.C08
open EchoVerif EchoVerif.Inbox Driver

def policy : P Policy := do
  let t ← tok
  match t with
  | "all" => pure .acceptAll
  | "budget" => do let n ← num; pure (.budgeted n)
  | "kinds" => do let ks ← counted id32; pure (.kindFilter ks)
  | o => throw s!"bad policy {o}"

def parent : P Parent := do
  let role ← num
  let wl ← id32
  let wt ← num
  let gt ← num
  let c ← id32
  let s ← id32
  let t ← id32
  let r ← id32
  pure ((role, wl, wt, gt), (c, s, t, r))

def target : P Target := do
  let t ← tok
  match t with
  | "d" => do let wl ← id32; pure (.defaultWriter wl)
  | "n" => do let wl ← id32; let name ← bytes; pure (.inboxAddress wl name)
  | "x" => do let wl ← id32; let hd ← id32; pure (.exactHead wl hd)
  | o => throw s!"bad target {o}"

/-- `<id> <kind> <bytes> <np> parent*` -/
def envelope (tg : Target) : P Envelope := do
  let id ← id32
  let kind ← id32
  let bs ← bytes
  let ps ← counted parent
  pure (Envelope.mk' id tg kind bs ps)

def ids (es : List Nat) : String :=
  s!"{es.length}" ++ String.join (es.map (fun i => " " ++ id32Tok i))

def dispTok : IngestResult → String
  | .accepted => "acc" | .duplicate => "dup" | .rejected => "rej"

inductive IOp where
  | op (o : Op)
  | bad (s : String)

def inboxOp : P Op := do
  let t ← tok
  match t with
  | "i" => do let e ← envelope (.defaultWriter 0); pure (.ingest e)
  | "t" => pure .tick
  | "p" => do let p ← policy; pure (.policy p)
  | "r" => pure .restart
  | o => throw s!"bad op {o}"

def inbox : P String := do
  let pol ← policy
  let ops ← counted inboxOp
  done
  let h0 : Head := { inbox := { pending := [], policy := pol }, committed := [] }
  let (h, outs) := ops.foldl (fun (acc : Head × List String) o =>
      let r := acc.1.step o
      let s := match o with
        | .ingest e =>
          (match r.2.1 with | some d => dispTok d | none => "?") ++ " " ++ e.preimage.render
        | .tick => "t " ++ ids (r.2.2.map (·.id))
        | .policy _ => "p " ++ ids (SMap.keys r.1.inbox.pending)
        | .restart => "r"
      (r.1, acc.2 ++ [s])) (h0, [])
  pure (" ; ".intercalate outs ++ " ; pend " ++ ids (SMap.keys h.inbox.pending)
    ++ " ; can " ++ (if canAdmit h.inbox then "1" else "0")
    ++ " ; committed " ++ ids (SMap.keys h.committed))

/-- `<wl> <head> <name|-> <default 0|1> <policy>` (`-` = no public inbox; names are non-empty). -/
def rtHead : P (HeadKey × RtHead) := do
  let wl ← id32
  let hd ← id32
  let name ← bytes
  let d ← num
  let pol ← policy
  pure ((wl, hd), { head := { inbox := { pending := [], policy := pol }, committed := [] },
                    publicInbox := if name.isEmpty then none else some name, isDefault := d != 0 })

inductive ROp where
  | ingest (e : Envelope)
  | tick
  | restart

def rtOp : P ROp := do
  let t ← tok
  match t with
  | "i" => do let tg ← target; let e ← envelope tg; pure (.ingest e)
  | "t" => pure .tick
  | "r" => pure .restart
  | o => throw s!"bad op {o}"

def keyTok (k : HeadKey) : String := id32Tok k.1 ++ ":" ++ id32Tok k.2

def routeTok : RouteError → String
  | .missingDefaultWriter => "no-default" | .missingInboxAddress => "no-inbox" | .unknownHead => "no-head"

def runtime : P String := do
  let hs ← counted rtHead
  let ops ← counted rtOp
  done
  let heads := hs.foldl (fun (m : SMap HeadKey RtHead) kv => SMap.insert kv.1 kv.2 m) []
  let rt0 : Runtime := { heads, ticks := [], globalTick := 0, lastCommit := 0 }
  let (rt, outs) := ops.foldl (fun (acc : Runtime × List String) o =>
      match o with
      | .ingest e =>
        let r := acc.1.ingest e
        let s := match r.2 with
          | .accepted k => "acc " ++ keyTok k
          | .duplicate k => "dup " ++ keyTok k
          | .rejected k => "rej " ++ keyTok k
          | .route err => "err " ++ routeTok err
        (r.1, acc.2 ++ [s ++ " " ++ e.preimage.render])
      | .tick =>
        let r := acc.1.superTick
        let recs := r.2.map (fun st =>
          s!" {keyTok st.key} {st.batch.length} {st.tickAfter} {r.1.globalTick}")
        (r.1, acc.2 ++ [s!"t {r.2.length}" ++ String.join recs])
      | .restart => (acc.1.restartPlain, acc.2 ++ ["r"])) (rt0, [])
  let pend := rt.heads.map (fun kv => " " ++ keyTok kv.1 ++ " " ++ ids (SMap.keys kv.2.head.inbox.pending))
  let comm := rt.heads.map (fun kv => " " ++ keyTok kv.1 ++ " " ++ ids (SMap.keys kv.2.head.committed))
  pure (" ; ".intercalate outs ++ " ; pend" ++ String.join pend ++ " ; committed" ++ String.join comm
    ++ s!" ; gt {rt.globalTick}")

def handlers : List (String × (List String → String)) :=
  [("C08.inbox", runP inbox), ("C08.runtime", runP runtime)]

end Driver.C08
