import Driver.Parse
import EchoVerif.Model.Codec.Cbor
import EchoVerif.Model.Codec.Records
import EchoVerif.Model.Codec.WalRecords

namespace Driver.C12
open EchoVerif EchoVerif.Cbor Driver

def intTok : P Int := do
  let t ← tok
  match t.toInt? with
  | some n => pure n
  | none => throw s!"bad int {t}"

def hexNat? (s : String) : Option Nat :=
  s.toList.foldl (fun acc c => match acc, hexVal? c with
    | some a, some d => some (a * 16 + d)
    | _, _ => none) (some 0)

partial def value : P Val := do
  let t ← tok
  match t with
  | "n" => pure .null
  | "t" => pure (.bool true)
  | "f" => pure (.bool false)
  | "i" => do let n ← intTok; pure (.int n)
  | "d" => do
    let s ← tok
    match hexNat? s with
    | some b => pure (.float b)
    | none => throw s!"bad float bits {s}"
  | "s" => do let b ← bytes; pure (.text b)
  | "b" => do let b ← bytes; pure (.bytes b)
  | "a" => do let xs ← counted value; pure (.array xs)
  | "m" => do
    let es ← counted (do let k ← value; let v ← value; pure (k, v))
    pure (.map es)
  | "g" => do let n ← num; let v ← value; pure (.tag n v)
  | o => throw s!"bad value token {o}"

def hex16 (n : Nat) : String :=
  String.ofList ((List.range 16).map (fun i => hexDigit (n / 16 ^ (15 - i) % 16)))

partial def showVal : Val → String
  | .null => "n"
  | .bool true => "t"
  | .bool false => "f"
  | .int n => s!"i {n}"
  | .float b => "d " ++ hex16 b
  | .text s => "s " ++ bytesTok s
  | .bytes b => "b " ++ bytesTok b
  | .array xs => s!"a {xs.length}" ++ String.join (xs.map (fun x => " " ++ showVal x))
  | .map es => s!"m {es.length}" ++ String.join (es.map (fun (k, v) => " " ++ showVal k ++ " " ++ showVal v))
  | .tag t v => s!"g {t} " ++ showVal v

def abiEnc : P String := do
  let v ← value
  done
  match encode v with
  | .error e => pure ("err " ++ e.name)
  | .ok b =>
    match decode b with
    | .ok w => pure ("ok " ++ bytesTok b ++ " rt ok " ++ showVal w ++ " nf " ++ showVal (norm v))
    | .error e => pure ("ok " ++ bytesTok b ++ " rt err " ++ e.name ++ " nf " ++ showVal (norm v))

def abiDec : P String := do
  let b ← bytes
  let _ ← tok
  done
  match decode b with
  | .error e => pure ("err " ++ e.name)
  | .ok v =>
    match encode v with
    | .ok r => pure ("ok " ++ showVal v ++ " re ok " ++ bytesTok r)
    | .error e => pure ("ok " ++ showVal v ++ " re err " ++ e.name)

/-! ### little-endian records -/
open EchoVerif.Codec EchoVerif.Generated.LeMagic

def eintEnc : P String := do
  let op ← num
  let vars ← bytes
  match packIntent op vars with
  | none => pure "err"
  | some b =>
    match unpackIntent b with
    | some (o, v) => pure s!"ok {bytesTok b} rt {o} {bytesTok v}"
    | none => pure s!"ok {bytesTok b} rt err"

def eintDec : P String := do
  let b ← bytes
  let _ ← tok
  match unpackIntent b with
  | none => pure "err"
  | some (o, v) => pure s!"ok {o} {bytesTok v}"

/-- `read_elog_frame` until end of input: fewer than 4 bytes left = end of log -/
partial def readFrames (bs : Bytes) (acc : List Bytes) : List Bytes × Bool :=
  if bs.length < 4 then (acc.reverse, true)
  else match elogFrame.dec bs with
    | none => (acc.reverse, false)
    | some (f, r) => readFrames r (f :: acc)

def showElogRead (b : Bytes) : String :=
  match elogHeader.dec b with
  | none => "hdr-err"
  | some ((flags, hash, _), r) =>
    let (fs, clean) := readFrames r []
    s!"{flags} {bytesTok hash} {fs.length}" ++ String.join (fs.map (fun f => " " ++ bytesTok f))
      ++ (if clean then " tail=clean" else " tail=err")

def elogEnc : P String := do
  let flags ← num
  let hash ← bytes
  let frames ← counted bytes
  -- `write_elog_frame` refuses frames over MAX_FRAME_LEN
  if frames.any (fun f => elogMaxFrameLen < f.length) then pure "err" else
  let b := elogHeader.enc (flags, hash, zeros8) ++ encMany elogFrame frames
  pure s!"ok {bytesTok b} rt {showElogRead b}"

def elogDec : P String := do
  let b ← bytes
  let _ ← tok
  pure (showElogRead b)

def refP : P (Nat × Ref) := do
  let tag ← num
  let wl ← bytes
  let tick ← num
  let gt ← num
  let h1 ← bytes
  let h2 ← bytes
  let h3 ← bytes
  let h4 ← bytes
  pure (tag, (wl, tick, gt, h1, h2, h3, h4))

def envelopeP : P Envelope := do
  let t ← tok
  let target : Target ← match t with
    | "T1" => do let wl ← bytes; pure (.inl wl)
    | "T2" => do let wl ← bytes; let inbox ← bytes; pure (.inr (.inl (wl, inbox)))
    | "T3" => do let wl ← bytes; let h ← bytes; pure (.inr (.inr (wl, h)))
    | o => throw s!"bad target {o}"
  let p ← tok
  if p ≠ "P" then throw "expected P"
  let rs ← counted refP
  let parents : List Parent ← rs.mapM (fun (tag, r) =>
    if tag = 1 then pure (Sum.inl r) else if tag = 2 then pure (Sum.inr r) else throw s!"bad parent tag {tag}")
  let k ← tok
  if k ≠ "K" then throw "expected K"
  let kind ← bytes
  let ib ← bytes
  pure (target, parents, kind, ib)

def showRef (tag : Nat) (r : Ref) : String :=
  s!" {tag} {bytesTok r.1} {r.2.1} {r.2.2.1} {bytesTok r.2.2.2.1} {bytesTok r.2.2.2.2.1} {bytesTok r.2.2.2.2.2.1} {bytesTok r.2.2.2.2.2.2}"

def showEnv (e : Envelope) : String :=
  (match e.1 with
    | .inl wl => s!"T1 {bytesTok wl}"
    | .inr (.inl (wl, inbox)) => s!"T2 {bytesTok wl} {bytesTok inbox}"
    | .inr (.inr (wl, h)) => s!"T3 {bytesTok wl} {bytesTok h}")
  ++ s!" P {e.2.1.length}"
  ++ String.join (e.2.1.map (fun p => match p with | .inl r => showRef 1 r | .inr r => showRef 2 r))
  ++ s!" K {bytesTok e.2.2.1} {bytesTok e.2.2.2}"

def ingEnc : P String := do
  let e ← envelopeP
  done
  -- the constructor canonicalises the parent set (sort + dedup), then writer, then reader
  let env := mkEnvelope e
  let b := toRetainedV2 env
  match fromRetained b with
  | some d => pure s!"ok {bytesTok b} canon {showEnv env} rt {showEnv d}"
  | none => pure s!"ok {bytesTok b} canon {showEnv env} rt err"

def ingDec : P String := do
  let b ← bytes
  let _ ← tok
  match fromRetained b with
  | none => pure "err"
  | some e => pure ("ok " ++ showEnv e ++ " re " ++ bytesTok (toRetainedV2 e))

/-! ### WAL payload records -/

def refOnly : P Ref := do
  let wl ← bytes
  let tick ← num
  let gt ← num
  let h1 ← bytes
  let h2 ← bytes
  let h3 ← bytes
  let h4 ← bytes
  pure (wl, tick, gt, h1, h2, h3, h4)

def showRefOnly (r : Ref) : String :=
  s!"{bytesTok r.1} {r.2.1} {r.2.2.1} {bytesTok r.2.2.2.1} {bytesTok r.2.2.2.2.1} {bytesTok r.2.2.2.2.2.1} {bytesTok r.2.2.2.2.2.2}"

def optHash : P (Option Bytes) := do
  let t ← tok
  if t = "N" then pure none else if t = "S" then do let b ← bytes; pure (some b) else throw s!"bad option {t}"

/-- a record of any kind: encoder output and a printer, or a decoder result printed -/
inductive WalVal where
  | acc (v : Acceptance) | env (v : SubmissionEnv) | tick (v : TickReceipt) | mat (v : Material)
  | rref (v : ReadingRef) | cp (v : Checkpoint) | cpp (v : CheckpointPub) | corr (v : Correlation)

def walValP (kind : String) : P WalVal := do
  match kind with
  | "acc" => do
    let a ← bytes; let b ← bytes; let o ← optHash; let c ← bytes
    pure (.acc (a, b, o, c))
  | "env" => do
    let a ← bytes; let b ← bytes; let g ← num; let wl ← bytes; let hd ← bytes; let r ← bytes
    pure (.env (a, b, g, (wl, hd), r))
  | "tick" => do
    let r ← refOnly; let d ← num
    pure (.tick (r, d))
  | "mat" => do
    let a ← bytes; let b ← bytes; let k ← num; let p ← num
    pure (.mat (a, b, k, p))
  | "rref" => do
    let a ← bytes; let b ← bytes; let c ← bytes; let d ← bytes; let p ← num
    pure (.rref (a, b, c, d, p))
  | "cp" => do
    let a ← bytes; let l ← num; let b ← bytes; let c ← bytes; let d ← bytes; let e ← bytes
    let v ← num; let f ← bytes
    pure (.cp (a, l, b, c, d, e, v, f))
  | "cpp" => do
    let a ← bytes; let b ← bytes
    pure (.cpp (a, b))
  | "corr" => do
    let r ← refOnly; let ps ← counted refOnly
    pure (.corr (r, ps))
  | o => throw s!"bad record kind {o}"

def showOpt : Option Bytes → String
  | none => "N"
  | some b => "S " ++ bytesTok b

def WalVal.show : WalVal → String
  | .acc (a, b, o, c) => s!"acc {bytesTok a} {bytesTok b} {showOpt o} {bytesTok c}"
  | .env (a, b, g, (wl, hd), r) => s!"env {bytesTok a} {bytesTok b} {g} {bytesTok wl} {bytesTok hd} {bytesTok r}"
  | .tick (r, d) => s!"tick {showRefOnly r} {d}"
  | .mat (a, b, k, p) => s!"mat {bytesTok a} {bytesTok b} {k} {p}"
  | .rref (a, b, c, d, p) => s!"rref {bytesTok a} {bytesTok b} {bytesTok c} {bytesTok d} {p}"
  | .cp (a, l, b, c, d, e, v, f) =>
    s!"cp {bytesTok a} {l} {bytesTok b} {bytesTok c} {bytesTok d} {bytesTok e} {v} {bytesTok f}"
  | .cpp (a, b) => s!"cpp {bytesTok a} {bytesTok b}"
  | .corr (r, ps) => s!"corr {showRefOnly r} {ps.length}" ++ String.join (ps.map (fun p => " " ++ showRefOnly p))

def WalVal.enc : WalVal → Bytes
  | .acc v => acceptanceRec.enc v
  | .env v => submissionEnvRec.enc v
  | .tick v => tickReceiptRec.enc v
  | .mat v => materialRec.enc v
  | .rref v => readingRefRec.enc v
  | .cp v => checkpointRec.enc v
  | .cpp v => checkpointPubRec.enc v
  | .corr v => correlationEnc v

def walDec (kind : String) (b : Bytes) : Option WalVal :=
  match kind with
  | "acc" => (decodeAll acceptanceRec b).map .acc
  | "env" => (decodeAll submissionEnvRec b).map .env
  | "tick" => (decodeAll tickReceiptRec b).map .tick
  | "mat" => (decodeAll materialRec b).map .mat
  | "rref" => (decodeAll readingRefRec b).map .rref
  | "cp" => (decodeAll checkpointRec b).map .cp
  | "cpp" => (decodeAll checkpointPubRec b).map .cpp
  | "corr" => (correlationDec b).map .corr
  | _ => none

def walEnc : P String := do
  let kind ← tok
  let v ← walValP kind
  done
  let b := v.enc
  match walDec kind b with
  | some d => pure s!"ok {bytesTok b} rt {d.show}"
  | none => pure s!"ok {bytesTok b} rt err"

def walDecH : P String := do
  let kind ← tok
  let b ← bytes
  let _ ← tok
  match walDec kind b with
  | none => pure "err"
  | some v => pure s!"ok {v.show} re {bytesTok v.enc}"

def handlers : List (String × (List String → String)) :=
  [("C12.abi.enc", runP abiEnc), ("C12.abi.dec", runP abiDec),
   ("C12.eint.enc", runP eintEnc), ("C12.eint.dec", runP eintDec),
   ("C12.elog.enc", runP elogEnc), ("C12.elog.dec", runP elogDec),
   ("C12.ingress.enc", runP ingEnc), ("C12.ingress.dec", runP ingDec),
   ("C12.walrec.enc", runP walEnc), ("C12.walrec.dec", runP walDecH)]

end Driver.C12
