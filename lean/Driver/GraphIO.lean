/- Shared (de)serialisation of state dumps and ops for the line protocol (Rust side: harness/src/graphio.rs). -/
import Driver.Parse
import EchoVerif.Model.Graph

namespace Driver.GraphIO
open EchoVerif EchoVerif.Graph Driver

def peekDash : P Bool := do
  match (← get) with
  | "-" :: rest => set rest; pure true
  | _ => pure false

def key : P AttKey := do
  let tag ← tok
  let w ← id32
  let i ← id32
  match tag.toList with
  | [o, p] =>
    let plane ← (match p with
      | 'a' => pure Plane.alpha
      | 'b' => pure Plane.beta
      | _ => throw s!"bad key tag {tag}" : P Plane)
    match o with
    | 'n' => pure { owner := .node w i, plane }
    | 'e' => pure { owner := .edge w i, plane }
    | _ => throw s!"bad key tag {tag}"
  | _ => throw s!"bad key tag {tag}"

def optKey : P (Option AttKey) := do
  if (← peekDash) then pure none else
  let k ← key
  pure (some k)

def att : P Att := do
  let t ← tok
  match t with
  | "a" => do let ty ← id32; let b ← bytes; pure (.atom ty b)
  | "d" => do let w ← id32; pure (.descend w)
  | x => throw s!"bad att tag {x}"

def optAtt : P (Option Att) := do
  if (← peekDash) then pure none else
  let a ← att
  pure (some a)

def op : P Op := do
  let t ← tok
  match t with
  | "OP" => do
    let k ← key; let cw ← id32; let cr ← id32
    let i ← tok
    match i with
    | "E" => do let ty ← id32; pure (.openPortal k cw cr (.empty ty))
    | "R" => pure (.openPortal k cw cr .requireExisting)
    | x => throw s!"bad init {x}"
  | "UI" => do let w ← id32; let r ← id32; let p ← optKey; pure (.upsertInstance { warp := w, root := r, parent := p })
  | "DI" => do let w ← id32; pure (.deleteInstance w)
  | "UN" => do let w ← id32; let i ← id32; let ty ← id32; pure (.upsertNode w i ty)
  | "DN" => do let w ← id32; let i ← id32; pure (.deleteNode w i)
  | "UE" => do let w ← id32; let id ← id32; let f ← id32; let t ← id32; let ty ← id32; pure (.upsertEdge w id f t ty)
  | "DE" => do let w ← id32; let f ← id32; let id ← id32; pure (.deleteEdge w f id)
  | "SA" => do let k ← key; let v ← optAtt; pure (.setAtt k v)
  | x => throw s!"bad op tag {x}"

def ops : P (List Op) := counted op

def expect (kw : String) : P Unit := do
  let t ← tok
  if t == kw then pure () else throw s!"expected {kw}, got {t}"

/-- Builds the model state the way the harness builds the real one: inserts in dump order. -/
def state : P WState := do
  expect "warps"
  let n ← num
  let rec go : Nat → WState → P WState
    | 0, s => pure s
    | k + 1, s => do
      let w ← id32
      let root ← id32
      let parent ← optKey
      expect "nodes"
      let nodes ← counted (do let i ← id32; let ty ← id32; pure (i, ty))
      expect "natts"
      let natts ← counted (do let i ← id32; let a ← att; pure (i, a))
      expect "edges"
      let edges ← counted (do let i ← id32; let f ← id32; let t ← id32; let ty ← id32; pure (i, ({ src := f, dst := t, ty } : EdgeRec)))
      expect "eatts"
      let eatts ← counted (do let i ← id32; let a ← att; pure (i, a))
      let st : Store := {
        nodes := nodes.foldl (fun m (i, ty) => SMap.insert i ty m) [],
        edges := edges.foldl (fun m (i, e) => SMap.insert i e m) [],
        nodeAtt := natts.foldl (fun m (i, a) => SMap.insert i a m) [],
        edgeAtt := eatts.foldl (fun m (i, a) => SMap.insert i a m) [] }
      go k (upsertInstanceWith s { warp := w, root, parent } st)
  go n WState.empty

def keyStr (k : AttKey) : String :=
  let p := match k.plane with | .alpha => "a" | .beta => "b"
  match k.owner with
  | .node w i => s!"n{p} {id32Tok w} {id32Tok i}"
  | .edge w i => s!"e{p} {id32Tok w} {id32Tok i}"

def attStr : Att → String
  | .atom ty b => s!"a {id32Tok ty} {bytesTok b}"
  | .descend w => s!"d {id32Tok w}"

def optAttStr : Option Att → String
  | none => "-"
  | some a => attStr a

def opStr : Op → String
  | .openPortal k cw cr init =>
    let i := match init with | .empty ty => s!"E {id32Tok ty}" | .requireExisting => "R"
    s!"OP {keyStr k} {id32Tok cw} {id32Tok cr} {i}"
  | .upsertInstance inst =>
    let p := match inst.parent with | none => "-" | some k => keyStr k
    s!"UI {id32Tok inst.warp} {id32Tok inst.root} {p}"
  | .deleteInstance w => s!"DI {id32Tok w}"
  | .upsertNode w i ty => s!"UN {id32Tok w} {id32Tok i} {id32Tok ty}"
  | .deleteNode w i => s!"DN {id32Tok w} {id32Tok i}"
  | .upsertEdge w id f t ty => s!"UE {id32Tok w} {id32Tok id} {id32Tok f} {id32Tok t} {id32Tok ty}"
  | .deleteEdge w f id => s!"DE {id32Tok w} {id32Tok f} {id32Tok id}"
  | .setAtt k v => s!"SA {keyStr k} {optAttStr v}"

def opsStr (l : List Op) : String :=
  toString l.length ++ String.join (l.map (fun o => " " ++ opStr o))

def stateStr (s : WState) : String :=
  s!"warps {s.stores.length}" ++ String.join (s.stores.map (fun (w, st) =>
    let head := match SMap.find? w s.instances with
      | some inst => s!" {id32Tok w} {id32Tok inst.root} " ++ (match inst.parent with | none => "-" | some k => keyStr k)
      | none => s!" {id32Tok w} noinst -"
    head ++ s!" nodes {st.nodes.length}" ++ String.join (st.nodes.map (fun (i, ty) => s!" {id32Tok i} {id32Tok ty}"))
      ++ s!" natts {st.nodeAtt.length}" ++ String.join (st.nodeAtt.map (fun (i, a) => s!" {id32Tok i} {attStr a}"))
      ++ s!" edges {st.edges.length}" ++ String.join (st.edges.map (fun (i, e) => s!" {id32Tok i} {id32Tok e.src} {id32Tok e.dst} {id32Tok e.ty}"))
      ++ s!" eatts {st.edgeAtt.length}" ++ String.join (st.edgeAtt.map (fun (i, a) => s!" {id32Tok i} {attStr a}"))))

def errStr : Err → String
  | .missingWarp => "MissingWarp"
  | .missingNode => "MissingNode"
  | .missingEdge => "MissingEdge"
  | .nodeNotIsolated => "NodeNotIsolated"
  | .invalidAttKey => "InvalidAttachmentKey"
  | .portalInitRequired => "PortalInitRequired"
  | .portalInvariant => "PortalInvariantViolation"

end Driver.GraphIO
