import Driver.Parse
import EchoVerif.Model.Sched
import EchoVerif.Generated.Radix
import EchoVerif.Generated.Conflict

namespace Driver.C03
open EchoVerif EchoVerif.Footprint EchoVerif.Sched Driver

def nodeKey : P Res := do let w ← num; let i ← num; pure (.node w i)
def edgeKey : P Res := do let w ← num; let i ← num; pure (.edge w i)
def attKey : P Res := do
  let o ← num; let w ← num; let i ← num; let p ← num
  pure (.att (o != 0) w i (p != 0))
def portKey : P Res := do let w ← num; let k ← num; pure (.port w k)

def footprint (mask : Nat) : P Footprint := do
  let nRead ← counted nodeKey
  let nWrite ← counted nodeKey
  let eRead ← counted edgeKey
  let eWrite ← counted edgeKey
  let aRead ← counted attKey
  let aWrite ← counted attKey
  let bIn ← counted portKey
  let bOut ← counted portKey
  pure { nRead, nWrite, eRead, eWrite, aRead, aWrite, bIn, bOut, mask }

def kind : P Bool := do
  let t ← tok
  match t with
  | "radix" => pure true
  | "legacy" => pure false
  | k => throw s!"bad kind {k}"

/-- number the candidates by arrival position -/
def tagged (cs : List Cand) : List Cand :=
  (cs.zip (List.range cs.length)).map (fun (c, i) => { c with tag := i })

def drainBy (radix : Bool) (cs : List Cand) : Option (List Cand) :=
  if radix then radixDrain Generated.sortCfg cs else some (legacyDrain cs)

def tags (cs : List Cand) : String :=
  String.join (cs.map (fun c => s!" {c.tag}"))

def sort : P String := do
  let radix ← kind
  let cs ← counted (do
    let scope ← id32; let ruleId ← id32; let compact ← num
    pure ({ scope, ruleId, compact, fp := {}, tag := 0 } : Cand))
  done
  match drainBy radix (tagged cs) with
  | none => pure "panic"
  | some out => pure (s!"{out.length}" ++ tags out)

def rowTok (r : Row) : String :=
  if r.1 then "A" else "R:" ++ ",".intercalate (r.2.map toString)

def reserve : P String := do
  let radix ← kind
  let cs ← counted (do
    let scope ← id32; let ruleId ← id32; let compact ← num; let mask ← num
    let fp ← footprint mask
    pure ({ scope, ruleId, compact, fp, tag := 0 } : Cand))
  done
  match drainBy radix (tagged cs) with
  | none => pure "panic"
  | some out =>
    let fps := out.map (·.fp)
    let cfg := Generated.conflictCfg
    let raw := if radix then reserveAll (radixReserve cfg) Active.empty fps
               else reserveAll (legacyReserve cfg) [] fps
    let rawS := String.join (raw.map (fun b => if b then "A" else "R"))
    let rec_ := if radix then receiptRadix cfg fps else receiptLegacy cfg fps
    let recS := match rec_ with
      | none => " err:InternalCorruption"
      | some rows => String.join (rows.map (fun r => " " ++ rowTok r))
    pure (s!"drain {out.length}" ++ tags out ++ " ; raw " ++ (if rawS.isEmpty then "-" else rawS)
      ++ " ; receipt" ++ recS)

/-- several ticks on one scheduler object (sequential, same tx id re-used, or interleaved open
    transactions): the model says each tick is decided from its own candidates alone. -/
def multi : P String := do
  let radix ← kind
  let _mode ← tok
  let ticks ← counted (counted (do
    let scope ← id32; let ruleId ← id32; let compact ← num; let mask ← num
    let fp ← footprint mask
    pure ({ scope, ruleId, compact, fp, tag := 0 } : Cand)))
  done
  let one (cs : List Cand) : String :=
    match drainBy radix (tagged cs) with
    | none => "panic"
    | some out =>
      let fps := out.map (·.fp)
      let cfg := Generated.conflictCfg
      let raw := if radix then reserveAll (radixReserve cfg) Active.empty fps
                 else reserveAll (legacyReserve cfg) [] fps
      let rawS := String.join (raw.map (fun b => if b then "A" else "R"))
      s!"drain {out.length}" ++ tags out ++ " ; raw " ++ (if rawS.isEmpty then "-" else rawS)
  pure (" | ".intercalate (ticks.map one))

def handlers : List (String × (List String → String)) :=
  [("C03.sort", runP sort), ("C03.reserve", runP reserve), ("C03.multi", runP multi)]

end Driver.C03
