import Driver.Parse
import EchoVerif.Model.Math
import EchoVerif.Generated.TrigLut
import EchoVerif.Generated.ScalarOps

namespace Driver.C19
open EchoVerif EchoVerif.Math Driver

def hex32 : P Nat := do
  let t ← tok
  match hexToBytes? t with
  | some bs => if bs.length = 4 then pure (beNat bs) else throw s!"bad f32 bits {t}"
  | none => throw s!"bad hex {t}"

def h8 (n : Nat) : String := bytesToHex (natToBE 4 n)

def int : P Int := do
  let t ← tok
  match t.toInt? with
  | some n => pure n
  | none => throw s!"bad int {t}"

def i64 : P Int := do
  let n ← int
  if n < i64Min ∨ i64Max < n then throw "int out of i64 range" else pure n

def flag : P Bool := do
  let t ← tok
  match t with
  | "0" => pure false
  | "1" => pure true
  | _ => throw s!"bad flag {t}"

def lut (i : Nat) : Option Nat := Generated.sinQtrLutBits[i]?
def segs : Nat := Generated.sinQtrSegmentsF32

def canonH : P String := do
  let x ← hex32; done
  pure (h8 (canon x))

/-- operator name → raw op, looked up in the table extracted from scalar.rs -/
def opH : P String := do
  let name ← tok
  match Generated.f32ScalarOps.find? (fun p => p.1 == name) with
  | none => throw s!"bad op {name}"
  | some (_, raw) =>
    let a ← hex32
    match raw with
    | .neg => done; pure (h8 (scalarOp raw (canon a) 0))
    | _ => let b ← hex32; done; pure (h8 (scalarOp raw (canon a) (canon b)))

def trigH : P String := do
  let da ← flag
  let x ← hex32; done
  match scalarSinCosWith (trigCore da lut segs) da x with
  | some (s, c) => pure s!"{h8 s} {h8 c}"
  | none => pure "panic"

/-- raw `sin_cos_f32` as exposed by `Mat4::rotation_*`: `s c canonicalize_zero(-s)` -/
def rotH : P String := do
  let da ← flag
  let x ← hex32; done
  match sinCos da lut segs x with
  | some (s, c) => pure s!"{h8 s} {h8 c} {h8 (canonZero (negBits s))}"
  | none => pure "panic"

def fxFromH : P String := do
  let x ← hex32; done
  pure s!"{fxFromF32 x}"

def fxToH : P String := do
  let r ← i64; done
  pure (h8 (fxToF32 r))

def fxBinH : P String := do
  let name ← tok
  let a ← i64
  let b ← i64; done
  match name with
  | "mul" => pure s!"{fxMul a b}"
  | "div" => pure s!"{fxDiv a b}"
  | "add" => pure s!"{fxAdd a b}"
  | "sub" => pure s!"{fxSub a b}"
  | _ => throw s!"bad fx op {name}"

def fxNegH : P String := do
  let a ← i64; done
  pure s!"{fxNeg a}"

/-- `DFix64::sin_cos`: from_f32 ∘ sin_cos_f32 ∘ to_f32 -/
def fxTrigH : P String := do
  let da ← flag
  let r ← i64; done
  match sinCos da lut segs (fxToF32 r) with
  | some (s, c) => pure s!"{fxFromF32 s} {fxFromF32 c}"
  | none => pure "panic"

def abiFxH : P String := do
  let x ← hex32; done
  pure s!"{abiFxFromF32 x}"

def u64 : P (BitVec 64) := do
  let n ← num
  if n < 2 ^ 64 then pure (BitVec.ofNat 64 n) else throw "u64 out of range"

def prngOps : Nat → Prng → List String → P (List String)
  | 0, _, acc => pure acc.reverse
  | k + 1, p, acc => do
    let t ← tok
    match t with
    | "f" =>
      let (v, p') := p.nextF32
      prngOps k p' (h8 v :: acc)
    | "i" =>
      let lo ← int
      let hi ← int
      match p.nextInt lo hi 4096 with
      | .ok v p' => prngOps k p' (s!"{v}" :: acc)
      | .panic => prngOps k p ("panic" :: acc)
      | .fuel => throw "rejection loop fuel exhausted"
    | _ => throw s!"bad prng op {t}"

def prngH : P String := do
  let kind ← tok
  let p ← match kind with
    | "seed2" => do let a ← u64; let b ← u64; pure (Prng.fromSeed a b)
    | "seed1" => do let a ← u64; pure (Prng.fromSeedU64 a)
    | _ => throw s!"bad seed kind {kind}"
  let n ← num
  let outs ← prngOps n p []
  done
  pure (" ".intercalate outs)

/-- raw (non-F32Scalar) results: NaN payload/sign is platform business, printed as `nan` on both sides -/
def fTok (b : Nat) : String := if isNaN b then "nan" else h8 b
def fToks (l : List Nat) : String := " ".intercalate (l.map fTok)

def v3 : P V3 := do
  let x ← hex32; let y ← hex32; let z ← hex32
  pure ⟨x, y, z⟩
def v3Out (v : V3) : String := fToks [v.x, v.y, v.z]
def q4 : P Q4 := do
  let x ← hex32; let y ← hex32; let z ← hex32; let w ← hex32
  pure ⟨x, y, z, w⟩
def q4Out : Option Q4 → String
  | some q => fToks [q.x, q.y, q.z, q.w]
  | none => "panic"
def matOut : Option (List Nat) → String
  | some m => fToks m
  | none => "panic"
def mat16 : P (Nat → Nat) := do
  let l ← many hex32 16
  pure (listFn l)

def vecH : P String := do
  let op ← tok
  match op with
  | "add" => do let a ← v3; let b ← v3; done; pure (v3Out (a.add b))
  | "sub" => do let a ← v3; let b ← v3; done; pure (v3Out (a.sub b))
  | "cross" => do let a ← v3; let b ← v3; done; pure (v3Out (a.cross b))
  | "dot" => do let a ← v3; let b ← v3; done; pure (fTok (a.dot b))
  | "scale" => do let a ← v3; let k ← hex32; done; pure (v3Out (a.scale k))
  | "length" => do let a ← v3; done; pure (fTok a.length)
  | "lensq" => do let a ← v3; done; pure (fTok (a.dot a))
  | "normalize" => do let a ← v3; done; pure (v3Out a.normalize)
  | _ => throw s!"bad vec op {op}"

def quatH : P String := do
  let da ← flag
  let op ← tok
  match op with
  | "mul" => do let a ← q4; let b ← q4; done; pure (q4Out (Q4.mul da a b))
  | "normalize" => do let a ← q4; done; pure (q4Out (a.normalize da))
  | "axis" => do
    let ax ← v3; let ang ← hex32; done
    pure (q4Out (Q4.fromAxisAngle da (sinCos da lut segs) ax ang))
  | "tomat" => do let a ← q4; done; pure (matOut (a.toMat4 da))
  | _ => throw s!"bad quat op {op}"

def matH : P String := do
  let da ← flag
  let op ← tok
  match op with
  | "mul" => do let a ← mat16; let b ← mat16; done; pure (fToks (matMul a b))
  | "point" => do let a ← mat16; let p ← v3; done; pure (v3Out (matPoint a p))
  | "dir" => do let a ← mat16; let p ← v3; done; pure (v3Out (matDir a p))
  | "euler" => do
    let y ← hex32; let pt ← hex32; let r ← hex32; done
    pure (matOut (rotEuler (sinCos da lut segs) y pt r))
  | "axisangle" => do
    let ax ← v3; let ang ← hex32; done
    match Q4.fromAxisAngle da (sinCos da lut segs) ax ang with
    | none => pure "panic"
    | some q => pure (matOut (q.toMat4 da))
  | _ => throw s!"bad mat op {op}"

def hex16 (n : UInt64) : String := bytesToHex (natToBE 8 n.toNat)

def sweepH : P String := do
  let _da ← flag
  let lo ← num
  let n ← num; done
  if lo + n > 4294967296 then throw "sweep range exceeds 2^32" else
  pure s!"canon={hex16 (sweepCanon n lo 0)} n={n}"

def miscH : P String := do
  let op ← tok
  match op with
  | "cmp" => do
    let a ← hex32; let b ← hex32; done
    let c := scalarCmp (canon a) (canon b)
    pure s!"{c} {if c = 0 then 1 else 0}"
  | "clamp" => do
    let v ← hex32; let lo ← hex32; let hi ← hex32; done
    match clampF v lo hi with
    | some r => pure (fTok r)
    | none => pure "panic"
  | "deg" => do let v ← hex32; done; pure (fTok (degToRad v))
  | "rad" => do let v ← hex32; done; pure (fTok (radToDeg v))
  | _ => throw s!"bad misc op {op}"

def handlers : List (String × (List String → String)) :=
  [("C19.canon", runP canonH), ("C19.abi.canon", runP canonH), ("C19.op", runP opH),
   ("C19.trig", runP trigH), ("C19.rot", runP rotH),
   ("C19.fx.from", runP fxFromH), ("C19.fx.to", runP fxToH), ("C19.fx.bin", runP fxBinH),
   ("C19.fx.neg", runP fxNegH), ("C19.fx.trig", runP fxTrigH), ("C19.abi.fx", runP abiFxH),
   ("C19.prng", runP prngH), ("C19.vec", runP vecH), ("C19.quat", runP quatH), ("C19.mat", runP matH),
   ("C19.sweep", runP sweepH), ("C19.misc", runP miscH)]

end Driver.C19
