import Driver.Parse
import EchoVerif.Model.Cas
import EchoVerif.Model.WscStore
import EchoVerif.Model.WscExport

/-! Line-protocol handlers for C20 (`C20.mem`, `C20.disk`, `C20.ret`).
    A line carries a blob dictionary `n (<bytes-hex> <hash64>)*`: the hash column is the real BLAKE3 digest
    (computed by the generator, re-validated by the harness `imp`).  The model's `H` is that table; it
    never computes a hash.  `put` additionally prints the pre-image `(h bytes)` which `hashx` evaluates. -/
namespace Driver.C20
open EchoVerif EchoVerif.Cas Driver

abbrev Dict := List (Bytes × Hash)

/-- The line's hash table as a function; bytes outside the table (never produced by the ops, which
    address blobs by index) get an out-of-range value. -/
def mkH (d : Dict) : Bytes → Hash := fun b =>
  match d.find? (fun p => p.1 == b) with
  | some p => p.2
  | none => 2 ^ 256

def dict : P Dict := counted (do let b ← bytes; let h ← id32; pure (b, h))

def nth? {α : Type} : List α → Nat → Option α
  | [], _ => none
  | x :: _, 0 => some x
  | _ :: xs, n + 1 => nth? xs n

def blobIx (d : Dict) : P Bytes := do
  let i ← num
  match nth? d i with
  | some p => pure p.1
  | none => throw s!"bad blob index {i}"

/-- `h<i>` = hash of blob i (from the table), otherwise 64 hex digits. -/
def href (d : Dict) : P Hash := do
  let t ← tok
  if t.startsWith "h" then
    match (t.drop 1).toString.toNat? with
    | some i => match nth? d i with
      | some p => pure p.2
      | none => throw s!"bad hash index {t}"
    | none => throw s!"bad hash ref {t}"
  else match id32? t with
    | some h => pure h
    | none => throw s!"bad hash {t}"

inductive Cmd where
  | op (o : Op)
  | isPin (h : Hash)
  | stat
  | list

def cmd (d : Dict) : P Cmd := do
  let t ← tok
  match t with
  | "put" => do let b ← blobIx d; pure (.op (.put b))
  | "putv" => do let h ← href d; let b ← blobIx d; pure (.op (.putv h b))
  | "get" => do let h ← href d; pure (.op (.get h))
  | "has" => do let h ← href d; pure (.op (.has h))
  | "pin" => do let h ← href d; pure (.op (.pin h))
  | "unpin" => do let h ← href d; pure (.op (.unpin h))
  | "ispin" => do let h ← href d; pure (.isPin h)
  | "reopen" => pure (.op .reopen)
  | "awrite" => do let h ← href d; let b ← blobIx d; pure (.op (.advWrite h b))
  | "adel" => do let h ← href d; pure (.op (.advDelete h))
  | "stat" => pure .stat
  | "list" => pure .list
  | o => throw s!"bad op {o}"

def b01 (b : Bool) : String := if b then "1" else "0"

def mismatchS (m : Mismatch) : String := s!"mismatch {id32Tok m.expected} {id32Tok m.computed}"

def cmdHashes : Cmd → List Hash
  | .op (.putv h _) | .op (.get h) | .op (.has h) | .op (.pin h) | .op (.unpin h)
  | .op (.advWrite h _) | .op (.advDelete h) | .isPin h => [h]
  | _ => []

/-! ### memory tier -/

def memOut (H : Bytes → Hash) (s : Mem) : Cmd → Option String
  | .op (.put b) => some s!"put {id32Tok (s.put H b).2} {(HExpr.h [.raw b]).render}"
  | .op (.putv e b) => some (match (s.putVerified H e b).2 with
      | none => "ok"
      | some m => mismatchS m)
  | .op (.get h) => some (match s.get h with
      | none => "none"
      | some b => s!"some {bytesTok b}")
  | .op (.has h) => some (b01 (s.has h))
  | .op (.pin h) => some s!"pins {(s.pin h).pinnedCount}"
  | .op (.unpin h) => some s!"pins {(s.unpin h).pinnedCount}"
  | .isPin h => some (b01 (s.isPinned h))
  | .stat => some s!"stat {s.len} {s.byteCount} {s.pinnedCount} {b01 s.isOverBudget}"
  | _ => none   -- reopen / adversary / list do not exist on the memory tier

def memStep (H : Bytes → Hash) (s : Mem) : Cmd → Mem
  | .op o => s.step H o
  | _ => s

def mem : P String := do
  let bt ← tok
  let s0 ← (if bt == "-" then pure Mem.new else
    match bt.toNat? with
    | some n => pure (Mem.withLimits n)
    | none => throw s!"bad budget {bt}")
  let d ← dict
  let cs ← counted (cmd d)
  done
  let H := mkH d
  let r := cs.foldl (fun (acc : Except String (Mem × List String)) c =>
      match acc with
      | .error e => .error e
      | .ok (s, outs) => match memOut H s c with
        | none => .error "op not available on the memory tier"
        | some o => .ok (memStep H s c, outs ++ [o])) (.ok (s0, []))
  match r with
  | .error e => throw e
  | .ok (s, outs) =>
    let uni := d.map (·.2) ++ cs.flatMap cmdHashes
    let fin := uni.map (fun h =>
      (match s.get h with | none => "none" | some b => s!"some {bytesTok b}") ++ " " ++ b01 (s.isPinned h))
    pure (" ; ".intercalate outs ++ " ;; " ++
      s!"stat {s.len} {s.byteCount} {s.pinnedCount} {b01 s.isOverBudget} ; " ++ " ; ".intercalate fin)

/-! ### disk tier -/

def getS : GetResult → String
  | .absent => "none"
  | .found b => s!"some {bytesTok b}"
  | .corrupt m => "corrupt-" ++ mismatchS m

def diskOut (H : Bytes → Hash) (s : Disk) : Cmd → Option String
  | .op (.put b) => some s!"put {id32Tok (s.put H b).2} {(HExpr.h [.raw b]).render}"
  | .op (.putv e b) => some (match (s.putVerified H e b).2 with
      | none => "ok"
      | some m => mismatchS m)
  | .op (.get h) => some (getS (s.get H h))
  | .op (.has h) => some (b01 (s.has h))
  | .op (.pin h) => some s!"pins {(s.pin h).pinnedCount}"
  | .op (.unpin h) => some s!"pins {(s.unpin h).pinnedCount}"
  | .op .reopen => some "reopened"
  | .op (.advWrite _ _) => some "adv"
  | .op (.advDelete _) => some "adv"
  | .isPin h => some (b01 (s.isPinned h))
  | .stat => some s!"stat {s.pinnedCount}"
  | .list => some (s!"list {s.list.length}" ++ String.join (s.list.map (fun h => " " ++ id32Tok h)))

def diskStep (H : Bytes → Hash) (s : Disk) : Cmd → Disk
  | .op o => s.step H o
  | _ => s

def disk : P String := do
  let d ← dict
  let cs ← counted (cmd d)
  done
  let H := mkH d
  let r := cs.foldl (fun (acc : Except String (Disk × List String)) c =>
      match acc with
      | .error e => .error e
      | .ok (s, outs) => match diskOut H s c with
        | none => .error "op not available on the disk tier"
        | some o => .ok (diskStep H s c, outs ++ [o])) (.ok (Disk.empty, []))
  match r with
  | .error e => throw e
  | .ok (s, outs) =>
    let uni := d.map (·.2) ++ cs.flatMap cmdHashes
    let fin := uni.map (fun h => getS (s.get H h) ++ " " ++ b01 (s.has h) ++ " " ++ b01 (s.isPinned h))
    pure (" ; ".intercalate outs ++ " ;; " ++
      (s!"list {s.list.length}" ++ String.join (s.list.map (fun h => " " ++ id32Tok h))) ++ " ; "
      ++ " ; ".intercalate fin)

/-! ### semantic retention index over two memory tiers -/

def coordP : P Coord := do
  let ns ← bytes; let schema ← bytes; let artifact ← bytes; let role ← num; let digest ← id32
  pure { ns, schema, artifact, role, digest }

inductive RCmd where
  | retain (st ci : Nat) (c : Coord) (b : Bytes)
  | desc (c : Coord)
  | load (st : Nat) (c : Coord)
  | loadh (st : Nat) (h : Hash)
  | range (st : Nat) (c : Coord) (off len max : Nat)
  | put (st : Nat) (b : Bytes)

def storeIx : P Nat := do
  let n ← num
  if n < 2 then pure n else throw s!"bad store {n}"

def coordIx (cs : List Coord) : P Coord := do
  let i ← num
  match nth? cs i with
  | some c => pure c
  | none => throw s!"bad coord index {i}"

def rcmd (d : Dict) (cs : List Coord) : P RCmd := do
  let t ← tok
  match t with
  | "retain" => do let st ← storeIx; let c ← coordIx cs; let b ← blobIx d; pure (.retain st 0 c b)
  | "desc" => do let c ← coordIx cs; pure (.desc c)
  | "load" => do let st ← storeIx; let c ← coordIx cs; pure (.load st c)
  | "loadh" => do let st ← storeIx; let h ← href d; pure (.loadh st h)
  | "range" => do
      let st ← storeIx; let c ← coordIx cs; let off ← num; let len ← num; let max ← num
      pure (.range st c off len max)
  | "put" => do let st ← storeIx; let b ← blobIx d; pure (.put st b)
  | o => throw s!"bad op {o}"

def errS : RetErr → String
  | .missingCoord => "missing-coord"
  | .missingBlob h => s!"missing-blob {id32Tok h}"
  | .rangeExceedsBudget r m => s!"budget {r} {m}"
  | .rangeOutOfBounds o l b => s!"oob {o} {l} {b}"
  | .conflict e n => s!"conflict {id32Tok e} {id32Tok n}"

def descS (c : Coord) (d : Desc) : String :=
  s!"{id32Tok d.contentHash} {d.byteLen} {b01 (decide (d.coord = c))}"

structure RState where
  ix : Index
  s0 : Mem
  s1 : Mem

def RState.store (r : RState) (st : Nat) : Mem := if st = 0 then r.s0 else r.s1
def RState.setStore (r : RState) (st : Nat) (m : Mem) : RState :=
  if st = 0 then { r with s0 := m } else { r with s1 := m }

def rstep (H : Bytes → Hash) (r : RState) : RCmd → RState × String
  | .retain st _ c b =>
    let (ix, m, res) := retain H r.ix (r.store st) c b
    ({ (r.setStore st m) with ix := ix },
      match res with
      | .ok d => "ok " ++ descS c d
      | .error e => errS e)
  | .desc c => (r, match r.ix.find c with
      | none => "none"
      | some d => "desc " ++ descS c d)
  | .load st c => (r, match load r.ix (r.store st) c with
      | .ok (d, b) => s!"ok {descS c d} {bytesTok b}"
      | .error e => errS e)
  | .loadh st h => (r, match loadByHash (r.store st) h with
      | .ok b => s!"ok {bytesTok b}"
      | .error e => errS e)
  | .range st c off len max => (r, match loadRange r.ix (r.store st) c off len max with
      | .ok (d, b) => s!"ok {descS c d} {off} {bytesTok b}"
      | .error e => errS e)
  | .put st b =>
    let (m, h) := (r.store st).put H b
    (r.setStore st m, s!"put {id32Tok h}")

def ret : P String := do
  let d ← dict
  let cs ← counted coordP
  let ops ← counted (rcmd d cs)
  done
  let H := mkH d
  let (r, outs) := ops.foldl (fun (acc : RState × List String) c =>
      let (r', o) := rstep H acc.1 c
      (r', acc.2 ++ [o])) (({ ix := [], s0 := Mem.new, s1 := Mem.new } : RState), [])
  let fin := cs.map (fun c => match r.ix.find c with
      | none => "none"
      | some dd => "desc " ++ descS c dd)
  let st (m : Mem) : String :=
    s!"stat {m.len} {m.byteCount} {m.pinnedCount} " ++ String.join (d.map (fun p => b01 (m.isPinned p.2)))
  pure (" ; ".intercalate outs ++ " ;; " ++ " ; ".intercalate fin ++ " ; " ++ st r.s0 ++ " ; " ++ st r.s1)


/-! ### WSC snapshot store: retained-evidence export / re-import and the two-file publication protocol -/

namespace WscD
open EchoVerif.Wsc

def material : P Material := do
  let digest ← id32; let coord ← id32; let kind ← num; let posture ← num
  pure { digest, coord, kind, posture }

def reading : P Reading := do
  let readingId ← id32; let coord ← id32; let payload ← id32; let envelope ← id32; let posture ← num
  pure { readingId, coord, payload, envelope, posture }

structure RSet where
  id : Option Nat
  ms : List Material
  rs : List Reading

def rset : P RSet := do
  let t ← tok
  let id ← (if t == "-" then pure none else match id32? t with
    | some i => pure (some i)
    | none => throw s!"bad envelope id {t}")
  let ms ← counted material
  let rs ← counted reading
  pure { id, ms, rs }

def matS (m : Material) : String := s!" {id32Tok m.digest} {id32Tok m.coord} {m.kind} {m.posture}"
def readS (r : Reading) : String :=
  s!" {id32Tok r.readingId} {id32Tok r.coord} {id32Tok r.payload} {id32Tok r.envelope} {r.posture}"
def recsS (ms : List Material) (rs : List Reading) : String :=
  s!"m {ms.length}" ++ String.join (ms.map matS) ++ s!" r {rs.length}" ++ String.join (rs.map readS)

/-- Canonical records a set exports, or `none` on an identity conflict. -/
def RSet.canon (x : RSet) : Option (List Material × List Reading) :=
  match canonMaterials x.ms, canonReadings x.rs with
  | some ms, some rs => some (ms, rs)
  | _, _ => none

def setS (x : RSet) : String :=
  match x.canon with
  | none => "conflict"
  | some (ms, rs) =>
    "ok " ++ (match x.id with | some i => id32Tok i | none => "-") ++ " " ++ (basisDigest ms rs).render
      ++ " " ++ recsS ms rs

inductive WCmd where
  | op (o : Wsc.Op)
  | read (id : Nat)
  | list
  | imp
  | reopen
  | skip      -- op on a set whose export was refused

def resS : Res → String
  | .ok => "ok" | .missing => "missing" | .incomplete => "incomplete" | .obstructed => "obstructed"

def setIx (sets : List RSet) : P (Option Nat) := do
  let i ← num
  match nth? sets i with
  | some x => pure (match x.canon with | some _ => x.id | none => none)
  | none => throw s!"bad set index {i}"

def wcmd (sets : List RSet) : P WCmd := do
  let t ← tok
  let one (f : Nat → WCmd) : P WCmd := do
    match (← setIx sets) with
    | some id => pure (f id)
    | none => pure .skip
  match t with
  | "write" => one (fun id => .op (.write id))
  | "stage" => one (fun id => .op (.stage id))
  | "commit" => one (fun id => .op (.commit id))
  | "read" => one .read
  | "delenv" => one (fun id => .op (.delEnv id))
  | "delmark" => one (fun id => .op (.delMark id))
  | "flipenv" => do
      let i ← setIx sets; let k ← num
      pure (match i with | some id => .op (.flipEnv id k) | none => .skip)
  | "flipmark" => do
      let i ← setIx sets; let k ← num
      pure (match i with | some id => .op (.flipMark id k) | none => .skip)
  | "plantenv" => do
      let i ← setIx sets; let j ← setIx sets
      pure (match i, j with | some id, some src => .op (.plantEnv id src) | _, _ => .skip)
  | "list" => pure .list
  | "import" => pure .imp
  | "reopen" => pure .reopen
  | o => throw s!"bad op {o}"

def listS (s : Store) : String := s!"list {s.list.length}" ++ String.join (s.list.map (fun i => " " ++ id32Tok i))

def wstep (recs : Nat → List Material × List Reading) (s : Store) : WCmd → Store × String
  | .op (.write id) => let r := s.write id; (r.1, resS r.2)
  | .op (.stage id) => let r := s.stage id; (r.1, resS r.2)
  | .op (.commit id) => let r := s.commit id; (r.1, resS r.2)
  | .op o => (s.step o, "adv")
  | .read id => (s, match s.read id with | .ok => "ok " ++ id32Tok id | r => resS r)
  | .list => (s, listS s)
  | .imp => (s, match s.importRetention recs with
      | .blocked r => "blocked " ++ resS r
      | .conflict => "conflict"
      | .records ms rs => "records " ++ recsS ms rs)
  | .reopen => (s, "reopened")
  | .skip => (s, "no-envelope")

def wsc : P String := do
  let sets ← counted rset
  let cmds ← counted (wcmd sets)
  done
  let recs : Nat → List Material × List Reading := fun id =>
    match sets.find? (fun x => x.id == some id && x.canon.isSome) with
    | some x => (match x.canon with | some p => p | none => ([], []))
    | none => ([], [])
  let (s, outs) := cmds.foldl (fun (acc : Store × List String) c =>
      let (s', o) := wstep recs acc.1 c
      (s', acc.2 ++ [o])) (Store.empty, [])
  let fin := sets.map (fun x => match x.canon, x.id with
    | some _, some id => (match s.read id with | .ok => "ok " ++ id32Tok id | r => resS r)
    | _, _ => "no-envelope")
  pure (" ; ".intercalate (sets.map setS) ++ " ;; " ++ " ; ".intercalate outs ++ " ;; " ++ listS s ++ " ; "
    ++ " ; ".intercalate fin)

end WscD

/-! ### WAL causal-history export profiles (self-contained / CAS-addressed / reference-only) -/

namespace ExpD
open EchoVerif.Wsc EchoVerif.WscExp

structure Side where
  ms : List Material
  rs : List Reading
  ps : List Payload
  refs : List CasRef

def recP (d : Dict) : P Material := do
  let digest ← href d; let coord ← id32; let kind ← num; let posture ← num
  if kind = 0 ∨ kind > 7 then throw "bad kind"
  if posture = 0 ∨ posture > 6 then throw "bad posture"
  pure { digest, coord, kind, posture }

def readingP : P Reading := do
  let r ← WscD.reading
  if r.posture = 0 ∨ r.posture > 6 then throw "bad posture"
  pure r

def payP (d : Dict) : P Payload := do
  let material ← recP d
  let bytes ← blobIx d
  pure { material, bytes }

def refP (d : Dict) : P CasRef := do
  let kind ← num
  if kind = 0 ∨ kind > 7 then throw "bad kind"
  let contentHash ← href d; let coord ← id32; let byteLen ← num
  pure { kind, contentHash, coord, byteLen }

def sideP (d : Dict) : P Side := do
  let ms ← counted (recP d)
  let rs ← counted readingP
  let ps ← counted (payP d)
  let refs ← counted (refP d)
  pure { ms, rs, ps, refs }

def casP (d : Dict) : P (Hash × Bytes) := do
  let h ← href d; let b ← blobIx d; pure (h, b)

def scNodeDomain : Bytes := "echo:wsc_store:self_contained_retained_node:v1".toUTF8.toList ++ [0]

def payErrS : PayErr → String
  | .digestMismatch e b => s!"err digest-mismatch {id32Tok e} {(HExpr.h [.raw b]).render}"
  | .missing d => s!"err missing {id32Tok d}"
  | .extra d => s!"err extra {id32Tok d}"

/-- `self_contained_retained_material_duplicate_id` (sc) / the coordinate itself (cas). -/
def dupS (prof : String) (d : Nat) : String :=
  if prof == "s" then
    "err material-dup " ++ (HExpr.h [.raw scNodeDomain, .raw "duplicate".toUTF8.toList, .raw (natToBE 32 d)]).render
  else "err material-dup " ++ id32Tok d

def expErrS (prof : String) : ExpErr → String
  | .materialDup d => dupS prof d
  | .pay e => payErrS e
  | .refsMismatch a b => s!"err refs-mismatch {a} {b}"
  | .retentionConflict => "err retention-conflict"

def impErrS (prof : String) : ImpErr → String
  | .rootMismatch => "err root-mismatch"
  | .materialDup d => dupS prof d
  | .retentionConflict => "err retention-conflict"
  | .pay e => payErrS e
  | .refsMismatch a b => s!"err refs-mismatch {a} {b}"
  | .missingBlob h c => s!"err missing-blob {id32Tok h} {id32Tok c}"
  | .blobHashMismatch e b => s!"err blob-hash {id32Tok e} {(HExpr.h [.raw b]).render}"
  | .blobLenMismatch e a => s!"err blob-len {e} {a}"

def payS (p : Payload) : String := WscD.matS p.material ++ " " ++ bytesTok p.bytes
def refS (r : CasRef) : String := s!" {r.kind} {id32Tok r.contentHash} {id32Tok r.coord} {r.byteLen}"

def scImpS (prof : String) : Except ImpErr ScExport → String
  | .ok i => s!"ok pay {i.payloads.length}" ++ String.join (i.payloads.map payS) ++ " " ++ WscD.recsS i.ms i.rs
  | .error e => impErrS prof e
def casImpS (prof : String) : Except ImpErr CasExport → String
  | .ok i => s!"ok refs {i.refs.length}" ++ String.join (i.refs.map refS) ++ " " ++ WscD.recsS i.ms i.rs
  | .error e => impErrS prof e
def refImpS (prof : String) : Except ImpErr (List Material × List Reading) → String
  | .ok i => "ok " ++ WscD.recsS i.1 i.2
  | .error e => impErrS prof e

def exp : P String := do
  let prof ← tok
  if prof != "s" && prof != "c" && prof != "r" then throw s!"bad profile {prof}"
  let sr ← num
  if sr > 1 then throw "bad same-root flag"
  let sameRoot := sr == 1
  let d ← dict
  let e ← sideP d
  let mode ← tok
  let alt ← (if mode == "same" then pure none else if mode == "alt" then (do let a ← sideP d; pure (some a))
    else throw s!"bad import mode {mode}")
  let casL ← counted (casP d)
  done
  if (casL.map (·.1)).eraseDups.length != casL.length then throw "duplicate CAS key"
  let H := mkH d
  let cas : Nat → Option Bytes := fun h => (casL.find? (fun p => p.1 == h)).map (·.2)
  if prof == "s" then
    let ex := scExport H e.ms e.rs e.ps
    let exS := match ex with
      | .ok x => s!"ok {(scRetainedBasis x.payloads).render} {(basisDigest x.ms x.rs).render}"
      | .error er => expErrS prof er
    let imS := match alt, ex with
      | none, .ok x => scImpS prof (scImport H sameRoot x)
      | none, .error _ => "skipped"
      | some a, _ =>
        match canonPayloads a.ps, canonRecords a.ms a.rs with
        | .ok _, some _ => scImpS prof (scImport H sameRoot { payloads := a.ps, ms := a.ms, rs := a.rs })
        | _, _ => "unbuildable"
    pure (exS ++ " ;; " ++ imS)
  else if prof == "c" then
    let ex := casExport e.ms e.rs e.refs
    let exS := match ex with
      | .ok x => s!"ok {(casRefBasis x.refs).render} {(basisDigest x.ms x.rs).render}"
      | .error er => expErrS prof er
    let imS := match alt, ex with
      | none, .ok x => casImpS prof (casImport H cas sameRoot x)
      | none, .error _ => "skipped"
      | some a, _ =>
        match canonRefs a.refs, canonRecords a.ms a.rs with
        | .ok _, some _ => casImpS prof (casImport H cas sameRoot { refs := a.refs, ms := a.ms, rs := a.rs })
        | _, _ => "unbuildable"
    pure (exS ++ " ;; " ++ imS)
  else
    let ex := refExport e.ms e.rs
    let exS := match ex with
      | .ok x => s!"ok {(basisDigest x.1 x.2).render}"
      | .error er => expErrS prof er
    let imS := match alt, ex with
      | none, .ok x => refImpS prof (refImport sameRoot x)
      | none, .error _ => "skipped"
      | some a, _ =>
        match canonRecords a.ms a.rs with
        | some _ => refImpS prof (refImport sameRoot (a.ms, a.rs))
        | none => "unbuildable"
    pure (exS ++ " ;; " ++ imS)

end ExpD

def handlers : List (String × (List String → String)) :=
  [("C20.mem", runP mem), ("C20.disk", runP disk), ("C20.ret", runP ret), ("C20.wsc", runP WscD.wsc),
   ("C20.exp", runP ExpD.exp)]

end Driver.C20
