/-
  Driver.Blake3 — a plain BLAKE3 (32-byte output, no key) used ONLY by the line-protocol driver to
  instantiate the abstract hash parameter `H` of `Model/Wal.lean`. No theorem mentions this file:
  every theorem is stated for an arbitrary `H`. It is needed because the WAL *reader* recomputes
  digests to decide validity, so the executable model must be able to decide "stored = H(pre-image)"
  on arbitrary (mutated) bytes. It is tied to the `blake3` crate by the `C10.blake3` stream and,
  implicitly, by every WAL correspondence case.
-/
namespace Driver.Blake3

def iv : Array UInt32 :=
  #[0x6A09E667, 0xBB67AE85, 0x3C6EF372, 0xA54FF53A, 0x510E527F, 0x9B05688C, 0x1F83D9AB, 0x5BE0CD19]

def perm : Array Nat := #[2, 6, 3, 10, 7, 0, 4, 13, 1, 11, 12, 5, 9, 14, 15, 8]

@[inline] def rotr (x : UInt32) (n : UInt32) : UInt32 := (x >>> n) ||| (x <<< (32 - n))

@[inline] def g (s : Array UInt32) (a b c d : Nat) (mx my : UInt32) : Array UInt32 :=
  let va := s[a]!; let vb := s[b]!; let vc := s[c]!; let vd := s[d]!
  let va := va + vb + mx
  let vd := rotr (vd ^^^ va) 16
  let vc := vc + vd
  let vb := rotr (vb ^^^ vc) 12
  let va := va + vb + my
  let vd := rotr (vd ^^^ va) 8
  let vc := vc + vd
  let vb := rotr (vb ^^^ vc) 7
  (((s.set! a va).set! b vb).set! c vc).set! d vd

def round (s : Array UInt32) (m : Array UInt32) : Array UInt32 :=
  let s := g s 0 4 8 12 m[0]! m[1]!
  let s := g s 1 5 9 13 m[2]! m[3]!
  let s := g s 2 6 10 14 m[4]! m[5]!
  let s := g s 3 7 11 15 m[6]! m[7]!
  let s := g s 0 5 10 15 m[8]! m[9]!
  let s := g s 1 6 11 12 m[10]! m[11]!
  let s := g s 2 7 8 13 m[12]! m[13]!
  g s 3 4 9 14 m[14]! m[15]!

def permute (m : Array UInt32) : Array UInt32 := perm.map (fun i => m[i]!)

/-- The compression function; returns the 16-word output state. -/
def compress (cv : Array UInt32) (m : Array UInt32) (counter : UInt64) (blockLen flags : UInt32) :
    Array UInt32 :=
  let s : Array UInt32 := #[cv[0]!, cv[1]!, cv[2]!, cv[3]!, cv[4]!, cv[5]!, cv[6]!, cv[7]!,
    iv[0]!, iv[1]!, iv[2]!, iv[3]!, counter.toUInt32, (counter >>> 32).toUInt32, blockLen, flags]
  let s := round s m; let m := permute m
  let s := round s m; let m := permute m
  let s := round s m; let m := permute m
  let s := round s m; let m := permute m
  let s := round s m; let m := permute m
  let s := round s m; let m := permute m
  let s := round s m
  Id.run do
    let mut s := s
    for i in [0:8] do
      s := s.set! i (s[i]! ^^^ s[i + 8]!)
      s := s.set! (i + 8) (s[i + 8]! ^^^ cv[i]!)
    return s

def chunkStart : UInt32 := 1
def chunkEnd : UInt32 := 2
def parent : UInt32 := 4
def root : UInt32 := 8

/-- 16 little-endian words of the (zero padded) block `b[off .. off+len)`, `len ≤ 64`. -/
def blockWords (b : ByteArray) (off len : Nat) : Array UInt32 := Id.run do
  let mut m : Array UInt32 := Array.replicate 16 0
  for i in [0:len] do
    let w := i / 4
    let sh : UInt32 := UInt32.ofNat (8 * (i % 4))
    m := m.set! w (m[w]! ||| ((b.get! (off + i)).toUInt32 <<< sh))
  return m

/-- Chaining value (first 8 words of the output) of one chunk `b[off .. off+len)`, `len ≤ 1024`. -/
def chunkCv (b : ByteArray) (off len : Nat) (chunkIndex : UInt64) (extraFlags : UInt32) : Array UInt32 :=
  let nblocks := if len = 0 then 1 else (len + 63) / 64
  Id.run do
    let mut cv := iv
    for i in [0:nblocks] do
      let bl := if i + 1 = nblocks then len - 64 * i else 64
      let mut fl : UInt32 := 0
      if i = 0 then fl := fl ||| chunkStart
      if i + 1 = nblocks then fl := fl ||| chunkEnd ||| extraFlags
      let out := compress cv (blockWords b (off + 64 * i) bl) chunkIndex (UInt32.ofNat bl) fl
      cv := out.extract 0 8
    return cv

def largestPow2Below (nchunks : Nat) : Nat := Id.run do
  -- largest power of two strictly less than nchunks (nchunks ≥ 2)
  let mut p := 1
  for _ in [0:64] do
    if 2 * p < nchunks then p := 2 * p
  return p

/-- Chaining value of the subtree covering `b[off .. off+len)` starting at chunk `chunkIndex`. -/
partial def subtreeCv (b : ByteArray) (off len : Nat) (chunkIndex : Nat) (isRoot : Bool) : Array UInt32 :=
  if len ≤ 1024 then
    chunkCv b off len (UInt64.ofNat chunkIndex) (if isRoot then root else 0)
  else
    let nchunks := (len + 1023) / 1024
    let left := largestPow2Below nchunks
    let l := subtreeCv b off (1024 * left) chunkIndex false
    let r := subtreeCv b (off + 1024 * left) (len - 1024 * left) (chunkIndex + left) false
    let out := compress iv (l ++ r) 0 64 (parent ||| (if isRoot then root else 0))
    out.extract 0 8

def wordsToBytes (ws : Array UInt32) : List UInt8 :=
  ws.toList.flatMap (fun (w : UInt32) =>
    [w.toUInt8, (w >>> 8).toUInt8, (w >>> 16).toUInt8, (w >>> 24).toUInt8])

/-- BLAKE3-256 of a byte list. -/
def hash (bs : List UInt8) : List UInt8 :=
  let b := ByteArray.mk bs.toArray
  wordsToBytes (subtreeCv b 0 b.size 0 true)

end Driver.Blake3
