import Driver.Parse
import Driver.C10
import EchoVerif.Model.WalIntegrity
import EchoVerif.Model.WalLedger
import EchoVerif.Generated.WalLedgerTables

namespace Driver.C11
open EchoVerif EchoVerif.Wal Driver
open Driver.C10 (cfg H rErr longReport shortReport modeP specP Spec rle hash32)

/-- a disk record: kind byte and payload -/
abbrev DR := UInt8 × Bytes

def encDR (r : DR) : Bytes := encRec cfg H r.1 r.2

/-- the disk records of a log, one block per transaction (frames, then the commit marker) -/
def blocksOf (txs : List Tx) : List (List DR) :=
  txs.map (fun t => t.frames.map (fun f => (UInt8.ofNat cfg.frameTag, encodeFrame f))
    ++ [(UInt8.ofNat cfg.commitTag, encodeCommit t.commit)])

def setAt {α : Type} (xs : List α) (i : Nat) (x : α) : List α :=
  match xs[i]? with
  | some _ => xs.take i ++ x :: xs.drop (i + 1)
  | none => xs

def natArgs (parts : List String) : Option (List Nat) := parts.mapM String.toNat?

/-- apply a structural edit `op` (token `name:arg:…`) to the base log's blocks; `donor` = blocks of the
    sibling log.  Unknown ops / out-of-range indices leave the log unchanged (same rule in the harness). -/
def applyOp {α : Type} (op : String) (base donor : List (List α)) : Except String (List α) :=
  let parts := op.splitOn ":"
  let name := parts.headD ""
  let flat := base.flatten
  match natArgs (parts.drop 1) with
  | none => .error s!"bad op {op}"
  | some args =>
    match name, args with
    | "none", [] => .ok flat
    | "del", [i] => .ok ((Edit.del i).apply flat)
    | "dup", [i, j] => .ok ((Edit.dup i j).apply flat)
    | "move", [i, j] => .ok ((Edit.move i j).apply flat)
    | "swap", [i] => .ok ((Edit.swap i).apply flat)
    | "del-tx", [k] => .ok (base.eraseIdx k).flatten
    | "dup-tx", [k] => .ok (match base[k]? with | some b => (insertAt b (k + 1) base).flatten | none => flat)
    | "swap-tx", [k] => .ok ((Edit.swap k).apply base).flatten
    | "transplant", [k] => .ok (match donor[k]? with | some b => (setAt base k b).flatten | none => flat)
    | "transplant-frame", [i] => .ok (match donor.flatten[i]? with | some r => setAt flat i r | none => flat)
    | "transplant-commit", [k] =>
      .ok (match base[k]?, (donor[k]? >>= fun b => b.getLast?) with
           | some b, some c => (setAt base k (b.dropLast ++ [c])).flatten
           | _, _ => flat)
    | _, _ => .error s!"bad op {op}"

def doctorTok : Doctor → String
  | .recoverable => "R" | .recoverableWithTail => "T" | .obstructed => "O"

def segOut (seg : Nat) (b : Bytes) (mode : Mode) : String :=
  match recoverSegmentBytesT cfg H seg b mode with
  | .ok (d, r) => s!"ok seg={bytesToHex (d.take 8)} " ++ longReport r
  | .error e => "err " ++ rErr e

def fsOut (b : Bytes) : String :=
  match recoverFilesystemT cfg H b .readOnly with
  | .ok r => "ok " ++ longReport r
  | .error e => "err " ++ rErr e

def optSpec : P (Option Spec) := do
  match (← get) with
  | [] => pure none
  | "D" :: rest => set rest; let s ← specP; pure (some s)
  | t :: _ => throw s!"unexpected {t}"

/-- byte-level ops applied after the structural one: `cut:a:n` removes n bytes at a -/
def edit : P String := do
  let op ← tok
  let mode ← modeP
  let s ← specP
  let d ← optSpec
  done
  match Driver.C10.buildLog s with
  | .error e => throw e
  | .ok txs =>
    let donorBlocks ← match d with
      | none => pure []
      | some ds => match Driver.C10.buildLog ds with
        | .ok dt => pure (blocksOf dt)
        | .error e => throw e
    let bytes ←
      if op.startsWith "cut:" then
        match natArgs ((op.splitOn ":").drop 1) with
        | some [a, n] => let b := (blocksOf txs).flatten.flatMap encDR; pure (b.take a ++ b.drop (a + n))
        | _ => throw s!"bad op {op}"
      else match applyOp op (blocksOf txs) donorBlocks with
        | .ok recs => pure (recs.flatMap encDR)
        | .error e => throw e
    pure (s!"len={bytes.length} dig {(HExpr.h [.raw bytes]).render} seg: {segOut s.params.segmentId bytes mode}"
      ++ s!" ; fs: {fsOut bytes} ; doc {doctorTok (doctor cfg H bytes)}")

def outcome (seg : Nat) (b : Bytes) (mode : Mode) : String :=
  match recoverSegmentBytesT cfg H seg b mode with
  | .ok (_, r) => shortReport r
  | .error e => "E" ++ rErr e

def flipAt (b : Bytes) (p bit : Nat) : Bytes :=
  match b[p]? with
  | some x => b.take p ++ (x ^^^ UInt8.ofNat (2 ^ (bit % 8))) :: b.drop (p + 1)
  | none => b

def zeroAt (b : Bytes) (p w : Nat) : Bytes :=
  b.take p ++ List.replicate (min w (b.length - p)) 0 ++ b.drop (p + w)

/-- positions `start, start+stride, …` below `len` -/
def positions (len start stride : Nat) : List Nat :=
  if stride = 0 then [] else (List.range ((len - start + stride - 1) / stride)).map (fun k => start + k * stride)

def flip : P String := do
  let mode ← modeP
  let start ← num
  let stride ← num
  let nbits ← num
  let s ← specP
  done
  match Driver.C10.buildLog s with
  | .error e => throw e
  | .ok txs =>
    let b := encLog cfg H txs
    let ps := positions b.length start stride
    let res := ps.flatMap (fun p => (List.range nbits).map (fun j =>
      let bit := (p + j) % 8
      (p * 8 + bit, outcome s.params.segmentId (flipAt b p bit) mode)))
    pure (s!"len={b.length} dig {(HExpr.h [.raw b]).render} n={res.length} ;" ++ rle res)

def zero : P String := do
  let mode ← modeP
  let width ← num
  let start ← num
  let stride ← num
  let s ← specP
  done
  match Driver.C10.buildLog s with
  | .error e => throw e
  | .ok txs =>
    let b := encLog cfg H txs
    let ps := positions b.length start stride
    let res := ps.map (fun p => (p, outcome s.params.segmentId (zeroAt b p width) mode))
    pure (s!"len={b.length} dig {(HExpr.h [.raw b]).render} n={res.length} ;" ++ rle res)

/-! ### C11.meta — manifest / ledger tampering -/

def ledgerMagic : Bytes := "EWEP0001".toUTF8.toList
def ledgerDomain : Bytes := "echo:causal_wal:writer_epoch_ledger:v1".toUTF8.toList ++ [0]

def mErr : MErr → String
  | .missing => "missing"
  | .decode .eof => "decode.eof"
  | .decode .trailing => "decode.trailing"
  | .decode (.enumCode n c) => s!"decode.enum.{n}.{c}"
  | .decode .embedded => "decode.embedded"
  | .store e => rErr e
  | .uncommittedTail => "tail"
  | .segCount => "segCount"
  | .lastLsn => "lastLsn"
  | .lastDigest => "lastDigest"

def lErr : LErr → String
  | .eof => "decode.eof" | .magic => "decode.magic" | .trailing => "decode.trailing" | .digest => "ledger.digest"

/-- `flip:p:b`, `trunc:n`, `append:n`, `none` on a byte string -/
def tamper (kind : String) (args : List Nat) (b : Bytes) : Option Bytes :=
  match kind, args with
  | "none", [] => some b
  | "flip", [p, bit] => some (flipAt b p bit)
  | "trunc", [n] => some (b.take n)
  | "append", [n] => some (b ++ List.replicate n 0)
  | _, _ => none

def manOut (m : Option Bytes) (seg : Bytes) : String :=
  match validateManifest cfg H m 1 seg with
  | .ok _ => "ok"
  | .error e => mErr e

def metaH : P String := do
  let op ← tok
  let ledgerTok ← tok
  let s ← specP
  done
  let s := { s with params := { s.params with segmentId := 1 } }
  match Driver.C10.buildLog s with
  | .error e => throw e
  | .ok txs =>
    let seg := encLog cfg H txs
    let manifest := encodeManifest
      { digest := List.replicate 32 0x4D,
        lastLsn := txs.getLast?.map (fun t => t.commit.lastLsn),
        lastCommitDigest := txs.getLast?.map (fun t => t.commit.commitDigest),
        segCount := 1 }
    let target := (op.splitOn "-").headD ""
    let rest := String.intercalate "-" ((op.splitOn "-").drop 1)
    let parts := rest.splitOn ":"
    match natArgs (parts.drop 1) with
    | none => throw s!"bad op {op}"
    | some args =>
      match target with
      | "m" =>
        if parts.headD "" == "del" then pure s!"mdig - man {manOut none seg} led -"
        else match tamper (parts.headD "") args manifest with
          | none => throw s!"bad op {op}"
          | some x => pure s!"mdig {(HExpr.h [.raw x]).render} man {manOut (some x) seg} led -"
      | "s" =>
        match applyOp rest (blocksOf txs) ([] : List (List DR)) with
        | .error e => throw e
        | .ok recs =>
          pure s!"mdig {(HExpr.h [.raw manifest]).render} man {manOut (some manifest) (recs.flatMap encDR)} led -"
      | "l" =>
        match hexToBytes? ledgerTok with
        | none => throw "ledger op without ledger bytes"
        | some l =>
          match tamper (parts.headD "") args l with
          | none => throw s!"bad op {op}"
          | some x =>
            let cls := match readLedgerEnvelope H ledgerMagic ledgerDomain x with
              | .ok _ => "ok"
              | .error e => lErr e
            pure s!"mdig - man - led {cls}"
      | _ => throw s!"bad op {op}"

/-! ### C11.epoch — multi-epoch roots behind the writer-epoch ledger -/

def lcfg : LedgerCfg where
  magic := EchoVerif.Generated.WalLedgerTables.magic
  domain := EchoVerif.Generated.WalLedgerTables.domain
  version := EchoVerif.Generated.WalLedgerTables.version
  retainedLimit := EchoVerif.Generated.WalLedgerTables.retainedLimit

def freshLabels : FreshLabels :=
  let l := EchoVerif.Generated.WalLedgerTables.freshLabels.map (fun s => s.toUTF8.toList)
  { epoch := l.getD 0 [], fencing := l.getD 1 [], process := l.getD 2 [], host := l.getD 3 [], lease := l.getD 4 [] }

structure Plan where
  counts : List Nat
  finActive : Bool
  multi : Bool

def parsePlan (t : String) : Except String Plan :=
  match t.splitOn "-" with
  | [cs, f, m] =>
    match natArgs (cs.splitOn "."), f, m with
    | some counts, "a", "m" => .ok ⟨counts, true, true⟩
    | some counts, "a", "s" => .ok ⟨counts, true, false⟩
    | some counts, "c", "m" => .ok ⟨counts, false, true⟩
    | some counts, "c", "s" => .ok ⟨counts, false, false⟩
    | _, _, _ => .error s!"bad plan {t}"
  | _ => .error s!"bad plan {t}"

/-- epoch 0 carries the spec's id; epoch i>0 = BLAKE3(id ‖ [i]) -/
def epochId (base : Bytes) (i : Nat) : Bytes := if i = 0 then base else H (base ++ [UInt8.ofNat i])

/-- the transactions of every epoch: the model writer per epoch, the chain threaded across epochs -/
def buildGroups (s : Spec) (p : Plan) : Except String (List (List Tx)) := do
  if p.counts.foldl (· + ·) 0 ≠ s.txs.length then throw "plan does not cover the transactions"
  let mut out : List (List Tx) := []
  let mut lsn := s.firstLsn
  let mut pf := s.pf
  let mut pc := s.pc
  let mut rest := s.txs
  let mut i := 0
  for n in p.counts do
    let sub : Spec := { s with
      params := { s.params with writerEpoch := epochId s.params.writerEpoch i, segmentId := if p.multi then i + 1 else 1 },
      firstLsn := lsn, pf := pf, pc := pc, txs := rest.take n }
    rest := rest.drop n
    let txs ← Driver.C10.buildLog sub
    match txs.getLast? with
    | some t =>
      lsn := t.commit.lastLsn + 1
      if s.chain then
        pf := match t.frames.getLast? with | some f => f.digest cfg H | none => pf
        pc := t.commit.commitDigest
    | none => pure ()
    out := out ++ [txs]
    i := i + 1
  pure out

/-- segment files of a root: one per epoch (`multi`) or everything in segment 1 -/
def taggedBlocks (p : Plan) (groups : List (List Tx)) : List (List (Nat × DR)) :=
  (groups.zipIdx.map (fun (txs, j) => (blocksOf txs).map (fun b => b.map (fun r => (if p.multi then j else 0, r))))).flatten

def regroup (nseg : Nat) (recs : List (Nat × DR)) : List Bytes :=
  (List.range nseg).map (fun j => (recs.filter (fun r => r.1 == j)).flatMap (fun r => encDR r.2))

def eErr : EErr → String
  | .missingLedger => "missingLedger" | .unknownPrev => "unknownPrev" | .chainGap => "chainGap"
  | .finalDigest => "finalDigest" | .lsnRegression => "lsnRegression" | .fencing => "fencing"
  | .alreadyActive => "alreadyActive"

def dErr : DErr → String
  | .eof => "decode.eof" | .trailing => "decode.trailing" | .enumCode n c => s!"decode.enum.{n}.{c}"
  | .embedded => "decode.embedded"

def oErr : OErr → String
  | .env e => lErr e
  | .dec e => dErr e
  | .version => "decode.magic"
  | .epoch e => "epoch." ++ eErr e
  | .store e => rErr e

def h8 (b : Bytes) : String := bytesToHex (b.take 8)

def epochH : P String := do
  let op ← tok
  let planTok ← tok
  let ledger ← bytes
  let s0 ← specP
  let d0 ← optSpec
  done
  let s := { s0 with params := { s0.params with segmentId := 1 } }
  let plan ← match parsePlan planTok with
    | .ok p => pure p
    | .error e => throw e
  let groups ← match buildGroups s plan with
    | .ok g => pure g
    | .error e => throw e
  let nseg := if plan.multi then groups.length else 1
  let base := taggedBlocks plan groups
  let donor ← match d0 with
    | none => pure []
    | some d =>
      let d := { d with params := { d.params with segmentId := 1 } }
      match buildGroups d plan with
      | .ok g => pure (taggedBlocks plan g)
      | .error e => throw e
  let (segs, ledgerFile) ←
    if op.startsWith "l-" then
      let parts := ((op.splitOn "-").drop 1 |> String.intercalate "-").splitOn ":"
      let honest := regroup nseg base.flatten
      match parts.headD "", natArgs (parts.drop 1) with
      | "del", some [] => pure (honest, (none : Option Bytes))
      | "flip", some [p, b] => pure (honest, some (flipAt ledger p b))
      | "trunc", some [n] => pure (honest, some (ledger.take n))
      | _, _ => throw s!"bad op {op}"
    else match applyOp op base donor with
      | .ok recs => pure (regroup nseg recs, some ledger)
      | .error e => throw e
  let all := segs.flatMap (fun b => u64 b.length ++ b)
  let opened := openStore cfg H lcfg ledgerFile segs
  let openS := match opened with
    | .ok _ => "ok"
    | .error e => "err " ++ oErr e
  let nextS := match opened with
    | .error _ => "-"
    | .ok l =>
      match acquireFresh H lcfg freshLabels l 0 with
      | .ok ep => s!"ok {h8 ep.id} {ep.startedAt} {match ep.prevId with | some i => h8 i | none => "-"} {match ep.prevFinal with | some i => h8 i | none => "-"}"
      | .error e => "err epoch." ++ eErr e
  let fsr := recoverFilesystemSegs cfg H segs .readOnly
  let fsS := match fsr with
    | .ok r => "ok " ++ longReport r
    | .error e => "err " ++ rErr e
  let doc : Doctor := match fsr with
    | .error _ => .obstructed
    | .ok r =>
      match r.tail with
      | .clean => .recoverable
      | .wouldTruncateAll | .wouldTruncateAfter _ => .recoverableWithTail
      | .truncatedAll | .truncatedAfter _ => .obstructed
  pure s!"segs={segs.length} dig {(HExpr.h [.raw all]).render} open: {openS} ; next: {nextS} ; fs: {fsS} ; doc {doctorTok doc}"

def handlers : List (String × (List String → String)) :=
  [("C11.edit", runP edit), ("C11.flip", runP flip), ("C11.zero", runP zero), ("C11.meta", runP metaH),
   ("C11.epoch", runP epochH)]

end Driver.C11
