/- C02 line-protocol handlers (Rust side: harness/src/c02.rs). -/
import Driver.GraphIO
import EchoVerif.Model.Merge
import EchoVerif.Model.MergePolicy

namespace Driver.C02
open EchoVerif EchoVerif.Graph EchoVerif.Merge Driver Driver.GraphIO

def origin : P Origin := do
  let a ← num; let b ← num; let c ← num; let d ← num
  pure { intent := a, rule := b, matchIx := c, opIx := d }

def worker : P WorkerRes := do
  let t ← tok
  match t with
  | "S" => do
    let es ← counted (do let o ← op; let g ← origin; pure (o, g))
    pure (.success es)
  | "P" => pure .poisoned
  | "M" => pure .missingStore
  | x => throw s!"bad worker tag {x}"

def variant : P (List WorkerRes → Except MergeErr (List Op)) := do
  let t ← tok
  match t with
  | "A" => pure mergeA
  | "B" => pure mergeB
  | x => throw s!"bad variant {x}"

def errStr : MergeErr → String
  | .conflict => "conflict"
  | .poisoned => "poisoned"
  | .newWarp => "newwarp"
  | .missingStore => "missingstore"

def resStr : Except MergeErr (List Op) → String
  | .ok ops => s!"ok {opsStr ops}"
  | .error e => s!"err {errStr e}"

def merge : P String := do
  let m ← variant
  let ws ← counted worker
  done
  pure (resStr (m ws))

def flag : P Bool := do
  let n ← num
  pure (n != 0)

def item : P Item := do
  let w ← id32; let s ← id32
  let a ← num; let b ← num; let c ← num
  let sys ← flag; let honest ← flag
  pure { warp := w, scope := s, origin := { intent := a, rule := b, matchIx := c, opIx := 0 }, sys, honest }

def items : P (List Item) := do
  expect "items"
  counted item

def unitsStr (us : List (WUnit Item)) : String :=
  s!"units {us.length}" ++ String.join (us.map (fun u =>
    s!" {id32Tok u.warp} {u.items.length}" ++ String.join (u.items.map (fun it => " " ++ id32Tok it.scope))))

def workerStr : WorkerRes → String
  | .success d => s!"success {opsStr (d.map (·.1))}"
  | .poisoned => "poisoned"
  | .missingStore => "missingstore"

def postStr (s : WState) : Except MergeErr (List Op) → String
  | .error _ => "-"
  | .ok ops =>
    match applyOps s ops with
    | .ok s' => s!"ok {stateStr s'}"
    | .error e => s!"err {GraphIO.errStr e}"

def checkScript (n : Nat) (σ : Schedule) : P Unit := do
  if σ.flatten.all (· < n) then pure () else throw "unit index out of range"

def sched : P String := do
  let m ← variant
  let s ← state
  let its ← items
  expect "script"
  let σ ← counted (counted num)
  done
  let us := buildUnits Item.warp Item.scope its
  checkScript us.length σ
  let rs := runSchedule (itemOut s) (hasStore s) us σ
  let r := m rs
  pure (unitsStr us ++ s!" ; workers {rs.length}" ++ String.join (rs.map (fun w => " " ++ workerStr w))
    ++ " ; merged " ++ resStr r ++ " ; post " ++ postStr s r)

/-! every (assignment, per-worker claim order) with exactly `k` workers (possibly idle):
    permutations of the units cut into `k` consecutive segments -/

def insertEverywhere (x : Nat) : List Nat → List (List Nat)
  | [] => [[x]]
  | y :: ys => (x :: y :: ys) :: (insertEverywhere x ys).map (y :: ·)

def perms : List Nat → List (List Nat)
  | [] => [[]]
  | x :: xs => (perms xs).flatMap (insertEverywhere x)

def cuts : Nat → List Nat → List (List (List Nat))
  | 0, l => if l.isEmpty then [[]] else []
  | 1, l => [[l]]
  | k + 2, l => (List.range (l.length + 1)).flatMap (fun i =>
      (cuts (k + 1) (l.drop i)).map (fun rest => l.take i :: rest))

def allSchedules (n maxw : Nat) : List Schedule :=
  (List.range maxw).flatMap (fun k => (perms (List.range n)).flatMap (cuts (k + 1)))

def dedupStr (l : List String) : List String :=
  let a := (l.toArray.qsort (· < ·)).toList
  let rec go : List String → List String
    | [] => []
    | [x] => [x]
    | x :: y :: rest => if x == y then go (y :: rest) else x :: go (y :: rest)
  go a

def all : P String := do
  let m ← variant
  let maxw ← num
  let s ← state
  let its ← items
  done
  let us := buildUnits Item.warp Item.scope its
  let σs := allSchedules us.length maxw
  let results := σs.map (fun σ => resStr (m (runSchedule (itemOut s) (hasStore s) us σ)))
  let d := dedupStr results
  let serial := m (runSchedule (itemOut s) (hasStore s) us [List.range us.length])
  pure (s!"units {us.length} scheds {σs.length} distinct {d.length}" ++ String.join (d.map (fun r => " [ " ++ r ++ " ]"))
    ++ " ; serial " ++ resStr serial ++ " ; post " ++ postStr s serial)

/-! shard-level policies on one warp, unguarded view (`execute_parallel_with_policy`) -/

/-- unguarded executor: `none` = the executor panicked (the whole call panics). -/
def rawOut (st : Store) (warp : Nat) (it : Item) : Option (List Entry) :=
  let prog := match SMap.find? it.scope st.nodeAtt with
    | some (.atom _ bytes) => bytes
    | _ => []
  let (ops, panicked) := interp st warp prog []
  if panicked then none else some (ops.map (fun o => (o, Origin.zero)))

def policy : P String := do
  let m ← variant
  let pol ← tok
  let w ← num
  let _sweep ← num
  let s ← state
  let its ← items
  done
  let warp ← (match s.stores with
    | (wid, _) :: _ => pure wid
    | [] => throw "no warp" : P Nat)
  let st ← (match s.store? warp with
    | some st => pure st
    | none => throw "no store" : P Store)
  if w = 0 then throw "zero workers" else
  let outs := its.map (rawOut st warp)
  if outs.any Option.isNone then pure "panic" else
  let shardItems (sid : Nat) : List Item := its.filter (fun it => shardOf it.scope == sid)
  let g (it : Item) : List Entry := (rawOut st warp it).getD []
  let n := Generated.numShards
  let wc := cappedWorkers w
  -- the model's executors (Model/MergePolicy.lean `execPolicy`); per-shard accumulation does not
  -- depend on the claim outcome (Props/C02 `policy_exec_refines_schedule`), so any `owner` will do
  let run (p : Policy) : List (List Entry) := execPolicy g shardItems (fun s => s % wc) p wc n
  let deltas : Option (List (List Entry)) ←
    (match pol with
      | "spw" => pure (some (run .staticPerWorker))
      | "sps" => pure (some (run .staticPerShard))
      | "dps" => pure (some (run .dynamicPerShard))
      | "ded" => pure (some (run .dedicatedPerShard))
      | "dpw" => pure (if its.isEmpty then some (run .dynamicPerWorker) else none)
      | x => throw s!"bad policy {x}" : P (Option (List (List Entry))))
  let shardDelta := Merge.shardDelta g shardItems
  let merged := m [.success ((List.range n).flatMap shardDelta)]
  let dstr := match deltas with
    | none => "deltas ?"
    | some ds => s!"deltas {ds.length}" ++ String.join (ds.map (fun d => " " ++ opsStr (d.map (·.1))))
  pure (dstr ++ " ; merged " ++ resStr merged)

def handlers : List (String × (List String → String)) :=
  [("C02.merge", runP merge), ("C02.sched", runP sched), ("C02.all", runP all), ("C02.policy", runP policy)]

end Driver.C02
