import Driver.Parse
import EchoVerif.Model.CostCbor
import EchoVerif.Generated.CostAbi
import EchoVerif.Model.CostEdict
import EchoVerif.Generated.CostEdict
import EchoVerif.Model.CostLe
import EchoVerif.Generated.CostLe

namespace Driver.C13
open EchoVerif Driver

/-- tail-recursive hex reader (inputs reach 1 MiB) -/
def hexRev : List Char → Bytes → Option Bytes
  | [], acc => some acc
  | [_], _ => none
  | a :: b :: rest, acc =>
    match hexVal? a, hexVal? b with
    | some x, some y => hexRev rest (UInt8.ofNat (x * 16 + y) :: acc)
    | _, _ => none

def hexBytes? (s : String) : Option Bytes :=
  if s = "-" then some [] else (hexRev s.toList []).map List.reverse

def repRev (b : Bytes) : Nat → Bytes → Bytes
  | 0, acc => acc
  | n + 1, acc => repRev b n (b.reverse ++ acc)

/-- one segment `<hex>` or `<hex>*<count>`, prepended (reversed) to `acc` -/
def segRev (s : String) (acc : Bytes) : Except String Bytes :=
  match s.splitOn "*" with
  | [h] => match hexBytes? h with
    | some b => .ok (b.reverse ++ acc)
    | none => .error s!"bad hex {h.take 16}"
  | [h, n] => match hexBytes? h, n.toNat? with
    | some b, some k => .ok (repRev b k acc)
    | _, _ => .error s!"bad segment {s.take 24}"
  | _ => .error "bad segment"

def segsRev : List String → Bytes → Except String Bytes
  | [], acc => .ok acc
  | s :: ss, acc => match segRev s acc with
    | .ok a => segsRev ss a
    | .error e => .error e

/-- the case payload: all remaining tokens are segments -/
def input : P Bytes := do
  let ts ← get
  set ([] : List String)
  match segsRev ts [] with
  | .ok r => pure r.reverse
  | .error e => throw e

def abi : P String := do
  let bs ← input
  pure (CostCbor.render bs (CostCbor.decode Generated.abiCostParams bs))

def edict : P String := do
  let bs ← input
  pure (CostEdict.render bs (CostEdict.decode Generated.edictCostParams bs))

def le : P String := do
  let bs ← input
  pure (CostLe.render bs (CostLe.decode Generated.leCapRule bs))

/-- Decoders without a cost model: the model's only statement is the property itself — every byte
    string yields a value or a typed error within the allocation bound (no theorem behind it; the
    child-process oracle is what checks it). The input is still parsed so malformed case lines show. -/
def total : P String := do
  let _ ← input
  pure "total alloc-ok"

def totalStreams : List String :=
  ["ingress", "walseg", "walpayload", "wsc", "dto", "elog", "scene", "host"]

def handlers : List (String × (List String → String)) :=
  [("C13.abi.cost", runP abi), ("C13.edict.cost", runP edict), ("C13.le.cost", runP le)]
    ++ totalStreams.map (fun n => ("C13." ++ n ++ ".total", runP total))

end Driver.C13
