/- `echo_model`: one case line in, one output line out (see DESIGN.md §2.3). -/
import Driver.C18
import EchoVerif.Generated.Reduce

open EchoVerif Driver

def handle (line : String) : String :=
  match tokens line with
  | [] => ""
  | stream :: rest =>
    match stream with
    | "C18.bus" => runP C18.bus rest
    | "C18.reduce" => runP (C18.reduce Generated.reduceIsCommutative) rest
    | s => "bad-stream " ++ s

partial def loop (h : IO.FS.Stream) (out : IO.FS.Stream) : IO Unit := do
  let line ← h.getLine
  if line.isEmpty then return ()
  if line.trimAscii.toString.isEmpty then loop h out else
  out.putStrLn (handle line)
  loop h out

def main : IO Unit := do
  let out ← IO.getStdout
  loop (← IO.getStdin) out
  out.flush
