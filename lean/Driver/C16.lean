import Driver.Parse
import EchoVerif.Model.Observe

/-! Line-protocol handler for `C16.observe` (see harness/src/c16.rs for the case grammar).
    The model reads only the `world` dumps and the `obs` requests; the mutating items are the real
    code's business (their effect reaches the model through the next `world` item). -/
namespace Driver.C16
open EchoVerif EchoVerif.Chain EchoVerif.Observe Driver

abbrev D := Bytes
abbrev PV := Prov Unit Unit D Outs Unit
abbrev RT := Runtime D

def env : Env D := { dB := id }

def hexOrEmpty : P Bytes := bytes

def pref : P (PRef D) := do
  let wl ← id32
  let tick ← num
  let commit ← bytes
  pure { wl, tick, commit }

def strandInfo : P (Option (StrandInfo D)) := do
  match (← tok) with
  | "n" => pure none
  | "s" =>
    let sid ← id32
    match (← tok) with
    | "err" => pure (some { sid, live := none })
    | "anchor" => pure (some { sid, live := some (.strandAtAnchor sid) })
    | "adv" =>
      let a ← pref
      let b ← pref
      pure (some { sid, live := some (.parentAdvanced sid a b) })
    | "reval" =>
      let a ← pref
      let b ← pref
      let n ← num
      let d ← bytes
      pure (some { sid, live := some (.revalidation sid a b n d) })
    | x => throw s!"bad live {x}"
  | x => throw s!"bad strand {x}"

def front : P (Nat × Front D) := do
  let wl ← id32
  let tick ← num
  let lastSnap ← (do
    match (← tok) with
    | "nols" => pure none
    | "ls" =>
      let r ← bytes
      let h ← bytes
      pure (some (r, h))
    | x => throw s!"bad ls {x}")
  let u0r ← bytes
  let u0h ← bytes
  let strand ← strandInfo
  pure (wl, { tick, lastSnap, u0 := (u0r, u0h), strand })

def entry (wl : Nat) (tick : Nat) : P (Entry Unit D Outs) := do
  let gtick ← num
  let root ← bytes
  let commit ← bytes
  let outs ← counted (do
    let c ← id32
    let d ← bytes
    pure (c, d))
  pure { wl, tick, gtick, head := none, parents := [], localKind := true, expRoot := root,
         expDigest := [], expCommit := commit, patch := none, receipt := none, outputs := outs,
         atomWrites := 0 }

def entriesFrom (wl : Nat) : Nat → Nat → P (List (Entry Unit D Outs))
  | _, 0 => pure []
  | t, n + 1 => do
    let e ← entry wl t
    let rest ← entriesFrom wl (t + 1) n
    pure (e :: rest)

def hist : P (Nat × Hist Unit Unit D Outs Unit) := do
  let wl ← id32
  let n ← num
  let es ← entriesFrom wl 0 n
  pure (wl, { u0 := 0, boundary := [], entries := es, cps := [] })

def expect (lit : String) : P Unit := do
  let t ← tok
  if t = lit then pure () else throw s!"expected {lit} got {t}"

def world : P (RT × PV) := do
  let _ntoks ← num
  expect "G"
  let g ← num
  expect "R"
  let fronts ← counted front
  expect "P"
  let hs ← counted hist
  pure ({ gtick := g, fronts, queries := [] }, hs)

def optNumTok : P (Option Nat) := do
  let t ← tok
  if t = "-" then pure none else
    match t.toNat? with
    | some n => pure (some n)
    | none => throw s!"bad num {t}"

def authored (n : Nat) : APlan :=
  let b (k : Nat) : Bytes := List.replicate 32 (UInt8.ofNat (n + k))
  { planId := n, artifact := b 0, schema := b 1, stateSchema := b 2, updateLaw := b 3, emissionLaw := b 4 }

def request : P Request := do
  let wl ← num
  let at_ ← (do
    match (← tok) with
    | "f" => pure At.frontier
    | "t" => do let n ← num; pure (At.tick n)
    | x => throw s!"bad at {x}")
  let frame ← (do
    match (← tok) with
    | "cb" => pure Frame.commitBoundary
    | "rt" => pure Frame.recordedTruth
    | "qv" => pure Frame.queryView
    | x => throw s!"bad frame {x}")
  let proj ← (do
    match (← tok) with
    | "head" => pure Proj.head
    | "snap" => pure Proj.snapshot
    | "truth" =>
      match (← optNumTok) with
      | none => pure (Proj.truth none)
      | some n => do
        let cs ← many id32 n
        pure (Proj.truth (some cs))
    | "query" => do
      let id ← num
      let vars ← bytes
      pure (Proj.query id vars)
    | x => throw s!"bad proj {x}")
  let plan ← (do
    match (← tok) with
    | "bh" => pure (Plan.builtin .cbHead)
    | "bs" => pure (Plan.builtin .cbSnapshot)
    | "bt" => pure (Plan.builtin .rtChannels)
    | "bq" => pure (Plan.builtin .queryBytes)
    | "a" => do let n ← num; pure (Plan.authored (authored n))
    | x => throw s!"bad plan {x}")
  let inst ← (do
    match (← tok) with
    | "-" => pure none
    | "i" => do
      let n ← num
      pure (some ({ instanceId := n, planId := n, stateHash := List.replicate 32 (UInt8.ofNat n) } : InstRef))
    | x => throw s!"bad inst {x}")
  let budget ← (do
    match (← tok) with
    | "u" => pure Budget.unbounded
    | "b" => do
      let p ← num
      let w ← num
      pure (Budget.bounded p w)
    | x => throw s!"bad budget {x}")
  let rights ← (do
    match (← tok) with
    | "k" => pure Rights.kernelPublic
    | "c" => do let n ← num; pure (Rights.capability n)
    | x => throw s!"bad rights {x}")
  pure { wl, at_, frame, proj, plan, inst, budget, rights }

/-! ### rendering (must agree token for token with `artifact_tok` / `err_tok` of c16.rs) -/

def atTok : At → String
  | .frontier => "f"
  | .tick t => s!"t{t}"

def frameTok : Frame → String
  | .commitBoundary => "cb" | .recordedTruth => "rt" | .queryView => "qv"

def kindTok : PKind → String
  | .head => "head" | .snapshot => "snap" | .truth => "truth" | .query => "query"

def optTok : Option Nat → String
  | none => "-"
  | some n => toString n

def prefTok (r : PRef D) : String := s!"{id32Tok r.wl}:{r.tick}:{bytesTok r.commit}"

def errTok : ObsError → String
  | .invalidWorldline wl => s!"err invalid-worldline {id32Tok wl}"
  | .invalidTick wl t => s!"err invalid-tick {id32Tok wl} {t}"
  | .unsupportedFrameProjection f k => s!"err unsupported-frame-projection {frameTok f} {kindTok k}"
  | .unsupportedQuery id => s!"err unsupported-query {id}"
  | .queryFailed id .invalidVars => s!"err query-failed {id} invalid-vars"
  | .queryFailed id .failed => s!"err query-failed {id} failed"
  | .unsupportedPlan => "err unsupported-plan"
  | .unsupportedInstance => "err unsupported-instance"
  | .unsupportedRights => "err unsupported-rights"
  | .budgetExceeded mp p mw w => s!"err budget-exceeded {mp} {p} {mw} {w}"
  | .unavailable wl a => s!"err unavailable {id32Tok wl} {atTok a}"
  | .codec => "err codec"

def postureTok : Posture D → String
  | .worldline => "worldline"
  | .strandHistorical s => s!"historical:{id32Tok s}"
  | .strandAtAnchor s => s!"anchor:{id32Tok s}"
  | .parentAdvanced s a b => s!"adv:{id32Tok s}:{prefTok a}:{prefTok b}"
  | .revalidation s a b n d => s!"reval:{id32Tok s}:{prefTok a}:{prefTok b}:{n}:{bytesTok d}"

def payloadTok : Payload D → String
  | .head t cg r c => s!"head:{t}:{optTok cg}:{bytesTok r}:{bytesTok c}"
  | .snapshot t cg r c => s!"snap:{t}:{optTok cg}:{bytesTok r}:{bytesTok c}"
  | .truth chs =>
    s!"truth:{chs.length}" ++ String.join (chs.map (fun cd => s!":{id32Tok cd.1}={bytesTok cd.2}"))
  | .query d => s!"query:{bytesTok d}"

def witnessTok : Witness D → String
  | .resolvedCommit r => s!"rc:{prefTok r}"
  | .emptyFrontier wl r c => s!"ef:{id32Tok wl}:{bytesTok r}:{bytesTok c}"

def planTok : Plan → String
  | .builtin .cbHead => "bh" | .builtin .cbSnapshot => "bs"
  | .builtin .rtChannels => "bt" | .builtin .queryBytes => "bq"
  | .authored a => s!"a:{a.planId}"

def budgetTok : BudgetPosture → String
  | .unbounded => "u"
  | .bounded mp p mw w => s!"b:{mp}:{p}:{mw}:{w}"

def residualTok : Residual → String
  | .complete => "complete" | .residual => "residual"
  | .plurality => "plurality" | .obstructed => "obstructed"

def artifactTok (a : Artifact D) (h : HExpr) : String :=
  let r := a.resolved
  s!"ok v={r.version} wl={id32Tok r.wl} at={atTok r.requestedAt} tick={r.tick} cg={optTok r.commitGtick} " ++
  s!"oa={optTok r.observedAfter} root={bytesTok r.root} commit={bytesTok r.commit} " ++
  s!"wit={",".intercalate (a.reading.witnesses.map witnessTok)} posture={postureTok a.reading.posture} " ++
  s!"budget={budgetTok a.reading.budget} plan={planTok a.reading.plan} " ++
  s!"residual={residualTok a.reading.residual} payload={payloadTok a.payload} hash {h.render}"

def obsTok (rt : RT) (pv : PV) (req : Request) : String :=
  match serve env rt pv req with
  | .error e => errTok e
  | .ok (a, h) => artifactTok a h

/-- skip `n` tokens -/
def skip : Nat → P Unit
  | 0 => pure ()
  | n + 1 => do let _ ← tok; skip n

partial def items (rt : RT) (pv : PV) (acc : List String) : P (List String) := do
  match (← get) with
  | [] => pure acc.reverse
  | _ =>
    match (← tok) with
    | "ing" => do skip 3; items rt pv ("ing" :: acc)
    | "tick" => items rt pv ("tick" :: acc)
    | "fork" => do skip 4; items rt pv ("fork" :: acc)
    | "syn" => do let n ← num; skip n; items rt pv ("syn" :: acc)
    | "reg" => do skip 1; items rt pv ("reg" :: acc)
    | "sft" => do skip 2; items rt pv ("sft" :: acc)
    | "cp" => do skip 1; items rt pv ("cp" :: acc)
    | "opt" => do
      -- focus coord at shape maxBytes maxTicks ; at := f | t n | p wl n
      skip 2
      match (← tok) with
      | "f" => pure ()
      | "t" => skip 1
      | "p" => skip 2
      | x => throw s!"bad opt at {x}"
      skip 3
      items rt pv ("opt" :: acc)
    | "world" => do
      let (rt', pv') ← world
      items rt' pv' ("world ok" :: acc)
    | "obs" => do
      let r ← request
      items rt pv (obsTok rt pv r :: acc)
    | x => throw s!"bad item {x}"

def observe : P String := do
  expect "W"
  let n ← num
  skip (2 * n)
  let out ← items { gtick := 0, fronts := [], queries := [] } [] []
  pure (" ; ".intercalate out)

def handlers : List (String × (List String → String)) :=
  [("C16.observe", runP observe)]

end Driver.C16
