import Driver.GraphIO
import EchoVerif.Model.WscFile

/-! C06, goal WSC: streams `C06.wscb <state>` (model file bytes + read-back per warp) and
    `C06.wscr <hex bytes>` (the reader/validator on arbitrary bytes). Rust side: harness/src/c06w.rs. -/
namespace Driver.C06w
open EchoVerif EchoVerif.Graph EchoVerif.WscFile Driver Driver.GraphIO

def secStr : Sec → String
  | .warpDirectory => "warp_directory" | .nodes => "nodes" | .edges => "edges"
  | .outIndex => "out_index" | .outEdges => "out_edges" | .nodeAttsIndex => "node_atts_index"
  | .nodeAtts => "node_atts" | .edgeAttsIndex => "edge_atts_index" | .edgeAtts => "edge_atts"
  | .blobs => "blobs"

def ixStr : Ix → String
  | .outIndex => "out_index" | .nodeAttsIndex => "node_atts_index" | .edgeAttsIndex => "edge_atts_index"

def errStr : WscFile.Err → String
  | .fileTooSmall => "FileTooSmall"
  | .invalidMagic => "InvalidMagic"
  | .sectionOutOfBounds s => "SectionOutOfBounds:" ++ secStr s
  | .alignment _ => "Alignment"
  | .indexRangeOutOfBounds ix => "IndexRangeOutOfBounds:" ++ ixStr ix
  | .orderingNode => "OrderingViolation:node"
  | .orderingEdge => "OrderingViolation:edge"
  | .missingRoot => "MissingRoot"
  | .invalidAttachmentTag => "InvalidAttachmentTag"
  | .nonZeroReservedBytes => "NonZeroReservedBytes"
  | .blobOutOfBounds => "BlobOutOfBounds"
  | .nonAtomHasBlobFields => "NonAtomHasBlobFields"
  | .outEdgeReference => "SectionOutOfBounds:out_edge_reference"
  | .warpCount => "WarpCount"

def backErrStr : BackErr → String
  | .multipleAttRows => "MultipleAttRows"
  | .blobOutOfRange => "BlobOutOfRange"
  | .badAttachmentTag => "BadAttachmentTag"

def storeStr (st : Store) : String :=
  s!"nodes {st.nodes.length}" ++ String.join (st.nodes.map (fun (i, ty) => s!" {id32Tok i} {id32Tok ty}"))
    ++ s!" natts {st.nodeAtt.length}" ++ String.join (st.nodeAtt.map (fun (i, a) => s!" {id32Tok i} {attStr a}"))
    ++ s!" edges {st.edges.length}" ++ String.join (st.edges.map (fun (i, e) => s!" {id32Tok i} {id32Tok e.src} {id32Tok e.dst} {id32Tok e.ty}"))
    ++ s!" eatts {st.edgeAtt.length}" ++ String.join (st.edgeAtt.map (fun (i, a) => s!" {id32Tok i} {attStr a}"))

/-- what both sides print for a byte string handed to the reader. -/
def readStr (data : Bytes) : String :=
  match WscFile.read data with
  | .error e => "err " ++ errStr e
  | .ok v =>
    let head := s!"ok {id32Tok v.warp} {id32Tok v.root} {id32Tok v.schema} {v.tick} oix {if outIndexConsistent v.inp then 1 else 0} "
    match toStore v with
    | .error e => head ++ "back-err " ++ backErrStr e
    | .ok st => head ++ storeStr st

def warpStr (w : Nat) (st : Store) (root : Nat) : String :=
  match build st root with
  | .error .rootMissing => s!" W {id32Tok w} build-err RootMissing"
  | .error .edgeIxMissing => s!" W {id32Tok w} build-err EdgeIxMissing"
  | .ok inp =>
    match write inp w 0 0 with
    | .error _ => s!" W {id32Tok w} write-err SizeMismatch"
    | .ok bytes => s!" W {id32Tok w} bytes {bytesTok bytes} read {readStr bytes}"

/-- `C06.wscb <state>` -/
def wscb : P String := do
  let s ← state
  done
  pure (s!"warps {s.stores.length}" ++ String.join (s.stores.map (fun (w, st) =>
    match SMap.find? w s.instances with
    | some inst => warpStr w st inst.root
    | none => s!" W {id32Tok w} noinst")))

/-- `C06.wscr <hex bytes>` -/
def wscr : P String := do
  let b ← bytes
  done
  pure (readStr b)

def handlers : List (String × (List String → String)) :=
  [("C06.wscb", runP wscb), ("C06.wscr", runP wscr)]

end Driver.C06w
