/- Shared line-protocol plumbing for the chain streams (C07.*, C05.*): parse a history description,
   build the honest history the way the harness does, apply field mutations, rebuild through the
   model of `append_local_commit`, render results. -/
import Driver.Parse
import EchoVerif.Model.ChainGraph

namespace Driver.ChainIO
open EchoVerif EchoVerif.Chain EchoVerif.ChainGraph Driver

abbrev E := Entry Patch String Outs
abbrev H := Hist Graph Patch String Outs PMeta
abbrev W := WState Graph String Outs PMeta
abbrev C := Cp Graph String Outs PMeta
abbrev Cur := Cursor Graph String Outs PMeta
abbrev PV := Prov Graph Patch String Outs PMeta

def att : P (Option Atom) := do
  let k ← num
  if k = 0 then pure none else
    let ty ← id32
    let b ← bytes
    pure (some { ty, bytes := b })

def slot : P Slot := do
  let t ← num
  let w ← id32
  let i ← id32
  pure (t, w, i)

def op : P Op := do
  let k ← tok
  match k with
  | "un" => do let w ← id32; let n ← id32; let ty ← id32; pure (.upsertNode w n ty)
  | "dn" => do let w ← id32; let n ← id32; pure (.deleteNode w n)
  | "ue" => do
    let w ← id32; let i ← id32; let s ← id32; let d ← id32; let ty ← id32
    pure (.upsertEdge w i s d ty)
  | "de" => do let w ← id32; let s ← id32; let i ← id32; pure (.deleteEdge w s i)
  | "sn" => do let w ← id32; let n ← id32; let a ← att; pure (.setNodeAtt w n a)
  | "se" => do let w ← id32; let e ← id32; let a ← att; pure (.setEdgeAtt w e a)
  | o => throw s!"bad op {o}"

structure TickSpec where
  policy : Nat
  rulePack : Nat
  gtick : Nat
  plan : Nat
  decision : Option Nat
  rewrites : Nat
  pwarp : Nat
  inSlots : List Slot
  outSlots : List Slot
  ops : List Op
  outs : Outs
  rcpt : Option (Nat × List RcptEntry)

def tickSpec : P TickSpec := do
  let policy ← num
  let rulePack ← id32
  let gtick ← num
  let plan ← id32
  let dtok ← tok
  let decision ← match dtok with
    | "auto" => pure none
    | t => match id32? t with
      | some d => pure (some d)
      | none => throw s!"bad decision {t}"
  let rewrites ← id32
  let pwarp ← id32
  let inSlots ← counted slot
  let outSlots ← counted slot
  let ops ← counted op
  let outs ← counted (do let c ← id32; let d ← bytes; pure (c, d))
  let rt ← tok
  let rcpt ← match rt with
    | "-" => pure none
    | "r" => do
      let tx ← num
      let es ← counted (do
        let r ← id32; let sh ← id32; let n ← id32; let c ← num
        pure (r, sh, n, c))
      pure (some (tx, es))
    | o => throw s!"bad rcpt {o}"
  pure { policy, rulePack, gtick, plan, decision, rewrites, pwarp, inSlots, outSlots, ops, outs, rcpt }

structure HistSpec where
  wl : Nat
  base : Graph
  ticks : List TickSpec

def histSpec : P HistSpec := do
  let wl ← id32
  let warp ← id32
  let root ← id32
  let ns ← counted (do let n ← id32; let ty ← id32; let a ← att; pure (n, ty, a))
  let es ← counted (do
    let i ← id32; let s ← id32; let d ← id32; let ty ← id32; let a ← att
    pure (i, s, d, ty, a))
  let g0 : Graph := { warp, root, nodes := [], natt := [], edges := [], eatt := [] }
  let g1 := ns.foldl (fun (g : Graph) (n, ty, a) =>
    let g := { g with nodes := SMap.insert n ty g.nodes }
    match a with
    | none => g
    | some v => { g with natt := SMap.insert n v g.natt }) g0
  let g2 := es.foldl (fun (g : Graph) (i, s, d, ty, a) =>
    let g := { g with edges := SMap.insert i { src := s, dst := d, ty } g.edges }
    match a with
    | none => g
    | some v => { g with eatt := SMap.insert i v g.eatt }) g1
  let ticks ← counted tickSpec
  pure { wl, base := g2, ticks }

def headId : Nat := 0xA1

/-- One honest commit on top of state `g` with the given parent refs (mirrors `mk_entry` in
    harness/src/c07.rs): apply the patch (a failing patch leaves the state unchanged), record the
    real root / digest / commit id. -/
def mkEntry (warp wl i : Nat) (ts : TickSpec) (g : Graph) (parents : List (PRef String)) : E × Graph :=
  let rd : String := match ts.rcpt with
    | some (_, res) => receiptD warp res
    | none => id32Tok 0
  let dec : String := match ts.decision with
    | some d => id32Tok d
    | none => rd
  let p0 : Patch :=
    { gtick := ts.gtick, policy := ts.policy, rulePack := ts.rulePack, plan := ts.plan
      decision := dec, rewrites := ts.rewrites, warp := ts.pwarp, ops := ts.ops
      inSlots := ts.inSlots, outSlots := ts.outSlots, digest := "" }
  let p := { p0 with digest := patchD p0 }
  let g' := if ts.pwarp ≠ g.warp then g else
    match applyOps g ts.ops with
    | (gn, none) => gn
    | (_, some _) => g
  let r := rootD g'
  let e : E :=
    { wl := wl, tick := i, gtick := ts.gtick, head := some (wl, headId), parents
      localKind := true, expRoot := r, expDigest := p.digest
      expCommit := commitD (parents.map (·.commit)) r p.digest p.policy
      patch := some p
      receipt := ts.rcpt.map (fun (tx, res) => (tx, receiptD warp res))
      outputs := ts.outs, atomWrites := 0 }
  (e, g')

def tipRef (wl : Nat) (es : List E) : List (PRef String) :=
  match es.getLast? with
  | none => []
  | some e => [{ wl := wl, tick := e.tick, commit := e.expCommit }]

/-- The honest construction: every tick committed on top of the previous one. Returns the entries
    and the live states `g_0 … g_n`. -/
def honest (hs : HistSpec) : List E × List Graph :=
  let (es, gs, _) := hs.ticks.foldl (fun (acc : List E × List Graph × Graph) ts =>
    let (es, gs, g) := acc
    let (e, g') := mkEntry hs.base.warp hs.wl es.length ts g (tipRef hs.wl es)
    (es ++ [e], gs ++ [g'], g')) ([], [hs.base], hs.base)
  (es, gs)

def errTok : RErr → String
  | .histUnavail t => s!"hist-unavail:{t}"
  | .apply t c => s!"apply:{t}:{c}"
  | .stateRoot t => s!"state-root:{t}"
  | .commitHash t => s!"commit-hash:{t}"
  | .patchDigest t => s!"patch-digest:{t}"
  | .receipt t => s!"receipt:{t}"
  | .cpRoot t => s!"cp-root:{t}"
  | .baseWarp => "base-warp"
  | .boundary => "boundary"
  | .pinned => "pinned"
  | .cpWarp => "cp-warp"
  | .cpBoundary => "cp-boundary"
  | .cpMeta => "cp-meta"
  | .wlExists => "wl-exists"
  | .wlMissing => "wl-missing"
  | .entryWl => "entry-wl"
  | .tickGap => "tick-gap"
  | .parentsOrder => "parents-order"
  | .parentMissing => "parent-missing"
  | .parentHash => "parent-hash"
  | .noHead => "no-head"
  | .headWl => "head-wl"
  | .noPatch => "no-patch"
  | .rcptTx => "rcpt-tx"
  | .rcptDigest => "rcpt-digest"
  | .kind => "kind"

/-- Byte order on digests is only consulted for multi-parent entries; every generated entry has at
    most one parent, for which `windows(2)` is empty. Literal (hex) digests compare as strings. -/
def ltD (a b : String) : Bool := decide (a < b)

/-- Register `wl` with `boundary` and append the entries in order; stops at the first rejection. -/
def buildProv (wl u0 : Nat) (boundary : String) (es : List E) : PV × Nat × Option RErr :=
  let pv0 : PV := [(wl, { u0, boundary, entries := [], cps := [] })]
  es.foldl (fun (acc : PV × Nat × Option RErr) e =>
    match acc with
    | (pv, n, some err) => (pv, n, some err)
    | (pv, n, none) =>
      match appendLocal sem ltD pv e with
      | .error err => (pv, n, some err)
      | .ok pv' => (pv', n + 1, none)) (pv0, 0, none)

def outsTok (o : Outs) : String :=
  s!"{o.length}" ++ String.join (o.map (fun (c, d) => "," ++ id32Tok c ++ ":" ++ bytesTok d))

/-- leading positions of `tick_history` whose (hash, state_root, patch_digest) equal the stored entry's. -/
def histAgree (es : List E) (hist : List (Art String PMeta)) : Nat :=
  let rec go (i : Nat) : List (Art String PMeta) → Nat
    | [] => 0
    | a :: rest =>
      match es[i]? with
      | some e =>
        if a.hash == e.expCommit && a.root == e.expRoot && a.pdigest == e.expDigest then 1 + go (i + 1) rest
        else 0
      | none => 0
  go 0 hist

def lastSnapTok (es : List E) (hist : List (Art String PMeta)) : String :=
  match hist.getLast? with
  | none => "-"
  | some a =>
    match es.findIdx? (fun e => e.expCommit == a.hash) with
    | some i => s!"e{i}"
    | none => "?"

/-- the state root, written as `b` (= registered boundary) / `e<i>` (= stored `expected.state_root` of
    entry i, first match) when it equals one of those, else as its pre-image. -/
def rootTok (boundary : String) (es : List E) (g : Graph) : String :=
  let r := rootD g
  if r == boundary then "b"
  else match es.findIdx? (fun e => e.expRoot == r) with
    | some i => s!"e{i}"
    | none => r

def wTok (boundary : String) (es : List E) (w : W) : String :=
  "rt " ++ rootTok boundary es w.core.g ++ s!" hl={w.core.hist.length} th={histAgree es w.core.hist} ls="
    ++ lastSnapTok es w.core.hist ++ " lm=" ++ outsTok w.lastMat

/-! ### field mutations (applied to the honest entries before the store is rebuilt) -/

/-- 32 bytes `ee…ee kk`: a digest literal that is no real digest of the run. -/
def garbage (k : Nat) : String := id32Tok ((2 ^ 256 - 1) / 255 * 0xEE - 0xEE + k % 256)

structure Mut where
  kind : String
  i : Nat
  a : Nat

def mutP : P Mut := do
  let kind ← tok
  let i ← num
  let a ← num
  pure { kind, i, a }

def modifyAt {α : Type} (xs : List α) (i : Nat) (f : α → α) : List α :=
  xs.mapIdx (fun j x => if j = i then f x else x)

def mapPatch (e : E) (f : Patch → Patch) : E := { e with patch := e.patch.map f }

def otherId : Nat := 0xB7

/-- One mutation of a public field. Unknown kinds are a parse error on both sides. -/
def applyMut (es : List E) (m : Mut) : Except String (List E) :=
  let at_ (f : E → E) : Except String (List E) := .ok (modifyAt es m.i f)
  let g := garbage m.a
  match m.kind with
  | "e.root" => at_ (fun e => { e with expRoot := g })
  | "e.pdig" => at_ (fun e => { e with expDigest := g })
  | "e.commit" => at_ (fun e => { e with expCommit := g })
  | "e.parent" => at_ (fun e => { e with parents := e.parents.map (fun p => { p with commit := g }) })
  | "e.ptick" => at_ (fun e => { e with parents := e.parents.map (fun p => { p with tick := m.a }) })
  | "e.pwl" => at_ (fun e => { e with parents := e.parents.map (fun p => { p with wl := otherId }) })
  | "e.pdrop" => at_ (fun e => { e with parents := [] })
  | "e.p2.desc" => at_ (fun e => { e with parents :=
      [{ wl := e.wl, tick := 0, commit := garbage (m.a % 200 + 1) }, { wl := e.wl, tick := 0, commit := garbage (m.a % 200) }] })
  | "e.p2.asc" => at_ (fun e => { e with parents :=
      [{ wl := e.wl, tick := 0, commit := garbage (m.a % 200) }, { wl := e.wl, tick := 0, commit := garbage (m.a % 200 + 1) }] })
  | "e.p2.dup" => at_ (fun e => { e with parents :=
      [{ wl := e.wl, tick := 0, commit := garbage (m.a % 200) }, { wl := e.wl, tick := 0, commit := garbage (m.a % 200) }] })
  | "e.tick" => at_ (fun e => { e with tick := m.a })
  | "e.wl" => at_ (fun e => { e with wl := otherId })
  | "e.gtick" => at_ (fun e => { e with gtick := m.a })
  | "e.headid" => at_ (fun e => { e with head := e.head.map (fun h => (h.1, otherId)) })
  | "e.headwl" => at_ (fun e => { e with head := e.head.map (fun h => (otherId, h.2)) })
  | "e.nohead" => at_ (fun e => { e with head := none })
  | "e.kind" => at_ (fun e => { e with localKind := false })
  | "e.outs" => at_ (fun e => { e with outputs := e.outputs ++ [(otherId, [UInt8.ofNat m.a])] })
  | "e.aw" => at_ (fun e => { e with atomWrites := e.atomWrites + 1 + m.a })
  | "e.rcpt.drop" => at_ (fun e => { e with receipt := none })
  | "e.rcpt.tx" => at_ (fun e => { e with receipt := e.receipt.map (fun r => (m.a, r.2)) })
  | "e.rcpt.entry" => at_ (fun e => { e with receipt := e.receipt.map (fun r =>
      (r.1, receiptD 0 [(otherId, otherId, otherId, 1 + 2 * (m.a % 2))])) })
  | "e.nopatch" => at_ (fun e => { e with patch := none })
  | "p.digest" => at_ (fun e => mapPatch e (fun p => { p with digest := g }))
  | "p.policy" => at_ (fun e => mapPatch e (fun p => { p with policy := m.a }))
  | "p.rulepack" => at_ (fun e => mapPatch e (fun p => { p with rulePack := otherId + m.a }))
  | "p.plan" => at_ (fun e => mapPatch e (fun p => { p with plan := otherId + m.a }))
  | "p.decision" => at_ (fun e => mapPatch e (fun p => { p with decision := g }))
  | "p.rewrites" => at_ (fun e => mapPatch e (fun p => { p with rewrites := otherId + m.a }))
  | "p.gtick" => at_ (fun e => mapPatch e (fun p => { p with gtick := m.a }))
  | "p.warp" => at_ (fun e => mapPatch e (fun p => { p with warp := otherId }))
  | "p.op.add" => at_ (fun e => mapPatch e (fun p =>
      { p with ops := p.ops ++ [.upsertNode p.warp (otherId + m.a) otherId] }))
  | "p.op.drop" => at_ (fun e => mapPatch e (fun p => { p with ops := p.ops.eraseIdx m.a }))
  | "p.op.rev" => at_ (fun e => mapPatch e (fun p => { p with ops := p.ops.reverse }))
  | "p.op.dup" => at_ (fun e => mapPatch e (fun p => { p with ops := p.ops ++ p.ops.take 1 }))
  | "p.op.ty" => at_ (fun e => mapPatch e (fun p => { p with ops := modifyAt p.ops m.a (fun o =>
      match o with
      | .upsertNode w n ty => .upsertNode w n (ty + 1)
      | .upsertEdge w i s d ty => .upsertEdge w i s d (ty + 1)
      | .setNodeAtt w n (some a) => .setNodeAtt w n (some { a with bytes := a.bytes ++ [0x5A] })
      | .setNodeAtt w n none => .setNodeAtt w n (some { ty := otherId, bytes := [] })
      | .setEdgeAtt w n (some a) => .setEdgeAtt w n (some { a with bytes := a.bytes ++ [0x5A] })
      | .setEdgeAtt w n none => .setEdgeAtt w n (some { ty := otherId, bytes := [] })
      | .deleteNode w n => .deleteNode w (n + 1)
      | .deleteEdge w s i => .deleteEdge w s (i + 1)) }))
  | "p.in.add" => at_ (fun e => mapPatch e (fun p => { p with inSlots := p.inSlots ++ [(1, p.warp, otherId + m.a)] }))
  | "p.out.add" => at_ (fun e => mapPatch e (fun p => { p with outSlots := p.outSlots ++ [(1, p.warp, otherId + m.a)] }))
  | "p.in.drop" => at_ (fun e => mapPatch e (fun p => { p with inSlots := p.inSlots.eraseIdx m.a }))
  | "p.out.drop" => at_ (fun e => mapPatch e (fun p => { p with outSlots := p.outSlots.eraseIdx m.a }))
  | "swap" => match es[m.i]?, es[m.i + 1]? with
    | some x, some y => .ok (modifyAt (modifyAt es m.i (fun _ => y)) (m.i + 1) (fun _ => x))
    | _, _ => .ok es
  | "dup" => match es[m.i]? with
    | some x => .ok (es.take (m.i + 1) ++ [x] ++ es.drop (m.i + 1))
    | none => .ok es
  | "drop" => .ok (es.eraseIdx m.i)
  | "trunc" => .ok (es.take m.i)
  | "none" => .ok es
  | k => .error s!"bad mut {k}"

/-! ### checkpoint tampering (`cpt`): ONE retained field of a `ReplayCheckpoint` altered -/

abbrev A := Art String PMeta

/-- alteration of one `Snapshot` field (of a `tick_history` element or of `last_snapshot`). -/
def snapMut (f : String) (a : Nat) (x : A) : Except String A :=
  let g := garbage a
  match f with
  | "hash" => .ok { x with hash := g }
  | "sroot" => .ok { x with root := g }
  | "parents" => .ok { x with parents := if x.parents.isEmpty then [g] else [] }
  | "plan" => .ok { x with pm := (otherId + a, x.pm.2) }
  | "decision" => .ok { x with pm := (x.pm.1, g, x.pm.2.2) }
  | "rewrites" => .ok { x with pm := (x.pm.1, x.pm.2.1, otherId + a, x.pm.2.2.2) }
  | "pdig" => .ok { x with pdigest := g }
  | "policy" => .ok { x with policy := 7 + a }
  | "tx" => .ok { x with tx := a }
  | "key" => .ok { x with pm := (x.pm.1, x.pm.2.1, x.pm.2.2.1, x.pm.2.2.2.1, 1) }
  | o => .error s!"bad snapshot field {o}"

def rcptMut (f : String) (a : Nat) (x : A) : Except String A :=
  match f with
  | "tx" => .ok { x with rcpt := (a, x.rcpt.2) }
  | "entry" => .ok { x with rcpt := (x.rcpt.1, receiptD 0 [(otherId, otherId, otherId, 1 + 2 * (a % 2))]) }
  | "empty" => .ok { x with rcpt := (x.rcpt.1, receiptD 0 []) }
  | o => .error s!"bad receipt field {o}"

/-- alteration inside the replay patch `WarpTickPatchV1::new(..)` of tick `j` (rebuilt canonically,
    so its digest is consistent) or of its stored digest alone. `p` = the stored patch of entry j. -/
def rpatchMut (f : String) (a : Nat) (warp : Nat) (p : Patch) (x : A) : Except String A :=
  let cp : Patch := { p with ops := canonOps p.ops, inSlots := canonSlots p.inSlots, outSlots := canonSlots p.outSlots }
  let set (d : String) : Except String A := .ok { x with pm := (x.pm.1, x.pm.2.1, x.pm.2.2.1, d, x.pm.2.2.2.2) }
  match f with
  | "policy" => set (patchD { cp with policy := 7 + a })
  | "rulepack" => set (patchD { cp with rulePack := otherId + a })
  | "status" => set (patchDSt 2 cp)
  | "op.add" => set (patchD { cp with ops := cp.ops ++ [.upsertNode warp (otherId + a) otherId] })
  | "op.drop" => set (patchD { cp with ops := cp.ops.eraseIdx a })
  | "in.add" => set (patchD { cp with inSlots := cp.inSlots ++ [(1, warp, otherId + a)] })
  | "out.add" => set (patchD { cp with outSlots := cp.outSlots ++ [(1, warp, otherId + a)] })
  | "in.drop" => set (patchD { cp with inSlots := cp.inSlots.eraseIdx a })
  | "out.drop" => set (patchD { cp with outSlots := cp.outSlots.eraseIdx a })
  | "digest" => set (garbage a)
  | o => .error s!"bad replay-patch field {o}"

def modifyAtE {α : Type} (xs : List α) (i : Nat) (f : α → Except String α) : Except String (List α) :=
  match xs[i]? with
  | none => .ok xs
  | some x => (f x).map (fun y => xs.set i y)

def rootAtt (g : Graph) (a : Nat) : Graph :=
  { g with natt := SMap.insert g.root { ty := otherId, bytes := [UInt8.ofNat a] } g.natt }

/-- One alteration of a retained field of a checkpoint (mirrors `tamper_cp` in harness/src/c07.rs).
    `src` = entries of the history the checkpoint state was replayed from. -/
def tamperCp (src : List E) (c : C) (kind : String) (j a : Nat) : Except String C :=
  let g := garbage a
  let w := c.w
  let setHist (h : List A) : C := { c with w := { w with core := { w.core with hist := h } } }
  let dropPrefix (pre : String) : Option String :=
    if kind.startsWith pre then some ((kind.drop pre.length).toString) else none
  match kind with
  | "none" => .ok c
  | "hash" => .ok { c with hash := g }
  | "g" => .ok { c with w := { w with core := { w.core with g := rootAtt w.core.g a } } }
  | "g.unreach" => .ok { c with w := { w with core := { w.core with
      g := { w.core.g with nodes := SMap.insert (otherId + a) otherId w.core.g.nodes } } } }
  | "s0" => .ok { c with s0 := rootAtt c.s0 a }
  | "warp" => .ok { c with warp := otherId }
  | "rootid" => .ok { c with s0 := { c.s0 with root := otherId }
                             w := { w with core := { w.core with g := { w.core.g with root := otherId } } } }
  | "txc" => .ok { c with w := { w with txc := a } }
  | "lm.add" => .ok { c with w := { w with lastMat := w.lastMat ++ [(otherId, [UInt8.ofNat a])] } }
  | "lm.drop" => .ok { c with w := { w with lastMat := w.lastMat.dropLast } }
  | "lm.data" => .ok { c with w := { w with lastMat := match w.lastMat with
      | [] => []
      | (ch, d) :: rest => (ch, d ++ [UInt8.ofNat a]) :: rest } }
  | "ls.none" => .ok { c with ls := none }
  | "ls.some" => .ok { c with ls := match c.ls with
      | some x => some x
      | none => some { hash := g, root := g, parents := [], pdigest := g, policy := 0, tx := 1,
                       rcpt := (1, receiptD 0 []), pm := (0, g, 0, g, 0) } }
  | "ci" => .ok { c with nIngress := c.nIngress + 1 }
  | "lme" => .ok { c with nErrs := c.nErrs + 1 }
  | "th.drop" => .ok (setHist w.core.hist.dropLast)
  | "th.dup" => .ok (setHist (w.core.hist ++ (match w.core.hist.getLast? with | some x => [x] | none => [])))
  | "th.swap" => match w.core.hist[j]?, w.core.hist[j + 1]? with
    | some x, some y => .ok (setHist ((w.core.hist.set j y).set (j + 1) x))
    | _, _ => .ok c
  | _ =>
    match dropPrefix "ls." with
    | some f => match c.ls with
      | none => .ok c
      | some x => (snapMut f a x).map (fun y => { c with ls := some y })
    | none =>
    match dropPrefix "th.s." with
    | some f => (modifyAtE w.core.hist j (snapMut f a)).map setHist
    | none =>
    match dropPrefix "th.r." with
    | some f => (modifyAtE w.core.hist j (rcptMut f a)).map setHist
    | none =>
    match dropPrefix "th.p." with
    | some f =>
      match (src[j]?).bind (·.patch) with
      | none => .ok c
      | some p => (modifyAtE w.core.hist j (rpatchMut f a c.s0.warp p)).map setHist
    | none => .error s!"bad checkpoint tamper {kind}"

def applyMuts (es : List E) (ms : List Mut) : Except String (List E) :=
  ms.foldl (fun acc m => acc.bind (fun es => applyMut es m)) (.ok es)

end Driver.ChainIO
