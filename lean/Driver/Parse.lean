/- Token-stream parser monad for the line protocol (shared by all stream handlers). -/
import EchoVerif.Model.Basic

namespace Driver
open EchoVerif

abbrev P := StateT (List String) (Except String)

def tok : P String := do
  match (← get) with
  | [] => throw "eol"
  | t :: ts => set ts; pure t

def num : P Nat := do
  let t ← tok
  match t.toNat? with
  | some n => pure n
  | none => throw s!"bad num {t}"

def bytes : P Bytes := do
  let t ← tok
  match hexToBytes? t with
  | some b => pure b
  | none => throw s!"bad hex {t}"

def id32 : P Nat := do
  let t ← tok
  match id32? t with
  | some b => pure b
  | none => throw s!"bad id {t}"

def done : P Unit := do
  match (← get) with
  | [] => pure ()
  | _ => throw "trailing tokens"

def many {α : Type} (p : P α) : Nat → P (List α)
  | 0 => pure []
  | n + 1 => do
    let x ← p
    let xs ← many p n
    pure (x :: xs)

def counted {α : Type} (p : P α) : P (List α) := do
  let n ← num
  many p n

def runP (p : P String) (toks : List String) : String :=
  match p.run toks with
  | .ok (s, _) => s
  | .error e => "bad-case " ++ e.replace " " "_"

end Driver
