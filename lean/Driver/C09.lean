import Driver.Parse
import EchoVerif.Model.Pass

namespace Driver.C09
open EchoVerif EchoVerif.Pass EchoVerif.SMap Driver

inductive Op where
  | ing (wl hid : Nat) (bytes : Bytes) (ingid : Nat) (ticket : Option Nat)
  | pass (k : Option Nat) (kind : String)
  | res (i : Nat)
  | elig (wl hid : Nat) (on : Bool)

def optNum : P (Option Nat) := do
  let t ← tok
  if t = "-" then pure none else
  match t.toNat? with
  | some n => pure (some n)
  | none => throw s!"bad num {t}"

def lit (s : String) : P Unit := do
  let t ← tok
  if t = s then pure () else throw s!"expected {s} got {t}"

def kinds : List String := ["none", "engine", "prov", "overflow", "unkwl", "corr", "panic"]

def op : P Op := do
  let t ← tok
  match t with
  | "ing" =>
    let wl ← num; let hid ← num; let b ← bytes; let ingid ← id32; let tk ← optNum
    pure (.ing wl hid b ingid tk)
  | "pass" =>
    let k ← optNum; let kind ← tok
    if kinds.contains kind then pure (.pass k kind) else throw s!"bad kind {kind}"
  | "res" => do let i ← num; pure (.res i)
  | "elig" => do let wl ← num; let hid ← num; let on ← num; pure (.elig wl hid (on != 0))
  | o => throw s!"bad op {o}"

def failOf : String → Option Fail
  | "engine" => some (.err .engine)
  | "prov" => some (.err .prov)
  | "overflow" => some (.err .overflow)
  | "unkwl" => some (.err .unkwl)
  | "corr" => some (.err .corr)
  | "panic" => some .panic
  | _ => none

def errName : ErrKind → String
  | .engine => "engine" | .prov => "prov" | .overflow => "overflow" | .unkwl => "unkwl"
  | .unkhead => "unkhead" | .corr => "corr" | .goverflow => "goverflow" | .rtfault => "rtfault"

def keyName (k : HeadKey) : String := s!"{k.1}:{k.2}"

def scopeName : Scope → String
  | .head k => "h" ++ keyName k
  | .runtime => "rt"

def basisCount (m : SMap Basis (SMap Target Unit)) : Nat :=
  m.foldl (fun n p => n + p.2.length) 0

def dashIfEmpty (s : String) : String := if s.isEmpty then "-" else s

def summary (wlOrder : List Nat) (rt : Runtime) (pv : Prov) : String :=
  let hs := rt.heads.map (fun (k, h) => s!" h{keyName k}={h.pending.length}")
  let ws := wlOrder.map (fun w =>
    let tick := match find? w rt.frontiers with | some f => f.tick | none => 0
    let com := match find? w rt.frontiers with | some f => f.committed.length | none => 0
    let plen := match find? w pv.wls with | some p => p.entries.length | none => 0
    s!" w{w}={tick}/{plen}/{com}")
  let st := String.ofList (rt.faults.records.map (fun r => if r.active then 'a' else 'r'))
  let fh := ",".intercalate (rt.faults.faultedHeads.map (fun p => keyName p.1))
  s!"g={rt.gtick}" ++ String.join hs ++ String.join ws
    ++ s!" corr.tid={rt.corr.byTid.length} corr.sub={rt.corr.bySub.length}"
    ++ s!" corr.ticket={rt.corr.byTicket.length} corr.ref={rt.corr.byRef.length}"
    ++ s!" corr.basis={basisCount rt.corr.byBasis} pendsubs={rt.corr.pendingSubs.length}"
    ++ s!" subs={rt.subs.length} ticketed={rt.ticketed.length}"
    ++ s!" faults={rt.faults.records.length}:{dashIfEmpty st} fh={dashIfEmpty fh}"
    ++ s!" rf={if rt.faults.runtimeFault.isSome then 1 else 0}"

/-- names of the fingerprint components that differ, in the order the harness sorts them -/
def changed (a : Runtime × Prov) (b : Runtime × Prov) : List String :=
  let (ra, pa) := a
  let (rb, pb) := b
  let c (n : String) (d : Bool) : List String := if d then [n] else []
  let keysOf {ν : Type} (x y : SMap Nat ν) : List Nat :=
    (x.map (·.1) ++ (y.map (·.1)).filter (fun k => !(x.map (·.1)).contains k)).mergeSort (· ≤ ·)
  let hkeys : List HeadKey :=
    let xs := ra.heads.map (·.1)
    let ys := (rb.heads.map (·.1)).filter (fun k => !xs.contains k)
    (xs ++ ys).mergeSort (fun p q => p.1 < q.1 || (p.1 == q.1 && p.2 ≤ q.2))
  c "corr.basis" (ra.corr.byBasis != rb.corr.byBasis)
  ++ c "corr.ref" (ra.corr.byRef != rb.corr.byRef)
  ++ c "corr.sub" (ra.corr.bySub != rb.corr.bySub)
  ++ c "corr.ticket" (ra.corr.byTicket != rb.corr.byTicket)
  ++ c "corr.tid" (ra.corr.byTid != rb.corr.byTid)
  ++ (keysOf ra.frontiers rb.frontiers).flatMap (fun w =>
        c s!"front.{w}" (find? w ra.frontiers != find? w rb.frontiers))
  ++ c "gtick" (ra.gtick != rb.gtick)
  ++ hkeys.flatMap (fun k => c s!"head.{keyName k}" (find? k ra.heads != find? k rb.heads))
  ++ c "pendsubs" (ra.corr.pendingSubs != rb.corr.pendingSubs)
  ++ (keysOf pa.wls pb.wls).flatMap (fun w => c s!"prov.{w}" (find? w pa.wls != find? w pb.wls))
  ++ c "prov.shells" (pa.shells != pb.shells || pa.plural != pb.plural)
  ++ c "subs" (ra.subs != rb.subs)
  ++ c "ticketed" (ra.ticketed != rb.ticketed)

def ingName : IngOut → String
  | .accepted => "acc" | .duplicate => "dup" | .staged => "staged" | .ticketDup => "tdup"
  | .unkHead => "e:unkhead" | .unkSub => "e:unksub" | .alreadyStaged => "e:staged2"
  | .dupIngress => "e:dupingress"

def emptyCorr : Corr :=
  { byTid := [], bySub := [], byTicket := [], byRef := [], byBasis := [], pendingSubs := [] }

def runOps (wlOrder : List Nat) : List Op → Runtime → Prov → List String → List String
  | [], rt, pv, out => out ++ [s!"end [{summary wlOrder rt pv}]"]
  | o :: ops, rt, pv, out =>
    match o with
    | .ing wl hid b ingid tk =>
      let cls := match b with | [] => 0 | x :: _ => x.toNat
      let (r, rt') := match tk with
        | none => ingest (wl, hid) ingid cls rt
        | some t => ingestTicketed (wl, hid) ingid cls t rt
      runOps wlOrder ops rt' pv (out ++ [ingName r])
    | .elig wl hid on =>
      match setEligibility (wl, hid) on rt with
      | some rt' => runOps wlOrder ops rt' pv (out ++ ["ok"])
      | none => runOps wlOrder ops rt pv (out ++ ["e:unkhead"])
    | .res i =>
      let (r, fs) := resolve i rt.faults
      let name := match r with | .ok => "ok" | .noFault => "nofault" | .alreadyResolved => "e:resolved"
      runOps wlOrder ops (withFaults rt fs) pv (out ++ [name])
    | .pass k kind =>
      let inj : Option (Nat × Fail) := match k, failOf kind with
        | some k, some f => some (k, f)
        | _, _ => none
      let (o, rt', pv') := pass inj rt pv
      let newScopes := (rt'.faults.records.drop rt.faults.records.length).map (fun r => scopeName r.scope)
      let scope := " scope=" ++ dashNone (",".intercalate newScopes)
      let head := match o with
        | .ok recs =>
          s!"ok n={recs.length}" ++ String.join (recs.map (fun (r : Step) =>
            s!" {keyName r.head}:{r.tickAfter}:{r.gtick}:{r.admitted}:{r.rejected}"))
        | .err e => "err " ++ errName e ++ scope
        | .panic => "panic" ++ scope
      let ch := dashIfEmpty (",".intercalate (changed (rt, pv) (rt', pv')))
      runOps wlOrder ops rt' pv' (out ++ [s!"{head} chg={ch} [{summary wlOrder rt' pv'}]"])
where
  dashNone (s : String) : String := if s.isEmpty then "none" else s

def passCase : P String := do
  lit "W"
  let wls ← counted (do let w ← num; let b ← num; let t ← optNum; pure (w, b != 0, t))
  lit "H"
  let hs ← counted (do let w ← num; let h ← num; let p ← num; let b ← optNum; pure (w, h, p != 0, b))
  lit "G"
  let g ← optNum
  lit "O"
  let ops ← counted op
  done
  -- register worldlines, then heads (a head on an unregistered worldline / a duplicate is a bad case)
  let frontiers : SMap Nat Frontier := wls.foldl (fun m (w, b, t) =>
    insert w { tick := (match t with | some t => t | none => 0), broken := b, hist := [], committed := [] } m) []
  if frontiers.length != wls.length then throw "wl: other"
  let heads : SMap HeadKey Head := hs.foldl (fun m (w, h, p, b) =>
    insert (w, h) { paused := p, admitted := true, budget := b, pending := [] } m) []
  if heads.length != hs.length then throw "head: other"
  if hs.any (fun (w, _, _, _) => !(contains w frontiers)) then throw "head: unkwl"
  let rt : Runtime :=
    { heads := heads, frontiers := frontiers, gtick := (match g with | some g => g | none => 0)
      subs := [], ticketed := [], corr := emptyCorr
      faults := { records := [], faultedHeads := [], runtimeFault := none, nextGen := 0 } }
  let pv : Prov :=
    { wls := wls.foldl (fun m (w, _, _) => insert w { entries := [], checkpoints := [] } m) []
      shells := [], plural := [] }
  pure (" | ".intercalate (runOps (wls.map (·.1)) ops rt pv []))

def handlers : List (String × (List String → String)) :=
  [("C09.pass", runP passCase)]

end Driver.C09
