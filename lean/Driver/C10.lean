import Driver.Parse
import Driver.Blake3
import EchoVerif.Model.WalDurable
import EchoVerif.Generated.WalTables

namespace Driver.C10
open EchoVerif EchoVerif.Wal Driver
open EchoVerif.Generated

/-- the model configuration, instantiated from the tables extracted from causal_wal.rs -/
def cfg : Cfg where
  magic := WalTables.magic
  diskDomain := WalTables.diskDomain
  frameDomain := WalTables.frameDomain
  payloadDomain := WalTables.payloadDomain
  recordsRootDomain := WalTables.recordsRootDomain
  frontiersRootDomain := WalTables.frontiersRootDomain
  commitDomain := WalTables.commitDomain
  headerChecksumDomain := WalTables.headerChecksumDomain
  frameChecksumDomain := WalTables.frameChecksumDomain
  segmentDomain := "echo:causal_wal:segment:v1".toUTF8.toList ++ [0]
  frameTag := WalTables.frameTag
  commitTag := WalTables.commitTag
  walVersion := WalTables.walVersion
  label := fun c => (WalTables.recordKinds.find? (fun e => e.1 == c)).map (fun e => e.2.toUTF8.toList)
  txKindOk := fun c => WalTables.txKindCodes.contains c
  durabilityOk := fun c => WalTables.durabilityCodes.contains c
  compressionOk := fun c => WalTables.compressionCodes.contains c
  redactionOk := fun c => WalTables.redactionCodes.contains c

def H : HashFn := Driver.Blake3.hash

def vErr : VErr → String
  | .recordKind => "recordKind" | .payloadDigest => "payloadDigest" | .headerChecksum => "headerChecksum"
  | .frameChecksum => "frameChecksum" | .empty => "empty" | .txId => "txId" | .epoch => "epoch"
  | .localIndex => "localIndex" | .lsnContinuity => "lsnContinuity" | .firstLsn => "firstLsn"
  | .lastLsn => "lastLsn" | .recordCount => "recordCount" | .recordsRoot => "recordsRoot"
  | .commitDigest => "commitDigest"

def rErr : RErr → String
  | .validation v => "valid." ++ vErr v
  | .digest => "store.digest"
  | .unknownKind k => s!"store.kind.{k}"
  | .decode .eof => "decode.eof"
  | .decode .trailing => "decode.trailing"
  | .decode (.enumCode n c) => s!"decode.enum.{n}.{c}"
  | .decode .embedded => "decode.embedded"
  | .segment e a => s!"store.segment.{e}.{a}"

def tailTok : Tail → String
  | .clean => "C" | .truncatedAll => "TALL" | .truncatedAfter l => s!"TA{l}"
  | .wouldTruncateAll => "WALL" | .wouldTruncateAfter l => s!"WA{l}"

def modeP : P Mode := do
  let t ← tok
  match t with
  | "w" => pure .writable
  | "r" => pure .readOnly
  | o => throw s!"bad mode {o}"

def hash32 : P Bytes := do
  let b ← bytes
  if b.length = 32 then pure b else throw "hash not 32 bytes"

/-- short form: `k:frames:tail:last-commit-digest-prefix` -/
def shortReport (r : Report) : String :=
  let nf := (r.txs.map (fun t => t.frames.length)).foldl (· + ·) 0
  let last := match r.txs.getLast? with
    | some t => bytesToHex (t.commit.commitDigest.take 4)
    | none => "-"
  s!"{r.txs.length}:{nf}:{tailTok r.tail}:{last}"

/-- long form: every recovered transaction by commit digest, tx id prefix, LSN range, frame count -/
def longReport (r : Report) : String :=
  let txs := r.txs.map (fun t =>
    s!" {bytesToHex (t.commit.commitDigest.take 8)}/{bytesToHex (t.commit.txId.take 4)}/{t.commit.firstLsn}-{t.commit.lastLsn}/{t.frames.length}")
  s!"n={r.txs.length} tail={tailTok r.tail}" ++ String.join txs

structure Spec where
  params : BuildParams
  chain : Bool
  pf : Bytes
  pc : Bytes
  firstLsn : Nat
  txs : List (Bytes × Nat × List (Nat × Bytes) × List (Nat × Bytes × Bytes))

def specP : P Spec := do
  let writerEpoch ← hash32
  let segmentId ← num
  let codecId ← hash32
  let schemaId ← hash32
  let schemaVersion ← num
  let encodingVersion ← num
  let digestDomain ← hash32
  let durability ← num
  let chain ← num
  let pf ← hash32
  let pc ← hash32
  let firstLsn ← num
  let txs ← counted (do
    let txid ← hash32
    let kind ← num
    let recs ← counted (do let k ← num; let b ← bytes; pure (k, b))
    let frs ← counted (do let k ← num; let b ← hash32; let a ← hash32; pure (k, b, a))
    pure (txid, kind, recs, frs))
  pure { params := { writerEpoch, segmentId, codecId, schemaId, schemaVersion, encodingVersion,
                     digestDomain, durability },
         chain := chain == 1, pf, pc, firstLsn, txs }

/-- run the model writer (`Wal.buildLog`) over the spec -/
def buildLog (s : Spec) : Except String (List Tx) := do
  let mut specs : List TxSpec := []
  for (txid, kind, recs, frs) in s.txs do
    let mut krecs : List (Kind × Bytes) := []
    for (k, b) in recs do
      match cfg.label k with
      | some l => krecs := krecs ++ [(⟨k, l⟩, b)]
      | none => throw s!"unknown record kind {k}"
    if krecs.isEmpty then throw "empty transaction"
    specs := specs ++ [{ txId := txid, txKind := kind, records := krecs, frontiers := frontiersRoot cfg H frs }]
  pure (Wal.buildLog cfg H s.params s.chain s.firstLsn s.pf s.pc specs)

/-- end offsets of every disk record of the log -/
def recordEnds (txs : List Tx) : List Nat := Id.run do
  let mut ends : List Nat := []
  let mut off := 0
  for t in txs do
    for f in t.frames do
      off := off + (encRec cfg H (UInt8.ofNat cfg.frameTag) (encodeFrame f)).length
      ends := ends ++ [off]
    off := off + (encRec cfg H (UInt8.ofNat cfg.commitTag) (encodeCommit t.commit)).length
    ends := ends ++ [off]
  return ends

def cutSet (len stride : Nat) (ends : List Nat) : List Nat :=
  let strideCuts := if stride = 0 then [] else (List.range (len / stride + 1)).map (· * stride)
  let nearEnds := ends.flatMap (fun e => [e - 1, e, e + 1])
  let all := (0 :: len :: strideCuts ++ nearEnds).filter (· ≤ len)
  (all.toArray.qsort (· < ·)).toList.eraseDups

def rle (xs : List (Nat × String)) : String := Id.run do
  let mut out := ""
  let mut cur : Option (Nat × Nat × String) := none
  for (m, r) in xs do
    match cur with
    | some (a, b, r0) =>
      if r0 == r then cur := some (a, m, r0)
      else
        out := out ++ s!" {a}-{b}={r0}"
        cur := some (m, m, r)
    | none => cur := some (m, m, r)
  match cur with
  | some (a, b, r0) => out := out ++ s!" {a}-{b}={r0}"
  | none => pure ()
  return out

def cut : P String := do
  let mode ← modeP
  let stride ← num
  let s ← specP
  done
  match buildLog s with
  | .error e => throw e
  | .ok txs =>
    let b := encLog cfg H txs
    let cuts := cutSet b.length stride (recordEnds txs)
    let res := cuts.map (fun m =>
      (m, match recoverSegmentBytesT cfg H s.params.segmentId (b.take m) mode with
          | .ok (_, r) => shortReport r
          | .error e => "E" ++ rErr e))
    pure (s!"len={b.length} dig {(HExpr.h [.raw b]).render} cuts={cuts.length} ;" ++ rle res)

def recoverBytes : P String := do
  let mode ← modeP
  let seg ← num
  let b ← bytes
  done
  match recoverSegmentBytesT cfg H seg b mode with
  | .ok (d, r) => pure (s!"ok seg={bytesToHex (d.take 8)} " ++ longReport r)
  | .error e => pure ("err " ++ rErr e)

def fs : P String := do
  let b ← bytes
  done
  match afterWritableRecoveryT cfg H b with
  | .error e => pure ("err " ++ rErr e)
  | .ok (r1, b2) =>
    let second := match recoverFilesystemT cfg H b2 .writable with
      | .ok r2 => longReport r2
      | .error e => "err " ++ rErr e
    pure (s!"r1: {longReport r1} ; file {b2.length} {(HExpr.h [.raw b2]).render} ; r2: {second}")

/-- end offsets of whole disk records, walking only the length fields (as the harness does) -/
partial def walkEnds (b : Bytes) (off : Nat) (acc : List Nat) : List Nat :=
  let rest := b.drop off
  if rest.length < 17 then acc
  else
    let len := leNat ((rest.drop 9).take 8)
    let e := off + 17 + len + 32
    if e ≤ b.length then walkEnds b e (acc ++ [e]) else acc

/-- writable recovery rewrites the segment (truncation); then the process is assumed to stop at a
    record boundary (or one byte either side) of the REWRITTEN file -/
def rewrite : P String := do
  let b ← bytes
  done
  match afterWritableRecoveryT cfg H b with
  | .error e => pure ("err " ++ rErr e)
  | .ok (r1, b2) =>
    let cuts := cutSet b2.length 0 (walkEnds b2 0 [])
    let res := cuts.map (fun m =>
      (m, match recoverFilesystemT cfg H (b2.take m) .readOnly with
          | .ok r => shortReport r
          | .error e => "E" ++ rErr e))
    pure (s!"r1: {shortReport r1} ; file {b2.length} {(HExpr.h [.raw b2]).render} ;" ++ rle res)

def blake3 : P String := do
  let b ← bytes
  done
  pure (bytesToHex (H b))

/-! ### C10.host: the abstract host model (`Wal.Host`) on an op list; envelope i ↦ sid i, receipt 100+i,
    state root 200+i (the real values are digests; both sides print envelope indices only) -/

open EchoVerif.Wal.Host in
def hostView (h : Host.Host) : String :=
  let c := h.disk.committed
  let acc := (List.range 3).filter (fun i => (accIndex c).lookup i |>.isSome)
  let out := (List.range 3).filter (fun i => (ticksOf c).lookup i |>.isSome)
  s!"R[acc={",".intercalate (acc.map toString)};out={",".intercalate (out.map toString)}]"

def hostFault (s : String) : Except String Host.Fault :=
  match s with
  | "" => .ok .none | "a" => .ok .appendFrame | "f" => .ok .flushCommit | "m" => .ok .markerSynced
  | o => .error s!"bad fault {o}"

def respTok : Host.Resp → String
  | .ackNew _ _ => "ackNew" | .ackDup _ _ => "ackDup" | .outcome _ _ _ => "out" | .err => "err" | .idle => "idle"

open EchoVerif.Wal.Host in
def host : P String := do
  let ops ← counted tok
  done
  let mut h : Host.Host := Host.init
  let mut out : List String := []
  for o in ops do
    if o == "k" then
      h := Host.restart h
      out := out ++ [hostView h]
    else
      let parts := o.splitOn ":"
      let head := parts.headD ""
      let f ← match hostFault ((parts.drop 1).headD "") with
        | .ok f => pure f
        | .error e => throw e
      let i ← match (head.drop 1).toNat? with
        | some i => pure i
        | none => throw s!"bad op {o}"
      let states := if head.startsWith "s" then Host.submitStates id h i f else Host.tickStates h i (100 + i) (200 + i) f
      h := Host.lastState h states
      out := out ++ [match h.resps.head? with | some r => respTok r | none => "?"]
  h := Host.restart h
  out := out ++ [hostView h]
  pure (" ".intercalate out)

def hostx : P String := do
  let _ ← counted tok
  done
  pure "-"

def handlers : List (String × (List String → String)) :=
  [("C10.blake3", runP blake3), ("C10.cut", runP cut), ("C10.bytes", runP recoverBytes), ("C10.fs", runP fs),
   ("C10.rewrite", runP rewrite), ("C10.host", runP host), ("C10.hostx", runP hostx)]

end Driver.C10
