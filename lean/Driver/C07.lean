import Driver.ChainIO

namespace Driver.C07
open EchoVerif EchoVerif.Chain EchoVerif.ChainGraph Driver Driver.ChainIO

inductive SOp where
  | seek (t : Nat)
  | mode (m : Mode)
  | pin (p : Nat)
  | step
  | fresh (reader : Bool) (pin : Nat)
  | cp (claim stateTick hashKind : Nat)
  | cpo (claim stateTick hashKind : Nat)
  | cpt (claim stateTick : Nat) (kind : String) (j a : Nat)
  | fork (k : Nat)
  | replay (t : Nat)
  | ext (j : Nat)

def sop : P SOp := do
  let k ← tok
  match k with
  | "seek" => do let t ← num; pure (.seek t)
  | "mode" => do
    let m ← tok
    match m with
    | "paused" => pure (.mode .paused)
    | "play" => pure (.mode .play)
    | "fwd" => pure (.mode .stepForward)
    | "back" => pure (.mode .stepBack)
    | o => throw s!"bad mode {o}"
  | "modeseek" => do let t ← num; let b ← num; pure (.mode (.seek t (b != 0)))
  | "pin" => do let p ← num; pure (.pin p)
  | "step" => pure .step
  | "new" => do
    let r ← tok
    let p ← num
    pure (.fresh (r == "r") p)
  | "cp" => do let c ← num; let s ← num; let hk ← num; pure (.cp c s hk)
  | "cpo" => do let c ← num; let s ← num; let hk ← num; pure (.cpo c s hk)
  | "cpt" => do let c ← num; let s ← num; let k ← tok; let j ← num; let a ← num; pure (.cpt c s k j a)
  | "fork" => do let k ← num; pure (.fork k)
  | "replay" => do let t ← num; pure (.replay t)
  | "ext" => do let j ← num; pure (.ext j)
  | o => throw s!"bad sop {o}"

structure St where
  pv : PV
  wl : Nat
  cur : Cur
  nforks : Nat

def emptyHist : H := { u0 := 0, boundary := "", entries := [], cps := [] }

def curHist (st : St) : H := (st.pv.get st.wl).getD emptyHist

def stepTok : StepResult → String
  | .noOp => "noop"
  | .advanced => "advanced"
  | .seeked => "seeked"
  | .reachedFrontier => "frontier"

def addCp (base : Base Graph) (st : St) (src : H) (claim stateTick hashKind : Nat) : St × String :=
  let h := curHist st
  match replayAt sem { src with cps := [] } base stateTick with
  | .error e => (st, "cp-src:" ++ errTok e)
  | .ok w =>
    let hash : String := match hashKind with
      | 0 => rootD w.core.g
      | 1 => match expectedRootAt h claim with
        | .ok d => d
        | .error _ => garbage 1
      | _ => garbage 2
    let c : C := { Cp.ofState sem base claim w with hash := hash }
    match addCheckpoint sem h c with
    | .error e => (st, "cp-" ++ errTok e)
    | .ok h' => ({ st with pv := st.pv.set st.wl h' }, "cp-ok")

/-- `cpt`: the state replayed from the unaltered history at `stateTick`, packaged as a checkpoint
    claiming tick `claim`, with ONE retained field altered, handed to `add_checkpoint`. -/
def addCpt (base : Base Graph) (st : St) (orig : H) (claim stateTick : Nat) (kind : String) (j a : Nat) :
    St × String :=
  let h := curHist st
  match replayAt sem { orig with cps := [] } base stateTick with
  | .error e => (st, "cp-src:" ++ errTok e)
  | .ok w =>
    match tamperCp orig.entries (Cp.ofState sem base claim w) kind j a with
    | .error e => (st, "cpt-bad:" ++ e)
    | .ok c =>
      match addCheckpoint sem h c with
      | .error e => (st, "cp-" ++ errTok e)
      | .ok h' => ({ st with pv := st.pv.set st.wl h' }, "cp-ok")

def runSOp (hs : HistSpec) (orig : H) (base : Base Graph) (st : St) : SOp → St × String
  | .seek t =>
    let h := curHist st
    let (c, e) := seekTo sem h base st.cur t
    ({ st with cur := c },
     (match e with | none => "ok" | some x => errTok x) ++ s!"@{c.tick} " ++ wTok h.boundary h.entries c.w)
  | .mode m => ({ st with cur := { st.cur with mode := m } }, "set")
  | .pin p => ({ st with cur := { st.cur with pin := p } }, "set")
  | .step =>
    let h := curHist st
    let (c, r) := stepCursor sem h base st.cur
    ({ st with cur := c },
     (match r with | .ok x => stepTok x | .error x => errTok x) ++ s!"@{c.tick} " ++ wTok h.boundary h.entries c.w)
  | .fresh reader pin => ({ st with cur := Cursor.fresh sem base reader pin }, "new")
  | .cp claim stateTick hashKind => addCp base st (curHist st) claim stateTick hashKind
  | .cpo claim stateTick hashKind => addCp base st orig claim stateTick hashKind
  | .cpt claim stateTick kind j a => addCpt base st orig claim stateTick kind j a
  | .fork k =>
    let h := curHist st
    let new := 0xF0 + st.nforks
    match forkHist h st.wl new k with
    | .error e => (st, "fork-" ++ errTok e)
    | .ok h' =>
      ({ pv := st.pv.set new h', wl := new, nforks := st.nforks + 1
         cur := Cursor.fresh sem base true h'.entries.length },
       s!"fork-ok:{h'.entries.length}")
  | .replay t =>
    let h := curHist st
    match replayAt sem h base t with
    | .error e => (st, errTok e)
    | .ok w => (st, "ok " ++ wTok h.boundary h.entries w)
  | .ext j =>
    -- commit a copy of tick spec `j` on top of the current worldline's tip
    let h := curHist st
    match hs.ticks[j]? with
    | none => (st, "ext-none")
    | some ts =>
      match replayAt sem { h with cps := [] } base h.entries.length with
      | .error e => (st, "ext-src:" ++ errTok e)
      | .ok w =>
        let ts := { ts with rcpt := ts.rcpt.map (fun r => (h.entries.length + 1, r.2)) }
        let (e, _) := mkEntry hs.base.warp st.wl h.entries.length ts w.core.g (tipRef st.wl h.entries)
        match appendLocal sem ltD st.pv e with
        | .error err => (st, "ext-" ++ errTok err)
        | .ok pv' => ({ st with pv := pv' }, s!"ext-ok:{h.entries.length + 1}")

def seek : P String := do
  let hs ← histSpec
  let ms ← counted mutP
  let ops ← counted sop
  done
  let (es0, _) := honest hs
  match applyMuts es0 ms with
  | .error e => throw e
  | .ok es =>
    let base : Base Graph := { warp := hs.base.warp, s0 := hs.base }
    let (pv, n, aerr) := buildProv hs.wl hs.base.warp (rootD hs.base) es
    let h0 : H := (pv.get hs.wl).getD emptyHist
    let orig : H := ((buildProv hs.wl hs.base.warp (rootD hs.base) es0).1.get hs.wl).getD emptyHist
    let tip := match h0.entries.getLast? with
      | some e => e.expCommit
      | none => "-"
    let st0 : St := { pv, wl := hs.wl, cur := Cursor.fresh sem base true h0.entries.length, nforks := 0 }
    let (_, outs) := ops.foldl (fun (acc : St × List String) o =>
      let (st', s) := runSOp hs orig base acc.1 o
      (st', acc.2 ++ [s])) (st0, [])
    pure (s!"built={n} app=" ++ (match aerr with | none => "ok" | some e => errTok e)
      ++ " tip " ++ tip ++ " r0 " ++ rootD hs.base
      ++ String.join (outs.map (fun s => " ; " ++ s)))

def handlers : List (String × (List String → String)) :=
  [("C07.seek", runP seek)]

/-- The C05 stream uses the same case language (history + mutations + probes). -/
def chainHandler : List String → String := runP seek

end Driver.C07
