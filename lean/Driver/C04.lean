import Driver.GraphIO
import Driver.C01
import EchoVerif.Model.Patch

namespace Driver.C04
open EchoVerif EchoVerif.Graph EchoVerif.Exec EchoVerif.Tick Driver Driver.GraphIO

/-- `ok <state>` | `err <class> partial <state>`: the state left in the `&mut` target and the result. -/
def resStr : WState × Option Err → String
  | (c, none) => s!"ok {stateStr c}"
  | (c, some e) => s!"err {errStr e} partial {stateStr c}"

/-- digest of `WarpTickPatchV1::new(0, [0;32], Committed, [], [], ops)` as a pre-image expression -/
def bareDigest (l : List Op) : String := (Patch.new 0 0 1 [] [] l).digest.render

def pair : P String := do
  let a ← state
  let b ← state
  done
  let l := diffState a b
  pure s!"ops {opsStr l} ; digest {bareDigest l} ; {resStr (applyInPlace a false l)}"

def apply : P String := do
  let a ← state
  let l ← ops
  done
  pure (resStr (applyInPlace a false l))

/-- slot := `N w i` | `E w i` | `A <key>` | `P w <num>` -/
def slot : P Slot := do
  let t ← tok
  match t with
  | "N" => do let w ← id32; let i ← id32; pure (.node w i)
  | "E" => do let w ← id32; let i ← id32; pure (.edge w i)
  | "A" => do let k ← key; pure (.att k)
  | "P" => do let w ← id32; let p ← num; pure (.port w p)
  | x => throw s!"bad slot tag {x}"

def slotStr : Slot → String
  | .node w i => s!"N {id32Tok w} {id32Tok i}"
  | .edge w i => s!"E {id32Tok w} {id32Tok i}"
  | .att k => s!"A {keyStr k}"
  | .port w p => s!"P {id32Tok w} {p}"

def slotsStr (l : List Slot) : String :=
  toString l.length ++ String.join (l.map (fun s => " " ++ slotStr s))

/-- `C04.patch <policy> <rulepack> <status> <n in-slots…> <n out-slots…> <n ops…>` : `WarpTickPatchV1::new`. -/
def patch : P String := do
  let policy ← num
  let rp ← id32
  let status ← num
  let ins ← counted slot
  let outs ← counted slot
  let l ← ops
  done
  if status != 1 && status != 2 then throw "bad status"
  if policy ≥ 4294967296 then throw "policy out of range"
  let p := Patch.new policy rp status ins outs l
  pure s!"ops {opsStr p.ops} ; ins {slotsStr p.inSlots} ; outs {slotsStr p.outSlots} ; digest {p.digest.render}"

/-- `C04.tick`: a C01 tick case; the emitted patch is replayed in place on the pre-state. -/
def tickLine : P String := do
  let pre ← state
  let _rw ← id32
  let _rn ← id32
  let kind ← tok
  let radix ← (match kind with
    | "radix" => pure true
    | "legacy" => pure false
    | x => throw s!"bad scheduler kind {x}" : P Bool)
  let _workers ← num
  let cands ← counted Driver.C01.cand
  done
  let (_, res) := tick Driver.C01.tickCfg (Driver.C01.progOf pre) pre radix cands
  match res with
  | .error f => pure s!"tick {Driver.C01.failStr f}"
  | .ok s =>
    pure s!"tick ok ; patch {opsStr s.patch} ; digest {bareDigest s.patch} ; post {stateStr s.post} ; replay {resStr (applyInPlace pre false s.patch)}"

def handlers : List (String × (List String → String)) :=
  [("C04.pair", runP pair), ("C04.apply", runP apply), ("C04.patch", runP patch), ("C04.tick", runP tickLine)]

end Driver.C04
