import Driver.GraphIO
import EchoVerif.Model.Diff

namespace Driver.C04
open EchoVerif EchoVerif.Graph Driver Driver.GraphIO

def pair : P String := do
  let a ← state
  let b ← state
  done
  let l := diffState a b
  match applyOps a l with
  | .ok c => pure s!"ops {opsStr l} ; ok {stateStr c}"
  | .error e => pure s!"ops {opsStr l} ; err {errStr e}"

def apply : P String := do
  let a ← state
  let l ← ops
  done
  match applyOps a l with
  | .ok c => pure s!"ok {stateStr c}"
  | .error e => pure s!"err {errStr e}"

def handlers : List (String × (List String → String)) :=
  [("C04.pair", runP pair), ("C04.apply", runP apply)]

end Driver.C04
