import Driver.GraphIO
import EchoVerif.Model.Guard
import EchoVerif.Model.Exec

namespace Driver.C14
open EchoVerif EchoVerif.Graph EchoVerif.Generated EchoVerif.Guard Driver Driver.GraphIO

def pairs (kw : String) : P (List (Nat × Nat)) := do
  expect kw
  counted (do let w ← id32; let i ← id32; pure (w, i))

def keys (kw : String) : P (List AttKey) := do
  expect kw
  counted key

def fp : P Footprint := do
  expect "fp"
  let nRead ← pairs "nr"
  let nWrite ← pairs "nw"
  let eRead ← pairs "er"
  let eWrite ← pairs "ew"
  let aRead ← keys "ar"
  let aWrite ← keys "aw"
  pure { nRead, nWrite, eRead, eWrite, aRead, aWrite }

def readTag? (tag : String) : Option Accessor :=
  match tag with
  | "RN" => some .node
  | "RA" => some .adj
  | "RNA" => some .nodeAtt
  | "REA" => some .edgeAtt
  | "HE" => some .hasEdge
  | _ => none

def instr : P Instr := do
  let tag ← tok
  match readTag? tag with
  | some a => do let i ← id32; pure (.read ⟨a, i⟩)
  | none =>
    match tag with
    | "EM" => do let o ← op; pure (.emit o)
    | "EI" => do
      let c ← tok
      let i ← id32
      let o ← op
      match c with
      | "N" => pure (.emitIf (.nodeExists i) o)
      | "E" => pure (.emitIf (.hasEdge i) o)
      | x => throw s!"bad cond {x}"
    | "PANIC" => pure .panic
    | x => throw s!"bad instr {x}"

def vkindStr : VKind → String
  | .nodeRead i => s!"NodeReadNotDeclared {id32Tok i}"
  | .edgeRead i => s!"EdgeReadNotDeclared {id32Tok i}"
  | .attRead k => s!"AttachmentReadNotDeclared {keyStr k}"
  | .nodeWrite i => s!"NodeWriteNotDeclared {id32Tok i}"
  | .edgeWrite i => s!"EdgeWriteNotDeclared {id32Tok i}"
  | .attWrite k => s!"AttachmentWriteNotDeclared {keyStr k}"
  | .crossWarp w => s!"CrossWarpEmission {id32Tok w}"
  | .unauthorizedInstanceOp => "UnauthorizedInstanceOp"
  | .opWarpUnknown => "OpWarpUnknown"

def violationStr (v : Violation) : String := s!"violation {vkindStr v.kind} {v.opKind}"

/-! ### C14.targets -/

def locStr : Loc → String
  | .node w i => s!"N {id32Tok w} {id32Tok i}"
  | .adj w i => s!"A {id32Tok w} {id32Tok i}"
  | .edge w i => s!"E {id32Tok w} {id32Tok i}"
  | .natt w i => s!"NA {id32Tok w} {id32Tok i}"
  | .eatt w i => s!"EA {id32Tok w} {id32Tok i}"

def storeOf (s : WState) (w : Nat) : Store :=
  match s.store? w with | some st => st | none => Store.empty

def dedupSorted : List Nat → List Nat
  | a :: b :: rest => if a == b then dedupSorted (b :: rest) else a :: dedupSorted (b :: rest)
  | l => l

def sortNat (l : List Nat) : List Nat := dedupSorted (l.toArray.qsort (· < ·)).toList

def adjOf (st : Store) (n : Nat) : List (Nat × EdgeRec) := st.edges.filter (fun (_, e) => e.src == n)

/-- Changed observable locations, in the harness's order: kind (N, A, E, NA, EA), warp, id. -/
def changedLocs (a b : WState) : List Loc :=
  let warps := sortNat (a.stores.map (·.1) ++ b.stores.map (·.1))
  let per (f : Nat → Store → Store → List Loc) : List Loc :=
    warps.flatMap (fun w => f w (storeOf a w) (storeOf b w))
  per (fun w x y =>
      (sortNat (x.nodes.map (·.1) ++ y.nodes.map (·.1))).filterMap (fun i =>
        if SMap.find? i x.nodes ≠ SMap.find? i y.nodes then some (.node w i) else none))
  ++ per (fun w x y =>
      (sortNat (x.edges.map (·.2.src) ++ y.edges.map (·.2.src))).filterMap (fun n =>
        if adjOf x n ≠ adjOf y n then some (.adj w n) else none))
  ++ per (fun w x y =>
      (sortNat (x.edges.map (·.1) ++ y.edges.map (·.1))).filterMap (fun i =>
        if SMap.find? i x.edges ≠ SMap.find? i y.edges then some (.edge w i) else none))
  ++ per (fun w x y =>
      (sortNat (x.nodeAtt.map (·.1) ++ y.nodeAtt.map (·.1))).filterMap (fun i =>
        if SMap.find? i x.nodeAtt ≠ SMap.find? i y.nodeAtt then some (.natt w i) else none))
  ++ per (fun w x y =>
      (sortNat (x.edgeAtt.map (·.1) ++ y.edgeAtt.map (·.1))).filterMap (fun i =>
        if SMap.find? i x.edgeAtt ≠ SMap.find? i y.edgeAtt then some (.eatt w i) else none))

def targetsStr (o : Op) : String :=
  let t := opTargets o
  let w := match t.warp with | some w => id32Tok w | none => "-"
  s!"t {opKindStr o.tag} inst {if t.inst then 1 else 0} warp {w}"
    ++ s!" nodes {t.nodes.length}" ++ String.join (t.nodes.map (fun n => " " ++ id32Tok n))
    ++ s!" edges {t.edges.length}" ++ String.join (t.edges.map (fun n => " " ++ id32Tok n))
    ++ s!" atts {t.atts.length}" ++ String.join (t.atts.map (fun k => " " ++ keyStr k))

def movedStr (a : WState) (o : Op) : String :=
  let m := match (opTargets o).warp with
    | some w => (match a.store? w with | some st => movedPrev w st o | none => none)
    | none => none
  match m with | some n => s!" moved {id32Tok n}" | none => " moved -"

def targets : P String := do
  let a ← state
  let o ← op
  done
  match applyOps a [o] with
  | .error e => pure s!"{targetsStr o}{movedStr a o} ; err {errStr e}"
  | .ok b =>
    let ch := changedLocs a b
    pure (s!"{targetsStr o}{movedStr a o} ; changed {ch.length}" ++ String.join (ch.map (fun l => " " ++ locStr l)))

/-! ### C14.check -/

def check : P String := do
  let warp ← id32
  let sys ← num
  let f ← fp
  let kind ← tok
  match mkGuard f warp (sys != 0) with
  | none =>
    -- consume the rest
    (match kind with
     | "OP" => do let _ ← op; pure ()
     | _ => do let _ ← tok; let _ ← id32; pure ())
    done
    pure "guard-panic"
  | some g =>
    match kind with
    | "OP" => do
      let o ← op
      done
      match checkOp g o with
      | none => pure "ok"
      | some v => pure (violationStr v)
    | "RD" => do
      let tag ← tok
      let i ← id32
      done
      match readTag? tag with
      | none => throw s!"bad read {tag}"
      | some a =>
        match checkRead g ⟨a, i⟩ with
        | none => pure "ok"
        | some v => pure (violationStr v)
    | x => throw s!"bad access {x}"

/-! ### C14.checkin -/

def checkin : P String := do
  let s ← state
  let warp ← id32
  let sys ← num
  let f ← fp
  expect "OP"
  let o ← op
  done
  match s.store? warp with
  | none => pure "missing-store"
  | some st =>
    match mkGuard f warp (sys != 0) with
    | none => pure "guard-panic"
    | some g =>
      match checkOpIn g st o with
      | none => pure "ok"
      | some v => pure (violationStr v)

/-! ### C14.guard -/

structure RawItem where
  system : Bool
  warp : Nat
  scope : Nat
  fp : Footprint
  prog : List Instr

def item : P RawItem := do
  let k ← tok
  let system ← (match k with
    | "U" => pure false
    | "S" => pure true
    | x => throw s!"bad rule kind {x}" : P Bool)
  let warp ← id32
  let scope ← id32
  let f ← fp
  let prog ← counted instr
  pure { system, warp, scope, fp := f, prog }

def resultStr : ItemResult → String
  | .ok _ => "ok"
  | .violation v wp => violationStr v ++ (if wp then " with-panic" else "")
  | .panicked => "panic"

/-- The case generator places at most one rewrite that leaves its declaration, so the tick's outcome
    is that rewrite's outcome whichever worker runs it (any schedule: `Props.C14.violation_no_commit`). -/
def guard : P String := do
  let _workers ← num
  let s ← state
  let items ← counted item
  done
  let results := items.map (fun it =>
    match mkGuard it.fp it.warp it.system, s.store? it.warp with
    | some g, some st => resultStr (runItem g st it.prog)
    | none, _ => "guard-panic"
    | _, none => "missing-store")
  match results.find? (· ≠ "ok") with
  | some r => pure r
  | none => pure "ok"

/-! ### C14.tick — engine level: violation, or the locations the committed tick changed -/

/-- `parallel/merge.rs::check_write_to_new_warp` over the extracted `collect_new_warps` /
    `extract_target_warp`. -/
def writeToNew (ops : List Op) : Bool :=
  let nw := ops.filterMap newWarp
  ops.any (fun o => match mergeTargetWarp o with | some w => nw.contains w | none => false)

def tick : P String := do
  let _workers ← num
  let s ← state
  let items ← counted item
  done
  let results := items.map (fun it =>
    match mkGuard it.fp it.warp it.system, s.store? it.warp with
    | some g, some st => some (runItem g st it.prog)
    | _, _ => none)
  match results.find? (fun r => match r with | some (.ok _) => false | _ => true) with
  | some (some r) => pure (resultStr r)
  | some none => pure "guard-panic-or-missing-store"
  | none =>
    let deltas := results.filterMap (fun r => match r with | some (.ok ops) => some ops | _ => none)
    match Exec.mergeOps deltas with
    | .error _ => pure "ok commit-err"
    | .ok ops =>
      if writeToNew ops then pure "ok commit-err" else
      match applyOps s (Exec.patchCanon ops) with
      | .error _ => pure "ok commit-err"
      | .ok s' =>
        let ch := changedLocs s s'
        pure (s!"ok changed {ch.length}" ++ String.join (ch.map (fun l => " " ++ locStr l)))

def handlers : List (String × (List String → String)) :=
  [("C14.targets", runP targets), ("C14.check", runP check), ("C14.checkin", runP checkin),
   ("C14.guard", runP guard), ("C14.tick", runP tick)]

end Driver.C14
