import Driver.Parse
import EchoVerif.Model.Bus
import EchoVerif.Generated.Reduce

namespace Driver.C18
open EchoVerif EchoVerif.Bus Driver

def opOf (s : String) : Option ReduceOp :=
  match s with
  | "sum" => some .sum | "max" => some .max | "min" => some .min
  | "bitor" => some .bitor | "bitand" => some .bitand
  | "first" => some .first | "last" => some .last | "concat" => some .concat
  | _ => none

def policy : P Policy := do
  let t ← tok
  match t with
  | "log" => pure .log
  | "strict" => pure .strictSingle
  | o => match opOf o with
    | some op => pure (.reduce op)
    | none => throw s!"bad policy {o}"

def emission : P Emission := do
  let chan ← id32
  let scope ← id32
  let rule ← num
  let subkey ← num
  let data ← bytes
  pure { chan, key := (scope, rule, subkey), data }

def bus : P String := do
  let pols ← counted (do let c ← id32; let p ← policy; pure (c, p))
  let ems ← counted emission
  done
  let s0 := pols.foldl (fun s (c, p) => registerChannel s c p) (Bus.empty [])
  let (s1, rs) := ems.foldl (fun (s, rs) e =>
      let (s', r) := emit s e
      (s', rs ++ [if r == .ok then "ok" else "dup"])) (s0, ([] : List String))
  let (rep, s2) := finalize s1
  let (rep2, _) := finalize s2
  let chans := rep.channels.map (fun (c, d) => s!" {id32Tok c} {bytesTok d}")
  let errs := rep.errors.map (fun (c, n) => s!" {id32Tok c} {n}")
  pure (" ".intercalate rs ++ s!" ; channels {rep.channels.length}" ++ String.join chans
    ++ s!" ; errors {rep.errors.length}" ++ String.join errs
    ++ " ; digest " ++ (emissionsDigest rep.channels).render
    ++ s!" ; after {rep2.channels.length + rep2.errors.length}")

def reduce (isComm : ReduceOp → Bool) : P String := do
  let t ← tok
  match opOf t with
  | none => throw s!"bad op {t}"
  | some op =>
    let vs ← counted bytes
    done
    pure (bytesTok (op.apply vs) ++ " comm=" ++ (if isComm op then "1" else "0"))

def handlers : List (String × (List String → String)) :=
  [("C18.bus", runP bus), ("C18.reduce", runP (reduce Generated.reduceIsCommutative))]

end Driver.C18
