/-
  EchoVerif.Model.Basic — shared plumbing for all models (import-free).
  Bytes are `List UInt8`; 32-byte identifiers are `Nat` (big-endian value), so
  byte-lexicographic order on ids is `<` on `Nat`.
-/
namespace EchoVerif

abbrev Bytes := List UInt8

def hexDigit (n : Nat) : Char :=
  if n < 10 then Char.ofNat (48 + n) else Char.ofNat (87 + n)

def hexVal? (c : Char) : Option Nat :=
  if '0' ≤ c ∧ c ≤ '9' then some (c.toNat - 48)
  else if 'a' ≤ c ∧ c ≤ 'f' then some (c.toNat - 87)
  else if 'A' ≤ c ∧ c ≤ 'F' then some (c.toNat - 55)
  else none

def byteToHex (b : UInt8) : List Char :=
  [hexDigit (b.toNat / 16), hexDigit (b.toNat % 16)]

def bytesToHex (bs : Bytes) : String :=
  String.ofList (bs.flatMap byteToHex)

/-- Hex of a byte string; the empty string is written `-` so that it stays one token. -/
def bytesTok (bs : Bytes) : String :=
  if bs.isEmpty then "-" else bytesToHex bs

def hexToBytesAux : List Char → Option Bytes
  | [] => some []
  | [_] => none
  | a :: b :: rest =>
    match hexVal? a, hexVal? b, hexToBytesAux rest with
    | some x, some y, some r => some (UInt8.ofNat (x * 16 + y) :: r)
    | _, _, _ => none

def hexToBytes? (s : String) : Option Bytes :=
  if s = "-" then some [] else hexToBytesAux s.toList

/-- Big-endian value of a byte string. -/
def beNat (bs : Bytes) : Nat := bs.foldl (fun acc b => acc * 256 + b.toNat) 0

/-- `n` written as exactly `len` big-endian bytes (truncating high bytes). -/
def natToBE (len : Nat) (n : Nat) : Bytes :=
  (List.range len).map (fun i => UInt8.ofNat (n / 256 ^ (len - 1 - i) % 256))

/-- `n` written as exactly `len` little-endian bytes (truncating high bytes). -/
def natToLE (len : Nat) (n : Nat) : Bytes :=
  (List.range len).map (fun i => UInt8.ofNat (n / 256 ^ i % 256))

def leNat (bs : Bytes) : Nat := bs.foldr (fun b acc => b.toNat + 256 * acc) 0

/-- A 32-byte identifier read from 64 hex digits. -/
def id32? (s : String) : Option Nat :=
  match hexToBytes? s with
  | some bs => if bs.length = 32 then some (beNat bs) else none
  | none => none

def id32Tok (n : Nat) : String := bytesToHex (natToBE 32 n)

def tokens (line : String) : List String :=
  (line.trimAscii.toString.splitOn " ").filter (fun t => t ≠ "")

/-- Hash expression trees: the model never computes a digest, it emits the
    pre-image; the comparer evaluates it with the real hash function. -/
inductive HExpr where
  | raw : Bytes → HExpr
  | h : List HExpr → HExpr      -- BLAKE3 of the concatenation of the parts
  | s : List HExpr → HExpr      -- SHA-256 of the concatenation of the parts

mutual
  partial def HExpr.render : HExpr → String
    | .raw bs => bytesTok bs
    | .h parts => "(h" ++ HExpr.renderList parts ++ ")"
    | .s parts => "(s" ++ HExpr.renderList parts ++ ")"
  partial def HExpr.renderList : List HExpr → String
    | [] => ""
    | p :: ps => " " ++ HExpr.render p ++ HExpr.renderList ps
end

def u16le (n : Nat) : Bytes := natToLE 2 n
def u32le (n : Nat) : Bytes := natToLE 4 n
def u64le (n : Nat) : Bytes := natToLE 8 n

end EchoVerif
