/-
  EchoVerif.Model.Graph — model of `graph.rs` (GraphStore), `warp_state.rs` (WarpState,
  WarpInstance), `attachment.rs` (keys/values) and of `tick_patch.rs`: `WarpOp`, `sort_key`,
  `apply_ops_to_state` (with portal validation) and `diff_state`.

  Abstraction (stated in DESIGN §5): the four edge indexes of `GraphStore`
  (`edges_from` buckets, `edges_to`, `edge_index`, `edge_to_index`) are one map
  `edge id → record`; bucket *insertion order* (observable through `edges_from` iteration, not
  through any hash) is outside the model.
-/
import EchoVerif.Model.SMap

namespace EchoVerif
namespace Graph

inductive Att where
  | atom (ty : Nat) (bytes : Bytes)
  | descend (warp : Nat)
  deriving DecidableEq, Repr

structure EdgeRec where
  src : Nat
  dst : Nat
  ty : Nat
  deriving DecidableEq, Repr

structure Store where
  nodes : SMap Nat Nat          -- node id ↦ type id
  edges : SMap Nat EdgeRec      -- edge id ↦ record
  nodeAtt : SMap Nat Att
  edgeAtt : SMap Nat Att
  deriving DecidableEq, Repr

def Store.empty : Store := { nodes := [], edges := [], nodeAtt := [], edgeAtt := [] }

inductive Owner where
  | node (warp id : Nat)
  | edge (warp id : Nat)
  deriving DecidableEq, Repr

inductive Plane where
  | alpha | beta
  deriving DecidableEq, Repr

structure AttKey where
  owner : Owner
  plane : Plane
  deriving DecidableEq, Repr

def AttKey.planeValid (k : AttKey) : Bool :=
  match k.owner, k.plane with
  | .node _ _, .alpha => true
  | .edge _ _, .beta => true
  | _, _ => false

def AttKey.nodeAlpha (w i : Nat) : AttKey := { owner := .node w i, plane := .alpha }
def AttKey.edgeBeta (w i : Nat) : AttKey := { owner := .edge w i, plane := .beta }

structure Instance where
  warp : Nat
  root : Nat
  parent : Option AttKey
  deriving DecidableEq, Repr

structure WState where
  stores : SMap Nat Store
  instances : SMap Nat Instance
  deriving DecidableEq, Repr

def WState.empty : WState := { stores := [], instances := [] }

inductive PortalInit where
  | empty (rootTy : Nat)
  | requireExisting
  deriving DecidableEq, Repr

inductive Op where
  | openPortal (key : AttKey) (childWarp childRoot : Nat) (init : PortalInit)
  | upsertInstance (inst : Instance)
  | deleteInstance (warp : Nat)
  | upsertNode (warp id ty : Nat)
  | deleteNode (warp id : Nat)
  | upsertEdge (warp id src dst ty : Nat)
  | deleteEdge (warp src id : Nat)
  | setAtt (key : AttKey) (v : Option Att)
  deriving DecidableEq, Repr

inductive Err where
  | missingWarp | missingNode | missingEdge | nodeNotIsolated | invalidAttKey
  | portalInitRequired | portalInvariant
  deriving DecidableEq, Repr

/-! ### store-level operations (`GraphStore` methods) -/

def Store.hasIncident (s : Store) (n : Nat) : Bool :=
  s.edges.any (fun (_, e) => e.src == n || e.dst == n)

/-- `delete_node_isolated`. -/
def Store.deleteNodeIsolated (s : Store) (n : Nat) : Except Err Store :=
  match SMap.find? n s.nodes with
  | none => .error .missingNode
  | some _ =>
    if s.hasIncident n then .error .nodeNotIsolated
    else .ok { s with nodes := SMap.erase n s.nodes, nodeAtt := SMap.erase n s.nodeAtt }

/-- `upsert_edge_record`: replaces the record stored under the id (moving buckets), keeps β. -/
def Store.upsertEdge (s : Store) (id : Nat) (e : EdgeRec) : Store :=
  { s with edges := SMap.insert id e s.edges }

/-- `delete_edge_exact`: only if the edge is currently stored under `src`; clears β. -/
def Store.deleteEdgeExact (s : Store) (src id : Nat) : Option Store :=
  match SMap.find? id s.edges with
  | none => none
  | some e =>
    if e.src = src then
      some { s with edges := SMap.erase id s.edges, edgeAtt := SMap.erase id s.edgeAtt }
    else none

def setOpt {ν : Type} (k : Nat) (v : Option ν) (m : SMap Nat ν) : SMap Nat ν :=
  match v with
  | none => SMap.erase k m
  | some x => SMap.insert k x m

/-! ### state-level operations -/

def WState.store? (s : WState) (w : Nat) : Option Store := SMap.find? w s.stores
def WState.putStore (s : WState) (w : Nat) (st : Store) : WState :=
  { s with stores := SMap.insert w st s.stores }

def attValueForKey (s : WState) (k : AttKey) : Option Att :=
  match k.owner with
  | .node w i => match s.store? w with
    | none => none
    | some st => SMap.find? i st.nodeAtt
  | .edge w i => match s.store? w with
    | none => none
    | some st => SMap.find? i st.edgeAtt

/-- `validate_attachment_owner_exists` → owning warp. -/
def validateOwnerExists (s : WState) (k : AttKey) : Except Err Nat :=
  if !k.planeValid then .error .invalidAttKey else
  match k.owner with
  | .node w i => match s.store? w with
    | none => .error .missingWarp
    | some st => match SMap.find? i st.nodes with
      | none => .error .missingNode
      | some _ => .ok w
  | .edge w i => match s.store? w with
    | none => .error .missingWarp
    | some st => match SMap.find? i st.edges with
      | none => .error .missingEdge
      | some _ => .ok w

def applySetAtt (s : WState) (k : AttKey) (v : Option Att) : Except Err WState :=
  if !k.planeValid then .error .invalidAttKey else
  match k.owner with
  | .node w i => match s.store? w with
    | none => .error .missingWarp
    | some st => match SMap.find? i st.nodes with
      | none => .error .missingNode
      | some _ => .ok (s.putStore w { st with nodeAtt := setOpt i v st.nodeAtt })
  | .edge w i => match s.store? w with
    | none => .error .missingWarp
    | some st => match SMap.find? i st.edges with
      | none => .error .missingEdge
      | some _ => .ok (s.putStore w { st with edgeAtt := setOpt i v st.edgeAtt })

def upsertInstanceWith (s : WState) (inst : Instance) (st : Store) : WState :=
  { stores := SMap.insert inst.warp st s.stores, instances := SMap.insert inst.warp inst s.instances }

def ensureChildRoot (s : WState) (childWarp childRoot : Nat) : PortalInit → Except Err WState
  | .empty rootTy => match s.store? childWarp with
    | none => .error .missingWarp
    | some st => match SMap.find? childRoot st.nodes with
      | none => .ok (s.putStore childWarp { st with nodes := SMap.insert childRoot rootTy st.nodes })
      | some ty => if ty = rootTy then .ok s else .error .portalInvariant
  | .requireExisting => match s.store? childWarp with
    | none => .error .missingWarp
    | some st => match SMap.find? childRoot st.nodes with
      | none => .error .missingNode
      | some _ => .ok s

def setPortalSlot (s : WState) (parentWarp : Nat) (key : AttKey) (childWarp : Nat) : Except Err WState :=
  match s.store? parentWarp with
  | none => .error .missingWarp
  | some st => match key.owner with
    | .node _ i => .ok (s.putStore parentWarp { st with nodeAtt := SMap.insert i (.descend childWarp) st.nodeAtt })
    | .edge _ i => .ok (s.putStore parentWarp { st with edgeAtt := SMap.insert i (.descend childWarp) st.edgeAtt })

/-- `apply_open_portal`. -/
def applyOpenPortal (s : WState) (key : AttKey) (childWarp childRoot : Nat) (init : PortalInit) :
    Except Err WState :=
  match validateOwnerExists s key with
  | .error e => .error e
  | .ok parentWarp =>
    match SMap.find? childWarp s.instances with
    | some existing =>
      if existing.parent ≠ some key || existing.root ≠ childRoot then .error .portalInvariant
      else match ensureChildRoot s childWarp childRoot init with
        | .error e => .error e
        | .ok s1 => setPortalSlot s1 parentWarp key childWarp
    | none =>
      match init with
      | .requireExisting => .error .portalInitRequired
      | .empty rootTy =>
        let st : Store := { Store.empty with nodes := [(childRoot, rootTy)] }
        let s1 := upsertInstanceWith s { warp := childWarp, root := childRoot, parent := some key } st
        setPortalSlot s1 parentWarp key childWarp

/-- `apply_op_to_state`. -/
def applyOp (s : WState) : Op → Except Err WState
  | .openPortal key cw cr init => applyOpenPortal s key cw cr init
  | .upsertInstance inst =>
    let st := match s.store? inst.warp with | some st => st | none => Store.empty
    .ok (upsertInstanceWith s inst st)
  | .deleteInstance w =>
    match SMap.find? w s.instances with
    | none => .error .missingWarp
    | some _ => .ok { stores := SMap.erase w s.stores, instances := SMap.erase w s.instances }
  | .upsertNode w i ty => match s.store? w with
    | none => .error .missingWarp
    | some st => .ok (s.putStore w { st with nodes := SMap.insert i ty st.nodes })
  | .deleteNode w i => match s.store? w with
    | none => .error .missingWarp
    | some st => match st.deleteNodeIsolated i with
      | .error e => .error e
      | .ok st' => .ok (s.putStore w st')
  | .upsertEdge w id src dst ty => match s.store? w with
    | none => .error .missingWarp
    | some st => .ok (s.putStore w (st.upsertEdge id { src, dst, ty }))
  | .deleteEdge w src id => match s.store? w with
    | none => .error .missingWarp
    | some st => match st.deleteEdgeExact src id with
      | none => .error .missingEdge
      | some st' => .ok (s.putStore w st')
  | .setAtt key v => applySetAtt s key v

def isDescend : Option Att → Bool
  | some (.descend _) => true
  | _ => false

/-- `warp_op_touches_portal_topology`. -/
def touchesPortal (s : WState) : Op → Bool
  | .openPortal .. => true
  | .upsertInstance _ => true
  | .deleteInstance _ => true
  | .setAtt key v => isDescend v || isDescend (attValueForKey s key)
  | .deleteNode w i => match s.store? w with
    | none => false
    | some st => isDescend (SMap.find? i st.nodeAtt)
  | .deleteEdge w _ id => match s.store? w with
    | none => false
    | some st => isDescend (SMap.find? id st.edgeAtt)
  | _ => false

def validateDescendTarget (s : WState) (key : AttKey) (child : Nat) : Bool :=
  match SMap.find? child s.instances with
  | none => false
  | some inst => inst.parent = some key && (s.store? child).isSome

/-- `validate_portal_invariants`: first failure wins; errors other than the portal invariant come
    from `validate_attachment_owner_exists` on an instance's parent key. -/
def validatePortalInvariants (s : WState) : Except Err Unit :=
  let rec orphan : List (Nat × Instance) → Except Err Unit
    | [] => .ok ()
    | (w, inst) :: rest =>
      match inst.parent with
      | none => orphan rest
      | some pk =>
        match validateOwnerExists s pk with
        | .error e => .error e
        | .ok _ =>
          match attValueForKey s pk with
          | some (.descend c) => if c = w then orphan rest else .error .portalInvariant
          | _ => .error .portalInvariant
  match orphan s.instances with
  | .error e => .error e
  | .ok () =>
    let dangling := s.stores.all (fun (w, st) =>
      st.nodeAtt.all (fun (i, v) => match v with
        | .descend c => validateDescendTarget s (AttKey.nodeAlpha w i) c
        | _ => true) &&
      st.edgeAtt.all (fun (i, v) => match v with
        | .descend c => validateDescendTarget s (AttKey.edgeBeta w i) c
        | _ => true))
    if dangling then .ok () else .error .portalInvariant

/-- the op loop of `apply_ops_to_state` (state, "touches portal topology" flag). -/
def applyLoop : WState → Bool → List Op → Except Err (WState × Bool)
  | s, t, [] => .ok (s, t)
  | s, t, op :: rest =>
    let t' := t || touchesPortal s op
    match applyOp s op with
    | .error e => .error e
    | .ok s' => applyLoop s' t' rest

/-- `apply_ops_to_state`. -/
def applyOps (s : WState) (ops : List Op) : Except Err WState :=
  match applyLoop s false ops with
  | .error e => .error e
  | .ok (s', t) =>
    if t then
      match validatePortalInvariants s' with
      | .error e => .error e
      | .ok () => .ok s'
    else .ok s'

end Graph
end EchoVerif

namespace EchoVerif.Graph

/-- Variant tags of `WarpOp` (for the extracted rank table). -/
inductive OpTag where
  | openPortal | upsertInstance | deleteInstance | upsertNode | deleteNode
  | upsertEdge | deleteEdge | setAtt
  deriving DecidableEq, Repr

def Op.tag : Op → OpTag
  | .openPortal .. => .openPortal
  | .upsertInstance _ => .upsertInstance
  | .deleteInstance _ => .deleteInstance
  | .upsertNode .. => .upsertNode
  | .deleteNode .. => .deleteNode
  | .upsertEdge .. => .upsertEdge
  | .deleteEdge .. => .deleteEdge
  | .setAtt .. => .setAtt

end EchoVerif.Graph
