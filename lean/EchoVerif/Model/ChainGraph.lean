/-
  EchoVerif.Model.ChainGraph — the concrete instantiation of `Chain.Sem` used by the executable
  driver: single-instance graph states (nodes, edges, atom attachments), the six node/edge/attachment
  `WarpOp`s, and the three hash pre-images, rendered as `(h <hex> …)` expressions (`D := String`).

  Rust anchors: snapshot.rs `compute_state_root` (single reachable instance) / `compute_commit_hash_v2`,
  tick_patch.rs `WarpOp::sort_key`, `WarpTickPatchV1::new`, `compute_patch_digest_v2`,
  `apply_op_to_state`, graph.rs `insert_node` / `delete_node_isolated` / `upsert_edge_record` /
  `delete_edge_exact` / `set_*_attachment`, receipt.rs `compute_tick_receipt_digest`.
  Only what the correspondence needs; no theorem talks about this file (the C07/C05 theorems are
  generic in `Sem`).  BFS uses fuel `#edges + 1` (each productive round consumes a fresh edge).
-/
import EchoVerif.Model.SMap
import EchoVerif.Model.Chain

namespace EchoVerif.ChainGraph
open EchoVerif

structure Atom where
  ty : Nat
  bytes : Bytes
  deriving DecidableEq

structure EdgeRec where
  src : Nat
  dst : Nat
  ty : Nat
  deriving DecidableEq

structure Graph where
  warp : Nat
  root : Nat
  nodes : SMap Nat Nat
  natt : SMap Nat Atom
  edges : SMap Nat EdgeRec
  eatt : SMap Nat Atom
  deriving DecidableEq

inductive Op where
  | upsertNode (w n ty : Nat)
  | deleteNode (w n : Nat)
  | upsertEdge (w id src dst ty : Nat)
  | deleteEdge (w src id : Nat)
  | setNodeAtt (w n : Nat) (a : Option Atom)
  | setEdgeAtt (w e : Nat) (a : Option Atom)
  deriving DecidableEq

/-- error codes: 1 MissingWarp, 2 MissingNode, 3 MissingEdge, 4 NodeNotIsolated. -/
def applyOp (g : Graph) : Op → Except Nat Graph
  | .upsertNode w n ty =>
    if w ≠ g.warp then .error 1 else .ok { g with nodes := SMap.insert n ty g.nodes }
  | .deleteNode w n =>
    if w ≠ g.warp then .error 1
    else if (SMap.find? n g.nodes).isNone then .error 2
    else if g.edges.any (fun e => e.2.src = n) then .error 4
    else if g.edges.any (fun e => e.2.dst = n) then .error 4
    else .ok { g with nodes := SMap.erase n g.nodes, natt := SMap.erase n g.natt }
  | .upsertEdge w id src dst ty =>
    if w ≠ g.warp then .error 1
    else .ok { g with edges := SMap.insert id { src, dst, ty } g.edges }
  | .deleteEdge w src id =>
    if w ≠ g.warp then .error 1
    else match SMap.find? id g.edges with
      | some e =>
        if e.src = src then .ok { g with edges := SMap.erase id g.edges, eatt := SMap.erase id g.eatt }
        else .error 3
      | none => .error 3
  | .setNodeAtt w n a =>
    if w ≠ g.warp then .error 1
    else if (SMap.find? n g.nodes).isNone then .error 2
    else match a with
      | none => .ok { g with natt := SMap.erase n g.natt }
      | some v => .ok { g with natt := SMap.insert n v g.natt }
  | .setEdgeAtt w e a =>
    if w ≠ g.warp then .error 1
    else if (SMap.find? e g.edges).isNone then .error 3
    else match a with
      | none => .ok { g with eatt := SMap.erase e g.eatt }
      | some v => .ok { g with eatt := SMap.insert e v g.eatt }

/-- `apply_ops_to_state`: in place, stops at the first failing op. -/
def applyOps : Graph → List Op → Graph × Option Nat
  | g, [] => (g, none)
  | g, op :: rest =>
    match applyOp g op with
    | .error c => (g, some c)
    | .ok g' => applyOps g' rest

/-! ### state root pre-image -/

def reachStep (g : Graph) (seen : List Nat) : List Nat :=
  g.edges.foldl (fun acc e =>
    if acc.contains e.2.src && !acc.contains e.2.dst then acc ++ [e.2.dst] else acc) seen

def reachFuel (g : Graph) : Nat → List Nat → List Nat
  | 0, seen => seen
  | n + 1, seen => reachFuel g n (reachStep g seen)

def reach (g : Graph) : List Nat := reachFuel g (g.edges.length + 1) [g.root]

def id32B (n : Nat) : Bytes := natToBE 32 n

def atomOptB : Option Atom → Bytes
  | none => [0]
  | some a => [1, 1] ++ id32B a.ty ++ u64le a.bytes.length ++ a.bytes

def ascii (s : String) : Bytes := s.toList.map (fun c => UInt8.ofNat c.toNat)

def stateRootTag : Bytes := ascii "echo:state_root:v1" ++ [0]
def patchDigestTag : Bytes := ascii "echo:patch_digest:v1" ++ [0]
def commitIdTag : Bytes := ascii "echo:commit_id:v2" ++ [0]

def distinctSrcs (g : Graph) : List Nat :=
  (g.edges.foldl (fun (acc : SMap Nat Unit) e => SMap.insert e.2.src () acc) []).map (·.1)

def rootBytes (g : Graph) : Bytes :=
  let rs := reach g
  let hdr := stateRootTag ++ id32B g.warp ++ id32B g.root ++ id32B g.warp ++ id32B g.root ++ [0]
  let ns := g.nodes.flatMap (fun (n, ty) =>
    if rs.contains n then id32B n ++ id32B ty ++ atomOptB (SMap.find? n g.natt) else [])
  let bs := (distinctSrcs g).flatMap (fun src =>
    if rs.contains src then
      let es := g.edges.filter (fun e => e.2.src = src)
      id32B src ++ u64le es.length ++ es.flatMap (fun (id, e) =>
        id32B id ++ id32B e.ty ++ id32B e.dst ++ atomOptB (SMap.find? id g.eatt))
    else [])
  hdr ++ ns ++ bs

def rootD (g : Graph) : String := "(h " ++ bytesTok (rootBytes g) ++ ")"

/-! ### patches -/

/-- slot = (tag, warp, local id); tag 1 node, 2 edge. -/
abbrev Slot := Nat × Nat × Nat

structure Patch where
  gtick : Nat
  policy : Nat
  rulePack : Nat
  plan : Nat
  decision : String
  rewrites : Nat
  warp : Nat
  ops : List Op
  inSlots : List Slot
  outSlots : List Slot
  digest : String

/-- `WarpOp::sort_key` as (kind, warp, a, b). -/
def opKey : Op → Nat × Nat × Nat × Nat
  | .deleteEdge w src id => (4, w, src, id)
  | .deleteNode w n => (5, w, n, 0)
  | .upsertNode w n _ => (6, w, n, 0)
  | .upsertEdge w id src _ _ => (7, w, src, id)
  | .setNodeAtt w n _ => (8, w, 1 * 256 ^ 31 + 1 * 256 ^ 30, n)
  | .setEdgeAtt w e _ => (8, w, 2 * 256 ^ 31 + 2 * 256 ^ 30, e)

/-- `BTreeMap<WarpOpKey, WarpOp>` insert in caller order (last wins), then `into_values`. -/
def canonOps (ops : List Op) : List Op :=
  (ops.foldl (fun (m : SMap (Nat × Nat × Nat × Nat) Op) op => SMap.insert (opKey op) op m) []).map (·.2)

/-- `sort` + `dedup`. -/
def canonSlots (ss : List Slot) : List Slot :=
  (ss.foldl (fun (m : SMap Slot Unit) s => SMap.insert s () m) []).map (·.1)

def slotB : Slot → Bytes
  | (tag, w, i) => [UInt8.ofNat tag] ++ id32B w ++ id32B i

def slotsB (ss : List Slot) : Bytes := u64le ss.length ++ ss.flatMap slotB

def opB : Op → Bytes
  | .upsertNode w n ty => [3] ++ id32B w ++ id32B n ++ id32B ty
  | .deleteNode w n => [4] ++ id32B w ++ id32B n
  | .upsertEdge w id src dst ty => [5] ++ id32B w ++ id32B src ++ id32B id ++ id32B dst ++ id32B ty
  | .deleteEdge w src id => [6] ++ id32B w ++ id32B src ++ id32B id
  | .setNodeAtt w n a => [7, 1, 1] ++ id32B w ++ id32B n ++ atomOptB a
  | .setEdgeAtt w e a => [7, 2, 2] ++ id32B w ++ id32B e ++ atomOptB a

def opsB (ops : List Op) : Bytes := u64le ops.length ++ ops.flatMap opB

/-- `compute_patch_digest_v2` over the canonicalised contents, status `Committed`. -/
def patchBytes (p : Patch) : Bytes :=
  patchDigestTag ++ u16le 2 ++ u32le p.policy ++ id32B p.rulePack ++ [1]
    ++ slotsB (canonSlots p.inSlots) ++ slotsB (canonSlots p.outSlots) ++ opsB (canonOps p.ops)

def patchD (p : Patch) : String := "(h " ++ bytesTok (patchBytes p) ++ ")"

/-- the same pre-image with an explicit `TickCommitStatus` code (1 Committed, 2 Aborted); only used
    by the driver to render a tampered replay patch of a checkpoint's `tick_history`. -/
def patchDSt (st : UInt8) (p : Patch) : String :=
  "(h " ++ bytesTok (patchDigestTag ++ u16le 2 ++ u32le p.policy ++ id32B p.rulePack ++ [st]
    ++ slotsB (canonSlots p.inSlots) ++ slotsB (canonSlots p.outSlots) ++ opsB (canonOps p.ops)) ++ ")"

/-- `compute_commit_hash_v2`. -/
def commitD (parents : List String) (root pd : String) (policy : Nat) : String :=
  "(h " ++ bytesTok (commitIdTag ++ u16le 2 ++ u64le parents.length)
    ++ String.join (parents.map (fun p => " " ++ p)) ++ " " ++ root ++ " " ++ pd ++ " "
    ++ bytesTok (u32le policy) ++ ")"

/-- receipts: one entry = (rule, scope hash, scope node, code). -/
abbrev RcptEntry := Nat × Nat × Nat × Nat

/-- `compute_tick_receipt_digest` (scope warp = the worldline's root warp). -/
def receiptD (warp : Nat) (es : List RcptEntry) : String :=
  if es.isEmpty then "(h " ++ bytesTok (u64le 0) ++ ")"
  else "(h " ++ bytesTok (u16le 2 ++ u64le es.length ++ es.flatMap (fun (r, sh, n, c) =>
    id32B r ++ id32B sh ++ id32B warp ++ id32B n ++ [UInt8.ofNat c])) ++ ")"

abbrev Outs := List (Nat × Bytes)
/-- what else of a tick lands in `tick_history`: (plan, decision, rewrites digest of the snapshot,
    digest pre-image of the canonical replay patch, snapshot root key as a deviation from the state's
    own root key: 0 in everything replay produces). -/
abbrev PMeta := Nat × String × Nat × String × Nat

def sem : Chain.Sem Graph Patch String Outs PMeta where
  apply g p := applyOps g p.ops
  root := rootD
  pwarp p := p.warp
  policy p := p.policy
  stored p := p.digest
  computed := patchD
  decision p := p.decision
  commit := commitD
  pmeta p := (p.plan, p.decision, p.rewrites, patchD p, 0)
  noOut := []
  emptyRcpt := receiptD 0 []

end EchoVerif.ChainGraph
