/-
  EchoVerif.Model.CostLe — COST model of the little-endian `Reader` of
  crates/echo-wasm-abi/src/codec.rs (`take`, `read_u8/u16/u32`, `read_bool`, `read_option`,
  `read_len_prefixed_bytes`, `read_string`, `read_list`, `decode_from_bytes`), property C13.

  `Reader` is a combinator library; the harness decodes a fixed two-level schema (`Doc`, below)
  with the real `Reader`, and this file mirrors the combinators and that schema. The cost record is
    alloc   Σ capacities passed to `Vec::with_capacity` by `read_list` (elements),
    copied  bytes copied out of the input (`read_string` → `to_owned`, blob `to_vec`),
    elems   elements successfully decoded into lists (reported on acceptance).
  The capacity rule of `read_list` is extracted from the source (Generated/CostLe.lean). Import-free.
-/
import EchoVerif.Model.CostCbor

namespace EchoVerif.CostLe
open EchoVerif
open EchoVerif.CostCbor (validUtf8 shorter)

inductive CapRule
  /-- `Vec::with_capacity(count)` -/
  | declared
  /-- `Vec::with_capacity(min(count, remaining))` -/
  | capped
  deriving DecidableEq, Repr

inductive Err
  | outOfBounds | invalidUtf8 | stringTooLong | lengthTooLarge | invalidEnum | invalidBoolTag | trailing
  deriving DecidableEq, Repr

def Err.tok : Err → String
  | .outOfBounds => "out-of-bounds" | .invalidUtf8 => "invalid-utf8" | .stringTooLong => "string-too-long"
  | .lengthTooLarge => "length-too-large" | .invalidEnum => "invalid-enum"
  | .invalidBoolTag => "invalid-bool-tag" | .trailing => "trailing"

structure St where
  alloc : Nat
  copied : Nat
  elems : Nat
  deriving Repr

abbrev R := St × Except Err Bytes
/-- a decoder step: input and cost state in, cost state and rest (or typed error) out -/
abbrev Dec := Bytes → St → R

/-- `Reader::take(len)` followed by dropping the slice (scalars whose value is irrelevant) -/
def skip (n : Nat) : Dec := fun bs st =>
  if shorter bs n then (st, .error .outOfBounds) else (st, .ok (bs.drop n))

/-- `read_u8` with a validity predicate on the byte (enum / bool tags) -/
def byteWhere (ok : Nat → Bool) (e : Err) : Dec := fun bs st =>
  match bs with
  | [] => (st, .error .outOfBounds)
  | b :: rest => if ok b.toNat then (st, .ok rest) else (st, .error e)

def readU32 (bs : Bytes) : Except Err (Nat × Bytes) :=
  if shorter bs 4 then .error .outOfBounds else .ok (leNat (bs.take 4), bs.drop 4)

/-- `read_len_prefixed_bytes(max)` + copy; `utf8` = `read_string` -/
def lenPrefixed (max : Nat) (utf8 : Bool) : Dec := fun bs st =>
  match readU32 bs with
  | .error e => (st, .error e)
  | .ok (len, rest) =>
    if len > max then (st, .error .lengthTooLarge)
    else if shorter rest len then (st, .error .outOfBounds)
    else if utf8 && !validUtf8 (rest.take len) then (st, .error .invalidUtf8)
    else ({ st with copied := st.copied + len }, .ok (rest.drop len))

/-- `read_option(decode)` -/
def option (d : Dec) : Dec := fun bs st =>
  match bs with
  | [] => (st, .error .outOfBounds)
  | b :: rest =>
    if b = 0 then (st, .ok rest)
    else if b = 1 then d rest st
    else (st, .error .invalidBoolTag)

/-- sequencing (`?` between two reads) -/
def seq (a b : Dec) : Dec := fun bs st =>
  match a bs st with
  | (st', .ok rest) => b rest st'
  | (st', .error e) => (st', .error e)

/-- `for _ in 0..count { out.push(decode(self)?) }` -/
def loop (d : Dec) : Nat → Dec
  | 0 => fun bs st => (st, .ok bs)
  | n + 1 => fun bs st =>
    match d bs st with
    | (st', .ok rest) => loop d n rest { st' with elems := st'.elems + 1 }
    | (st', .error e) => (st', .error e)

/-- `read_list(decode)` -/
def list (rule : CapRule) (d : Dec) : Dec := fun bs st =>
  match readU32 bs with
  | .error e => (st, .error e)
  | .ok (count, rest) =>
    let cap := match rule with
      | .capped => (rest.take count).length   -- = min count rest.length, without walking all of `rest`
      | .declared => count
    loop d count rest { st with alloc := st.alloc + cap }

/-! ### the schema decoded by the harness with the real `Reader`
    Item := kind:u8 (0..2) , flag:bool , vals:list<u16> , label:option<string(16)>
    Doc  := tag:u8 , name:string(64) , items:list<Item> , extra:option<list<u32>> , blob:bytes(1024) -/

def item (rule : CapRule) : Dec :=
  seq (byteWhere (fun k => k ≤ 2) .invalidEnum)
    (seq (byteWhere (fun k => k ≤ 1) .invalidBoolTag)
      (seq (list rule (skip 2)) (option (lenPrefixed 16 true))))

def doc (rule : CapRule) : Dec :=
  seq (skip 1)
    (seq (lenPrefixed 64 true)
      (seq (list rule (item rule))
        (seq (option (list rule (skip 4))) (lenPrefixed 1024 false))))

def St.init : St := { alloc := 0, copied := 0, elems := 0 }

/-- `decode_from_bytes::<Doc>` -/
def decode (rule : CapRule) (bs : Bytes) : St × Except Err Unit :=
  match doc rule bs St.init with
  | (st, .ok []) => (st, .ok ())
  | (st, .ok (_ :: _)) => (st, .error .trailing)
  | (st, .error e) => (st, .error e)

/-- bucket compared with the measured peak: the largest element (`Item`) is 64 bytes -/
def allocOk (st : St) (len : Nat) : Bool := st.alloc * 64 + st.copied ≤ 256 * len + 65536

def render (bs : Bytes) (r : St × Except Err Unit) : String :=
  let bucket := if allocOk r.1 bs.length then "alloc-ok" else "alloc-excess"
  match r.2 with
  | .ok () => s!"ok elems={r.1.elems} {bucket}"
  | .error e => s!"err {e.tok} {bucket}"

end EchoVerif.CostLe
