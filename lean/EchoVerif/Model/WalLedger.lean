/-
  EchoVerif.Model.WalLedger — the writer-epoch ledger of the filesystem WAL store (C11), on top of
  Model/Wal.lean + Model/WalIntegrity.lean.  Follows crates/warp-core/src/causal_wal.rs:

    * `WriterEpoch`, `WriterEpochClosure`, `WriterEpochLedger`
    * `validate_writer_epoch_request`, `validate_writer_epoch_closure`
    * `decode_writer_epoch_ledger` (payload), `read_writer_epoch_ledger` (envelope + payload; a missing
      file is the empty ledger)
    * `reconcile_writer_epoch_closures` — the ONLY place where committed commit markers are compared
      with the ledger (fails closed: `MissingWriterEpochLedger` / `UnknownPreviousWriterEpoch`)
    * `read_filesystem_segments` for a root with several segment files
    * `FilesystemWalStore::open` (ledger, then segments, then reconcile) and, on top of it,
      `acquire_fresh_writer_epoch` (what `TrustedRuntimeWal::from_config` runs after recovery): closes a
      left-over active epoch, prunes to the retained limit, derives the successor.
-/
import EchoVerif.Model.WalIntegrity

namespace EchoVerif.Wal

structure Epoch where
  id : Bytes
  fencing : Bytes
  process : Bytes
  host : Bytes
  startedAt : Nat
  prevId : Option Bytes
  prevFinal : Option Bytes
  lease : Bytes
  deriving DecidableEq, Repr

structure Closure where
  finalLsn : Option Nat
  finalDigest : Option Bytes
  deriving DecidableEq, Repr

/-- `BTreeMap<WriterEpochId, WriterEpochClosure>`: only `get` / `insert` / `entry().or_default()` /
    `clear` are used and iteration order is never observed, so an association list (first match wins)
    is exact. -/
abbrev Closures := List (Bytes × Closure)

def Closures.get? (m : Closures) (k : Bytes) : Option Closure :=
  match m with
  | [] => none
  | (k', v) :: rest => if k' = k then some v else Closures.get? rest k

/-- `.get(k).copied().unwrap_or_default()` / `.entry(k).or_default()` (the Rust default: no final LSN) -/
def Closures.getD (m : Closures) (k : Bytes) : Closure :=
  match m.get? k with
  | some c => c
  | none => ⟨none, none⟩

def Closures.set (m : Closures) (k : Bytes) (v : Closure) : Closures :=
  (k, v) :: m.filter (fun e => e.1 ≠ k)

structure Ledger where
  active : Option Epoch
  closed : List Epoch
  closures : Closures
  deriving Repr

def Ledger.empty : Ledger := ⟨none, [], []⟩

/-- constants of the ledger file (instantiated by the driver from `Generated/WalLedgerTables.lean`) -/
structure LedgerCfg where
  magic : Bytes
  domain : Bytes
  version : Nat
  retainedLimit : Nat

/-- the `WalStoreError`s of the writer-epoch machinery -/
inductive EErr where
  | missingLedger | unknownPrev | chainGap | finalDigest | lsnRegression | fencing | alreadyActive
  deriving DecidableEq, Repr

/-- errors of `FilesystemWalStore::open` -/
inductive OErr where
  | env (e : LErr)        -- envelope of writer-epochs.ecwal
  | dec (e : DErr)        -- payload cursor
  | version               -- payload version ≠ 1 (InvalidRecordMagic)
  | epoch (e : EErr)
  | store (e : RErr)      -- reading the segment files
  deriving DecidableEq, Repr

/-! ### `validate_writer_epoch_request` -/

/-- `started_at_lsn <= final_lsn` of the predecessor (or `<= started_at_lsn` when it committed nothing) -/
def lsnRegresses (pc : Closure) (prev : Epoch) (startedAt : Nat) : Bool :=
  match pc.finalLsn with
  | some f => decide (startedAt ≤ f)
  | none => decide (startedAt ≤ prev.startedAt)

def validateEpochRequest (active : Option Epoch) (closed : List Epoch) (cl : Closures) (rq : Epoch) :
    Except EErr Epoch :=
  if active.isSome then .error .alreadyActive
  else if closed.any (fun e => e.id = rq.id) then .error .chainGap
  else
    match rq.prevId with
    | some pid =>
      match closed.getLast? with
      | none => .error .unknownPrev
      | some prev =>
        if prev.id ≠ pid then .error .chainGap
        else
          let pc := cl.getD pid
          if rq.prevFinal ≠ pc.finalDigest then .error .finalDigest
          else if lsnRegresses pc prev rq.startedAt then .error .lsnRegression
          else if rq.fencing = prev.fencing ∨ rq.lease = prev.lease then .error .fencing
          else .ok rq
    | none => if closed.isEmpty then .ok rq else .error .chainGap

/-! ### `decode_writer_epoch_ledger` -/

def rdEpoch : Rd Epoch := do
  let id ← rdBytes 32
  let fencing ← rdBytes 32
  let process ← rdBytes 32
  let host ← rdBytes 32
  let startedAt ← rdLE 8
  let prevId ← rdOptHash
  let prevFinal ← rdOptHash
  let lease ← rdBytes 32
  pure { id, fencing, process, host, startedAt, prevId, prevFinal, lease }

def rdClosure : Rd Closure := do
  let finalLsn ← rdOptLsn
  let finalDigest ← rdOptHash
  pure { finalLsn, finalDigest }

/-- `validate_writer_epoch_closure` -/
def closureOk (c : Closure) : Bool := c.finalLsn.isSome == c.finalDigest.isSome

/-- the `for retained_index in 0..closed_len` loop: `n` entries still to read, `idx` read so far -/
def decodeClosed : Nat → Nat → Ledger → Bytes → Except OErr (Ledger × Bytes)
  | 0, _, l, bs => .ok (l, bs)
  | n + 1, idx, l, bs =>
    match rdEpoch bs with
    | .error e => .error (.dec e)
    | .ok (ep, r1) =>
      match rdClosure r1 with
      | .error e => .error (.dec e)
      | .ok (c, r2) =>
        if ¬ closureOk c then .error (.epoch .finalDigest)
        else
          match (if idx = 0 then .ok ep else validateEpochRequest none l.closed l.closures ep) with
          | .error e => .error (.epoch e)
          | .ok _ =>
            decodeClosed n (idx + 1)
              { l with closures := l.closures.set ep.id c, closed := l.closed ++ [ep] } r2

def decodeLedger (lc : LedgerCfg) (payload : Bytes) : Except OErr Ledger :=
  match rdLE 2 payload with
  | .error e => .error (.dec e)
  | .ok (v, r0) =>
    if v ≠ lc.version then .error .version
    else
      match rdLE 8 r0 with
      | .error e => .error (.dec e)
      | .ok (closedLen, r1) =>
        if closedLen > lc.retainedLimit then .error (.epoch .chainGap)
        else
          match decodeClosed closedLen 0 Ledger.empty r1 with
          | .error e => .error e
          | .ok (l, r2) =>
            match rdLE 1 r2 with
            | .error e => .error (.dec e)
            | .ok (0, r3) => if r3.isEmpty then .ok l else .error (.dec .trailing)
            | .ok (1, r3) =>
              match rdEpoch r3 with
              | .error e => .error (.dec e)
              | .ok (ep, r4) =>
                match rdClosure r4 with
                | .error e => .error (.dec e)
                | .ok (c, r5) =>
                  if ¬ closureOk c then .error (.epoch .finalDigest)
                  else
                    match validateEpochRequest none l.closed l.closures ep with
                    | .error e => .error (.epoch e)
                    | .ok _ =>
                      if r5.isEmpty then
                        .ok { l with closures := l.closures.set ep.id c, active := some ep }
                      else .error (.dec .trailing)
            | .ok (code, _) => .error (.dec (.enumCode "Option<WriterEpoch>" code))

/-- `read_writer_epoch_ledger`: `none` = the file does not exist -/
def readLedger (H : HashFn) (lc : LedgerCfg) (file : Option Bytes) : Except OErr Ledger :=
  match file with
  | none => .ok Ledger.empty
  | some bs =>
    match readLedgerEnvelope H lc.magic lc.domain bs with
    | .error e => .error (.env e)
    | .ok payload => decodeLedger lc payload

/-! ### `reconcile_writer_epoch_closures` -/

/-- `known_epoch`: the marker's writer epoch is the active one or one of the retained closed ones -/
def Ledger.knows (l : Ledger) (e : Bytes) : Bool :=
  (match l.active with | some a => a.id = e | none => false) || l.closed.any (fun x => x.id = e)

/-- `retained_start_lsn` -/
def Ledger.retainedStart (l : Ledger) : Option Nat :=
  match l.closed.head? with
  | some e => some e.startedAt
  | none => l.active.map (fun e => e.startedAt)

/-- a marker of an unknown epoch is tolerated only strictly below the retained start -/
def Ledger.belowRetained (l : Ledger) (c : Commit) : Bool :=
  match l.retainedStart with
  | some s => c.lastLsn < s
  | none => false

/-- the loop over the commit markers; the state is the closure map -/
def reconcileLoop (l : Ledger) : Closures → List Commit → Except EErr Closures
  | cl, [] => .ok cl
  | cl, c :: cs =>
    if l.knows c.writerEpoch then
      let cur := cl.getD c.writerEpoch
      let upd := match cur.finalLsn with
        | none => true
        | some f => c.lastLsn > f
      reconcileLoop l
        (cl.set c.writerEpoch (if upd then ⟨some c.lastLsn, some c.commitDigest⟩ else cur)) cs
    else if l.belowRetained c then reconcileLoop l cl cs
    else .error .unknownPrev

/-- `reconcile_writer_epoch_closures` -/
def reconcile (l : Ledger) (commits : List Commit) : Except EErr Ledger :=
  if l.active.isNone ∧ l.closed.isEmpty ∧ ¬ commits.isEmpty then .error .missingLedger
  else
    match reconcileLoop l l.closures commits with
    | .error e => .error e
    | .ok cl => .ok { l with closures := cl }

/-! ### `read_filesystem_segments` (several segment files, in segment-id order) -/

def scanSegments (cfg : Cfg) (H : HashFn) : List Bytes → Except RErr (List Rec × Bool)
  | [] => .ok ([], false)
  | b :: bs =>
    match scan cfg H (decodeRec cfg H) b with
    | .error e => .error e
    | .ok (recs, torn) =>
      match scanSegments cfg H bs with
      | .error e => .error e
      | .ok (rest, torn') => .ok (recs ++ rest, torn || torn')

/-- frames sorted by LSN, markers sorted by `last_lsn` (both stable), any torn tail -/
def readSegments (cfg : Cfg) (H : HashFn) (segs : List Bytes) :
    Except RErr (List Frame × List Commit × Bool) :=
  match scanSegments cfg H segs with
  | .error e => .error e
  | .ok (recs, torn) =>
    .ok (sortBy (fun f => f.header.lsn) (framesOf recs), sortBy (fun c => c.lastLsn) (commitsOf recs), torn)

/-- `recover_filesystem_store` for a root with several segment files (read-only: nothing is rewritten) -/
def recoverFilesystemSegs (cfg : Cfg) (H : HashFn) (segs : List Bytes) (mode : Mode) : Except RErr Report :=
  match readSegments cfg H segs with
  | .error e => .error e
  | .ok (frames, commits, torn) =>
    match recoverFCT cfg H frames commits mode with
    | .error e => .error (.validation e)
    | .ok r => .ok (applyTorn mode torn r)

/-! ### `FilesystemWalStore::open` -/

/-- the ledger the opened store holds (`reload_writer_epoch_ledger` is the same computation) -/
def openStore (cfg : Cfg) (H : HashFn) (lc : LedgerCfg) (ledgerFile : Option Bytes) (segs : List Bytes) :
    Except OErr Ledger :=
  match readLedger H lc ledgerFile with
  | .error e => .error e
  | .ok l =>
    match readSegments cfg H segs with
    | .error e => .error (.store e)
    | .ok (_, commits, _) =>
      match reconcile l commits with
      | .error e => .error (.epoch e)
      | .ok l' => .ok l'

/-! ### `acquire_fresh_writer_epoch` (after the reload, which is `openStore`) -/

/-- `retain_latest_closed_writer_epoch` -/
def Ledger.retainLatest (lc : LedgerCfg) (l : Ledger) : Ledger :=
  if l.closed.length ≤ lc.retainedLimit then l
  else
    match l.closed.getLast? with
    | none => l
    | some latest => { l with closed := [latest], closures := [(latest.id, l.closures.getD latest.id)] }

/-- `derive_filesystem_writer_epoch_evidence` -/
def deriveEvidence (H : HashFn) (lc : LedgerCfg) (label : Bytes) (ordinal started : Nat)
    (prevId prevFinal : Option Bytes) : Bytes :=
  H (lc.domain ++ u64 label.length ++ label ++ u64 ordinal ++ u64 started
    ++ (match prevId with | some i => byte 1 ++ i | none => byte 0)
    ++ (match prevFinal with | some d => byte 1 ++ d | none => byte 0))

structure FreshLabels where
  epoch : Bytes
  fencing : Bytes
  process : Bytes
  host : Bytes
  lease : Bytes

/-- the ledger after a left-over active epoch was closed under the new lease -/
def Ledger.closeActive (lc : LedgerCfg) (l : Ledger) : Ledger :=
  match l.active with
  | none => l
  | some a =>
    (Ledger.retainLatest lc
      { active := none, closed := l.closed ++ [a], closures := l.closures.set a.id (l.closures.getD a.id) })

def acquireFresh (H : HashFn) (lc : LedgerCfg) (lab : FreshLabels) (l0 : Ledger) (minStart : Nat) :
    Except EErr Epoch :=
  let l := l0.closeActive lc
  let prev := l.closed.getLast?
  let prevId := prev.map (fun e => e.id)
  let pc : Closure := match prev with
    | some e => l.closures.getD e.id
    | none => ⟨none, none⟩
  let base : Option Nat := match pc.finalLsn with
    | some f => some f
    | none => prev.map (fun e => e.startedAt)
  let required : Nat := match base with
    | some b => (match checkedNext b with | some n => n | none => minStart)
    | none => minStart
  let started := max minStart required
  let ordinal := l.closed.length + 1
  let ev := fun (label : Bytes) => deriveEvidence H lc label ordinal started prevId pc.finalDigest
  validateEpochRequest none l.closed l.closures
    { id := ev lab.epoch, fencing := ev lab.fencing, process := ev lab.process, host := ev lab.host,
      startedAt := started, prevId := prevId, prevFinal := pc.finalDigest, lease := ev lab.lease }

end EchoVerif.Wal
