/-
  EchoVerif.Model.Wal — byte-level model of the causal WAL segment (crates/warp-core/src/causal_wal.rs).

  Modelled exactly as the Rust reads/writes it:
    * disk record framing  `append_segment_record` / `read_segment_bytes`
        magic(8) ‖ kind(1) ‖ len(u64 LE) ‖ payload ‖ digest(32) ,  digest = H(domain ‖ kind ‖ len ‖ payload)
      incl. the three torn-tail exits and the two error exits (bad magic / bad digest);
    * `encode_frame`/`decode_frame`, `encode_commit`/`decode_commit` (all fields, enum-code checks,
      trailing bytes, embedded-frame integrity);
    * `WalFrame::validate_integrity`, `validate_recovery_frame_order`, `validate_transaction_frames`,
      `recover_from_frames_and_commits`, the torn-tail posture override of
      `recover_wal_segment_bytes` / `recover_filesystem_store`, the segment digest, and the
      truncation rewrite (`rewrite_filesystem_segments_after_truncation`);
    * the writer: `WalTransactionBuilder::{push_record, commit}`, `FilesystemWalStore::append_transaction`.
  The hash function is a PARAMETER `H : Bytes → Bytes` (BLAKE3 in the code); `checksum32` is the
  little-endian value of the first four bytes of `H`.  Constants/tables come in through `Cfg`
  (instantiated by the driver from `Generated/WalTables.lean`).
-/
import EchoVerif.Model.Basic

namespace EchoVerif.Wal

abbrev HashFn := Bytes → Bytes

/-- `n` as exactly `k` little-endian bytes (`to_le_bytes`). -/
def le : Nat → Nat → Bytes
  | 0, _ => []
  | k + 1, n => UInt8.ofNat (n % 256) :: le k (n / 256)

structure Cfg where
  magic : Bytes
  diskDomain : Bytes
  frameDomain : Bytes
  payloadDomain : Bytes
  recordsRootDomain : Bytes
  frontiersRootDomain : Bytes
  commitDomain : Bytes
  headerChecksumDomain : Bytes
  frameChecksumDomain : Bytes
  segmentDomain : Bytes
  frameTag : Nat
  commitTag : Nat
  walVersion : Nat
  /-- `WalRecordKind::from_code` + `label`: `none` = unknown code -/
  label : Nat → Option Bytes
  txKindOk : Nat → Bool
  durabilityOk : Nat → Bool
  compressionOk : Nat → Bool
  redactionOk : Nat → Bool

/-- A `WalRecordKind`: its stable code and its label (the label is what is hashed). -/
structure Kind where
  code : Nat
  label : Bytes
  deriving DecidableEq, Repr

structure FrameHeader where
  walVersion : Nat
  writerEpoch : Bytes
  segmentId : Nat
  lsn : Nat
  txId : Bytes
  localIndex : Nat
  kind : Kind
  payloadLen : Nat
  payloadDigest : Bytes
  codecId : Bytes
  schemaId : Bytes
  schemaVersion : Nat
  encodingVersion : Nat
  digestDomain : Bytes
  compression : Nat
  redaction : Nat
  prevFrameDigest : Bytes
  headerChecksum : Nat
  deriving DecidableEq, Repr

structure Frame where
  header : FrameHeader
  payloadKind : Kind
  payloadSchemaVersion : Nat
  payloadBytes : Bytes
  frameChecksum : Nat
  deriving DecidableEq, Repr

structure Commit where
  writerEpoch : Bytes
  txId : Bytes
  txKind : Nat
  firstLsn : Nat
  lastLsn : Nat
  recordCount : Nat
  recordsRoot : Bytes
  frontiersRoot : Bytes
  prevCommitDigest : Bytes
  durability : Nat
  schemaVersion : Nat
  commitDigest : Bytes
  deriving DecidableEq, Repr

inductive Rec where
  | frame : Frame → Rec
  | commit : Commit → Rec
  deriving DecidableEq, Repr

/-! ### errors -/

inductive VErr where
  | recordKind | payloadDigest | headerChecksum | frameChecksum | empty | txId | epoch
  | localIndex | lsnContinuity | firstLsn | lastLsn | recordCount | recordsRoot | commitDigest
  deriving DecidableEq, Repr

inductive DErr where
  | eof | trailing | enumCode (name : String) (code : Nat) | embedded
  deriving DecidableEq, Repr

inductive RErr where
  | validation : VErr → RErr
  | digest : RErr                      -- SegmentRecordDigestMismatch (also: bad magic)
  | unknownKind : Nat → RErr           -- UnknownDiskRecordKind
  | decode : DErr → RErr
  | segment : Nat → Nat → RErr         -- SegmentMismatch expected actual
  deriving DecidableEq, Repr

/-! ### pre-images -/

def u16 (n : Nat) : Bytes := le 2 n
def u32 (n : Nat) : Bytes := le 4 n
def u64 (n : Nat) : Bytes := le 8 n
def byte (n : Nat) : Bytes := [UInt8.ofNat n]

/-- `checksum32(domain, bytes)` -/
def checksum32 (H : HashFn) (domain bytes : Bytes) : Nat := leNat ((H (domain ++ bytes)).take 4)

/-- `WalRecordPayload::digest` pre-image -/
def payloadPre (cfg : Cfg) (k : Kind) (schemaVersion : Nat) (bytes : Bytes) : Bytes :=
  cfg.payloadDomain ++ k.label ++ u16 schemaVersion ++ u64 bytes.length ++ bytes

def Frame.payloadDigest (cfg : Cfg) (H : HashFn) (f : Frame) : Bytes :=
  H (payloadPre cfg f.payloadKind f.payloadSchemaVersion f.payloadBytes)

/-- `WalFrameHeader::checksum_input` -/
def FrameHeader.checksumInput (h : FrameHeader) (includeChecksum : Bool) : Bytes :=
  u16 h.walVersion ++ h.writerEpoch ++ u64 h.segmentId ++ u64 h.lsn ++ h.txId ++ u32 h.localIndex
    ++ h.kind.label ++ u64 h.payloadLen ++ h.payloadDigest ++ h.codecId ++ h.schemaId
    ++ u16 h.schemaVersion ++ u16 h.encodingVersion ++ h.digestDomain ++ byte h.compression
    ++ byte h.redaction ++ h.prevFrameDigest ++ (if includeChecksum then u32 h.headerChecksum else [])

def FrameHeader.computeChecksum (cfg : Cfg) (H : HashFn) (h : FrameHeader) : Nat :=
  checksum32 H cfg.headerChecksumDomain (h.checksumInput false)

/-- `compute_frame_checksum` -/
def Frame.computeChecksum (cfg : Cfg) (H : HashFn) (f : Frame) : Nat :=
  checksum32 H cfg.frameChecksumDomain
    (f.header.checksumInput true ++ f.payloadDigest cfg H ++ u64 f.payloadBytes.length ++ f.payloadBytes)

/-- `WalFrame::digest` -/
def Frame.digest (cfg : Cfg) (H : HashFn) (f : Frame) : Bytes :=
  H (cfg.frameDomain ++ f.header.checksumInput true ++ f.payloadDigest cfg H ++ u32 f.frameChecksum)

/-- `records_root` -/
def recordsRoot (cfg : Cfg) (H : HashFn) (frames : List Frame) : Bytes :=
  H (cfg.recordsRootDomain ++ u64 frames.length ++ frames.flatMap (fun f => f.digest cfg H))

/-- `WalTransactionCommit::compute_digest` -/
def Commit.computeDigest (cfg : Cfg) (H : HashFn) (c : Commit) : Bytes :=
  H (cfg.commitDomain ++ c.writerEpoch ++ c.txId ++ byte c.txKind ++ u64 c.firstLsn ++ u64 c.lastLsn
    ++ u64 c.recordCount ++ c.recordsRoot ++ c.frontiersRoot ++ c.prevCommitDigest ++ byte c.durability
    ++ u16 c.schemaVersion)

/-- `disk_record_digest` -/
def diskDigest (cfg : Cfg) (H : HashFn) (tag : UInt8) (payload : Bytes) : Bytes :=
  H (cfg.diskDomain ++ [tag] ++ u64 payload.length ++ payload)

/-- `segment_digest` -/
def segmentDigest (cfg : Cfg) (H : HashFn) (segmentId : Nat) (frames : List Frame) : Bytes :=
  H (cfg.segmentDomain ++ u64 segmentId ++ u64 frames.length ++ frames.flatMap (fun f => f.digest cfg H))

/-! ### `WalFrame::validate_integrity` -/

def validateIntegrity (cfg : Cfg) (H : HashFn) (f : Frame) : Except VErr Unit :=
  if f.payloadKind ≠ f.header.kind then .error .recordKind
  else if f.payloadDigest cfg H ≠ f.header.payloadDigest then .error .payloadDigest
  else if f.header.computeChecksum cfg H ≠ f.header.headerChecksum then .error .headerChecksum
  else if f.computeChecksum cfg H ≠ f.frameChecksum then .error .frameChecksum
  else .ok ()

/-! ### codecs -/

def encodeFrame (f : Frame) : Bytes :=
  let h := f.header
  u16 h.walVersion ++ h.writerEpoch ++ u64 h.segmentId ++ u64 h.lsn ++ h.txId ++ u32 h.localIndex
    ++ byte h.kind.code ++ u64 h.payloadLen ++ h.payloadDigest ++ h.codecId ++ h.schemaId
    ++ u16 h.schemaVersion ++ u16 h.encodingVersion ++ h.digestDomain ++ byte h.compression
    ++ byte h.redaction ++ h.prevFrameDigest ++ u32 h.headerChecksum
    ++ u16 f.payloadSchemaVersion ++ u64 f.payloadBytes.length ++ f.payloadBytes ++ u32 f.frameChecksum

def encodeCommit (c : Commit) : Bytes :=
  c.writerEpoch ++ c.txId ++ byte c.txKind ++ u64 c.firstLsn ++ u64 c.lastLsn ++ u64 c.recordCount
    ++ c.recordsRoot ++ c.frontiersRoot ++ c.prevCommitDigest ++ byte c.durability ++ u16 c.schemaVersion
    ++ c.commitDigest

/-- `WalPayloadCursor` as a reader over the remaining bytes. -/
def Rd (α : Type) := Bytes → Except DErr (α × Bytes)

def Rd.pure {α : Type} (a : α) : Rd α := fun bs => .ok (a, bs)
def Rd.bind {α β : Type} (m : Rd α) (f : α → Rd β) : Rd β := fun bs =>
  match m bs with
  | .error e => .error e
  | .ok (a, rest) => f a rest
instance : Monad Rd where
  pure := Rd.pure
  bind := Rd.bind

def Rd.fail {α : Type} (e : DErr) : Rd α := fun _ => .error e

/-- `read_exact(n)` -/
def rdBytes (n : Nat) : Rd Bytes := fun bs =>
  if bs.length < n then .error .eof else .ok (bs.take n, bs.drop n)

/-- `read_u8/u16/u32/u64` -/
def rdLE (n : Nat) : Rd Nat := fun bs =>
  if bs.length < n then .error .eof else .ok (leNat (bs.take n), bs.drop n)

/-- `read_vec`: u64 length then that many bytes -/
def rdVec : Rd Bytes := fun bs =>
  match rdLE 8 bs with
  | .error e => .error e
  | .ok (n, rest) => rdBytes n rest

/-- `finish` -/
def rdFinish : Rd Unit := fun bs => if bs.isEmpty then .ok ((), bs) else .error .trailing

def rdEnum (name : String) (ok : Nat → Bool) : Rd Nat := fun bs =>
  match rdLE 1 bs with
  | .error e => .error e
  | .ok (c, rest) => if ok c then .ok (c, rest) else .error (.enumCode name c)

def rdKind (cfg : Cfg) : Rd Kind := fun bs =>
  match rdLE 1 bs with
  | .error e => .error e
  | .ok (c, rest) =>
    match cfg.label c with
    | some l => .ok (⟨c, l⟩, rest)
    | none => .error (.enumCode "WalRecordKind" c)

def parseFrame (cfg : Cfg) : Rd Frame := do
  let walVersion ← rdLE 2
  let writerEpoch ← rdBytes 32
  let segmentId ← rdLE 8
  let lsn ← rdLE 8
  let txId ← rdBytes 32
  let localIndex ← rdLE 4
  let kind ← rdKind cfg
  let payloadLen ← rdLE 8
  let payloadDigest ← rdBytes 32
  let codecId ← rdBytes 32
  let schemaId ← rdBytes 32
  let schemaVersion ← rdLE 2
  let encodingVersion ← rdLE 2
  let digestDomain ← rdBytes 32
  let compression ← rdEnum "WalCompressionKind" cfg.compressionOk
  let redaction ← rdEnum "WalRedactionPosture" cfg.redactionOk
  let prevFrameDigest ← rdBytes 32
  let headerChecksum ← rdLE 4
  let payloadSchemaVersion ← rdLE 2
  let payloadBytes ← rdVec
  let frameChecksum ← rdLE 4
  rdFinish
  pure { header := { walVersion, writerEpoch, segmentId, lsn, txId, localIndex, kind, payloadLen,
                     payloadDigest, codecId, schemaId, schemaVersion, encodingVersion, digestDomain,
                     compression, redaction, prevFrameDigest, headerChecksum },
         payloadKind := kind, payloadSchemaVersion, payloadBytes, frameChecksum }

/-- `decode_frame` -/
def decodeFrame (cfg : Cfg) (H : HashFn) (bs : Bytes) : Except DErr Frame :=
  match parseFrame cfg bs with
  | .error e => .error e
  | .ok (f, _) =>
    match validateIntegrity cfg H f with
    | .error _ => .error .embedded
    | .ok _ => .ok f

def parseCommit (cfg : Cfg) : Rd Commit := do
  let writerEpoch ← rdBytes 32
  let txId ← rdBytes 32
  let txKind ← rdEnum "WalTransactionKind" cfg.txKindOk
  let firstLsn ← rdLE 8
  let lastLsn ← rdLE 8
  let recordCount ← rdLE 8
  let recordsRoot ← rdBytes 32
  let frontiersRoot ← rdBytes 32
  let prevCommitDigest ← rdBytes 32
  let durability ← rdEnum "WalDurabilityMode" cfg.durabilityOk
  let schemaVersion ← rdLE 2
  let commitDigest ← rdBytes 32
  rdFinish
  pure { writerEpoch, txId, txKind, firstLsn, lastLsn, recordCount, recordsRoot, frontiersRoot,
         prevCommitDigest, durability, schemaVersion, commitDigest }

/-- `decode_commit` -/
def decodeCommit (cfg : Cfg) (bs : Bytes) : Except DErr Commit :=
  match parseCommit cfg bs with
  | .error e => .error e
  | .ok (c, _) => .ok c

/-- the `match kind { 1 => decode_frame, 2 => decode_commit, other => UnknownDiskRecordKind }` of
    `read_segment_bytes` -/
def decodeRec (cfg : Cfg) (H : HashFn) (tag : UInt8) (payload : Bytes) : Except RErr Rec :=
  if tag.toNat = cfg.frameTag then
    match decodeFrame cfg H payload with
    | .ok f => .ok (.frame f)
    | .error e => .error (.decode e)
  else if tag.toNat = cfg.commitTag then
    match decodeCommit cfg payload with
    | .ok c => .ok (.commit c)
    | .error e => .error (.decode e)
  else .error (.unknownKind tag.toNat)

/-! ### disk records: `append_segment_record` / `read_segment_bytes` -/

/-- bytes appended by `append_segment_record` for a record of kind `tag` -/
def encRec (cfg : Cfg) (H : HashFn) (tag : UInt8) (payload : Bytes) : Bytes :=
  cfg.magic ++ [tag] ++ u64 payload.length ++ payload ++ diskDigest cfg H tag payload

set_option linter.unusedVariables false in
/-- `read_segment_bytes`, generic in the per-record decoder. Result: decoded records in file order
    and the `torn_tail` flag. -/
def scan {R : Type} (cfg : Cfg) (H : HashFn) (dec : UInt8 → Bytes → Except RErr R) (bs : Bytes) :
    Except RErr (List R × Bool) :=
  if bs.length = 0 then .ok ([], false)
  else if bs.length < cfg.magic.length + 9 then .ok ([], true)
  else if bs.take cfg.magic.length ≠ cfg.magic then .error .digest
  else
    match hd : bs.drop cfg.magic.length with
    | [] => .ok ([], true)
    | tag :: afterTag =>
      let len := leNat (afterTag.take 8)
      let body := afterTag.drop 8
      if body.length < len + 32 then .ok ([], true)
      else
        let payload := body.take len
        let digest := (body.drop len).take 32
        if digest ≠ diskDigest cfg H tag payload then .error .digest
        else
          match dec tag payload with
          | .error e => .error e
          | .ok r =>
            match scan cfg H dec (body.drop (len + 32)) with
            | .error e => .error e
            | .ok (rs, torn) => .ok (r :: rs, torn)
termination_by bs.length
decreasing_by
  simp only [List.length_drop]
  have h1 : afterTag.length + 1 = (bs.drop cfg.magic.length).length := by
    rw [hd]; rfl
  simp only [List.length_drop] at h1
  omega

def framesOf : List Rec → List Frame
  | [] => []
  | .frame f :: rs => f :: framesOf rs
  | .commit _ :: rs => framesOf rs

def commitsOf : List Rec → List Commit
  | [] => []
  | .frame _ :: rs => commitsOf rs
  | .commit c :: rs => c :: commitsOf rs

/-! ### recovery: `recover_from_frames_and_commits` -/

inductive Mode where
  | writable | readOnly
  deriving DecidableEq, Repr

inductive Tail where
  | clean | truncatedAll | truncatedAfter (lsn : Nat) | wouldTruncateAll | wouldTruncateAfter (lsn : Nat)
  deriving DecidableEq, Repr

structure RecoveredTx where
  commit : Commit
  frames : List Frame
  deriving DecidableEq, Repr

structure Report where
  txs : List RecoveredTx
  tail : Tail
  deriving DecidableEq, Repr

/-- insert `x` (which preceded every element of the list in the input) before the first element
    whose key is ≥ its own: a stable insertion (the Rust `sort_by_key` is stable) -/
def insSorted {α : Type} (key : α → Nat) (x : α) : List α → List α
  | [] => [x]
  | y :: ys => if key x ≤ key y then x :: y :: ys else y :: insSorted key x ys

/-- stable sort by key -/
def sortBy {α : Type} (key : α → Nat) : List α → List α
  | [] => []
  | x :: xs => insSorted key x (sortBy key xs)

def u64Max : Nat := 18446744073709551615
def u32Max : Nat := 4294967295

/-- the loop of `validate_recovery_frame_order` over the LSN-sorted frames -/
def frameOrderLoop (cfg : Cfg) (H : HashFn) : Option Nat → List Frame → Except VErr Unit
  | _, [] => .ok ()
  | prev, f :: fs =>
    match validateIntegrity cfg H f with
    | .error e => .error e
    | .ok _ =>
      match prev with
      | none => frameOrderLoop cfg H (some f.header.lsn) fs
      | some p =>
        if p = u64Max then .error .lsnContinuity            -- checked_next overflow
        else if f.header.lsn ≠ p + 1 then .error .lsnContinuity
        else frameOrderLoop cfg H (some f.header.lsn) fs

def validateFrameOrder (cfg : Cfg) (H : HashFn) (frames : List Frame) : Except VErr Unit :=
  frameOrderLoop cfg H none (sortBy (fun f => f.header.lsn) frames)

/-- the per-frame loop of `validate_transaction_frames` -/
def checkTxFrames (cfg : Cfg) (H : HashFn) (c : Commit) : Nat → List Frame → Except VErr Unit
  | _, [] => .ok ()
  | i, f :: fs =>
    match validateIntegrity cfg H f with
    | .error e => .error e
    | .ok _ =>
      if f.header.txId ≠ c.txId then .error .txId
      else if f.header.writerEpoch ≠ c.writerEpoch then .error .epoch
      else if f.header.localIndex ≠ min i u32Max then .error .localIndex
      else if c.firstLsn + i > u64Max then .error .lsnContinuity
      else if f.header.lsn ≠ c.firstLsn + i then .error .lsnContinuity
      else checkTxFrames cfg H c (i + 1) fs

/-- `validate_transaction_frames` -/
def validateTx (cfg : Cfg) (H : HashFn) (frames : List Frame) (c : Commit) : Except VErr Unit :=
  match frames.head?, frames.getLast? with
  | some first, some last =>
    if first.header.lsn ≠ c.firstLsn then .error .firstLsn
    else if last.header.lsn ≠ c.lastLsn then .error .lastLsn
    else if frames.length ≠ c.recordCount then .error .recordCount
    else
      match checkTxFrames cfg H c 0 frames with
      | .error e => .error e
      | .ok _ =>
        if recordsRoot cfg H frames ≠ c.recordsRoot then .error .recordsRoot
        else if c.computeDigest cfg H ≠ c.commitDigest then .error .commitDigest
        else .ok ()
  | _, _ => .error .empty

/-- frames selected for a commit marker -/
def selectFrames (frames : List Frame) (c : Commit) : List Frame :=
  frames.filter (fun f => f.header.txId = c.txId ∧ c.firstLsn ≤ f.header.lsn ∧ f.header.lsn ≤ c.lastLsn)

/-- LEGACY (the loop as it was BEFORE /repo commit 891bbae, without the commit-marker tiling check).
    No entry point of the model uses it any more: the current loop is `recoverLoopT` in
    `Model/WalIntegrity.lean`.  It is kept only because `Lemmas/WalRecover.recoverFC_prefix` (about this
    loop) is the stepping stone of `Lemmas/WalTiling.recoverFCT_prefix` (the same statement for the
    current loop). -/
def recoverLoop (cfg : Cfg) (H : HashFn) (frames : List Frame) :
    List Commit → Except VErr (List RecoveredTx × Option Nat)
  | [] => .ok ([], none)
  | c :: cs =>
    let sel := selectFrames frames c
    match validateTx cfg H sel c with
    | .error e => .error e
    | .ok _ =>
      match recoverLoop cfg H frames cs with
      | .error e => .error e
      | .ok (txs, last) => .ok (⟨c, sel⟩ :: txs, match last with | some l => some l | none => some c.lastLsn)

def tailOf (mode : Mode) (last : Option Nat) : Tail :=
  match mode, last with
  | .writable, some l => .truncatedAfter l
  | .readOnly, some l => .wouldTruncateAfter l
  | .writable, none => .truncatedAll
  | .readOnly, none => .wouldTruncateAll

/-- LEGACY `recover_from_frames_and_commits` before 891bbae (see `recoverLoop`); current code: `recoverFCT` -/
def recoverFC (cfg : Cfg) (H : HashFn) (frames : List Frame) (commits : List Commit) (mode : Mode) :
    Except VErr Report :=
  match validateFrameOrder cfg H frames with
  | .error e => .error e
  | .ok _ =>
    match recoverLoop cfg H frames commits with
    | .error e => .error e
    | .ok (txs, last) =>
      let tailExists := frames.any (fun f => match last with | none => true | some l => f.header.lsn > l)
      .ok { txs, tail := if tailExists then tailOf mode last else .clean }

/-- `RecoveryScanReport::last_committed_lsn` (max over recovered commits) -/
def lastCommittedLsn : List RecoveredTx → Option Nat
  | [] => none
  | t :: ts =>
    match lastCommittedLsn ts with
    | none => some t.commit.lastLsn
    | some m => some (max t.commit.lastLsn m)

/-- the `torn_tail && Clean` override shared by both byte-level entry points -/
def applyTorn (mode : Mode) (torn : Bool) (r : Report) : Report :=
  if torn ∧ r.tail = .clean then { r with tail := tailOf mode (lastCommittedLsn r.txs) } else r

def firstSegmentMismatch (segmentId : Nat) : List Frame → Option Nat
  | [] => none
  | f :: fs => if f.header.segmentId ≠ segmentId then some f.header.segmentId else firstSegmentMismatch segmentId fs

/-! The byte-level entry points (`recover_wal_segment_bytes`, `recover_filesystem_store`) and the
    truncation rewrite are defined over the CURRENT loop: `recoverSegmentBytesT` / `recoverFilesystemT`
    in `Model/WalIntegrity.lean`, `afterWritableRecoveryT` in `Model/WalDurable.lean`. -/

/-- segment bytes written by `rewrite_segment_records`: all kept frames, then all kept commits -/
def encodeRecords (cfg : Cfg) (H : HashFn) (frames : List Frame) (commits : List Commit) : Bytes :=
  frames.flatMap (fun f => encRec cfg H (UInt8.ofNat cfg.frameTag) (encodeFrame f))
    ++ commits.flatMap (fun c => encRec cfg H (UInt8.ofNat cfg.commitTag) (encodeCommit c))

/-! ### the writer: `WalTransactionBuilder`, `append_transaction` -/

structure BuildParams where
  writerEpoch : Bytes
  segmentId : Nat
  codecId : Bytes
  schemaId : Bytes
  schemaVersion : Nat
  encodingVersion : Nat
  digestDomain : Bytes
  durability : Nat
  deriving Repr

structure Tx where
  frames : List Frame
  commit : Commit
  deriving DecidableEq, Repr

/-- `push_record` + `WalFrame::new` -/
def mkFrame (cfg : Cfg) (H : HashFn) (p : BuildParams) (txId : Bytes) (lsn idx : Nat) (k : Kind)
    (bytes prev : Bytes) : Frame :=
  let h0 : FrameHeader :=
    { walVersion := cfg.walVersion, writerEpoch := p.writerEpoch, segmentId := p.segmentId, lsn, txId,
      localIndex := idx, kind := k, payloadLen := bytes.length,
      payloadDigest := H (payloadPre cfg k p.schemaVersion bytes), codecId := p.codecId,
      schemaId := p.schemaId, schemaVersion := p.schemaVersion, encodingVersion := p.encodingVersion,
      digestDomain := p.digestDomain, compression := 0, redaction := 1, prevFrameDigest := prev,
      headerChecksum := 0 }
  let h := { h0 with headerChecksum := h0.computeChecksum cfg H }
  let f0 : Frame := { header := h, payloadKind := k, payloadSchemaVersion := p.schemaVersion,
                      payloadBytes := bytes, frameChecksum := 0 }
  { f0 with frameChecksum := f0.computeChecksum cfg H }

/-- successive `push_record`s -/
def mkFrames (cfg : Cfg) (H : HashFn) (p : BuildParams) (txId : Bytes) :
    Nat → Nat → Bytes → List (Kind × Bytes) → List Frame
  | _, _, _, [] => []
  | lsn, idx, prev, (k, bytes) :: rest =>
    let f := mkFrame cfg H p txId lsn idx k bytes prev
    f :: mkFrames cfg H p txId (lsn + 1) (idx + 1) (f.digest cfg H) rest

/-- `affected_frontiers_root` (entries: kind code, before, after; sorted stably by kind) -/
def frontiersRoot (cfg : Cfg) (H : HashFn) (fr : List (Nat × Bytes × Bytes)) : Bytes :=
  let sorted := sortBy (fun e => e.1) fr
  H (cfg.frontiersRootDomain ++ u64 sorted.length
    ++ sorted.flatMap (fun e => byte e.1 ++ e.2.1 ++ e.2.2))

/-- `WalTransactionBuilder::commit` (for a non-empty record list) -/
def mkTx (cfg : Cfg) (H : HashFn) (p : BuildParams) (txId : Bytes) (txKind firstLsn : Nat)
    (prevFrame prevCommit : Bytes) (records : List (Kind × Bytes)) (frontiers : Bytes) : Tx :=
  let frames := mkFrames cfg H p txId firstLsn 0 prevFrame records
  let c0 : Commit :=
    { writerEpoch := p.writerEpoch, txId, txKind, firstLsn, lastLsn := firstLsn + records.length - 1,
      recordCount := records.length, recordsRoot := recordsRoot cfg H frames, frontiersRoot := frontiers,
      prevCommitDigest := prevCommit, durability := p.durability, schemaVersion := cfg.walVersion,
      commitDigest := [] }
  { frames, commit := { c0 with commitDigest := c0.computeDigest cfg H } }

/-- what a caller hands to the builder for one transaction -/
structure TxSpec where
  txId : Bytes
  txKind : Nat
  records : List (Kind × Bytes)
  frontiers : Bytes            -- `affected_frontiers_root`
  deriving Repr

/-- a writer session: transactions built one after the other with consecutive LSNs. `chain` = the
    previous-frame / previous-commit digests are threaded through (as the runtime host does);
    otherwise every transaction uses the same two constants (as the repository's tests do). -/
def buildLog (cfg : Cfg) (H : HashFn) (p : BuildParams) (chain : Bool) :
    Nat → Bytes → Bytes → List TxSpec → List Tx
  | _, _, _, [] => []
  | lsn, pf, pc, s :: ss =>
    let t := mkTx cfg H p s.txId s.txKind lsn pf pc s.records s.frontiers
    let pf' := if chain then (match t.frames.getLast? with | some f => f.digest cfg H | none => pf) else pf
    let pc' := if chain then t.commit.commitDigest else pc
    t :: buildLog cfg H p chain (lsn + s.records.length) pf' pc' ss

/-- bytes appended to the segment by `append_transaction`: every frame, then the commit marker -/
def encTx (cfg : Cfg) (H : HashFn) (t : Tx) : Bytes :=
  t.frames.flatMap (fun f => encRec cfg H (UInt8.ofNat cfg.frameTag) (encodeFrame f))
    ++ encRec cfg H (UInt8.ofNat cfg.commitTag) (encodeCommit t.commit)

def encLog (cfg : Cfg) (H : HashFn) (txs : List Tx) : Bytes := txs.flatMap (encTx cfg H)

end EchoVerif.Wal
