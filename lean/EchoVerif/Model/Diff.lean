/-
  EchoVerif.Model.Diff — model of `tick_patch.rs::diff_state` (+ helpers) and `WarpOp::sort_key`.
  Phase ranks come from Generated/OpTable.lean (extracted from the Rust source on every run).
-/
import EchoVerif.Model.Graph
import EchoVerif.Generated.OpTable

namespace EchoVerif
namespace Graph

def ownerTag : Owner → Nat
  | .node .. => 1
  | .edge .. => 2

def planeTag : Plane → Nat
  | .alpha => 1
  | .beta => 2

/-- `[owner_tag, plane_tag, 0, …]` as a big-endian 32-byte value. -/
def attKeyA (k : AttKey) : Nat := ownerTag k.owner * 256 ^ 31 + planeTag k.plane * 256 ^ 30

def ownerWarp : Owner → Nat
  | .node w _ => w
  | .edge w _ => w

def ownerLocal : Owner → Nat
  | .node _ i => i
  | .edge _ i => i

abbrev OpKey := Nat × Nat × Nat × Nat

/-- `WarpOp::sort_key` = `(kind, warp, a, b)`, compared lexicographically. -/
def Op.sortKey (o : Op) : OpKey :=
  let kind := Generated.opKind o.tag
  match o with
  | .openPortal key _ _ _ => (kind, ownerWarp key.owner, attKeyA key, ownerLocal key.owner)
  | .upsertInstance inst => (kind, inst.warp, inst.warp, 0)
  | .deleteInstance w => (kind, w, w, 0)
  | .deleteEdge w src id => (kind, w, src, id)
  | .deleteNode w i => (kind, w, i, 0)
  | .upsertNode w i _ => (kind, w, i, 0)
  | .upsertEdge w id src _ _ => (kind, w, src, id)
  | .setAtt key _ => (kind, ownerWarp key.owner, attKeyA key, ownerLocal key.owner)

/-- stable insertion (after all elements with key ≤). -/
def insertOp (o : Op) : List Op → List Op
  | [] => [o]
  | x :: xs => if LinOrd.lt o.sortKey x.sortKey then o :: x :: xs else x :: insertOp o xs

/-- `ops.sort_by_key(WarpOp::sort_key)` (stable). -/
def sortOps (ops : List Op) : List Op := ops.foldl (fun acc o => insertOp o acc) []

/-! ### per-instance diff -/

def diffNodes (w : Nat) (before after : Store) (skip : List (Nat × Nat)) : List Op :=
  (before.nodes.filterMap (fun (i, tyB) =>
    if skip.contains (w, i) then none else
    match SMap.find? i after.nodes with
    | none => some (Op.deleteNode w i)
    | some tyA => if tyB = tyA then none else some (Op.upsertNode w i tyA))) ++
  (after.nodes.filterMap (fun (i, tyA) =>
    if skip.contains (w, i) then none else
    match SMap.find? i before.nodes with
    | none => some (Op.upsertNode w i tyA)
    | some _ => none))

def diffNodeAtts (w : Nat) (before after : Store) (skip : List AttKey) : List Op :=
  after.nodes.filterMap (fun (i, _) =>
    let b := SMap.find? i before.nodeAtt
    let a := SMap.find? i after.nodeAtt
    if b = a then none else
    let key := AttKey.nodeAlpha w i
    if skip.contains key then none else some (Op.setAtt key a))

def diffEdges (w : Nat) (before after : Store) : List Op :=
  (before.edges.filterMap (fun (id, eB) =>
    match SMap.find? id after.edges with
    | none => some (Op.deleteEdge w eB.src id)
    | some _ => none)) ++
  (after.edges.flatMap (fun (id, eA) =>
    match SMap.find? id before.edges with
    | none => [Op.upsertEdge w id eA.src eA.dst eA.ty]
    | some eB =>
      if eB = eA then []
      else (if eB.src ≠ eA.src then [Op.deleteEdge w eB.src id] else []) ++
           [Op.upsertEdge w id eA.src eA.dst eA.ty]))

/-- the edge keeps its id but is stored under a different source node in `before`. -/
def edgeMigrated (before : Store) (id : Nat) (eA : EdgeRec) : Bool :=
  match SMap.find? id before.edges with
  | some eB => decide (eB.src ≠ eA.src)
  | none => false

def diffEdgeAtts (w : Nat) (before after : Store) (skip : List AttKey) : List Op :=
  after.edges.filterMap (fun (id, eA) =>
    let b := SMap.find? id before.edgeAtt
    let a := SMap.find? id after.edgeAtt
    -- an edge that keeps its id but changes `from` is deleted and re-inserted, which clears β:
    -- its attachment is re-emitted even when unchanged
    if b = a && !(a.isSome && edgeMigrated before id eA) then none else
    let key := AttKey.edgeBeta w id
    if skip.contains key then none else some (Op.setAtt key a))

def diffInstance (w : Nat) (before after : Store) (skipNodes : List (Nat × Nat))
    (skipAtts : List AttKey) : List Op :=
  diffNodes w before after skipNodes ++ diffNodeAtts w before after skipAtts ++
  diffEdges w before after ++ diffEdgeAtts w before after skipAtts

/-- Portal canonicalisation: new descended instances whose parent slot already points at them. -/
def portalOps (before after : WState) : List (Op × Nat × (Nat × Nat) × AttKey) :=
  after.instances.filterMap (fun (w, inst) =>
    match SMap.find? w before.instances with
    | some _ => none
    | none =>
      match inst.parent with
      | none => none
      | some pk =>
        match attValueForKey after pk with
        | none => none
        | some pv =>
          if pv ≠ Att.descend w then none else
          match after.store? w with
          | none => none
          | some child =>
            match SMap.find? inst.root child.nodes with
            | none => none
            | some rootTy =>
              some (Op.openPortal pk w inst.root (.empty rootTy), w, (w, inst.root), pk))

/-- `diff_state`. -/
def diffState (before after : WState) : List Op :=
  let portals := portalOps before after
  let portalWarps := portals.map (fun p => p.2.1)
  let skipNodes := portals.map (fun p => p.2.2.1)
  let skipAtts := portals.map (fun p => p.2.2.2)
  let dels := before.instances.filterMap (fun (w, _) =>
    match SMap.find? w after.instances with
    | none => some (Op.deleteInstance w)
    | some _ => none)
  let ups := after.instances.filterMap (fun (w, instA) =>
    match SMap.find? w before.instances with
    | none => if portalWarps.contains w then none else some (Op.upsertInstance instA)
    | some instB => if instB = instA then none else some (Op.upsertInstance instA))
  let per := after.stores.flatMap (fun (w, stA) =>
    let stB := match SMap.find? w before.stores with | some s => s | none => Store.empty
    diffInstance w stB stA skipNodes skipAtts)
  sortOps (portals.map (·.1) ++ dels ++ ups ++ per)

end Graph
end EchoVerif
