/-
  EchoVerif.Model.CostCbor — COST model of the ABI canonical CBOR decoder
  (crates/echo-wasm-abi/src/canonical.rs: `decode_value` / `dec_value`), property C13.

  The model follows `dec_value` arm by arm but does not build the value: it returns the result
  *class* (accepted, or which typed error) together with a cost record
    alloc    Σ of the capacities passed to `Vec::with_capacity` (in elements),
    copied   Σ of the bytes copied out of the input for byte/text strings (`to_vec`/`to_string`),
    steps    number of `dec_value` calls (= nodes of the decoded value when accepted),
    maxDepth deepest `depth` argument of any call,
  on the error paths as well (that is where the real decoder used to abort).
  The two things a one-line Rust edit can flip — the nesting check and the capacity rule — are
  parameters (`Params`) whose values are EXTRACTED from the Rust source (Generated/CostAbi.lean).
  Recursion is structural on `room` = MAX_DECODE_NESTING_DEPTH − depth: no fuel when the nesting
  check is present.  The float canonicality predicates (bit patterns) are those of the functional
  model Model/Codec/Cbor.lean (C12), not a second copy; Lemmas/CostCborTie.lean proves that the
  result class computed here is the functional decoder's.
-/
import EchoVerif.Model.Basic
import EchoVerif.Model.Codec.Cbor

namespace EchoVerif.CostCbor
open EchoVerif
open EchoVerif.Cbor (widen16 widen32 isNan floatInt? fits16 fits32 canonNan16)

/-- How a container arm sizes its `Vec::with_capacity`. -/
inductive CapRule
  /-- `Vec::with_capacity(len)` — the declared length, unchecked (the defect). -/
  | declared
  /-- `Vec::with_capacity(take_reserve(len, reserve))` — `min(len, *reserve)`, charged to a budget
      that starts at `bytes.len()` for one whole decode (the fix). -/
  | reserve
  deriving DecidableEq, Repr

structure Params where
  /-- `MAX_DECODE_NESTING_DEPTH` -/
  maxDepth : Nat
  /-- both container arms carry `if depth >= MAX_DECODE_NESTING_DEPTH { return Err(..) }` -/
  depthChecked : Bool
  /-- capacity rule used by every `Vec::with_capacity` in `dec_value` -/
  capRule : CapRule
  deriving Repr

inductive Err
  | incomplete | trailing | tag | indefinite | nonCanonInt | nonCanonFloat | floatShouldBeInt
  | keyOrder | keyDup | lenInfo | intRange | utf8 | simple | depth
  /-- model-only: recursion parameter exhausted (proved unreachable, `abi_terminates`) -/
  | fuel
  deriving DecidableEq, Repr

def Err.tok : Err → String
  | .incomplete => "incomplete" | .trailing => "trailing" | .tag => "tag"
  | .indefinite => "indefinite" | .nonCanonInt => "noncanon-int"
  | .nonCanonFloat => "noncanon-float" | .floatShouldBeInt => "float-should-be-int"
  | .keyOrder => "key-order" | .keyDup => "key-dup" | .lenInfo => "decode-len-info"
  | .intRange => "decode-int-range" | .utf8 => "decode-utf8" | .simple => "decode-simple"
  | .depth => "depth" | .fuel => "model-fuel"

structure St where
  reserve : Nat
  alloc : Nat
  copied : Nat
  steps : Nat
  maxDepth : Nat
  deriving Repr

/-- Result of a (partial) decode: the cost state is reported on both paths. -/
abbrev R := St × Except Err Bytes

/-- `bs.length < n` without walking past the first `n` cells (inputs reach 1 MiB) -/
def shorter : Bytes → Nat → Bool
  | _, 0 => false
  | [], _ + 1 => true
  | _ :: t, n + 1 => shorter t n

theorem shorter_iff : ∀ (bs : Bytes) (n : Nat), shorter bs n = true ↔ bs.length < n
  | _, 0 => by simp [shorter]
  | [], n + 1 => by simp [shorter]
  | _ :: t, n + 1 => by simp [shorter, shorter_iff t n]

/-! ### UTF-8 (`core::str::from_utf8`): the functional model's automaton (Unicode Table 3-7) -/

/-- `str::from_utf8(data).is_ok()` — `Cbor.utf8Valid`, shared with C12 (tail-recursive when compiled:
    1 MiB strings are fine) -/
@[inline] def validUtf8 (bs : Bytes) : Bool := Cbor.utf8Valid bs

/-! ### Floats as bit patterns: `Cbor.widen16/32` (exact widening), `Cbor.floatInt?`
(`is_exact_int`: finite, integral, inside [-2^63, 2^64)), `Cbor.fits16/32` (`can_fit_f16/f32`) -/

/-- arm `7 => match info { 25 | 26 | 27 }` after the payload was read (`w` = payload bytes);
    the same tests, in the same order, as `Cbor.decFloat` -/
def floatCheck (w : Nat) (payload : Nat) : Option Err :=
  if w = 2 then
    let f := widen16 payload
    -- the encoder writes every NaN as f16 0x7e00; other NaN payloads are not canonical
    if isNan f && payload != canonNan16 then some .nonCanonFloat
    else if (floatInt? f).isSome then some .floatShouldBeInt else none
  else if w = 4 then
    let f := widen32 payload
    if (floatInt? f).isSome then some .floatShouldBeInt
    else if fits16 f then some .nonCanonFloat else none
  else
    if (floatInt? payload).isSome then some .floatShouldBeInt
    else if fits16 payload then some .nonCanonFloat
    else if fits32 payload then some .nonCanonFloat else none

/-! ### Heads -/

/-- `read_uint` -/
def readUint (n : Nat) (bs : Bytes) : Except Err (Nat × Bytes) :=
  if shorter bs n then .error .incomplete else .ok (beNat (bs.take n), bs.drop n)

/-- `read_len`, including the over-wide rejections -/
def readLen (info : Nat) (bs : Bytes) : Except Err (Nat × Bytes) :=
  if info ≤ 23 then .ok (info, bs)
  else if info = 24 then
    match readUint 1 bs with
    | .ok (v, r) => if v ≤ 23 then .error .nonCanonInt else .ok (v, r)
    | .error e => .error e
  else if info = 25 then
    match readUint 2 bs with
    | .ok (v, r) => if v ≤ 0xff then .error .nonCanonInt else .ok (v, r)
    | .error e => .error e
  else if info = 26 then
    match readUint 4 bs with
    | .ok (v, r) => if v ≤ 0xffff then .error .nonCanonInt else .ok (v, r)
    | .error e => .error e
  else if info = 27 then
    match readUint 8 bs with
    | .ok (v, r) => if v ≤ 0xffffffff then .error .nonCanonInt else .ok (v, r)
    | .error e => .error e
  else if info = 31 then .error .indefinite
  else .error .lenInfo

/-- What one `dec_value` call does before (possibly) recursing. -/
inductive Head
  /-- scalar / string / immediate error: outcome and bytes copied out of the input -/
  | done (r : Except Err Bytes) (copied : Nat)
  | arr (len : Nat) (rest : Bytes)
  | map (len : Nat) (rest : Bytes)

/-- majors 0 / 1 -/
def headInt (neg : Bool) (info : Nat) (rest : Bytes) : Head :=
  match readLen info rest with
  | .ok (n, r) => if neg && n ≥ 2 ^ 63 then .done (.error .intRange) 0 else .done (.ok r) 0
  | .error e => .done (.error e) 0

/-- majors 2 / 3: `need(len)`, UTF-8 for text, then `to_vec()` / `to_string()` -/
def headStr (text : Bool) (info : Nat) (rest : Bytes) : Head :=
  match readLen info rest with
  | .ok (n, r) =>
    if shorter r n then .done (.error .incomplete) 0
    else if text && !validUtf8 (r.take n) then .done (.error .utf8) 0
    else .done (.ok (r.drop n)) n
  | .error e => .done (.error e) 0

def headArr (info : Nat) (rest : Bytes) : Head :=
  match readLen info rest with
  | .ok (n, r) => .arr n r
  | .error e => .done (.error e) 0

def headMap (info : Nat) (rest : Bytes) : Head :=
  match readLen info rest with
  | .ok (n, r) => .map n r
  | .error e => .done (.error e) 0

def headFloat (w : Nat) (rest : Bytes) : Head :=
  match readUint w rest with
  | .ok (v, r) =>
    match floatCheck w v with
    | some e => .done (.error e) 0
    | none => .done (.ok r) 0
  | .error e => .done (.error e) 0

/-- major 7 -/
def headSimple (info : Nat) (rest : Bytes) : Head :=
  if info = 20 || info = 21 || info = 22 then .done (.ok rest) 0
  else if info = 25 then headFloat 2 rest
  else if info = 26 then headFloat 4 rest
  else if info = 27 then headFloat 8 rest
  else if info = 31 then .done (.error .indefinite) 0
  else .done (.error .simple) 0

def dispatch (major info : Nat) (rest : Bytes) : Head :=
  if major = 0 then headInt false info rest
  else if major = 1 then headInt true info rest
  else if major = 2 then headStr false info rest
  else if major = 3 then headStr true info rest
  else if major = 4 then headArr info rest
  else if major = 5 then headMap info rest
  else if major = 6 then .done (.error .tag) 0
  else headSimple info rest

def decHead : Bytes → Head
  | [] => .done (.error .incomplete) 0
  | b0 :: rest => dispatch (b0.toNat / 32) (b0.toNat % 32) rest

/-! ### Cost bookkeeping -/

/-- entry of a `dec_value` call at `depth` -/
def tick (st : St) (depth : Nat) : St :=
  { st with steps := st.steps + 1, maxDepth := max st.maxDepth depth }

/-- `Vec::with_capacity(..)` of a container arm declaring `len` elements -/
def reserveFor (p : Params) (len : Nat) (st : St) : St :=
  match p.capRule with
  | .declared => { st with alloc := st.alloc + len }
  | .reserve =>
    let cap := min len st.reserve
    { st with reserve := st.reserve - cap, alloc := st.alloc + cap }

/-- slice comparison `kb < prev` -/
def bytesLt : Bytes → Bytes → Bool
  | [], [] => false
  | [], _ :: _ => true
  | _ :: _, [] => false
  | a :: as, b :: bs => if a < b then true else if b < a then false else bytesLt as bs

/-- duplicate / order check of a map key against the previous key of the same map -/
def keyCheck (last : Option Bytes) (kb : Bytes) : Option Err :=
  match last with
  | none => none
  | some prev => if kb = prev then some .keyDup else if bytesLt kb prev then some .keyOrder else none

/-- `for _ in 0..len { items.push(dec_value(..)?) }` -/
def items (dv : Bytes → St → R) : Nat → Bytes → St → R
  | 0, bs, st => (st, .ok bs)
  | n + 1, bs, st =>
    match dv bs st with
    | (st', .ok rest) => items dv n rest st'
    | (st', .error e) => (st', .error e)

/-- one map entry: key, duplicate/order check of the raw key bytes against `last`, value;
    returns the rest and the raw key bytes -/
def entry (dv : Bytes → St → R) (last : Option Bytes) (bs : Bytes) (st : St) :
    St × Except Err (Bytes × Bytes) :=
  match dv bs st with
  | (st1, .error e) => (st1, .error e)
  | (st1, .ok r1) =>
    match keyCheck last (bs.take (bs.length - r1.length)) with
    | some e => (st1, .error e)
    | none =>
      match dv r1 st1 with
      | (st2, .error e) => (st2, .error e)
      | (st2, .ok r2) => (st2, .ok (r2, bs.take (bs.length - r1.length)))

/-- the map arm's loop -/
def entries (dv : Bytes → St → R) : Nat → Option Bytes → Bytes → St → R
  | 0, _, bs, st => (st, .ok bs)
  | n + 1, last, bs, st =>
    match entry dv last bs st with
    | (st2, .error e) => (st2, .error e)
    | (st2, .ok (r2, kb)) => entries dv n (some kb) r2 st2

/-- outcome of a container head when `room = 0` -/
def noRoom (p : Params) : Err := if p.depthChecked then .depth else .fuel

/-- `dec_value(bytes, idx, depth, reserve)`; `room` = nesting levels still allowed below this call. -/
def decValue (p : Params) : Nat → Nat → Bytes → St → R
  | 0, depth, bs, st =>
    match decHead bs with
    | .done r c => ({ tick st depth with copied := st.copied + c }, r)
    | .arr _ _ => (tick st depth, .error (noRoom p))
    | .map _ _ => (tick st depth, .error (noRoom p))
  | room + 1, depth, bs, st =>
    match decHead bs with
    | .done r c => ({ tick st depth with copied := st.copied + c }, r)
    | .arr len rest => items (decValue p room (depth + 1)) len rest (reserveFor p len (tick st depth))
    | .map len rest => entries (decValue p room (depth + 1)) len none rest (reserveFor p len (tick st depth))

def St.init (n : Nat) : St := { reserve := n, alloc := 0, copied := 0, steps := 0, maxDepth := 0 }

/-- recursion parameter handed to the root call: the extracted limit, or (no check in the source)
    the input length, which bounds the nesting of any input -/
def rootRoom (p : Params) (bs : Bytes) : Nat := if p.depthChecked then p.maxDepth else bs.length

/-- `decode_value`: one value, then the trailing-bytes check. -/
def decode (p : Params) (bs : Bytes) : St × Except Err Unit :=
  match decValue p (rootRoom p bs) 0 bs (St.init bs.length) with
  | (st, .ok []) => (st, .ok ())
  | (st, .ok (_ :: _)) => (st, .error .trailing)
  | (st, .error e) => (st, .error e)

/-- The proportionality bucket the harness measures (bytes): the largest container element is a
    map entry (two 32-byte values). -/
def allocOk (st : St) (len : Nat) : Bool := st.alloc * 64 + st.copied ≤ 256 * len + 65536

def render (bs : Bytes) (r : St × Except Err Unit) : String :=
  let bucket := if allocOk r.1 bs.length then "alloc-ok" else "alloc-excess"
  match r.2 with
  | .ok () => s!"ok nodes={r.1.steps} depth={r.1.maxDepth} {bucket}"
  | .error e => s!"err {e.tok} {bucket}"

end EchoVerif.CostCbor
