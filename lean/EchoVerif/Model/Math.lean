/-
  EchoVerif.Model.Math — model of crates/warp-math (C19), import-free.

  binary32 values are their bit patterns, `Nat < 2^32`. Anchors:
    scalar.rs        F32Scalar::new (`canon`), operator impls (`scalarOp`), DFix64 raw ops
    trig.rs          canonicalize_zero, sin_cos_f32, sin_qtr_interp
    fixed_q32_32.rs  from_f32 / to_f32 / round_shift_right_*
    prng.rs          xoroshiro128+ step, from_seed, from_seed_u64, next_f32, next_int
    echo-wasm-abi codec.rs  canonicalize_f32, fx_from_f32
  IEEE arithmetic (`+ - * / %` on f32, round-to-nearest-even) is modelled by an exact
  rational soft-float (`roundPos`); that rustc/LLVM emit exactly this on the target is the part of
  C19 that only the differential run can check.
-/
namespace EchoVerif.Math

/-! ## binary32 fields -/

def two31 : Nat := 2147483648
def two23 : Nat := 8388608
def two32 : Nat := 4294967296

def expField (b : Nat) : Nat := b / 8388608 % 256
def mantField (b : Nat) : Nat := b % 8388608
def isNeg (b : Nat) : Bool := decide (2147483648 ≤ b)
def isNaN (b : Nat) : Prop := expField b = 255 ∧ mantField b ≠ 0
def isSubnormal (b : Nat) : Prop := expField b = 0 ∧ mantField b ≠ 0
def isFiniteB (b : Nat) : Prop := expField b ≠ 255
instance (b : Nat) : Decidable (isNaN b) := by unfold isNaN; exact inferInstance
instance (b : Nat) : Decidable (isSubnormal b) := by unfold isSubnormal; exact inferInstance
instance (b : Nat) : Decidable (isFiniteB b) := by unfold isFiniteB; exact inferInstance

/-- flips the sign bit (`-x` on f32 is a pure sign flip, NaN included). -/
def negBits (b : Nat) : Nat := if 2147483648 ≤ b then b - 2147483648 else b + 2147483648
/-- clears the sign bit (`f32::abs`). -/
def absBits (b : Nat) : Nat := if 2147483648 ≤ b then b - 2147483648 else b

def canonNaN : Nat := 0x7fc00000
def oneBits : Nat := 0x3f800000
def negZero : Nat := 0x80000000

/-- `F32Scalar::new` (and `echo_wasm_abi::canonicalize_f32`, same shape):
    NaN → 0x7fc00000; subnormal (either sign) → +0; otherwise `num + 0.0`, which maps −0 to +0
    and leaves every other non-NaN value (±∞ included) unchanged. -/
def canon (b : Nat) : Nat :=
  if isNaN b then canonNaN
  else if isSubnormal b then 0
  else if b = negZero then 0
  else b

/-- the canonical-form invariant of `F32Scalar.value`. -/
def Canonical (b : Nat) : Prop :=
  b < two32 ∧ b ≠ negZero ∧ ¬ isSubnormal b ∧ (isNaN b → b = canonNaN)

/-- `trig::canonicalize_zero`: `if value == 0.0 { 0.0 } else { value }`. -/
def canonZero (b : Nat) : Nat := if b = 0 ∨ b = negZero then 0 else b

/-! ## exact soft-float (round to nearest, ties to even) -/

inductive FV where
  | nan
  | inf (neg : Bool)
  | fin (neg : Bool) (m : Nat) (e : Int)     -- (-1)^neg · m · 2^e

def decode (b : Nat) : FV :=
  let s := isNeg b
  let ex := expField b
  let mt := mantField b
  if ex = 255 then (if mt = 0 then .inf s else .nan)
  else if ex = 0 then .fin s mt (-149)
  else .fin s (mt + 8388608) ((ex : Int) - 150)

def signed (neg : Bool) (mag : Nat) : Nat := if neg then mag + 2147483648 else mag

/-- overflow of the rounded magnitude saturates to the +∞ pattern. -/
def clampInf (bits : Nat) : Nat := if 0x7f800000 ≤ bits then 0x7f800000 else bits

/-- significand of a non-negative pattern (hidden bit included for normals). -/
def mm (p : Nat) : Nat := if p / 8388608 = 0 then p % 8388608 else p % 8388608 + 8388608
/-- exponent of a non-negative pattern relative to 2^-149 (`Nat` subtraction: subnormals and the first
    binade both have 0). -/
def ee (p : Nat) : Nat := p / 8388608 - 1
/-- exact value of the non-negative pattern `p` in units of 2^-149 (for `p < 0x7f800000` this is the
    binary32 value; it is strictly increasing in `p`, which is why bit order = value order). -/
def V (p : Nat) : Nat := mm p * 2 ^ ee p

/-- candidate for the greatest pattern whose value is `≤ n/d`, computed directly: binade by `log2`,
    then the truncated significand. Only a candidate: `floorPat` verifies it. -/
def fastFloor (n d : Nat) : Nat :=
  let e0 : Int := (n.log2 : Int) - (d.log2 : Int)
  let ge : Bool := if 0 ≤ e0 then decide (d * 2 ^ e0.toNat ≤ n) else decide (d ≤ n * 2 ^ (-e0).toNat)
  let e : Int := if ge then e0 else e0 - 1
  let q : Int := (if e < -126 then -126 else e) - 23
  let num : Nat := if 0 ≤ q then n else n * 2 ^ (-q).toNat
  let den : Nat := if 0 ≤ q then d * 2 ^ q.toNat else d
  let m := num / den
  if e < -126 then m else (e + 126).toNat * 8388608 + m

def floorStep (N d k p : Nat) : Nat := if V (p + 2 ^ k) * d ≤ N then p + 2 ^ k else p

/-- bit-by-bit search (from bit `k-1` down) for the greatest pattern `p` with `V p · d ≤ N`. -/
def floorLoop (N d : Nat) : Nat → Nat → Nat
  | 0, p => p
  | k + 1, p => floorLoop N d k (floorStep N d k p)

/-- greatest pattern whose value is `≤ n/d` (value in units of 2^-149, so `V p · d ≤ n · 2^149`):
    the fast candidate when it passes the defining check, the 31-step search otherwise. -/
def floorPat (n d : Nat) : Nat :=
  let N := n * 2 ^ 149
  let c := fastFloor n d
  if V c * d ≤ N ∧ N < V (c + 1) * d then c else floorLoop N d 31 0

/-- nearest-even binary32 magnitude of the positive rational `n / d` (`n, d > 0`): the floor pattern
    `p`, or `p + 1` when `n/d` is above the midpoint of `V p` and `V (p+1)` (ties: to the even
    pattern = even significand); overflow → +∞ pattern, gradual underflow to subnormals / zero. -/
def roundPos (n d : Nat) : Nat :=
  let N := n * 2 ^ 149
  let p := floorPat n d
  let lo := V p * d
  let hi := V (p + 1) * d
  clampInf (if lo + hi < 2 * N ∨ (lo + hi = 2 * N ∧ p % 2 = 1) then p + 1 else p)

/-- round `(-1)^neg · m · 2^e` (`m > 0`). -/
def roundDyadic (neg : Bool) (m : Nat) (e : Int) : Nat :=
  signed neg (if 0 ≤ e then roundPos (m * 2 ^ e.toNat) 1 else roundPos m (2 ^ (-e).toNat))

/-- exact sum `s · 2^e` of two finite values with signs `sa`, `sb`: an exact zero is −0 only when
    both operands are negative (zeros); otherwise round. -/
def sumResult (s : Int) (sa sb : Bool) (e : Int) : Nat :=
  if s = 0 then (if sa && sb then negZero else 0)
  else roundDyadic (decide (s < 0)) s.natAbs e

/-- product / exact remainder `(-1)^neg · m · 2^e`: signed zero when `m = 0`, else round. -/
def dyadicResult (neg : Bool) (m : Nat) (e : Int) : Nat :=
  if m = 0 then signed neg 0 else roundDyadic neg m e

/-- quotient of two finite values. -/
def divResult (neg : Bool) (ma : Nat) (ea : Int) (mb : Nat) (eb : Int) : Nat :=
  if mb = 0 then (if ma = 0 then canonNaN else signed neg 0x7f800000)
  else if ma = 0 then signed neg 0
  else
    let n := if eb ≤ ea then ma * 2 ^ (ea - eb).toNat else ma
    let d := if eb ≤ ea then mb else mb * 2 ^ (eb - ea).toNat
    signed neg (roundPos n d)

def fadd (a b : Nat) : Nat :=
  match decode a, decode b with
  | .nan, _ => canonNaN
  | _, .nan => canonNaN
  | .inf sa, .inf sb => if sa = sb then signed sa 0x7f800000 else canonNaN
  | .inf sa, .fin .. => signed sa 0x7f800000
  | .fin .., .inf sb => signed sb 0x7f800000
  | .fin sa ma ea, .fin sb mb eb =>
    let e := if ea ≤ eb then ea else eb
    let ia : Int := (if sa then -1 else 1) * ((ma * 2 ^ (ea - e).toNat : Nat) : Int)
    let ib : Int := (if sb then -1 else 1) * ((mb * 2 ^ (eb - e).toNat : Nat) : Int)
    sumResult (ia + ib) sa sb e

def fsub (a b : Nat) : Nat := fadd a (negBits b)

def fmul (a b : Nat) : Nat :=
  match decode a, decode b with
  | .nan, _ => canonNaN
  | _, .nan => canonNaN
  | .inf sa, .inf sb => signed (sa != sb) 0x7f800000
  | .inf sa, .fin sb mb _ => if mb = 0 then canonNaN else signed (sa != sb) 0x7f800000
  | .fin sa ma _, .inf sb => if ma = 0 then canonNaN else signed (sa != sb) 0x7f800000
  | .fin sa ma ea, .fin sb mb eb =>
    dyadicResult (sa != sb) (ma * mb) (ea + eb)

def fdiv (a b : Nat) : Nat :=
  match decode a, decode b with
  | .nan, _ => canonNaN
  | _, .nan => canonNaN
  | .inf _, .inf _ => canonNaN
  | .inf sa, .fin sb _ _ => signed (sa != sb) 0x7f800000
  | .fin sa _ _, .inf sb => signed (sa != sb) 0
  | .fin sa ma ea, .fin sb mb eb => divResult (sa != sb) ma ea mb eb

/-- `x % y` on f32 (C `fmodf`): exact, sign of `x`. -/
def fmod (a b : Nat) : Nat :=
  match decode a, decode b with
  | .nan, _ => canonNaN
  | _, .nan => canonNaN
  | .inf _, _ => canonNaN
  | .fin .., .inf _ => a
  | .fin sa ma ea, .fin _ mb eb =>
    if mb = 0 then canonNaN
    else
      let e := if ea ≤ eb then ea else eb
      let r := (ma * 2 ^ (ea - e).toNat) % (mb * 2 ^ (eb - e).toNat)
      dyadicResult sa r e

/-- total order key for non-NaN patterns (−0 and +0 both 0). -/
def ordKey (b : Nat) : Int := if 2147483648 ≤ b then -((b - 2147483648 : Nat) : Int) else (b : Int)

def flt (a b : Nat) : Bool := if isNaN a ∨ isNaN b then false else decide (ordKey a < ordKey b)
def fle (a b : Nat) : Bool := if isNaN a ∨ isNaN b then false else decide (ordKey a ≤ ordKey b)

/-- `t as usize` for finite `t ≥ 0` (truncation); negative / NaN saturate to 0 as in Rust. -/
def truncNat (b : Nat) : Nat :=
  match decode b with
  | .fin false m e => if 0 ≤ e then m * 2 ^ e.toNat else m / 2 ^ (-e).toNat
  | _ => 0

/-- `n as f32`: below 2^24 the conversion is exact and the pattern is written down directly (exponent
    field `log2 n + 127`, significand `n` shifted to 24 bits); larger values are rounded. -/
def ofNatF (n : Nat) : Nat :=
  if n = 0 then 0
  else if n < 16777216 then (n.log2 + 127) * 8388608 + (n * 2 ^ (23 - n.log2) - 8388608)
  else roundPos n 1

/-! ## trig.rs -/

def fracPi2 : Nat := 0x3fc90fdb
def piBits : Nat := 0x40490fdb
def tauBits : Nat := 0x40c90fdb
/-- `const FRAC_3PI_2: f32 = 3.0 * FRAC_PI_2` (const-evaluated in f32). -/
def frac3Pi2 : Nat := fmul 0x40400000 fracPi2

/-- `sin_qtr_interp`. `none` = panic (debug tripwire with `da`, or table index out of bounds). -/
def sinQtrInterp (da : Bool) (lut : Nat → Option Nat) (segs : Nat) (a : Nat) : Option Nat :=
  if !(fle 0 a && fle a fracPi2) then (if da then none else some 0)
  else
    let segF := ofNatF segs
    let t := fdiv (fmul a segF) fracPi2
    if fle segF t then some oneBits
    else
      let i0 := truncNat t
      let frac := fsub t (ofNatF i0)
      match lut i0, lut (i0 + 1) with
      | some y0, some y1 => some (fadd y0 (fmul frac (fsub y1 y0)))
      | _, _ => none

/-- quadrant reconstruction (`match quadrant { 0 => (s,c), 1 => (c,-s), 2 => (-s,-c), _ => (-c,s) }`). -/
def assemble (q : Nat) (s c : Nat) : Nat × Nat :=
  match q with
  | 0 => (s, c)
  | 1 => (c, negBits s)
  | 2 => (negBits s, negBits c)
  | _ => (negBits c, s)

/-- `abs(angle).rem_euclid(TAU)` followed by the comparison-based quadrant split:
    `(quadrant, angle within the quadrant)`. -/
def reduceQuadrant (ax : Nat) : Nat × Nat :=
  let r := fmod ax tauBits
  -- rem_euclid fix-up `if r < 0.0 { r + rhs.abs() }` (dead for a non-negative argument)
  let r := if flt r 0 then fadd r (absBits tauBits) else r
  if flt r fracPi2 then (0, r)
  else if flt r piBits then (1, fsub r fracPi2)
  else if flt r frac3Pi2 then (2, fsub r piBits)
  else (3, fsub r frac3Pi2)

/-- everything `sin_cos_f32` does with `|angle|`: reduction, quadrant split, two interpolations,
    quadrant reconstruction. -/
def trigCore (da : Bool) (lut : Nat → Option Nat) (segs : Nat) (ax : Nat) : Option (Nat × Nat) :=
  let qa := reduceQuadrant ax
  match sinQtrInterp da lut segs qa.2, sinQtrInterp da lut segs (fsub fracPi2 qa.2) with
  | some s, some c => some (assemble qa.1 s c)
  | _, _ => none

/-- `sin_cos_f32` with the `|angle|` part abstracted: sign captured first, applied last.
    `none` = panic. With debug assertions (`da`) a non-finite angle trips `debug_assert!`;
    without them it returns `(0.0, 1.0)`. -/
def sinCosWith (core : Nat → Option (Nat × Nat)) (da : Bool) (x : Nat) : Option (Nat × Nat) :=
  if ¬ isFiniteB x then (if da then none else some (0, oneBits))
  else
    match core (absBits x) with
    | none => none
    | some (s, c) => some (canonZero (if isNeg x then negBits s else s), canonZero c)

def sinCos (da : Bool) (lut : Nat → Option Nat) (segs : Nat) (x : Nat) : Option (Nat × Nat) :=
  sinCosWith (trigCore da lut segs) da x

/-- `F32Scalar::sin_cos` on `F32Scalar::new(x)`. -/
def scalarSinCosWith (core : Nat → Option (Nat × Nat)) (da : Bool) (x : Nat) : Option (Nat × Nat) :=
  (sinCosWith core da (canon x)).map (fun sc => (canon sc.1, canon sc.2))

/-! ## F32Scalar operators: `Self::new(raw op)` -/

/-- the raw f32 expression inside `Self::new(…)` of an operator impl (table extracted from scalar.rs). -/
inductive RawOp | add | sub | mul | div | neg
  deriving DecidableEq, Repr

/-- `self.value ⊕ rhs.value` / `-self.value` (`neg` ignores `b`). -/
def rawOp : RawOp → Nat → Nat → Nat
  | .add => fadd | .sub => fsub | .mul => fmul | .div => fdiv | .neg => fun a _ => negBits a

/-- an `F32Scalar` operator on stored values: `Self::new(raw op)`. -/
def scalarOp (op : RawOp) (a b : Nat) : Nat := canon (rawOp op a b)
/-- `F32Scalar::neg`. -/
def scalarNeg (a : Nat) : Nat := canon (negBits a)

/-! ## Q32.32 (fixed_q32_32.rs, DFix64 raw ops in scalar.rs) -/

def i64Max : Int := 9223372036854775807
def i64Min : Int := -9223372036854775808
def i128Max : Int := 170141183460469231731687303715884105727

/-- `saturate_i128_to_i64`. -/
def sat64 (v : Int) : Int := if i64Max < v then i64Max else if v < i64Min then i64Min else v

/-- `round_shift_right_u64` / `_u128` (`width` = 64 / 128): nearest, ties to even. -/
def roundShiftRight (width : Nat) (value shift : Nat) : Nat :=
  if shift = 0 then value
  else if width ≤ shift then 0
  else
    let q := value / 2 ^ shift
    let r := value % 2 ^ shift
    let half := 2 ^ (shift - 1)
    if half < r then q + 1 else if r < half then q else if q % 2 = 1 then q + 1 else q

/-- `fixed_q32_32::from_f32`. -/
def fxFromF32 (b : Nat) : Int :=
  if isNaN b then 0
  else if expField b = 255 then (if isNeg b then i64Min else i64Max)
  else
    let exp := expField b
    let mant := mantField b
    if exp = 0 ∧ mant = 0 then 0
    else
      let mantissa : Nat := if exp = 0 then mant else 8388608 + mant
      let unbiased : Int := if exp = 0 then -126 else (exp : Int) - 127
      let shift : Int := unbiased + (32 - 23)
      let absRaw : Int :=
        if 0 ≤ shift then (if 103 < shift.toNat then i128Max else ((mantissa * 2 ^ shift.toNat : Nat) : Int))
        else ((roundShiftRight 64 mantissa (-shift).toNat : Nat) : Int)
      sat64 (if isNeg b then -absRaw else absRaw)

/-- `fixed_q32_32::to_f32` (`raw` an i64). -/
def fxToF32 (raw : Int) : Nat :=
  if raw = 0 then 0
  else
    let abs : Nat := raw.natAbs
    let k := abs.log2
    let exp0 : Int := (k : Int) - 32
    let sig0 : Nat := if 23 < k then roundShiftRight 128 abs (k - 23) else abs * 2 ^ (23 - k)
    let sig : Nat := if 16777216 ≤ sig0 then sig0 / 2 else sig0
    let exp : Int := if 16777216 ≤ sig0 then exp0 + 1 else exp0
    let expFieldV : Nat := (exp + 127).toNat
    (if raw < 0 then 2147483648 else 0) + expFieldV * 8388608 + sig % 8388608

/-- rounding core of `DFix64::mul_raw`: `|prod| / 2^32` to nearest, ties to even, sign restored. -/
def roundQ32 (prod : Int) : Int :=
  let abs := prod.natAbs
  let q := abs / 4294967296
  let r := abs % 4294967296
  let rounded := if 2147483648 < r ∨ (r = 2147483648 ∧ q % 2 = 1) then q + 1 else q
  if prod < 0 then -(rounded : Int) else (rounded : Int)

def fxMul (a b : Int) : Int := sat64 (roundQ32 (a * b))

/-- `DFix64::div_raw`. -/
def fxDiv (a b : Int) : Int :=
  if b = 0 then (if a = 0 then 0 else if a < 0 then i64Min else i64Max)
  else
    let absNum := (a * 4294967296).natAbs
    let absDen := b.natAbs
    let q := absNum / absDen
    let r := absNum % absDen
    let rounded := if absDen < 2 * r ∨ (2 * r = absDen ∧ q % 2 = 1) then q + 1 else q
    sat64 (if (decide (a < 0)) != (decide (b < 0)) then -(rounded : Int) else (rounded : Int))

def fxAdd (a b : Int) : Int := sat64 (a + b)
def fxSub (a b : Int) : Int := sat64 (a - b)
def fxNeg (a : Int) : Int := if a = i64Min then i64Max else -a

/-- `echo_wasm_abi::fx_from_f32`: exact widening to f64, exact scaling by 2^32, truncation toward
    zero, saturating `as i64`. -/
def abiFxFromF32 (b : Nat) : Int :=
  match decode b with
  | .nan => 0
  | .inf s => if s then i64Min else i64Max
  | .fin s m e =>
    let sh : Int := e + 32
    let mag : Nat := if 0 ≤ sh then m * 2 ^ sh.toNat else m / 2 ^ (-sh).toNat
    sat64 (if s then -(mag : Int) else (mag : Int))

/-! ## prng.rs — xoroshiro128+ -/

structure Prng where
  s0 : BitVec 64
  s1 : BitVec 64
  deriving DecidableEq

def golden : BitVec 64 := 0x9e3779b97f4a7c15#64

def Prng.fix (p : Prng) : Prng := if p.s0 = 0 ∧ p.s1 = 0 then { p with s0 := golden } else p

def Prng.fromSeed (a b : BitVec 64) : Prng := Prng.fix ⟨a, b⟩

def splitmix (st : BitVec 64) : BitVec 64 × BitVec 64 :=
  let st := st + golden
  let z := st
  let z := (z ^^^ (z >>> 30)) * 0xbf58476d1ce4e5b9#64
  let z := (z ^^^ (z >>> 27)) * 0x94d049bb133111eb#64
  (z ^^^ (z >>> 31), st)

def Prng.fromSeedU64 (seed : BitVec 64) : Prng :=
  let (a, st) := splitmix seed
  let (b, _) := splitmix st
  Prng.fix ⟨a, b⟩

/-- state transition of `next_u64`. -/
def Prng.step (p : Prng) : Prng :=
  let t := p.s1 ^^^ p.s0
  { s0 := p.s0.rotateLeft 55 ^^^ t ^^^ (t <<< 14), s1 := t.rotateLeft 36 }

/-- output of `next_u64`. -/
def Prng.out (p : Prng) : BitVec 64 := p.s0 + p.s1

/-- `next_f32`. -/
def Prng.nextF32 (p : Prng) : Nat × Prng :=
  let raw := p.out.toNat
  (fsub (raw / 2 ^ 41 ||| 0x3f800000) oneBits, p.step)

def isPow2 (n : Nat) : Bool := n != 0 && (n &&& (n - 1)) == 0

/-- rejection loop of `next_int`; `none` = fuel exhausted (each draw rejects with probability < 1/2). -/
def rejectLoop (span bound : Nat) : Nat → Prng → Option (Nat × Prng)
  | 0, _ => none
  | fuel + 1, p =>
    let c := p.out.toNat
    if c < bound then some (c % span, p.step) else rejectLoop span bound fuel p.step

inductive IntOut where
  | ok (v : Int) (p : Prng)
  | panic            -- `assert!(min <= max)`
  | fuel

/-- `next_int(min, max)` for i32 arguments. -/
def Prng.nextInt (p : Prng) (min max : Int) (fuel : Nat) : IntOut :=
  if max < min then .panic
  else
    let span : Nat := (max - min).toNat + 1
    if span = 1 then .ok min p
    else if isPow2 span then .ok ((p.out.toNat &&& (span - 1) : Nat) + min) p.step
    else
      let umax := 18446744073709551615
      let bound := umax - umax % span
      match rejectLoop span bound fuel p with
      | some (v, p') => .ok ((v : Int) + min) p'
      | none => .fuel

/-! ## lib.rs det_sqrt_f32, vec3.rs, quat.rs, mat4.rs (compositions of the IEEE ops above) -/

def isqrtLoop (n : Nat) : Nat → Nat → Nat
  | 0, r => r
  | k + 1, r =>
    let c := r + 2 ^ k
    isqrtLoop n k (if c * c ≤ n then c else r)

/-- floor square root (bit by bit from the top). -/
def isqrt (n : Nat) : Nat := isqrtLoop n (n.log2 / 2 + 1) 0

/-- correctly rounded square root of a positive finite value `m·2^e` (`libm::sqrtf`): 26 extra
    result bits plus a sticky bit decide the rounding (a square root is never a rounding midpoint). -/
def sqrtPos (m : Nat) (e : Int) : Nat :=
  let m2 := if e % 2 = 0 then m else m * 2
  let e2 : Int := if e % 2 = 0 then e else e - 1
  let big := m2 * 2 ^ 52
  let r := isqrt big
  let sticky := if r * r = big then 0 else 1
  -- sqrt ≈ (2r + sticky) · 2^(e2/2 − 27)
  roundDyadic false (2 * r + sticky) (e2 / 2 - 27)

/-- `det_sqrt_f32`: non-finite and non-positive inputs give 0.0. -/
def detSqrt (b : Nat) : Nat :=
  match decode b with
  | .fin false m e => if m = 0 then 0 else sqrtPos m e
  | _ => 0

def epsBits : Nat := 0x358637bd      -- EPSILON = 1e-6
def twoBits : Nat := 0x40000000
def halfBits : Nat := 0x3f000000

structure V3 where
  x : Nat
  y : Nat
  z : Nat

def V3.add (a b : V3) : V3 := ⟨fadd a.x b.x, fadd a.y b.y, fadd a.z b.z⟩
def V3.sub (a b : V3) : V3 := ⟨fsub a.x b.x, fsub a.y b.y, fsub a.z b.z⟩
def V3.scale (a : V3) (k : Nat) : V3 := ⟨fmul a.x k, fmul a.y k, fmul a.z k⟩
def V3.dot (a b : V3) : Nat := fadd (fadd (fmul a.x b.x) (fmul a.y b.y)) (fmul a.z b.z)
def V3.cross (a b : V3) : V3 :=
  ⟨fsub (fmul a.y b.z) (fmul a.z b.y), fsub (fmul a.z b.x) (fmul a.x b.z), fsub (fmul a.x b.y) (fmul a.y b.x)⟩
def V3.length (a : V3) : Nat := detSqrt (a.dot a)
def V3.normalize (a : V3) : V3 :=
  let len := a.length
  if fle len epsBits then ⟨0, 0, 0⟩ else a.scale (fdiv oneBits len)

structure Q4 where
  x : Nat
  y : Nat
  z : Nat
  w : Nat

def finiteB (b : Nat) : Bool := decide (isFiniteB b)

/-- `Quat::new`: `debug_assert!` that every component is finite. -/
def Q4.mk' (da : Bool) (x y z w : Nat) : Option Q4 :=
  if da && !(finiteB x && finiteB y && finiteB z && finiteB w) then none else some ⟨x, y, z, w⟩

def Q4.identity : Q4 := ⟨0, 0, 0, oneBits⟩

def Q4.mul (da : Bool) (a b : Q4) : Option Q4 :=
  Q4.mk' da
    (fsub (fadd (fadd (fmul a.w b.x) (fmul a.x b.w)) (fmul a.y b.z)) (fmul a.z b.y))
    (fadd (fadd (fsub (fmul a.w b.y) (fmul a.x b.z)) (fmul a.y b.w)) (fmul a.z b.x))
    (fadd (fsub (fadd (fmul a.w b.z) (fmul a.x b.y)) (fmul a.y b.x)) (fmul a.z b.w))
    (fsub (fsub (fsub (fmul a.w b.w) (fmul a.x b.x)) (fmul a.y b.y)) (fmul a.z b.z))

def Q4.normalize (da : Bool) (q : Q4) : Option Q4 :=
  let len := detSqrt (fadd (fadd (fadd (fmul q.x q.x) (fmul q.y q.y)) (fmul q.z q.z)) (fmul q.w q.w))
  if fle len epsBits then some Q4.identity
  else
    let inv := fdiv oneBits len
    Q4.mk' da (fmul q.x inv) (fmul q.y inv) (fmul q.z inv) (fmul q.w inv)

/-- `Quat::from_axis_angle`; `trig` is `sin_cos_f32` (`none` = panic). The identity is returned for a
    tiny axis and (since `fix: from_axis_angle …`) whenever `|axis|²` is not finite. -/
def Q4.fromAxisAngle (da : Bool) (trig : Nat → Option (Nat × Nat)) (axis : V3) (angle : Nat) : Option Q4 :=
  let lenSq := axis.dot axis
  if fle lenSq (fmul epsBits epsBits) || !finiteB lenSq then some Q4.identity
  else
    let len := detSqrt lenSq
    let n := axis.scale (fdiv oneBits len)
    match trig (fmul angle halfBits) with
    | none => none
    | some (sh, ch) =>
      let sc := n.scale sh
      Q4.mk' da sc.x sc.y sc.z ch

/-- `Quat::to_mat4` (column-major 16 entries). -/
def Q4.toMat4 (da : Bool) (q0 : Q4) : Option (List Nat) :=
  match q0.normalize da with
  | none => none
  | some q =>
    let x := q.x; let y := q.y; let z := q.z; let w := q.w
    let xx := fmul x x; let yy := fmul y y; let zz := fmul z z
    let xy := fmul x y; let xz := fmul x z; let yz := fmul y z
    let wx := fmul w x; let wy := fmul w y; let wz := fmul w z
    some [fsub oneBits (fmul twoBits (fadd yy zz)), fmul twoBits (fadd xy wz), fmul twoBits (fsub xz wy), 0,
          fmul twoBits (fsub xy wz), fsub oneBits (fmul twoBits (fadd xx zz)), fmul twoBits (fadd yz wx), 0,
          fmul twoBits (fadd xz wy), fmul twoBits (fsub yz wx), fsub oneBits (fmul twoBits (fadd xx yy)), 0,
          0, 0, 0, oneBits]

/-- a 4×4 column-major matrix as a total function of the index (entries beyond 15 read as 0; every
    index used below is < 16 and the driver only passes 16-entry lists). -/
def matAt (m : Nat → Nat) (row col : Nat) : Nat := m (col * 4 + row)

/-- `Mat4::multiply`: `sum = 0.0; for k in 0..4 { sum += a[row,k] * b[k,col] }`. -/
def matMulEntry (a b : Nat → Nat) (row col : Nat) : Nat :=
  (List.range 4).foldl (fun sum k => fadd sum (fmul (matAt a row k) (matAt b k col))) 0

def matMul (a b : Nat → Nat) : List Nat :=
  (List.range 16).map (fun i => matMulEntry a b (i % 4) (i / 4))

def matPoint (m : Nat → Nat) (p : V3) : V3 :=
  let f := fun r => fadd (fadd (fadd (fmul (matAt m r 0) p.x) (fmul (matAt m r 1) p.y)) (fmul (matAt m r 2) p.z))
    (fmul (matAt m r 3) oneBits)
  ⟨f 0, f 1, f 2⟩

def matDir (m : Nat → Nat) (p : V3) : V3 :=
  let f := fun r => fadd (fadd (fmul (matAt m r 0) p.x) (fmul (matAt m r 1) p.y)) (fmul (matAt m r 2) p.z)
  ⟨f 0, f 1, f 2⟩

def listFn (l : List Nat) (i : Nat) : Nat :=
  match l[i]? with
  | some v => v
  | none => 0

/-- `Mat4::rotation_{x,y,z}` from `(s, c)` of `sin_cos_f32`. -/
def rotMat (axis : Nat) (s c : Nat) : List Nat :=
  let ns := canonZero (negBits s)
  let o := oneBits
  match axis with
  | 0 => [o, 0, 0, 0, 0, c, s, 0, 0, ns, c, 0, 0, 0, 0, o]
  | 1 => [c, 0, ns, 0, 0, o, 0, 0, s, 0, c, 0, 0, 0, 0, o]
  | _ => [c, s, 0, 0, ns, c, 0, 0, 0, 0, o, 0, 0, 0, 0, o]

/-- `Mat4::rotation_from_euler(yaw, pitch, roll) = R_y(yaw) · R_x(pitch) · R_z(roll)`. -/
def rotEuler (trig : Nat → Option (Nat × Nat)) (yaw pitch roll : Nat) : Option (List Nat) :=
  match trig yaw, trig pitch, trig roll with
  | some (sy, cy), some (sp, cp), some (sr, cr) =>
    let yx := matMul (listFn (rotMat 1 sy cy)) (listFn (rotMat 0 sp cp))
    some (matMul (listFn yx) (listFn (rotMat 2 sr cr)))
  | _, _, _ => none

/-! ## the rest of the public API: F32Scalar ordering, lib.rs clamp / deg_to_rad / rad_to_deg -/

/-- key of `f32::total_cmp` (sign-magnitude order: −NaN < −∞ < … < −0 < +0 < … < +∞ < +NaN). -/
def totalKey (b : Nat) : Int := if 2147483648 ≤ b then -((b - 2147483648 : Nat) : Int) - 1 else (b : Int)

/-- `F32Scalar::cmp` on stored values (`Ord`, `PartialOrd`; `PartialEq` is `cmp == Equal`): −1 / 0 / 1. -/
def scalarCmp (a b : Nat) : Int :=
  if totalKey a < totalKey b then -1 else if totalKey a = totalKey b then 0 else 1

/-- `warp_math::clamp`: `assert!(min <= max)` (every profile; `none` = panic), then `f32::clamp`. -/
def clampF (v lo hi : Nat) : Option Nat :=
  if !(fle lo hi) then none else some (if flt v lo then lo else if flt hi v then hi else v)

def deg360 : Nat := 0x43b40000
/-- `deg_to_rad`: `value * (TAU / 360.0)` (constant folded in f32). -/
def degToRad (v : Nat) : Nat := fmul v (fdiv tauBits deg360)
/-- `rad_to_deg`: `value * (360.0 / TAU)`. -/
def radToDeg (v : Nat) : Nat := fmul v (fdiv deg360 tauBits)

/-! ## exhaustive-range checksum for `canon` (thorough tier sweeps all 2^32 patterns) -/

def sweepCanon : Nat → Nat → UInt64 → UInt64
  | 0, _, acc => acc
  | n + 1, b, acc => sweepCanon n (b + 1) (acc * 6364136223846793005 + (canon b).toUInt64)

end EchoVerif.Math
