/-
  EchoVerif.Model.Codec.Records — instances of the combinator library for the binary records:
  * EINT intent envelope      (crates/echo-wasm-abi/src/lib.rs: pack_intent_v1 / unpack_intent_v1)
  * ELOG header and frame     (crates/echo-wasm-abi/src/eintlog.rs)
  * retained ingress envelope v2 (crates/warp-core/src/head_inbox.rs: to_retained_bytes_v2 /
    from_retained_bytes_v2 with the constructor's sort+dedup and the byte-level re-encode gate; v1 legacy)
  Magics, versions, bounds and tag bytes come from Generated/LeMagic.lean.
-/
import EchoVerif.Model.Codec.Comb
import EchoVerif.Model.Codec.Cbor
import EchoVerif.Generated.LeMagic

namespace EchoVerif.Codec
open EchoVerif EchoVerif.Generated.LeMagic

/-! ### EINT -/

/-- "EINT" ‖ op_id u32 LE ‖ vars_len u32 LE ‖ vars -/
def eint : Codec (Nat × Bytes) := magic eintMagic (pair (uintLE 4) (lenBytes 4 (256 ^ 4 - 1)))

/-- `unpack_intent_v1`: the whole buffer, exact length -/
def unpackIntent (bs : Bytes) : Option (Nat × Bytes) := decodeAll eint bs

/-- `pack_intent_v1`: refuses reserved op ids and payloads over u32::MAX -/
def packIntent (op : Nat) (vars : Bytes) : Option Bytes :=
  if reservedOpIds.contains op then none
  else if 256 ^ 4 ≤ vars.length then none
  else some (eint.enc (op, vars))

/-! ### ELOG -/

def zeros8 : Bytes := [0, 0, 0, 0, 0, 0, 0, 0]

/-- flags, schema hash, reserved -/
abbrev ElogHeader := Nat × Bytes × Bytes

/-- "ELOG" ‖ version u16 = 1 ‖ flags u16 = 0 ‖ schema hash [32] ‖ reserved [8] = 0 -/
def elogHeader : Codec ElogHeader :=
  magic elogMagic (magic (leBytes 2 elogVersion)
    (guard (fun h => h.1 == 0 && h.2.2 == zeros8) (pair (uintLE 2) (pair (fixed 32) (fixed 8)))))

/-- u32 LE length ≤ MAX_FRAME_LEN ‖ payload -/
def elogFrame : Codec Bytes := lenBytes 4 elogMaxFrameLen

/-! ### retained ingress envelope v2 -/

/-- `CausalTickReceiptRef`: worldline, tick-after, commit global tick, commit hash, submission id,
    ticket digest, receipt content digest -/
abbrev Ref := Bytes × Nat × Nat × Bytes × Bytes × Bytes × Bytes

def refCodec : Codec Ref :=
  pair (fixed 32) (pair (uintLE 8) (pair (uintLE 8)
    (pair (fixed 32) (pair (fixed 32) (pair (fixed 32) (fixed 32))))))

/-- `IngressCausalParent`: TickReceipt | ContractInverseTarget -/
abbrev Parent := Ref ⊕ Ref

def parentCodec : Codec Parent := tagged2 tagTickReceipt tagContractInverseTarget refCodec refCodec

/-- `IngressTarget`: DefaultWriter wl | InboxAddress wl inbox | ExactHead wl head -/
abbrev Target := Bytes ⊕ (Bytes × Bytes) ⊕ (Bytes × Bytes)

def targetCodec : Codec Target :=
  tagged3 tagDefaultWriter tagInboxAddress tagExactHead
    (fixed 32)
    (pair (fixed 32) (guard Cbor.utf8Valid (lenBytes 8 (256 ^ 8 - 1))))
    (pair (fixed 32) (fixed 32))

/-- derived `Ord` of `CausalTickReceiptRef` (field order; hashes bytewise, ticks numerically) -/
def refCmp (a b : Ref) : Ordering :=
  (Cbor.bytesCmp a.1 b.1).then ((compare a.2.1 b.2.1).then ((compare a.2.2.1 b.2.2.1).then
    ((Cbor.bytesCmp a.2.2.2.1 b.2.2.2.1).then ((Cbor.bytesCmp a.2.2.2.2.1 b.2.2.2.2.1).then
      ((Cbor.bytesCmp a.2.2.2.2.2.1 b.2.2.2.2.2.1).then (Cbor.bytesCmp a.2.2.2.2.2.2 b.2.2.2.2.2.2))))))

/-- derived `Ord` of `IngressCausalParent` (variant order, then the reference) -/
def parentCmp : Parent → Parent → Ordering
  | .inl a, .inl b => refCmp a b
  | .inl _, .inr _ => .lt
  | .inr _, .inl _ => .gt
  | .inr a, .inr b => refCmp a b

instance instDecEqRef : DecidableEq Ref :=
  let _i : DecidableEq (Bytes × Bytes × Bytes × Bytes) := inferInstance
  inferInstance

/-- `strictly ascending in the derived Ord` — what `sort_unstable(); dedup()` leaves unchanged.  This is
    NOT the reader's gate (that is the byte comparison in `fromRetainedV2`); Props/C12 proves the
    gate equivalent to it (`ingress_gate_iff_sorted`). -/
abbrev strictlySorted : List Parent → Bool := strictlyAsc parentCmp

/-- target, causal parents, intent kind, intent bytes -/
abbrev Envelope := Target × List Parent × Bytes × Bytes

/-- the cursor walk of `from_retained_bytes_v2` / the writer `to_retained_bytes_v2`: NO order check -/
def ingressRaw : Codec Envelope :=
  magic ingressMagicV2 (pair targetCodec
    (pair (counted 8 (1 + receiptRefLen) parentCodec)
      (magic [tagLocalIntent] (pair (fixed 32) (lenBytes 8 (256 ^ 8 - 1))))))

/-- `causal_parents.sort_unstable(); causal_parents.dedup()` with the derived `Ord` -/
abbrev canonParents (ps : List Parent) : List Parent := canonBy parentCmp ps

/-- `IngressEnvelope::local_intent_with_causal_parents`: parents canonicalised as a set -/
def mkEnvelope (e : Envelope) : Envelope := (e.1, canonParents e.2.1, e.2.2.1, e.2.2.2)

/-- `to_retained_bytes_v2` -/
def toRetainedV2 (e : Envelope) : Bytes := ingressRaw.enc e

/-- `from_retained_bytes_v2`: walk the cursor (whole buffer), build the envelope with the
    constructor (sort + dedup), RE-ENCODE it and compare with the input bytes -/
def fromRetainedV2 (bs : Bytes) : Option Envelope :=
  match decodeAll ingressRaw bs with
  | none => none
  | some raw =>
    let env := mkEnvelope raw
    if toRetainedV2 env = bs then some env else none

/-- the predicate form of the same reader (order check instead of re-encode); proved equal to
    `fromRetainedV2` on every input -/
def ingressV2 : Codec Envelope :=
  magic ingressMagicV2 (pair targetCodec
    (pair (guard strictlySorted (counted 8 (1 + receiptRefLen) parentCodec))
      (magic [tagLocalIntent] (pair (fixed 32) (lenBytes 8 (256 ^ 8 - 1))))))

/-- NOT the gate: `retained parent records strictly ascending as raw byte strings` (tick fields are
    little-endian, so this is a different relation — `ingress_byte_order_is_not_the_gate`) -/
def bytesAscending : List Parent → Bool
  | a :: b :: rest => Cbor.bytesCmp (parentCodec.enc a) (parentCodec.enc b) == .lt && bytesAscending (b :: rest)
  | _ => true

/-! ### retained ingress envelope v1 (legacy): parents are bare receipt digests -/

/-- target, legacy parent digests, kind, intent bytes -/
abbrev EnvelopeV1 := Target × List Bytes × Bytes × Bytes

def ingressV1Raw : Codec EnvelopeV1 :=
  magic ingressMagicV1 (pair targetCodec
    (pair (counted 8 (1 + 32) (magic [tagTickReceipt] (fixed 32)))
      (magic [tagLocalIntent] (pair (fixed 32) (lenBytes 8 (256 ^ 8 - 1))))))

/-- the canonical v1 form of a parentless envelope: its v2 bytes with the magic overwritten -/
def toRetainedV1 (e : Envelope) : Bytes := ingressMagicV1 ++ (toRetainedV2 e).drop ingressMagicV1.length

/-- `from_retained_bytes_v1`: any legacy parent is refused (NonCanonical or
    AmbiguousLegacyTickReceiptParent); a parentless record is rebuilt and re-encoded -/
def fromRetainedV1 (bs : Bytes) : Option Envelope :=
  match decodeAll ingressV1Raw bs with
  | none => none
  | some raw =>
    if raw.2.1 ≠ [] then none else
    let env : Envelope := mkEnvelope (raw.1, [], raw.2.2.1, raw.2.2.2)
    if toRetainedV1 env = bs then some env else none

/-- `IngressEnvelope::from_retained_bytes`: dispatch on the 8-byte magic -/
def fromRetained (bs : Bytes) : Option Envelope :=
  if bs.length < ingressMagicV2.length then none
  else if bs.take ingressMagicV2.length = ingressMagicV2 then fromRetainedV2 bs
  else if bs.take ingressMagicV1.length = ingressMagicV1 then fromRetainedV1 bs
  else none

end EchoVerif.Codec
