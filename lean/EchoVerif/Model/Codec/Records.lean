/-
  EchoVerif.Model.Codec.Records — instances of the combinator library for the binary records:
  * EINT intent envelope      (crates/echo-wasm-abi/src/lib.rs: pack_intent_v1 / unpack_intent_v1)
  * ELOG header and frame     (crates/echo-wasm-abi/src/eintlog.rs)
  * retained ingress envelope v2 (crates/warp-core/src/head_inbox.rs: to_retained_bytes_v2 /
    from_retained_bytes_v2, including the re-encode gate = "causal parents strictly ascending")
  Magics, versions, bounds and tag bytes come from Generated/LeMagic.lean.
-/
import EchoVerif.Model.Codec.Comb
import EchoVerif.Model.Codec.Cbor
import EchoVerif.Generated.LeMagic

namespace EchoVerif.Codec
open EchoVerif EchoVerif.Generated.LeMagic

/-! ### EINT -/

/-- "EINT" ‖ op_id u32 LE ‖ vars_len u32 LE ‖ vars -/
def eint : Codec (Nat × Bytes) := magic eintMagic (pair (uintLE 4) (lenBytes 4 (256 ^ 4 - 1)))

/-- `unpack_intent_v1`: the whole buffer, exact length -/
def unpackIntent (bs : Bytes) : Option (Nat × Bytes) := decodeAll eint bs

/-- `pack_intent_v1`: refuses reserved op ids and payloads over u32::MAX -/
def packIntent (op : Nat) (vars : Bytes) : Option Bytes :=
  if reservedOpIds.contains op then none
  else if 256 ^ 4 ≤ vars.length then none
  else some (eint.enc (op, vars))

/-! ### ELOG -/

def zeros8 : Bytes := [0, 0, 0, 0, 0, 0, 0, 0]

/-- flags, schema hash, reserved -/
abbrev ElogHeader := Nat × Bytes × Bytes

/-- "ELOG" ‖ version u16 = 1 ‖ flags u16 = 0 ‖ schema hash [32] ‖ reserved [8] = 0 -/
def elogHeader : Codec ElogHeader :=
  magic elogMagic (magic (leBytes 2 elogVersion)
    (guard (fun h => h.1 == 0 && h.2.2 == zeros8) (pair (uintLE 2) (pair (fixed 32) (fixed 8)))))

/-- u32 LE length ≤ MAX_FRAME_LEN ‖ payload -/
def elogFrame : Codec Bytes := lenBytes 4 elogMaxFrameLen

/-! ### retained ingress envelope v2 -/

/-- `CausalTickReceiptRef`: worldline, tick-after, commit global tick, commit hash, submission id,
    ticket digest, receipt content digest -/
abbrev Ref := Bytes × Nat × Nat × Bytes × Bytes × Bytes × Bytes

def refCodec : Codec Ref :=
  pair (fixed 32) (pair (uintLE 8) (pair (uintLE 8)
    (pair (fixed 32) (pair (fixed 32) (pair (fixed 32) (fixed 32))))))

/-- `IngressCausalParent`: TickReceipt | ContractInverseTarget -/
abbrev Parent := Ref ⊕ Ref

def parentCodec : Codec Parent := tagged2 tagTickReceipt tagContractInverseTarget refCodec refCodec

/-- `IngressTarget`: DefaultWriter wl | InboxAddress wl inbox | ExactHead wl head -/
abbrev Target := Bytes ⊕ (Bytes × Bytes) ⊕ (Bytes × Bytes)

def targetCodec : Codec Target :=
  tagged3 tagDefaultWriter tagInboxAddress tagExactHead
    (fixed 32)
    (pair (fixed 32) (guard Cbor.utf8Valid (lenBytes 8 (256 ^ 8 - 1))))
    (pair (fixed 32) (fixed 32))

/-- derived `Ord` of `CausalTickReceiptRef` (field order; hashes bytewise, ticks numerically) -/
def refCmp (a b : Ref) : Ordering :=
  (Cbor.bytesCmp a.1 b.1).then ((compare a.2.1 b.2.1).then ((compare a.2.2.1 b.2.2.1).then
    ((Cbor.bytesCmp a.2.2.2.1 b.2.2.2.1).then ((Cbor.bytesCmp a.2.2.2.2.1 b.2.2.2.2.1).then
      ((Cbor.bytesCmp a.2.2.2.2.2.1 b.2.2.2.2.2.1).then (Cbor.bytesCmp a.2.2.2.2.2.2 b.2.2.2.2.2.2))))))

/-- derived `Ord` of `IngressCausalParent` (variant order, then the reference) -/
def parentCmp : Parent → Parent → Ordering
  | .inl a, .inl b => refCmp a b
  | .inl _, .inr _ => .lt
  | .inr _, .inl _ => .gt
  | .inr a, .inr b => refCmp a b

/-- what `sort_unstable(); dedup()` leaves unchanged — the re-encode gate of the reader -/
def strictlySorted : List Parent → Bool
  | a :: b :: rest => parentCmp a b == .lt && strictlySorted (b :: rest)
  | _ => true

/-- target, causal parents, intent kind, intent bytes -/
abbrev Envelope := Target × List Parent × Bytes × Bytes

def ingressV2 : Codec Envelope :=
  magic ingressMagicV2 (pair targetCodec
    (pair (guard strictlySorted (counted 8 (1 + receiptRefLen) parentCodec))
      (magic [tagLocalIntent] (pair (fixed 32) (lenBytes 8 (256 ^ 8 - 1))))))

/-- `IngressEnvelope::from_retained_bytes` on v2 material -/
def fromRetainedV2 (bs : Bytes) : Option Envelope := decodeAll ingressV2 bs

end EchoVerif.Codec
