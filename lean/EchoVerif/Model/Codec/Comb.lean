/-
  EchoVerif.Model.Codec.Comb — combinators for the little-endian, length-prefixed, tag-checked binary
  records (ADR-0017): a codec is an encoder, a decoder on the remaining input, and the domain the
  encoder is specified for.  `Lemmas/Codec/Comb.lean` proves, once per combinator, that the two
  laws (round trip, accepted ⇒ canonical) are preserved.  Import-free.
-/
import EchoVerif.Model.Basic

namespace EchoVerif.Codec
open EchoVerif

structure Codec (α : Type) where
  enc : α → Bytes
  dec : Bytes → Option (α × Bytes)
  dom : α → Prop

/-- `n.to_le_bytes()` at width `k` (truncating) -/
def leBytes : Nat → Nat → Bytes
  | 0, _ => []
  | k + 1, n => UInt8.ofNat n :: leBytes k (n / 256)

/-- `uN::from_le_bytes` -/
def leVal : Bytes → Nat
  | [] => 0
  | b :: bs => b.toNat + 256 * leVal bs

/-- read exactly `n` bytes (`take` / `read_exact`) -/
def takeExact (n : Nat) (bs : Bytes) : Option (Bytes × Bytes) :=
  if bs.length < n then none else some (bs.take n, bs.drop n)

/-- unsigned little-endian integer of `k` bytes -/
def uintLE (k : Nat) : Codec Nat where
  enc := leBytes k
  dec bs := match takeExact k bs with
    | none => none
    | some (a, r) => some (leVal a, r)
  dom n := n < 256 ^ k

/-- exactly `n` raw bytes (hashes, ids, reserved fields) -/
def fixed (n : Nat) : Codec Bytes where
  enc b := b
  dec := takeExact n
  dom b := b.length = n

def pair {α β : Type} (c1 : Codec α) (c2 : Codec β) : Codec (α × β) where
  enc p := c1.enc p.1 ++ c2.enc p.2
  dec bs := match c1.dec bs with
    | none => none
    | some (a, r) =>
      match c2.dec r with
      | none => none
      | some (b, r') => some ((a, b), r')
  dom p := c1.dom p.1 ∧ c2.dom p.2

/-- `k`-byte LE length, then that many bytes; lengths above `maxLen` are refused -/
def lenBytes (k maxLen : Nat) : Codec Bytes where
  enc b := leBytes k b.length ++ b
  dec bs := match takeExact k bs with
    | none => none
    | some (a, r) => if maxLen < leVal a then none else takeExact (leVal a) r
  dom b := b.length < 256 ^ k ∧ b.length ≤ maxLen

def encMany {α : Type} (c : Codec α) : List α → Bytes
  | [] => []
  | x :: xs => c.enc x ++ encMany c xs

def decMany {α : Type} (c : Codec α) : Nat → Bytes → Option (List α × Bytes)
  | 0, bs => some ([], bs)
  | n + 1, bs =>
    match c.dec bs with
    | none => none
    | some (a, r) =>
      match decMany c n r with
      | none => none
      | some (as, r') => some (a :: as, r')

/-- `k`-byte LE count, then the elements; `minSize` is the pre-check some readers do before
    allocating (`count > remaining / minSize` ⇒ reject); `minSize = 0` = no pre-check -/
def counted {α : Type} (k minSize : Nat) (c : Codec α) : Codec (List α) where
  enc xs := leBytes k xs.length ++ encMany c xs
  dec bs := match takeExact k bs with
    | none => none
    | some (a, r) =>
      if minSize ≠ 0 ∧ r.length / minSize < leVal a then none else decMany c (leVal a) r
  dom xs := xs.length < 256 ^ k ∧ ∀ x ∈ xs, c.dom x

/-- `0x00` = None, `0x01` + payload = Some; any other tag byte is refused -/
def option {α : Type} (c : Codec α) : Codec (Option α) where
  enc
    | none => [0]
    | some a => 1 :: c.enc a
  dec
    | [] => none
    | t :: r =>
      if t = 0 then some (none, r)
      else if t = 1 then
        match c.dec r with
        | none => none
        | some (a, r') => some (some a, r')
      else none
  dom
    | none => True
    | some a => c.dom a

/-- one-byte tag, two alternatives; unknown tags are refused -/
def tagged2 {α β : Type} (t1 t2 : UInt8) (c1 : Codec α) (c2 : Codec β) : Codec (α ⊕ β) where
  enc
    | .inl a => t1 :: c1.enc a
    | .inr b => t2 :: c2.enc b
  dec
    | [] => none
    | t :: r =>
      if t = t1 then
        match c1.dec r with
        | none => none
        | some (a, r') => some (.inl a, r')
      else if t = t2 then
        match c2.dec r with
        | none => none
        | some (b, r') => some (.inr b, r')
      else none
  dom
    | .inl a => c1.dom a
    | .inr b => c2.dom b

/-- one-byte tag, three alternatives -/
def tagged3 {α β γ : Type} (t1 t2 t3 : UInt8) (c1 : Codec α) (c2 : Codec β) (c3 : Codec γ) :
    Codec (α ⊕ β ⊕ γ) where
  enc
    | .inl a => t1 :: c1.enc a
    | .inr (.inl b) => t2 :: c2.enc b
    | .inr (.inr c) => t3 :: c3.enc c
  dec
    | [] => none
    | t :: r =>
      if t = t1 then
        match c1.dec r with
        | none => none
        | some (a, r') => some (.inl a, r')
      else if t = t2 then
        match c2.dec r with
        | none => none
        | some (b, r') => some (.inr (.inl b), r')
      else if t = t3 then
        match c3.dec r with
        | none => none
        | some (c, r') => some (.inr (.inr c), r')
      else none
  dom
    | .inl a => c1.dom a
    | .inr (.inl b) => c2.dom b
    | .inr (.inr c) => c3.dom c

/-- literal prefix (magic / version / reserved bytes) -/
def magic {α : Type} (m : Bytes) (c : Codec α) : Codec α where
  enc a := m ++ c.enc a
  dec bs := match takeExact m.length bs with
    | none => none
    | some (a, r) => if a = m then c.dec r else none
  dom := c.dom

/-- decoder-side validity check (UTF-8, bool tag, version = 1, canonical order …) -/
def guard {α : Type} (p : α → Bool) (c : Codec α) : Codec α where
  enc := c.enc
  dec bs := match c.dec bs with
    | none => none
    | some (a, r) => if p a then some (a, r) else none
  dom a := c.dom a ∧ p a = true

/-- change of representation (record ↔ nested pairs) -/
def iso {α β : Type} (f : α → β) (g : β → α) (c : Codec α) : Codec β where
  enc b := c.enc (g b)
  dec bs := match c.dec bs with
    | none => none
    | some (a, r) => some (f a, r)
  dom b := c.dom (g b)

/-! ### `sort_unstable(); dedup()` with a derived `Ord` (canonical sets inside records) -/

/-- insertion into an ascending list -/
def insertBy {α : Type} (cmp : α → α → Ordering) (x : α) : List α → List α
  | [] => [x]
  | y :: ys => if cmp x y == .gt then y :: insertBy cmp x ys else x :: y :: ys

/-- `sort_unstable()`: when the order is total and `Equal` only on identical values (OrdLaws in
    Lemmas/Codec/SortDedup.lean) every sort returns this list -/
def sortBy {α : Type} (cmp : α → α → Ordering) : List α → List α
  | [] => []
  | x :: xs => insertBy cmp x (sortBy cmp xs)

/-- `Vec::dedup`: consecutive equal elements collapse to one -/
def dedupAdj {α : Type} [DecidableEq α] : List α → List α
  | a :: b :: rest => if a = b then dedupAdj (b :: rest) else a :: dedupAdj (b :: rest)
  | l => l

def canonBy {α : Type} [DecidableEq α] (cmp : α → α → Ordering) (l : List α) : List α :=
  dedupAdj (sortBy cmp l)

/-- `windows(2).all(|w| w[0] < w[1])` -/
def strictlyAsc {α : Type} (cmp : α → α → Ordering) : List α → Bool
  | a :: b :: rest => cmp a b == .lt && strictlyAsc cmp (b :: rest)
  | _ => true

/-- whole-buffer decode: trailing bytes are refused -/
def decodeAll {α : Type} (c : Codec α) (bs : Bytes) : Option α :=
  match c.dec bs with
  | some (a, []) => some a
  | _ => none

end EchoVerif.Codec
