/-
  EchoVerif.Model.Codec.Cbor — the ABI canonical CBOR value codec
  (crates/echo-wasm-abi/src/canonical.rs: encode_value / decode_value), import-free.

  * `Val` mirrors `ciborium::value::Value` (Integer is the CBOR range [-2^64, 2^64); Float is the
    f64 bit pattern; Text is its UTF-8 bytes).
  * head widths / marker bytes come from `Generated/CborHead.lean` (extracted from canonical.rs).
  * floats are bit patterns; "fits f16/f32 exactly" is an integer function on the bit fields.
  * the decoder works on the remaining input (a suffix of the buffer) instead of an index and is
    fuelled by the input length (every value consumes at least one byte; `Lemmas` proves the
    fuel never runs out).
  * encoder AND decoder carry the container `depth` (root = 0, items / map keys / map values at
    depth + 1) and refuse a container at depth ≥ `maxNesting` (= MAX_DECODE_NESTING_DEPTH, extracted
    together with the presence of the check in all four container arms) with `nestingLimit`.
-/
import EchoVerif.Model.Basic
import EchoVerif.Generated.CborHead

namespace EchoVerif.Cbor
open EchoVerif EchoVerif.Generated.CborHead

/-- `CanonError` classes (payload strings dropped); `fuel` is the model's own, proved unreachable. -/
inductive Err where
  | incomplete | trailing | tag | indefinite | nonCanonicalInt | nonCanonicalFloat
  | floatShouldBeInt | mapKeyOrder | mapKeyDuplicate | decode | nestingLimit | encode | fuel
  deriving DecidableEq, Repr

def Err.name : Err → String
  | .incomplete => "Incomplete" | .trailing => "Trailing" | .tag => "Tag"
  | .indefinite => "Indefinite" | .nonCanonicalInt => "NonCanonicalInt"
  | .nonCanonicalFloat => "NonCanonicalFloat" | .floatShouldBeInt => "FloatShouldBeInt"
  | .mapKeyOrder => "MapKeyOrder" | .mapKeyDuplicate => "MapKeyDuplicate"
  | .decode => "Decode" | .nestingLimit => "NestingLimitExceeded" | .encode => "Encode"
  | .fuel => "MODEL-FUEL"

inductive Val where
  | null
  | bool (b : Bool)
  | int (n : Int)
  | float (bits : Nat)
  | text (s : Bytes)
  | bytes (b : Bytes)
  | array (xs : List Val)
  | map (es : List (Val × Val))
  | tag (t : Nat) (v : Val)

/-! ### big-endian arguments -/

/-- `n` as exactly `k` big-endian bytes; high bytes truncate (`n as u64`, `as u16`, …). -/
def beBytes : Nat → Nat → Bytes
  | 0, _ => []
  | k + 1, n => UInt8.ofNat (n / 256 ^ k) :: beBytes k n

def beVal : Bytes → Nat
  | [] => 0
  | b :: bs => b.toNat * 256 ^ bs.length + beVal bs

/-- `write_major(major, n)` -/
def head (major n : Nat) : Bytes :=
  UInt8.ofNat (major * 32 + (encInfo n).1) :: beBytes (encInfo n).2 n

/-! ### f64 / f32 / f16 bit fields -/

def isNan (b : Nat) : Bool := b / 2 ^ 52 % 2048 == 2047 && b % 2 ^ 52 != 0
def isInf (b : Nat) : Bool := b / 2 ^ 52 % 2048 == 2047 && b % 2 ^ 52 == 0

/-- `is_exact_int` (after the fix): finite, integral, inside `[-2^63, 2^64)`; returns the integer.
    `E` biased exponent, `m` mantissa: |f| = (2^52+m)·2^(E-1075). -/
def floatInt? (b : Nat) : Option Int :=
  let s := b / 2 ^ 63
  let E := b / 2 ^ 52 % 2048
  let m := b % 2 ^ 52
  if E = 0 then (if m = 0 then some 0 else none)
  else if E < 1023 then none
  else if 1086 < E then none                      -- |f| ≥ 2^64, inf, NaN
  else
    let mag? : Option Nat :=
      if 1075 ≤ E then some ((2 ^ 52 + m) * 2 ^ (E - 1075))
      else if (2 ^ 52 + m) % 2 ^ (1075 - E) = 0 then some ((2 ^ 52 + m) / 2 ^ (1075 - E))
      else none
    match mag? with
    | none => none
    | some mag =>
      if s = 0 then some (Int.ofNat mag)
      else if mag ≤ 2 ^ 63 then some (-(Int.ofNat mag))
      else none

/-- exact f64 → f16 (bits), `none` when the value is not representable; NaN is the callers' case. -/
def narrow16 (b : Nat) : Option Nat :=
  let s := b / 2 ^ 63
  let E := b / 2 ^ 52 % 2048
  let m := b % 2 ^ 52
  if E = 2047 then (if m = 0 then some (s * 2 ^ 15 + 31 * 2 ^ 10) else none)
  else if E = 0 then (if m = 0 then some (s * 2 ^ 15) else none)
  else if 1009 ≤ E ∧ E ≤ 1038 then
    (if m % 2 ^ 42 = 0 then some (s * 2 ^ 15 + (E - 1008) * 2 ^ 10 + m / 2 ^ 42) else none)
  else if 999 ≤ E ∧ E ≤ 1008 then
    (if (2 ^ 52 + m) % 2 ^ (1051 - E) = 0 then some (s * 2 ^ 15 + (2 ^ 52 + m) / 2 ^ (1051 - E)) else none)
  else none

/-- exact f64 → f32 (bits). -/
def narrow32 (b : Nat) : Option Nat :=
  let s := b / 2 ^ 63
  let E := b / 2 ^ 52 % 2048
  let m := b % 2 ^ 52
  if E = 2047 then (if m = 0 then some (s * 2 ^ 31 + 255 * 2 ^ 23) else none)
  else if E = 0 then (if m = 0 then some (s * 2 ^ 31) else none)
  else if 897 ≤ E ∧ E ≤ 1150 then
    (if m % 2 ^ 29 = 0 then some (s * 2 ^ 31 + (E - 896) * 2 ^ 23 + m / 2 ^ 29) else none)
  else if 874 ≤ E ∧ E ≤ 896 then
    (if (2 ^ 52 + m) % 2 ^ (926 - E) = 0 then some (s * 2 ^ 31 + (2 ^ 52 + m) / 2 ^ (926 - E)) else none)
  else none

/-- exact f16 (bits) → f64 (bits); NaN payloads are kept in the top mantissa bits. -/
def widen16 (h : Nat) : Nat :=
  let s := h / 2 ^ 15
  let e := h / 2 ^ 10 % 32
  let m := h % 2 ^ 10
  if e = 31 then s * 2 ^ 63 + 2047 * 2 ^ 52 + m * 2 ^ 42
  else if e = 0 then
    (if m = 0 then s * 2 ^ 63
     else s * 2 ^ 63 + (Nat.log2 m + 999) * 2 ^ 52 + (m - 2 ^ Nat.log2 m) * 2 ^ (52 - Nat.log2 m))
  else s * 2 ^ 63 + (e + 1008) * 2 ^ 52 + m * 2 ^ 42

/-- exact f32 (bits) → f64 (bits). -/
def widen32 (w : Nat) : Nat :=
  let s := w / 2 ^ 31
  let e := w / 2 ^ 23 % 256
  let m := w % 2 ^ 23
  if e = 255 then s * 2 ^ 63 + 2047 * 2 ^ 52 + m * 2 ^ 29
  else if e = 0 then
    (if m = 0 then s * 2 ^ 63
     else s * 2 ^ 63 + (Nat.log2 m + 874) * 2 ^ 52 + (m - 2 ^ Nat.log2 m) * 2 ^ (52 - Nat.log2 m))
  else s * 2 ^ 63 + (e + 896) * 2 ^ 52 + m * 2 ^ 29

/-- `can_fit_f16` / `can_fit_f32` -/
def fits16 (b : Nat) : Bool := isNan b || (narrow16 b).isSome
def fits32 (b : Nat) : Bool := isNan b || (narrow32 b).isSome

/-- the only NaN the encoder writes: f16 0x7e00 -/
def canonNan16 : Nat := 0x7e00

/-! ### encoder -/

def encInt (n : Int) : Bytes :=
  if 0 ≤ n then head 0 n.toNat else head 1 (-1 - n).toNat

def encFloat (b : Nat) : Bytes :=
  if isNan b then UInt8.ofNat encF16 :: beBytes 2 canonNan16
  else if isInf b then UInt8.ofNat encF16 :: beBytes 2 ((b / 2 ^ 63) * 2 ^ 15 + 31 * 2 ^ 10)
  else match floatInt? b with
    | some i => encInt i
    | none =>
      match narrow16 b with
      | some h => UInt8.ofNat encF16 :: beBytes 2 h
      | none =>
        match narrow32 b with
        | some w => UInt8.ofNat encF32 :: beBytes 4 w
        | none => UInt8.ofNat encF64 :: beBytes 8 b

/-- bytewise lexicographic order (`Vec<u8>: Ord`) -/
def bytesCmp : Bytes → Bytes → Ordering
  | [], [] => .eq
  | [], _ :: _ => .lt
  | _ :: _, [] => .gt
  | a :: as, b :: bs => if a < b then .lt else if b < a then .gt else bytesCmp as bs

/-- an encoded map entry: key bytes and the (not yet sequenced) result of encoding the value -/
abbrev EncEntry := Bytes × Except Err Bytes

def insertEntry {γ : Type} (x : Bytes × γ) : List (Bytes × γ) → List (Bytes × γ)
  | [] => [x]
  | y :: ys => if bytesCmp x.1 y.1 == .lt then x :: y :: ys else y :: insertEntry x ys

/-- `buf.sort_by(|a, b| a.2.cmp(&b.2))` (any sort agrees once keys are distinct; equal keys error) -/
def sortEntries {γ : Type} : List (Bytes × γ) → List (Bytes × γ)
  | [] => []
  | x :: xs => insertEntry x (sortEntries xs)

/-- `buf.windows(2)` has two equal encoded keys -/
def hasAdjDup {γ : Type} : List (Bytes × γ) → Bool
  | a :: b :: rest => a.1 == b.1 || hasAdjDup (b :: rest)
  | _ => false

/-- write `kb`, then the value, in the sorted order (value errors surface here, in that order) -/
def encBody : List EncEntry → Except Err Bytes
  | [] => .ok []
  | (kb, r) :: rest =>
    match r with
    | .error e => .error e
    | .ok vb =>
      match encBody rest with
      | .error e => .error e
      | .ok tl => .ok (kb ++ vb ++ tl)

mutual
  /-- `enc_value(v, out, depth)`: a container at `depth ≥ maxNesting` is refused before anything
      is written; items, map keys and map values are encoded at `depth + 1`. -/
  def enc : Nat → Val → Except Err Bytes
    | _, .null => .ok [UInt8.ofNat encNull]
    | _, .bool b => .ok [UInt8.ofNat (if b then encTrue else encFalse)]
    | _, .int n => if n < -(2 ^ 63 : Int) then .error .encode else .ok (encInt n)
    | _, .float b => .ok (encFloat b)
    | _, .text s => .ok (head 3 s.length ++ s)
    | _, .bytes b => .ok (head 2 b.length ++ b)
    | d, .array xs =>
      if maxNesting ≤ d then .error .nestingLimit
      else match encList (d + 1) xs with
        | .error e => .error e
        | .ok body => .ok (head 4 xs.length ++ body)
    | d, .map es =>
      if maxNesting ≤ d then .error .nestingLimit
      else match encEntries (d + 1) es with
        | .error e => .error e
        | .ok ents =>
          let sorted := sortEntries ents
          if hasAdjDup sorted then .error .mapKeyDuplicate
          else match encBody sorted with
            | .error e => .error e
            | .ok body => .ok (head 5 sorted.length ++ body)
    | _, .tag _ _ => .error .tag
  /-- the items of an array, all at depth `d` -/
  def encList : Nat → List Val → Except Err Bytes
    | _, [] => .ok []
    | d, x :: xs =>
      match enc d x with
      | .error e => .error e
      | .ok a =>
        match encList d xs with
        | .error e => .error e
        | .ok b => .ok (a ++ b)
  /-- first loop of the map arm: keys are encoded (and fail) in the given order; keys and values
      are at depth `d` -/
  def encEntries : Nat → List (Val × Val) → Except Err (List EncEntry)
    | _, [] => .ok []
    | d, kv :: rest =>
      match enc d kv.1 with
      | .error e => .error e
      | .ok kb =>
        match encEntries d rest with
        | .error e => .error e
        | .ok r => .ok ((kb, enc d kv.2) :: r)
end

/-- `encode_value`: the root is at depth 0 -/
def encode (v : Val) : Except Err Bytes := enc 0 v

/-! ### UTF-8 (`str::from_utf8`): Unicode Table 3-7 well-formed byte sequences -/

def cont (b : UInt8) : Bool := 0x80 ≤ b && b ≤ 0xBF

def utf8Valid : Bytes → Bool
  | [] => true
  | a :: rest =>
    if a ≤ 0x7F then utf8Valid rest
    else if 0xC2 ≤ a && a ≤ 0xDF then
      match rest with
      | b :: r => cont b && utf8Valid r
      | _ => false
    else if 0xE0 ≤ a && a ≤ 0xEF then
      match rest with
      | b :: c :: r =>
        (if a == 0xE0 then 0xA0 ≤ b && b ≤ 0xBF
         else if a == 0xED then 0x80 ≤ b && b ≤ 0x9F
         else cont b) && cont c && utf8Valid r
      | _ => false
    else if 0xF0 ≤ a && a ≤ 0xF4 then
      match rest with
      | b :: c :: d :: r =>
        (if a == 0xF0 then 0x90 ≤ b && b ≤ 0xBF
         else if a == 0xF4 then 0x80 ≤ b && b ≤ 0x8F
         else cont b) && cont c && cont d && utf8Valid r
      | _ => false
    else false

/-! ### decoder -/

/-- `need` + slice: split off exactly `n` bytes -/
def takeN (n : Nat) (bs : Bytes) : Except Err (Bytes × Bytes) :=
  if bs.length < n then .error .incomplete else .ok (bs.take n, bs.drop n)

/-- `read_len` -/
def readLen (info : Nat) (bs : Bytes) : Except Err (Nat × Bytes) :=
  match decKind info with
  | .direct => .ok (info, bs)
  | .width w =>
    match takeN w bs with
    | .error e => .error e
    | .ok (a, r) => if decOverwide info (beVal a) then .error .nonCanonicalInt else .ok (beVal a, r)
  | .indefinite => .error .indefinite
  | .invalid => .error .decode

/-- major 7 float arms (25/26/27), after the fix (non-canonical NaN payloads rejected) -/
def decFloat (info : Nat) (bs : Bytes) : Except Err (Val × Bytes) :=
  if info = decF16 then
    match takeN 2 bs with
    | .error e => .error e
    | .ok (a, r) =>
      let f := widen16 (beVal a)
      if isNan f && beVal a != canonNan16 then .error .nonCanonicalFloat
      else if (floatInt? f).isSome then .error .floatShouldBeInt
      else .ok (.float f, r)
  else if info = decF32 then
    match takeN 4 bs with
    | .error e => .error e
    | .ok (a, r) =>
      let f := widen32 (beVal a)
      if (floatInt? f).isSome then .error .floatShouldBeInt
      else if fits16 f then .error .nonCanonicalFloat
      else .ok (.float f, r)
  else
    match takeN 8 bs with
    | .error e => .error e
    | .ok (a, r) =>
      let f := beVal a
      if (floatInt? f).isSome then .error .floatShouldBeInt
      else if fits16 f then .error .nonCanonicalFloat
      else if fits32 f then .error .nonCanonicalFloat
      else .ok (.float f, r)

/-- the array loop: `len` items decoded by `d` -/
def itemsWith (d : Bytes → Except Err (Val × Bytes)) : Nat → Bytes → Except Err (List Val × Bytes)
  | 0, bs => .ok ([], bs)
  | n + 1, bs =>
    match d bs with
    | .error e => .error e
    | .ok (v, r) =>
      match itemsWith d n r with
      | .error e => .error e
      | .ok (vs, r') => .ok (v :: vs, r')

/-- the map loop: key, order check against the previous key's bytes, value -/
def entriesWith (d : Bytes → Except Err (Val × Bytes)) :
    Nat → Option Bytes → Bytes → Except Err (List (Val × Val) × Bytes)
  | 0, _, bs => .ok ([], bs)
  | n + 1, last, bs =>
    match d bs with
    | .error e => .error e
    | .ok (k, r1) =>
      let kb := bs.take (bs.length - r1.length)
      let chk : Option Err :=
        match last with
        | none => none
        | some prev =>
          if kb == prev then some .mapKeyDuplicate
          else if bytesCmp kb prev == .lt then some .mapKeyOrder
          else none
      match chk with
      | some e => .error e
      | none =>
        match d r1 with
        | .error e => .error e
        | .ok (v, r2) =>
          match entriesWith d n (some kb) r2 with
          | .error e => .error e
          | .ok (es, r3) => .ok ((k, v) :: es, r3)

/-- `dec_value(bytes, idx, depth, _)` on the remaining input; returns the value and what is left.
    First argument: fuel; second: `depth`.  A container head is read first (`read_len`), then the
    nesting check, then the items at `depth + 1`. -/
def dec : Nat → Nat → Bytes → Except Err (Val × Bytes)
  | 0, _, _ => .error .fuel
  | _ + 1, _, [] => .error .incomplete
  | fuel + 1, d, b0 :: rest =>
    let major := b0.toNat / 32
    let info := b0.toNat % 32
    if major = 0 then
      match readLen info rest with
      | .error e => .error e
      | .ok (n, r) => .ok (.int (Int.ofNat n), r)
    else if major = 1 then
      match readLen info rest with
      | .error e => .error e
      | .ok (n, r) => if 2 ^ 63 ≤ n then .error .decode else .ok (.int (-(1 + Int.ofNat n)), r)
    else if major = 2 then
      match readLen info rest with
      | .error e => .error e
      | .ok (n, r) =>
        match takeN n r with
        | .error e => .error e
        | .ok (data, r') => .ok (.bytes data, r')
    else if major = 3 then
      match readLen info rest with
      | .error e => .error e
      | .ok (n, r) =>
        match takeN n r with
        | .error e => .error e
        | .ok (data, r') => if utf8Valid data then .ok (.text data, r') else .error .decode
    else if major = 4 then
      match readLen info rest with
      | .error e => .error e
      | .ok (n, r) =>
        if maxNesting ≤ d then .error .nestingLimit
        else match itemsWith (dec fuel (d + 1)) n r with
          | .error e => .error e
          | .ok (xs, r') => .ok (.array xs, r')
    else if major = 5 then
      match readLen info rest with
      | .error e => .error e
      | .ok (n, r) =>
        if maxNesting ≤ d then .error .nestingLimit
        else match entriesWith (dec fuel (d + 1)) n none r with
          | .error e => .error e
          | .ok (es, r') => .ok (.map es, r')
    else if major = decTagMajor then .error .tag
    else
      if info = decFalse then .ok (.bool false, rest)
      else if info = decTrue then .ok (.bool true, rest)
      else if info = decNull then .ok (.null, rest)
      else if info = decF16 ∨ info = decF32 ∨ info = decF64 then decFloat info rest
      else if info = decSimpleIndefinite then .error .indefinite
      else .error .decode

/-- `decode_value`: the root is at depth 0 -/
def decode (bs : Bytes) : Except Err Val :=
  match dec (bs.length + 1) 0 bs with
  | .error e => .error e
  | .ok (v, []) => .ok v
  | .ok (_, _ :: _) => .error .trailing

/-! ### the documented normalisation (what a value reads back as) -/

def canonNan64 : Nat := 0x7ff8000000000000

/-- floats: NaN → the canonical NaN, integral in `[-2^63, 2^64)` → integer (−0.0 → 0) -/
def normFloat (b : Nat) : Val :=
  if isNan b then .float canonNan64
  else if isInf b then .float b
  else match floatInt? b with
    | some i => .int i
    | none => .float b

/-- the encoding of a key (depth-independent whenever the enclosing map encodes at all:
    `enc_depth_irrelevant` in Lemmas/Codec/CborDepth.lean) -/
def keyBytes (k : Val) : Bytes :=
  match enc 0 k with
  | .ok b => b
  | .error _ => []

mutual
  def norm : Val → Val
    | .float b => normFloat b
    | .array xs => .array (normList xs)
    | .map es => .map ((sortEntries (normEntries es)).map Prod.snd)
    | v => v
  def normList : List Val → List Val
    | [] => []
    | x :: xs => norm x :: normList xs
  /-- entries keyed by the encoding of their key, for the sort by encoded key -/
  def normEntries : List (Val × Val) → List (Bytes × (Val × Val))
    | [] => []
    | kv :: rest => (keyBytes kv.1, (norm kv.1, norm kv.2)) :: normEntries rest
end

mutual
  /-- what a `ciborium::value::Value` built by Rust code can be: integers in the CBOR range, f64
      bit patterns, valid UTF-8 text, sizes below 2^64 -/
  def WF : Val → Prop
    | .int n => -(2 ^ 64 : Int) ≤ n ∧ n < 2 ^ 64
    | .float b => b < 2 ^ 64
    | .text s => utf8Valid s = true ∧ s.length < 2 ^ 64
    | .bytes b => b.length < 2 ^ 64
    | .array xs => xs.length < 2 ^ 64 ∧ WFList xs
    | .map es => es.length < 2 ^ 64 ∧ WFEntries es
    | .tag _ v => WF v
    | _ => True
  def WFList : List Val → Prop
    | [] => True
    | x :: xs => WF x ∧ WFList xs
  def WFEntries : List (Val × Val) → Prop
    | [] => True
    | kv :: rest => WF kv.1 ∧ WF kv.2 ∧ WFEntries rest
end

/-! ### container nesting of a value -/

mutual
  /-- number of nested containers: 0 for a scalar, 1 + the deepest item / key / value otherwise -/
  def depth : Val → Nat
    | .array xs => 1 + depthList xs
    | .map es => 1 + depthEntries es
    | .tag _ v => depth v
    | _ => 0
  def depthList : List Val → Nat
    | [] => 0
    | x :: xs => max (depth x) (depthList xs)
  def depthEntries : List (Val × Val) → Nat
    | [] => 0
    | kv :: rest => max (max (depth kv.1) (depth kv.2)) (depthEntries rest)
end

/-- `n` arrays of one element around `v` -/
def nestArr : Nat → Val → Val
  | 0, v => v
  | n + 1, v => .array [nestArr n v]

end EchoVerif.Cbor
