/-
  EchoVerif.Model.Codec.WalRecords — WAL payload records of crates/warp-core/src/causal_wal.rs as
  instances of the combinator library (`*::to_payload_bytes` / `*::from_payload_bytes` over
  `WalPayloadCursor`): submission acceptance, submission envelope, tick receipt v2, receipt
  correlation v2 (writer sorts + dedups the cited receipts, count omitted when empty), retained
  material, reading reference, checkpoint, checkpoint publication.
  Magics and enum code tables: Generated/WalRecMagic.lean.
-/
import EchoVerif.Model.Codec.Records
import EchoVerif.Generated.WalRecMagic

namespace EchoVerif.Codec
open EchoVerif EchoVerif.Generated.LeMagic EchoVerif.Generated.WalRecMagic

/-- `push_hash` / `read_hash` -/
abbrev hash32 : Codec Bytes := fixed 32

/-- one code byte of an enum: `code()` / `from_code()`, unknown codes refused -/
def enumByte (codes : List Nat) : Codec Nat := guard (fun n => codes.contains n) (uintLE 1)

/-- `SubmissionAcceptanceRecord`: submission id, envelope digest, optional idempotency key, evidence -/
abbrev Acceptance := Bytes × Bytes × Option Bytes × Bytes
def acceptanceRec : Codec Acceptance := pair hash32 (pair hash32 (pair (option hash32) hash32))

/-- `WalSubmissionEnvelopeRecord`: submission id, envelope digest, generation, head key, retained bytes -/
abbrev SubmissionEnv := Bytes × Bytes × Nat × (Bytes × Bytes) × Bytes
def submissionEnvRec : Codec SubmissionEnv :=
  pair hash32 (pair hash32 (pair (uintLE 8) (pair (pair hash32 hash32) (lenBytes 8 (256 ^ 8 - 1)))))

/-- `TickReceiptRecord` (v2): receipt coordinate, decision code -/
abbrev TickReceipt := Ref × Nat
def tickReceiptRec : Codec TickReceipt :=
  magic tickReceiptMagicV2 (pair refCodec (enumByte tickDecisionCodes))

/-- `RetainedMaterialRecord`: material digest, coordinate digest, kind, posture -/
abbrev Material := Bytes × Bytes × Nat × Nat
def materialRec : Codec Material :=
  pair hash32 (pair hash32 (pair (enumByte materialKindCodes) (enumByte materialPostureCodes)))

/-- `ReadingRefRecord`: reading id, coordinate, payload digest, envelope digest, posture -/
abbrev ReadingRef := Bytes × Bytes × Bytes × Bytes × Nat
def readingRefRec : Codec ReadingRef :=
  pair hash32 (pair hash32 (pair hash32 (pair hash32 (enumByte materialPostureCodes))))

/-- `CheckpointRecord`: id, last LSN, commit digest, state root, index root, material root, schema
    version, WAL digest -/
abbrev Checkpoint := Bytes × Nat × Bytes × Bytes × Bytes × Bytes × Nat × Bytes
def checkpointRec : Codec Checkpoint :=
  pair hash32 (pair (uintLE 8) (pair hash32 (pair hash32 (pair hash32 (pair hash32
    (pair (uintLE 2) hash32))))))

/-- `CheckpointPublicationRecord` -/
abbrev CheckpointPub := Bytes × Bytes
def checkpointPubRec : Codec CheckpointPub := pair hash32 hash32

/-! ### receipt correlation v2 -/

/-- child receipt, cited parent receipts -/
abbrev Correlation := Ref × List Ref

/-- `to_payload_bytes`: the cited receipts are sorted + deduplicated (derived `Ord`); the count is
    written only when the set is non-empty -/
def correlationEnc (c : Correlation) : Bytes :=
  let ps := canonBy refCmp c.2
  receiptCorrelationMagicV2 ++ refCodec.enc c.1 ++
    (if ps = [] then [] else leBytes 8 ps.length ++ encMany refCodec ps)

/-- `from_payload_bytes`: nothing after the child = no parents; otherwise a NON-ZERO count, the
    references, no trailing bytes, and `windows(2).all(|p| p[0] < p[1])` on the decoded values -/
def correlationDec (bs : Bytes) : Option Correlation :=
  match (magic receiptCorrelationMagicV2 refCodec).dec bs with
  | none => none
  | some (r, rest) =>
    if rest = [] then some (r, [])
    else
      match decodeAll (guard (fun ps => !ps.isEmpty) (counted 8 receiptRefLen refCodec)) rest with
      | none => none
      | some ps => if strictlyAsc refCmp ps then some (r, ps) else none

end EchoVerif.Codec
