/-
  EchoVerif.Model.MergePolicy — the five `ParallelExecutionPolicy` executors of
  `parallel/exec.rs::execute_partitioned_shards` and `execute_work_queue`, as functions from a
  claim outcome (a `Schedule` over shard / unit indices) to the list of deltas they return (C02).

  Rust anchors (parallel/exec.rs)
    `execute_shard_into_delta`      : `shardDelta`
    `execute_dynamic_per_worker`    : `perWorkerDeltas` over `dynamicSteal owner w n`
    `execute_static_per_worker`     : `perWorkerDeltas` over `staticRoundRobin w n`
    `execute_dynamic_per_shard`     : `perShardDeltas` over `dynamicSteal owner w n`
    `execute_static_per_shard`      : `perShardDeltas` over `staticRoundRobin w n`
    `execute_dedicated_per_shard`   : `perShardDeltas` over `perShard n`
    `execute_partitioned_shards`    : `execPolicy` (the `total_items == 0` early return included)
    `execute_work_queue`            : `execWorkQueue` (claim counter outcome `owner`)
  `owner s` = the worker whose `fetch_add` returned `s`; every function `owner` with values `< w`
  is a possible outcome of the race, and the theorems quantify over all of them.
-/
import EchoVerif.Model.Merge

namespace EchoVerif
namespace Merge

variable {ι : Type}

/-- `execute_shard_into_delta` on shard `sid` (unguarded view: `g` = raw executor output). -/
def shardDelta (g : ι → List Entry) (sh : Nat → List ι) (sid : Nat) : List Entry :=
  (sh sid).flatMap g

/-- `PerWorker` accumulation: one delta per worker, its claimed shards appended in claim order
    (empty shards included: they append nothing). -/
def perWorkerDeltas (g : ι → List Entry) (sh : Nat → List ι) (σ : Schedule) : List (List Entry) :=
  σ.map (fun claims => claims.flatMap (shardDelta g sh))

/-- what the workers hand back under `PerShard` accumulation, in join (= worker) order:
    `(shard_id, delta)` for every claimed shard whose item list is not empty. -/
def perShardTagged (g : ι → List Entry) (sh : Nat → List ι) (σ : Schedule) :
    List (Nat × List Entry) :=
  σ.flatMap (fun claims =>
    (claims.filter (fun s => !(sh s).isEmpty)).map (fun s => (s, shardDelta g sh s)))

/-- `PerShard` accumulation: `deltas.sort_by_key(shard_id)`, then the ids are dropped. -/
def perShardDeltas (g : ι → List Entry) (sh : Nat → List ι) (σ : Schedule) : List (List Entry) :=
  (sortBy (fun p : Nat × List Entry => p.1) (perShardTagged g sh σ)).map (·.2)

/-- the five public `ParallelExecutionPolicy` constants. -/
inductive Policy where
  | dynamicPerWorker | dynamicPerShard | staticPerWorker | staticPerShard | dedicatedPerShard
  deriving DecidableEq, Repr

/-- the claim outcome of a policy: which worker runs which shard indices, in which order. -/
def Policy.schedule (owner : Nat → Nat) (w n : Nat) : Policy → Schedule
  | .dynamicPerWorker | .dynamicPerShard => dynamicSteal owner w n
  | .staticPerWorker | .staticPerShard => staticRoundRobin w n
  | .dedicatedPerShard => perShard n

def Policy.perShardAcc : Policy → Bool
  | .dynamicPerWorker | .staticPerWorker => false
  | _ => true

/-- `execute_partitioned_shards` (after `capped_workers`): `w` workers, `n = NUM_SHARDS` shards. -/
def execPolicy (g : ι → List Entry) (sh : Nat → List ι) (owner : Nat → Nat) (p : Policy)
    (w n : Nat) : List (List Entry) :=
  if (List.range n).all (fun s => (sh s).isEmpty) then       -- `workload.total_items() == 0`
    (if p = .dedicatedPerShard then [] else (List.range w).map (fun _ => []))
  else if p.perShardAcc then perShardDeltas g sh (p.schedule owner w n)
  else perWorkerDeltas g sh (p.schedule owner w n)

/-- the shards as work units of one warp (for the comparison with `runSchedule`). -/
def shardUnits (warp : Nat) (sh : Nat → List ι) (n : Nat) : List (WUnit ι) :=
  (List.range n).map (fun s => { warp := warp, items := sh s })

/-- `execute_work_queue`: `units.is_empty()` early return, otherwise the worker loop under the claim
    outcome `owner`. -/
def execWorkQueue (f : Nat → ι → ItemOut) (hasStore : Nat → Bool) (units : List (WUnit ι))
    (owner : Nat → Nat) (w : Nat) : List WorkerRes :=
  if units.isEmpty then (List.range w).map (fun _ => .success [])
  else runSchedule f hasStore units (dynamicSteal owner w units.length)

end Merge
end EchoVerif
