/-
  EchoVerif.Model.Observe — the read side: `ObservationService::observe` over the chain model.

  Rust anchors (crates/warp-core/src/observation.rs):
    ObservationService::{observe, validate_frame_projection, validate_observer_contract,
      validate_query_observer_contract, resolve_coordinate, resolved_commit_boundary, basis_posture,
      witness_refs, witness_commit_tick, budget_posture, payload_wire_len, reading_envelope,
      query_reading_identity, query_basis_digest, query_aperture_digest, compute_artifact_hash},
    builtin_observer_plan, option_cycle_tick / current_cycle_tick;
    echo-wasm-abi kernel_port.rs: the serde shapes of ObservationHashInput and everything below it
    (internally tagged `kind` enums, externally tagged ReadingBudgetPosture, opaque ids as CBOR byte
    strings, `Vec<u8>` as CBOR arrays of small integers), encoded by the canonical CBOR encoder
    (Model/Codec/Cbor.lean).

  Shape: `observe env rt pv req : Except ObsError (Artifact D)` — a function of the *borrowed* runtime
  view, the provenance store and the request; there is no state component in the result.  Digests are
  an abstract `D` (`env.dB` renders them to the 32 bytes the ABI carries); the artifact hash is the
  pre-image `HExpr` (domain ‖ canonical CBOR of the hash input), never a modelled hash.

  What is *input*, not modelled: the frontier's last snapshot / the engine's `snapshot_for_state`
  fallback pair, the strand registry lookup and the result of `Strand::live_basis_report` (frontier
  reads on strand children only), the installed query observers (abstract functions of the context),
  contract package evidence (always absent: no package is installed in any modelled run).
-/
import EchoVerif.Model.Basic
import EchoVerif.Model.Chain
import EchoVerif.Model.Codec.Cbor

namespace EchoVerif.Observe
open EchoVerif EchoVerif.Chain

/-- Recorded materialization outputs of one entry: `(channel id, data)` in recorded order. -/
abbrev Outs := List (Nat × Bytes)

/-! ### requests -/

inductive At where
  | frontier
  | tick (t : Nat)
  deriving DecidableEq, Repr

inductive Frame where
  | commitBoundary | recordedTruth | queryView
  deriving DecidableEq, Repr

inductive PKind where
  | head | snapshot | truth | query
  deriving DecidableEq, Repr

inductive Proj where
  | head
  | snapshot
  | truth (filter : Option (List Nat))
  | query (id : Nat) (vars : Bytes)
  deriving DecidableEq, Repr

def Proj.kind : Proj → PKind
  | .head => .head | .snapshot => .snapshot | .truth _ => .truth | .query _ _ => .query

inductive BPlan where
  | cbHead | cbSnapshot | rtChannels | queryBytes
  deriving DecidableEq, Repr

/-- `AuthoredObserverPlan` (plan id + five law hashes). -/
structure APlan where
  planId : Nat
  artifact : Bytes
  schema : Bytes
  stateSchema : Bytes
  updateLaw : Bytes
  emissionLaw : Bytes
  deriving DecidableEq, Repr

inductive Plan where
  | builtin (p : BPlan)
  | authored (a : APlan)
  deriving DecidableEq, Repr

structure InstRef where
  instanceId : Nat
  planId : Nat
  stateHash : Bytes
  deriving DecidableEq, Repr

inductive Budget where
  | unbounded
  | bounded (maxPayload maxWitness : Nat)
  deriving DecidableEq, Repr

inductive Rights where
  | kernelPublic
  | capability (id : Nat)
  deriving DecidableEq, Repr

structure Request where
  wl : Nat
  at_ : At
  frame : Frame
  proj : Proj
  plan : Plan
  inst : Option InstRef
  budget : Budget
  rights : Rights
  deriving DecidableEq, Repr

/-! ### results -/

inductive QFail where
  | invalidVars | failed
  deriving DecidableEq, Repr

inductive ObsError where
  | invalidWorldline (wl : Nat)
  | invalidTick (wl t : Nat)
  | unsupportedFrameProjection (f : Frame) (k : PKind)
  | unsupportedQuery (id : Nat)
  | queryFailed (id : Nat) (why : QFail)
  | unsupportedPlan
  | unsupportedInstance
  | unsupportedRights
  | budgetExceeded (maxPayload payload maxWitness witness : Nat)
  | unavailable (wl : Nat) (a : At)
  | codec
  deriving DecidableEq, Repr

/-- `ResolvedObservationCoordinate`. -/
structure Resolved (D : Type) where
  version : Nat
  wl : Nat
  requestedAt : At
  tick : Nat
  commitGtick : Option Nat
  observedAfter : Option Nat
  root : D
  commit : D
  deriving DecidableEq

inductive Payload (D : Type) where
  | head (tick : Nat) (cg : Option Nat) (root commit : D)
  | snapshot (tick : Nat) (cg : Option Nat) (root commit : D)
  | truth (chs : Outs)
  | query (data : Bytes)
  deriving DecidableEq

inductive Witness (D : Type) where
  | resolvedCommit (r : PRef D)
  | emptyFrontier (wl : Nat) (root commit : D)
  deriving DecidableEq

/-- `ObservationBasisPosture` in its ABI shape (overlapping slots = count + digest). -/
inductive Posture (D : Type) where
  | worldline
  | strandHistorical (sid : Nat)
  | strandAtAnchor (sid : Nat)
  | parentAdvanced (sid : Nat) (pfrom pto : PRef D)
  | revalidation (sid : Nat) (pfrom pto : PRef D) (count : Nat) (digest : D)
  deriving DecidableEq

inductive BudgetPosture where
  | unbounded
  | bounded (maxPayload payload maxWitness witness : Nat)
  deriving DecidableEq, Repr

inductive Residual where
  | complete | residual | plurality | obstructed
  deriving DecidableEq, Repr

/-- `ReadingEnvelope` (contract / retained evidence are always absent / empty here). -/
structure Envelope (D : Type) where
  plan : Plan
  inst : Option InstRef
  basis : Frame
  witnesses : List (Witness D)
  posture : Posture D
  budget : BudgetPosture
  residual : Residual
  deriving DecidableEq

structure Artifact (D : Type) where
  resolved : Resolved D
  reading : Envelope D
  frame : Frame
  proj : Proj
  payload : Payload D
  deriving DecidableEq

/-! ### the borrowed runtime / engine view -/

/-- `StrandRegistry::find_by_child_worldline` hit + what `live_basis_report` maps to (`none` = error). -/
structure StrandInfo (D : Type) where
  sid : Nat
  live : Option (Posture D)

/-- `WorldlineFrontier` as far as observation reads it. -/
structure Front (D : Type) where
  tick : Nat
  /-- `state.last_snapshot` as `(state_root, hash)`. -/
  lastSnap : Option (D × D)
  /-- `engine.snapshot_for_state(state)` as `(state_root, hash)` (read only when `lastSnap` is none). -/
  u0 : D × D
  strand : Option (StrandInfo D)

/-- The context an installed query observer is called with (minus the runtime/provenance borrows). -/
structure QCtx (D : Type) where
  id : Nat
  vars : Bytes
  req : Request
  resolved : Resolved D

/-- An installed `ContractQueryObserver`. -/
structure QObs (D : Type) where
  plan : APlan
  run : QCtx D → Except QFail (Bytes × Residual)

structure Runtime (D : Type) where
  gtick : Nat
  fronts : List (Nat × Front D)
  queries : List (Nat × QObs D)

structure Env (D : Type) where
  /-- the 32 bytes of a digest -/
  dB : D → Bytes

def observationVersion : Nat := 4

section
variable {S P D M : Type}

/-- `ProvenanceStore::entry(w, tick)` (any failure is `HistoryError`). -/
def entryAt (pv : Prov S P D Outs M) (wl t : Nat) : Option (Entry P D Outs) :=
  (pv.get wl).bind (fun h => h.entries[t]?)

/-- `validate_frame_projection`'s matrix. -/
def validFP : Frame → PKind → Bool
  | .commitBoundary, .head => true
  | .commitBoundary, .snapshot => true
  | .recordedTruth, .truth => true
  | .queryView, .query => true
  | _, _ => false

/-- `builtin_observer_plan`. -/
def builtinPlan : Frame → PKind → Option BPlan
  | .commitBoundary, .head => some .cbHead
  | .commitBoundary, .snapshot => some .cbSnapshot
  | .recordedTruth, .truth => some .rtChannels
  | .queryView, .query => some .queryBytes
  | _, _ => none

/-- instance / rights tail shared by both contract validators. -/
def validateTail (req : Request) : Option ObsError :=
  match req.inst with
  | some _ => some .unsupportedInstance
  | none =>
    match req.rights with
    | .capability _ => some .unsupportedRights
    | .kernelPublic => none

/-- `validate_observer_contract` (+ `validate_query_observer_contract`). -/
def validateContract (rt : Runtime D) (req : Request) : Option ObsError :=
  match req.frame, req.proj with
  | .queryView, .query id _ =>
    match rt.queries.lookup id with
    | none => some (.unsupportedQuery id)
    | some ob =>
      match req.plan with
      | .builtin .queryBytes => validateTail req
      | .builtin _ => some .unsupportedPlan
      | .authored a => if a = ob.plan then validateTail req else some .unsupportedPlan
  | f, p =>
    match builtinPlan f p.kind with
    | none => some (.unsupportedFrameProjection f p.kind)
    | some expected =>
      match req.plan with
      | .builtin b => if b = expected then validateTail req else some .unsupportedPlan
      | .authored _ => some .unsupportedPlan

/-- `option_cycle_tick`. -/
def cycleTick (g : Nat) : Option Nat := if g = 0 then none else some g

/-- `resolve_coordinate`. -/
def resolve (rt : Runtime D) (pv : Prov S P D Outs M) (fr : Front D) (req : Request) :
    Except ObsError (Resolved D) :=
  match req.frame, req.at_ with
  | .recordedTruth, .frontier =>
    if fr.tick = 0 then .error (.unavailable req.wl req.at_)
    else match entryAt pv req.wl (fr.tick - 1) with
      | none => .error (.unavailable req.wl req.at_)
      | some e =>
        .ok { version := observationVersion, wl := req.wl, requestedAt := req.at_, tick := fr.tick - 1,
              commitGtick := some e.gtick, observedAfter := cycleTick rt.gtick,
              root := e.expRoot, commit := e.expCommit }
  | _, .tick t =>
    match entryAt pv req.wl t with
    | none => .error (.invalidTick req.wl t)
    | some e =>
      .ok { version := observationVersion, wl := req.wl, requestedAt := req.at_, tick := t,
            commitGtick := some e.gtick, observedAfter := cycleTick rt.gtick,
            root := e.expRoot, commit := e.expCommit }
  | _, .frontier =>
    let snap := match fr.lastSnap with
      | some s => s
      | none => fr.u0
    let mk (cg : Option Nat) : Resolved D :=
      { version := observationVersion, wl := req.wl, requestedAt := req.at_, tick := fr.tick,
        commitGtick := cg, observedAfter := cycleTick rt.gtick, root := snap.1, commit := snap.2 }
    if fr.tick = 0 then .ok (mk none)
    else match entryAt pv req.wl (fr.tick - 1) with
      | none => .error (.unavailable req.wl req.at_)
      | some e => .ok (mk (some e.gtick))

/-- `basis_posture`. -/
def basisPosture (fr : Front D) (req : Request) : Except ObsError (Posture D) :=
  match fr.strand with
  | none => .ok .worldline
  | some si =>
    match req.at_ with
    | .tick _ => .ok (.strandHistorical si.sid)
    | .frontier =>
      match si.live with
      | none => .error (.unavailable req.wl req.at_)
      | some p => .ok p

/-- `witness_commit_tick`. -/
def witnessCommitTick (r : Resolved D) (f : Frame) : Option Nat :=
  match r.commitGtick with
  | none => none
  | some _ =>
    match f, r.requestedAt with
    | .recordedTruth, _ => some r.tick
    | _, .tick _ => some r.tick
    | _, .frontier => if r.tick = 0 then none else some (r.tick - 1)

/-- `witness_refs`. -/
def witnessRefs (r : Resolved D) (f : Frame) : List (Witness D) :=
  match witnessCommitTick r f with
  | none => [.emptyFrontier r.wl r.root r.commit]
  | some t => [.resolvedCommit { wl := r.wl, tick := t, commit := r.commit }]

/-! ### ABI values (serde shapes of kernel_port.rs) -/


def txt (s : String) : Cbor.Val := .text s.toUTF8.toList
def fld (k : String) (v : Cbor.Val) : Cbor.Val × Cbor.Val := (txt k, v)
def u8arr (b : Bytes) : Cbor.Val := .array (b.map (fun x => .int (Int.ofNat x.toNat)))
def idVal (n : Nat) : Cbor.Val := .bytes (natToBE 32 n)
def natVal (n : Nat) : Cbor.Val := .int (Int.ofNat n)
def optNat : Option Nat → Cbor.Val
  | none => .null
  | some n => natVal n

def atVal : At → Cbor.Val
  | .frontier => .map [fld "kind" (txt "frontier")]
  | .tick t => .map [fld "kind" (txt "tick"), fld "worldline_tick" (natVal t)]

def frameVal : Frame → Cbor.Val
  | .commitBoundary => txt "commit_boundary"
  | .recordedTruth => txt "recorded_truth"
  | .queryView => txt "query_view"

def projVal : Proj → Cbor.Val
  | .head => .map [fld "kind" (txt "head")]
  | .snapshot => .map [fld "kind" (txt "snapshot")]
  | .truth none => .map [fld "kind" (txt "truth_channels"), fld "channels" .null]
  | .truth (some cs) =>
    .map [fld "kind" (txt "truth_channels"), fld "channels" (.array (cs.map (fun c => u8arr (natToBE 32 c))))]
  | .query id vars => .map [fld "kind" (txt "query"), fld "query_id" (natVal id), fld "vars_bytes" (u8arr vars)]

def bplanVal : BPlan → Cbor.Val
  | .cbHead => txt "commit_boundary_head"
  | .cbSnapshot => txt "commit_boundary_snapshot"
  | .rtChannels => txt "recorded_truth_channels"
  | .queryBytes => txt "query_bytes"

def aplanVal (a : APlan) : Cbor.Val :=
  .map [fld "plan_id" (idVal a.planId), fld "artifact_hash" (u8arr a.artifact),
        fld "schema_hash" (u8arr a.schema), fld "state_schema_hash" (u8arr a.stateSchema),
        fld "update_law_hash" (u8arr a.updateLaw), fld "emission_law_hash" (u8arr a.emissionLaw)]

def planVal : Plan → Cbor.Val
  | .builtin b => .map [fld "kind" (txt "builtin"), fld "plan" (bplanVal b)]
  | .authored a => .map [fld "kind" (txt "authored"), fld "plan" (aplanVal a)]

def instVal : Option InstRef → Cbor.Val
  | none => .null
  | some i => .map [fld "instance_id" (idVal i.instanceId), fld "plan_id" (idVal i.planId),
                    fld "state_hash" (u8arr i.stateHash)]

def budgetVal : Budget → Cbor.Val
  | .unbounded => .map [fld "kind" (txt "unbounded_one_shot")]
  | .bounded p w => .map [fld "kind" (txt "bounded"), fld "max_payload_bytes" (natVal p),
                          fld "max_witness_refs" (natVal w)]

def rightsVal : Rights → Cbor.Val
  | .kernelPublic => .map [fld "kind" (txt "kernel_public")]
  | .capability c => .map [fld "kind" (txt "capability_scoped"), fld "capability" (idVal c)]

/-- `ReadingBudgetPosture` is *externally* tagged (no `tag = "kind"` on the ABI enum). -/
def budgetPostureVal : BudgetPosture → Cbor.Val
  | .unbounded => txt "unbounded_one_shot"
  | .bounded mp p mw w =>
    .map [fld "bounded" (.map [fld "max_payload_bytes" (natVal mp), fld "payload_bytes" (natVal p),
                               fld "max_witness_refs" (natVal mw), fld "witness_refs" (natVal w)])]

def residualVal : Residual → Cbor.Val
  | .complete => txt "complete" | .residual => txt "residual"
  | .plurality => txt "plurality_preserved" | .obstructed => txt "obstructed"

variable (env : Env D)

def prefVal (r : PRef D) : Cbor.Val :=
  .map [fld "worldline_id" (idVal r.wl), fld "worldline_tick" (natVal r.tick),
        fld "commit_hash" (u8arr (env.dB r.commit))]

def resolvedVal (r : Resolved D) : Cbor.Val :=
  .map [fld "observation_version" (natVal r.version), fld "worldline_id" (idVal r.wl),
        fld "requested_at" (atVal r.requestedAt), fld "resolved_worldline_tick" (natVal r.tick),
        fld "commit_global_tick" (optNat r.commitGtick),
        fld "observed_after_global_tick" (optNat r.observedAfter),
        fld "state_root" (u8arr (env.dB r.root)), fld "commit_hash" (u8arr (env.dB r.commit))]

def witnessVal : Witness D → Cbor.Val
  | .resolvedCommit r => .map [fld "kind" (txt "resolved_commit"), fld "reference" (prefVal env r)]
  | .emptyFrontier wl root commit =>
    .map [fld "kind" (txt "empty_frontier"), fld "worldline_id" (idVal wl),
          fld "state_root" (u8arr (env.dB root)), fld "commit_hash" (u8arr (env.dB commit))]

def postureVal : Posture D → Cbor.Val
  | .worldline => .map [fld "kind" (txt "worldline")]
  | .strandHistorical s => .map [fld "kind" (txt "strand_historical"), fld "strand_id" (idVal s)]
  | .strandAtAnchor s => .map [fld "kind" (txt "strand_at_anchor"), fld "strand_id" (idVal s)]
  | .parentAdvanced s a b =>
    .map [fld "kind" (txt "strand_parent_advanced_disjoint"), fld "strand_id" (idVal s),
          fld "parent_from" (prefVal env a), fld "parent_to" (prefVal env b)]
  | .revalidation s a b n d =>
    .map [fld "kind" (txt "strand_revalidation_required"), fld "strand_id" (idVal s),
          fld "parent_from" (prefVal env a), fld "parent_to" (prefVal env b),
          fld "overlapping_slot_count" (natVal n), fld "overlapping_slots_digest" (u8arr (env.dB d))]

def metaVal (tick : Nat) (cg : Option Nat) (root commit : D) : Cbor.Val :=
  .map [fld "worldline_tick" (natVal tick), fld "commit_global_tick" (optNat cg),
        fld "state_root" (u8arr (env.dB root)), fld "commit_id" (u8arr (env.dB commit))]

def payloadVal : Payload D → Cbor.Val
  | .head t cg r c => .map [fld "kind" (txt "head"), fld "head" (metaVal env t cg r c)]
  | .snapshot t cg r c => .map [fld "kind" (txt "snapshot"), fld "snapshot" (metaVal env t cg r c)]
  | .truth chs =>
    .map [fld "kind" (txt "truth_channels"),
          fld "channels" (.array (chs.map (fun cd =>
            .map [fld "channel_id" (u8arr (natToBE 32 cd.1)), fld "data" (u8arr cd.2)])))]
  | .query d => .map [fld "kind" (txt "query_bytes"), fld "data" (u8arr d)]

def envelopeVal (e : Envelope D) : Cbor.Val :=
  .map [fld "observer_plan" (planVal e.plan), fld "observer_instance" (instVal e.inst),
        fld "observer_basis" (frameVal e.basis), fld "contract" .null, fld "query_identity" .null,
        fld "retained_evidence" (.array []),
        fld "witness_refs" (.array (e.witnesses.map (witnessVal env))),
        fld "parent_basis_posture" (postureVal env e.posture),
        fld "budget_posture" (budgetPostureVal e.budget),
        fld "rights_posture" (txt "kernel_public"),
        fld "residual_posture" (residualVal e.residual)]

/-- `abi::ObservationHashInput`. -/
def hashInputVal (a : Artifact D) : Cbor.Val :=
  .map [fld "resolved" (resolvedVal env a.resolved), fld "reading" (envelopeVal env a.reading),
        fld "frame" (frameVal a.frame), fld "projection" (projVal a.proj),
        fld "payload" (payloadVal env a.payload)]

/-- `b"echo:observation-artifact:v4\0"` -/
def artifactDomain : Bytes := "echo:observation-artifact:v4".toUTF8.toList ++ [0]

/-- `compute_artifact_hash`: the pre-image (domain ‖ canonical CBOR of the hash input). -/
def artifactHash (a : Artifact D) : Except ObsError HExpr :=
  match Cbor.encode (hashInputVal env a) with
  | .error _ => .error .codec
  | .ok bytes => .ok (.h [.raw artifactDomain, .raw bytes])

/-- `payload_wire_len`. -/
def payloadWireLen (p : Payload D) : Except ObsError Nat :=
  match Cbor.encode (payloadVal env p) with
  | .error _ => .error .codec
  | .ok bytes => .ok bytes.length

/-- `budget_posture`. -/
def budgetPosture (b : Budget) (p : Payload D) (witnessCount : Nat) : Except ObsError BudgetPosture :=
  match b with
  | .unbounded => .ok .unbounded
  | .bounded maxP maxW =>
    match payloadWireLen env p with
    | .error e => .error e
    | .ok n =>
      if n > maxP ∨ witnessCount > maxW then .error (.budgetExceeded maxP n maxW witnessCount)
      else .ok (.bounded maxP n maxW witnessCount)

/-- the payload arm of `observe`: payload, observer plan of the reading, residual posture. -/
def payloadOf (rt : Runtime D) (pv : Prov S P D Outs M) (req : Request) (r : Resolved D) :
    Except ObsError (Payload D × Plan × Residual) :=
  match req.frame, req.proj with
  | .commitBoundary, .head => .ok (.head r.tick r.commitGtick r.root r.commit, req.plan, .complete)
  | .commitBoundary, .snapshot => .ok (.snapshot r.tick r.commitGtick r.root r.commit, req.plan, .complete)
  | .recordedTruth, .truth filter =>
    match entryAt pv req.wl r.tick with
    | none => .error (.unavailable req.wl req.at_)
    | some e =>
      let outs := match filter with
        | none => e.outputs
        | some f => e.outputs.filter (fun cd => f.contains cd.1)
      .ok (.truth outs, req.plan, .complete)
  | .queryView, .query id vars =>
    match rt.queries.lookup id with
    | none => .error (.unsupportedQuery id)
    | some ob =>
      match ob.run { id := id, vars := vars, req := req, resolved := r } with
      | .error why => .error (.queryFailed id why)
      | .ok (bytes, res) => .ok (.query bytes, .authored ob.plan, res)
  | f, p => .error (.unsupportedFrameProjection f p.kind)

/-- the tail of `observe` once the coordinate is resolved: payload, envelope (budget check). -/
def finish (rt : Runtime D) (pv : Prov S P D Outs M) (req : Request) (r : Resolved D)
    (posture : Posture D) : Except ObsError (Artifact D) :=
  match payloadOf rt pv req r with
  | .error e => .error e
  | .ok (payload, plan, res) =>
    let wit := witnessRefs r req.frame
    match budgetPosture env req.budget payload wit.length with
    | .error e => .error e
    | .ok bp =>
      .ok { resolved := r
            reading := { plan := plan, inst := req.inst, basis := req.frame, witnesses := wit,
                         posture := posture, budget := bp, residual := res }
            frame := req.frame, proj := req.proj, payload := payload }

/-- `ObservationService::observe`. -/
def observe (rt : Runtime D) (pv : Prov S P D Outs M) (req : Request) : Except ObsError (Artifact D) :=
  match rt.fronts.lookup req.wl with
  | none => .error (.invalidWorldline req.wl)
  | some fr =>
    if !validFP req.frame req.proj.kind then .error (.unsupportedFrameProjection req.frame req.proj.kind)
    else match validateContract rt req with
      | some e => .error e
      | none =>
        match resolve rt pv fr req with
        | .error e => .error e
        | .ok r =>
          match basisPosture fr req with
          | .error e => .error e
          | .ok posture => finish env rt pv req r posture

/-- Everything a served observation returns: the artifact and its hash pre-image. -/
def serve (rt : Runtime D) (pv : Prov S P D Outs M) (req : Request) :
    Except ObsError (Artifact D × HExpr) :=
  match observe env rt pv req with
  | .error e => .error e
  | .ok a =>
    match artifactHash env a with
    | .error e => .error e
    | .ok h => .ok (a, h)

end

end EchoVerif.Observe
