/-
  EchoVerif.Model.Sched — the pending queue, its two sorts, drain, reservation and receipt
  blocker attribution of both schedulers (C03, C01).
  Rust anchors: crates/warp-core/src/scheduler.rs (`PendingTx::{enqueue, radix_sort,
  drain_in_order}`, `bucket16`, `cmp_thin`, `SMALL_SORT_THRESHOLD`, `RadixScheduler::reserve`,
  `LegacyScheduler::{enqueue, drain_for_tx, reserve}`), engine_impl.rs (`reserve_for_receipt`),
  receipt.rs (`try_from_retained_parts`).
  The pass layout, pass count, threshold and comparison order are parameters; the real values are
  extracted into `Generated/Radix.lean`. Import-free.
-/
import EchoVerif.Model.SMap
import EchoVerif.Model.Footprint

namespace EchoVerif.Sched
open EchoVerif EchoVerif.Footprint

/-- `RewriteThin`. `scope` is the big-endian value of `scope_be32` (byte-lexicographic order on
    the 32 bytes is `<` on this number). -/
structure Thin where
  scope : Nat
  rule : Nat
  nonce : Nat
  handle : Nat
  deriving DecidableEq, Repr

/-- `RewriteThin::default()` (what `scratch.resize` fills with). -/
def Thin.zero : Thin := ⟨0, 0, 0, 0⟩

/-- The three sort fields. -/
inductive Field where
  | scope | rule | nonce
  deriving DecidableEq, Repr

def Thin.field (t : Thin) : Field → Nat
  | .scope => t.scope
  | .rule => t.rule
  | .nonce => t.nonce

/-- One arm of `bucket16`, as written: which helper extracts the digit and with which index. -/
inductive PassSpec where
  /-- `u16_from_u32_le(r.<field>, idx)`: the idx-th 16-bit digit of a u32 counting from the least
      significant. -/
  | u32le (f : Field) (idx : Nat)
  /-- `u16_be_from_pair32(&r.scope_be32, pair)`: big-endian byte pair `pair` (0 = bytes 0..2). -/
  | scopeBE (pair : Nat)
  deriving DecidableEq, Repr

/-- The helper's index assertion / slice bound (`idx < 2`, `pair_idx_be < 16`). -/
def PassSpec.valid : PassSpec → Bool
  | .u32le f idx => f != .scope && idx < 2
  | .scopeBE pair => pair < 16

/-- The 16-bit digit a pass buckets on. -/
def PassSpec.digit (p : PassSpec) (t : Thin) : Nat :=
  match p with
  | .u32le f idx => t.field f / 65536 ^ idx % 65536
  | .scopeBE pair => t.scope / 65536 ^ (15 - pair) % 65536

/-! ### PendingTx -/

/-- `PendingTx<P>`; `index` is a function of `thin` (position of the entry with that key) and is
    not stored. `fat` holds `Option P` exactly as in the Rust. -/
structure PendingTx (P : Type) where
  nextNonce : Nat := 0
  thin : List Thin := []
  fat : Array (Option P) := #[]

/-- Index hit: refresh the nonce of the entry with key `(scope, rule)`; returns its handle. -/
def refresh (scope rule n : Nat) : List Thin → Option (Nat × List Thin)
  | [] => none
  | t :: ts =>
    if t.scope = scope ∧ t.rule = rule then some (t.handle, { t with nonce := n } :: ts)
    else match refresh scope rule n ts with
      | some (h, ts') => some (h, t :: ts')
      | none => none

/-- `PendingTx::enqueue` (last-wins on `(scope, rule)`; nonce refreshed; `wrapping_add`). -/
def PendingTx.enqueue {P : Type} (q : PendingTx P) (scope rule : Nat) (p : P) : PendingTx P :=
  let n := q.nextNonce
  match refresh scope rule n q.thin with
  | some (h, thin') =>
    { nextNonce := (n + 1) % 4294967296, thin := thin', fat := q.fat.setIfInBounds h (some p) }
  | none =>
    { nextNonce := (n + 1) % 4294967296
      thin := q.thin ++ [⟨scope, rule, n, q.fat.size⟩]
      fat := q.fat.push (some p) }

/-! ### radix sort: histogram, prefix sums, stable scatter -/

/-- number of buckets -/
def B : Nat := 65536

/-- Count phase. -/
def histogram (d : Thin → Nat) (src : List Thin) : Array Nat :=
  src.foldl (fun c r => c.modify (d r) (· + 1)) (Array.replicate B 0)

/-- Exclusive prefix sums (`*c = sum; sum += t`). -/
def prefixSums (c : Array Nat) : Array Nat :=
  (c.foldl (fun (acc : Array Nat × Nat) t => (acc.1.push acc.2, acc.2 + t)) (#[], 0)).1

/-- One scatter step: `idx = counts[b]; counts[b] += 1; dst[idx] = r`. `none` = the Rust would
    panic on an out-of-bounds index. -/
def scatterStep (d : Thin → Nat) (st : Array Nat × Array Thin) (r : Thin) :
    Option (Array Nat × Array Thin) :=
  match st.1[d r]? with
  | none => none
  | some idx =>
    if idx < st.2.size then some (st.1.setIfInBounds (d r) (idx + 1), st.2.setIfInBounds idx r)
    else none

def scatter (d : Thin → Nat) : List Thin → Array Nat × Array Thin → Option (Array Nat × Array Thin)
  | [], st => some st
  | r :: rs, st =>
    match scatterStep d st r with
    | none => none
    | some st' => scatter d rs st'

/-- One radix pass over digit `d`. -/
def countingPass (d : Thin → Nat) (src : List Thin) : Option (List Thin) :=
  match scatter d src (prefixSums (histogram d src), Array.replicate src.length Thin.zero) with
  | none => none
  | some st => some st.2.toList

/-- Specification of a pass: concatenate the buckets in digit order, each bucket in source order
    (= stable sort by the digit). -/
def bucketConcat (d : Thin → Nat) (src : List Thin) : List Thin :=
  (List.range B).flatMap (fun b => src.filter (fun r => d r == b))

/-- `for pass in 0..passes { … bucket16(r, pass) … }`; a pass without a (valid) `bucket16` arm is
    the `unreachable!` / index panic. -/
def radixPasses (layout : List PassSpec) : List Nat → List Thin → Option (List Thin)
  | [], l => some l
  | pass :: rest, l =>
    match layout[pass]? with
    | none => none
    | some spec =>
      if spec.valid then
        match countingPass spec.digit l with
        | none => none
        | some l' => radixPasses layout rest l'
      else none

/-- `PendingTx::radix_sort` -/
def radixSort (layout : List PassSpec) (passes : Nat) (thin : List Thin) : Option (List Thin) :=
  if thin.length ≤ 1 then some thin else radixPasses layout (List.range passes) thin

/-! ### comparison sort -/

/-- `cmp_thin`: compare the fields in the written order, first difference decides. -/
def cmpThin : List Field → Thin → Thin → Ordering
  | [], _, _ => .eq
  | f :: fs, a, b =>
    match compare (a.field f) (b.field f) with
    | .eq => cmpThin fs a b
    | o => o

def leThin (order : List Field) (a b : Thin) : Bool := cmpThin order a b != .gt

/-- `thin.sort_unstable_by(cmp_thin)`; which algorithm is irrelevant because `cmp_thin` is a strict
    total order on the queue (theorem `small_sort_eq_lex`). -/
def smallSort (order : List Field) (thin : List Thin) : List Thin :=
  thin.mergeSort (leThin order)

/-- Static sort configuration (values come from `Generated/Radix.lean`). -/
structure SortCfg where
  layout : List PassSpec
  passes : Nat
  threshold : Nat
  order : List Field

/-- The sorting part of `drain_in_order`. -/
def sortThin (cfg : SortCfg) (thin : List Thin) : Option (List Thin) :=
  if thin.length > 1 then
    if thin.length ≤ cfg.threshold then some (smallSort cfg.order thin)
    else radixSort cfg.layout cfg.passes thin
  else some thin

/-- Payload hand-out: `fat[handle].take()`; `none` = one of the two `unreachable!`s. -/
def takeAll {P : Type} : List Thin → Array (Option P) → Option (List P)
  | [], _ => some []
  | r :: rs, fat =>
    match fat[r.handle]? with
    | some (some p) =>
      match takeAll rs (fat.setIfInBounds r.handle none) with
      | some ps => some (p :: ps)
      | none => none
    | _ => none

/-- `PendingTx::drain_in_order`; `none` = panic. -/
def PendingTx.drain {P : Type} (cfg : SortCfg) (q : PendingTx P) : Option (List P) :=
  match sortThin cfg q.thin with
  | none => none
  | some sorted => takeAll sorted q.fat

/-! ### candidates and the two schedulers' queues -/

/-- `PendingRewrite` (the fields the scheduler looks at; `tag` = payload identity). -/
structure Cand where
  scope : Nat
  ruleId : Nat
  compact : Nat
  fp : Footprint
  tag : Nat
  deriving Repr

/-- `RadixScheduler::enqueue` folded over an arrival list, then `drain_for_tx`. -/
def radixDrain (cfg : SortCfg) (cs : List Cand) : Option (List Cand) :=
  (cs.foldl (fun (q : PendingTx Cand) c => q.enqueue c.scope c.compact c) {}).drain cfg

/-- `LegacyScheduler::enqueue` folded over an arrival list (a `BTreeMap<(Hash, Hash), _>`), then
    `drain_for_tx` (`into_values`). -/
def legacyDrain (cs : List Cand) : List Cand :=
  SMap.values (cs.foldl (fun (m : SMap (Nat × Nat) Cand) c => SMap.insert (c.scope, c.ruleId) c m) [])

/-! ### reservation -/

/-- Tables of the conflict predicates (values come from `Generated/Conflict.lean`). -/
structure ConflictCfg where
  has : HasTable
  mark : HasTable
  receipt : PairTable
  indep : PairTable
  indepMask : Bool

/-- `RadixScheduler::reserve`: check, then mark only on success. -/
def radixReserve (cfg : ConflictCfg) (act : Active) (c : Footprint) : Active × Bool :=
  if hasConflict cfg.has act c then (act, false) else (markAll cfg.mark act c, true)

/-- `LegacyScheduler::reserve`: scan the frontier with `Footprint::independent`. -/
def legacyReserve (cfg : ConflictCfg) (frontier : List Footprint) (c : Footprint) :
    List Footprint × Bool :=
  if frontier.all (fun fp => independent cfg.indepMask cfg.indep c fp) then (frontier ++ [c], true)
  else (frontier, false)

/-- Fold a `reserve` over the drained order; accept bits in that order. -/
def reserveAll {σ : Type} (reserve : σ → Footprint → σ × Bool) : σ → List Footprint → List Bool
  | _, [] => []
  | s, c :: cs => (reserve s c).2 :: reserveAll reserve (reserve s c).1 cs

/-- Final scheduler state after the fold. -/
def reserveState {σ : Type} (reserve : σ → Footprint → σ × Bool) : σ → List Footprint → σ
  | s, [] => s
  | s, c :: cs => reserveState reserve (reserve s c).1 cs

/-- Specification: decisions of the *greedy independent set* over the given order — a candidate
    is accepted iff it conflicts with no previously accepted candidate (`acc`). -/
def greedy (confl : Footprint → Footprint → Bool) : List Footprint → List Footprint → List Bool
  | _, [] => []
  | acc, c :: cs =>
    if acc.all (fun a => !confl c a) then true :: greedy confl (acc ++ [c]) cs
    else false :: greedy confl acc cs

/-- Specification of a receipt: greedy decisions, and for a rejected candidate exactly the entry
    indices of the earlier accepted candidates it conflicts with, ascending. `acc` = accepted so
    far with their entry indices, `idx` = this entry's index. -/
def greedyRows (confl : Footprint → Footprint → Bool) :
    List (Nat × Footprint) → Nat → List Footprint → List (Bool × List Nat)
  | _, _, [] => []
  | acc, idx, c :: cs =>
    if acc.all (fun a => !confl c a.2) then (true, []) :: greedyRows confl (acc ++ [(idx, c)]) (idx + 1) cs
    else (false, (acc.filter (fun a => confl c a.2)).map (·.1)) :: greedyRows confl acc (idx + 1) cs

/-! ### receipts -/

/-- One receipt row: applied?, blockers. -/
abbrev Row := Bool × List Nat

/-- Loop state of `Engine::reserve_for_receipt`: scheduler state, `reserved` with
    `reserved_entry_indices`, next entry index. -/
structure RState (σ : Type) where
  sched : σ
  reserved : List (Nat × Footprint)
  idx : Nat

/-- `Engine::reserve_for_receipt`. `none` = `InternalCorruption("scheduler rejected rewrite but no
    blockers were found")`. -/
def receiptLoop {σ : Type} (reserve : σ → Footprint → σ × Bool) (confl : Footprint → Footprint → Bool) :
    RState σ → List Footprint → Option (List Row)
  | _, [] => some []
  | st, c :: cs =>
    let r := reserve st.sched c
    if r.2 then
      match receiptLoop reserve confl ⟨r.1, st.reserved ++ [(st.idx, c)], st.idx + 1⟩ cs with
      | some rows => some ((true, []) :: rows)
      | none => none
    else
      let blockers := (st.reserved.filter (fun p => confl c p.2)).map (·.1)
      if blockers.isEmpty then none
      else match receiptLoop reserve confl ⟨r.1, st.reserved, st.idx + 1⟩ cs with
        | some rows => some ((false, blockers) :: rows)
        | none => none

def receiptRadix (cfg : ConflictCfg) (cs : List Footprint) : Option (List Row) :=
  receiptLoop (radixReserve cfg) (pairConflict cfg.receipt) ⟨Active.empty, [], 0⟩ cs

def receiptLegacy (cfg : ConflictCfg) (cs : List Footprint) : Option (List Row) :=
  receiptLoop (legacyReserve cfg) (pairConflict cfg.receipt) ⟨[], [], 0⟩ cs

/-- strictly increasing -/
def strictlyIncreasing : List Nat → Bool
  | a :: b :: rest => a < b && strictlyIncreasing (b :: rest)
  | _ => true

/-- One entry's clauses of `TickReceipt::try_from_retained_parts` (rejection kind
    `FootprintConflict`), `pre` = the entries before it: applied ⇒ no blockers; rejected ⇒ some
    blocker; blockers strictly increasing; each blocker is an earlier entry that is applied. -/
def rowOk (pre : List Row) (r : Row) : Bool :=
  (if r.1 then r.2.isEmpty else !r.2.isEmpty)
  && strictlyIncreasing r.2
  && r.2.all (fun b => match pre[b]? with | some (true, _) => true | _ => false)

/-- `try_from_retained_parts` over all entries (entry lists are parallel by construction). -/
def rowsWfFrom (pre : List Row) : List Row → Bool
  | [] => true
  | r :: rest => rowOk pre r && rowsWfFrom (pre ++ [r]) rest

def rowsWf (rows : List Row) : Bool := rowsWfFrom [] rows

end EchoVerif.Sched
