/-
  EchoVerif.Model.Patch — model of `WarpTickPatchV1` (tick_patch.rs):
  * `WarpTickPatchV1::new`: slots `sort` + `dedup`; ops inserted in caller order into a
    `BTreeMap<WarpOpKey, WarpOp>` (last wins), then `into_values`  → `canonOps`, `canonSlots`;
  * `compute_patch_digest_v2` / `encode_slots` / `encode_ops` … as the digest PRE-IMAGE (bytes; the
    driver wraps them in one `(h …)` expression and the comparer hashes with the real BLAKE3);
  * `apply_to_state` / `apply_ops_to_state` as the code has it: IN PLACE — on an error the `&mut`
    target keeps every effect of the ops before the failing one (`applyInPlace`).
-/
import EchoVerif.Model.Diff

namespace EchoVerif
namespace Graph

/-! ### `WarpTickPatchV1::new` -/

/-- ops: `BTreeMap` keyed by `sort_key`, inserted in caller order (last wins), `into_values`. -/
def canonMap (ops : List Op) : SMap OpKey Op :=
  ops.foldl (fun m op => SMap.insert op.sortKey op m) []

def canonOps (ops : List Op) : List Op := (canonMap ops).map (·.2)

/-- `SlotId`. -/
inductive Slot where
  | node (w i : Nat)
  | edge (w i : Nat)
  | att (k : AttKey)
  | port (w key : Nat)
  deriving DecidableEq, Repr

abbrev SlotKey := Nat × Nat × Nat × Nat × Nat

/-- `impl Ord for SlotId`: tag, then the derived order of the payload
    (`AttachmentKey` = owner variant, owner key, plane). -/
def Slot.key : Slot → SlotKey
  | .node w i => (1, 0, w, i, 0)
  | .edge w i => (2, 0, w, i, 0)
  | .att k => (3, ownerTag k.owner, ownerWarp k.owner, ownerLocal k.owner, planeTag k.plane)
  | .port w p => (4, 0, w, p, 0)

/-- `sort()` + `dedup()` (equal keys ⇔ equal slots). -/
def canonSlots (ss : List Slot) : List Slot :=
  (ss.foldl (fun (m : SMap SlotKey Slot) s => SMap.insert s.key s m) []).map (·.2)

/-! ### digest pre-image -/

def asciiB (s : String) : Bytes := s.toList.map (fun c => UInt8.ofNat c.toNat)
def idB (n : Nat) : Bytes := natToBE 32 n

def attKeyB (k : AttKey) : Bytes :=
  [UInt8.ofNat (ownerTag k.owner), UInt8.ofNat (planeTag k.plane)] ++
    idB (ownerWarp k.owner) ++ idB (ownerLocal k.owner)

def attKeyOptB : Option AttKey → Bytes
  | none => [0]
  | some k => [1] ++ attKeyB k

def attB : Att → Bytes
  | .atom ty bytes => [1] ++ idB ty ++ u64le bytes.length ++ bytes
  | .descend w => [2] ++ idB w

def attOptB : Option Att → Bytes
  | none => [0]
  | some v => [1] ++ attB v

def portalInitB : PortalInit → Bytes
  | .requireExisting => [0]
  | .empty ty => [1] ++ idB ty

/-- `encode_ops`, one op (tag bytes are those of the patch format, not the sort ranks). -/
def opB : Op → Bytes
  | .openPortal key cw cr init => [8] ++ attKeyB key ++ idB cw ++ idB cr ++ portalInitB init
  | .upsertInstance inst => [1] ++ idB inst.warp ++ idB inst.root ++ attKeyOptB inst.parent
  | .deleteInstance w => [2] ++ idB w
  | .upsertNode w i ty => [3] ++ idB w ++ idB i ++ idB ty
  | .deleteNode w i => [4] ++ idB w ++ idB i
  | .upsertEdge w id src dst ty => [5] ++ idB w ++ idB src ++ idB id ++ idB dst ++ idB ty
  | .deleteEdge w src id => [6] ++ idB w ++ idB src ++ idB id
  | .setAtt key v => [7] ++ attKeyB key ++ attOptB v

def opsB (ops : List Op) : Bytes := u64le ops.length ++ ops.flatMap opB

def slotB : Slot → Bytes
  | .node w i => [1] ++ idB w ++ idB i
  | .edge w i => [2] ++ idB w ++ idB i
  | .att k => [3] ++ attKeyB k
  | .port w p => [4] ++ idB w ++ u64le p

def slotsB (ss : List Slot) : Bytes := u64le ss.length ++ ss.flatMap slotB

structure Patch where
  policy : Nat
  rulePack : Nat
  /-- `TickCommitStatus::code`: 1 committed, 2 aborted. -/
  status : Nat
  inSlots : List Slot
  outSlots : List Slot
  ops : List Op
  deriving DecidableEq, Repr

/-- `WarpTickPatchV1::new` (the stored digest is `digestBytes` of the result). -/
def Patch.new (policy rulePack status : Nat) (ins outs : List Slot) (ops : List Op) : Patch :=
  { policy, rulePack, status, inSlots := canonSlots ins, outSlots := canonSlots outs,
    ops := canonOps ops }

/-- `compute_patch_digest_v2` pre-image. -/
def Patch.digestBytes (p : Patch) : Bytes :=
  asciiB "echo:patch_digest:v1" ++ [0] ++ u16le 2 ++ u32le p.policy ++ idB p.rulePack ++
    [UInt8.ofNat p.status] ++ slotsB p.inSlots ++ slotsB p.outSlots ++ opsB p.ops

def Patch.digest (p : Patch) : HExpr := .h [.raw p.digestBytes]

/-! ### in-place application, as the code has it -/

/-- `apply_ops_to_state(&mut state, ops)`: the state left in the caller's `&mut WarpState`, and the
    result. On an error the state keeps the effects of every op before the failing one (the failing
    op itself changes nothing: every `apply_op_to_state` arm validates before it writes). The final
    portal validation reads only. -/
def applyInPlace : WState → Bool → List Op → WState × Option Err
  | s, t, [] =>
    if t then
      match validatePortalInvariants s with
      | .error e => (s, some e)
      | .ok () => (s, none)
    else (s, none)
  | s, t, op :: rest =>
    let t' := t || touchesPortal s op
    match applyOp s op with
    | .error e => (s, some e)
    | .ok s' => applyInPlace s' t' rest

end Graph
end EchoVerif
