/-
  EchoVerif.Model.TickDigest — the digests a committed tick publishes (`Engine::commit_with_receipt`),
  as hash-expression PRE-IMAGES over the result of `Tick.tick` (no hash function is modelled):

  * state root      `snapshot::compute_state_root(post, root)`            (Model/Root, C06)
  * rule pack id    `Engine::compute_rule_pack_id`
  * patch digest    `tick_patch::compute_patch_digest_v2` over the canonicalised slots and ops
  * commit id       `snapshot::compute_commit_hash_v2(root, parents, patch digest, policy)`
  * receipt digest  `receipt::compute_tick_receipt_digest` (= `decision_digest`)
  * plan digest     `engine_impl::compute_plan_digest` (drained order)
  * rewrites digest `engine_impl::compute_rewrites_digest` (accepted, in reservation order)

  All of them are functions of `Tick.Success` and constants of the run (root key, policy id, rule
  ids, parent commit ids), so order-independence of the tick result carries over to every digest.
-/
import EchoVerif.Model.Tick
import EchoVerif.Model.Root

namespace EchoVerif
namespace TickDigest
open Graph Exec Tick Footprint

def ascii (s : String) : Bytes := s.toList.map (fun c => UInt8.ofNat c.toNat)
/-- `domain::PATCH_DIGEST_V1` -/
def patchDigestTag : Bytes := ascii "echo:patch_digest:v1" ++ [0]
/-- `domain::COMMIT_ID_V2` -/
def commitIdTag : Bytes := ascii "echo:commit_id:v2" ++ [0]
def id32 (n : Nat) : Bytes := natToBE 32 n

/-- `encode_attachment_key` -/
def keyB (k : AttKey) : Bytes :=
  let pt : UInt8 := match k.plane with | .alpha => 1 | .beta => 2
  match k.owner with
  | .node w i => [1, pt] ++ id32 w ++ id32 i
  | .edge w i => [2, pt] ++ id32 w ++ id32 i

/-- `encode_attachment_key_opt` -/
def keyOptB : Option AttKey → Bytes
  | none => [0]
  | some k => 1 :: keyB k

/-- `encode_attachment_value_opt` -/
def attOptB : Option Att → Bytes
  | none => [0]
  | some (.atom ty b) => [1, 1] ++ id32 ty ++ u64le b.length ++ b
  | some (.descend w) => [1, 2] ++ id32 w

/-- one op of `encode_ops` -/
def opB : Op → Bytes
  | .openPortal key cw cr init =>
    [8] ++ keyB key ++ id32 cw ++ id32 cr ++
      (match init with | .requireExisting => [0] | .empty ty => [1] ++ id32 ty)
  | .upsertInstance inst => [1] ++ id32 inst.warp ++ id32 inst.root ++ keyOptB inst.parent
  | .deleteInstance w => [2] ++ id32 w
  | .upsertNode w i ty => [3] ++ id32 w ++ id32 i ++ id32 ty
  | .deleteNode w i => [4] ++ id32 w ++ id32 i
  | .upsertEdge w id src dst ty => [5] ++ id32 w ++ id32 src ++ id32 id ++ id32 dst ++ id32 ty
  | .deleteEdge w src id => [6] ++ id32 w ++ id32 src ++ id32 id
  | .setAtt key v => [7] ++ keyB key ++ attOptB v

/-- `encode_ops` -/
def opsB (ops : List Op) : Bytes := u64le ops.length ++ ops.flatMap opB

/-- `SlotId::cmp`: tag, then the derived order of the key (`AttachmentKey`: owner variant, owner
    key, plane). -/
def slotKey : Res → Nat × Nat × Nat × Nat × Nat
  | .node w i => (1, 0, w, i, 0)
  | .edge w i => (2, 0, w, i, 0)
  | .att isEdge w i beta => (3, if isEdge then 1 else 0, w, i, if beta then 1 else 0)
  | .port w k => (4, 0, w, k, 0)

/-- `sort` + `dedup` of `WarpTickPatchV1::new` (input comes out of a `BTreeSet`). -/
def canonSlots (ss : List Res) : List Res :=
  (ss.foldl (fun (m : SMap (Nat × Nat × Nat × Nat × Nat) Res) r => SMap.insert (slotKey r) r m) []).map (·.2)

/-- one slot of `encode_slots` -/
def slotB : Res → Bytes
  | .node w i => [1] ++ id32 w ++ id32 i
  | .edge w i => [2] ++ id32 w ++ id32 i
  | .att isEdge w i beta => [3, if isEdge then 2 else 1, if beta then 2 else 1] ++ id32 w ++ id32 i
  | .port w k => [4] ++ id32 w ++ u64le k

def slotsB (ss : List Res) : Bytes := u64le ss.length ++ ss.flatMap slotB

/-- constants of the run that enter the digests -/
structure Ctx where
  root : Root.NKey          -- `Engine::current_root`
  policy : Nat              -- `policy_id: u32`
  ruleIds : List Nat        -- ids of the registered rules, ascending, duplicate-free
  parents : List HExpr      -- `last_snapshot.hash` (none on a fresh engine)

/-- `Engine::compute_rule_pack_id` -/
def rulePackPre (c : Ctx) : HExpr :=
  .h [.raw (u16le 1 ++ u64le c.ruleIds.length ++ c.ruleIds.flatMap id32)]

/-- `compute_state_root(post, root)` -/
def rootPre (c : Ctx) (s : Success) : HExpr := Root.rootPreimage s.post c.root

/-- `WarpTickPatchV1::new(..).digest()`: status `Committed` (code 1), canonical slots, last-wins
    canonical op order. -/
def patchPre (c : Ctx) (s : Success) : HExpr :=
  .h [.raw (patchDigestTag ++ u16le 2 ++ u32le c.policy), rulePackPre c,
      .raw ([1] ++ slotsB (canonSlots s.inSlots) ++ slotsB (canonSlots s.outSlots)
            ++ opsB (patchCanon s.patch))]

/-- `compute_commit_hash_v2` -/
def commitPre (c : Ctx) (s : Success) : HExpr :=
  .h ([.raw (commitIdTag ++ u16le 2 ++ u64le c.parents.length)] ++ c.parents ++
      [rootPre c s, patchPre c s, .raw (u32le c.policy)])

def entryB (e : Entry) : Bytes :=
  id32 (ruleBase + e.cand.rule) ++ id32 e.cand.shash ++ id32 e.cand.warp ++ id32 e.cand.scope

/-- `compute_tick_receipt_digest`: Applied = 1, Rejected(FootprintConflict) = 2 -/
def receiptPre (s : Success) : HExpr :=
  if s.entries.isEmpty then .h [.raw (u64le 0)]
  else .h [.raw (u16le 2 ++ u64le s.entries.length ++
    s.entries.flatMap (fun e => entryB e ++ [if e.applied then 1 else 2]))]

/-- `compute_plan_digest` over the drained list -/
def planPre (s : Success) : HExpr :=
  if s.entries.isEmpty then .h [.raw (u64le 0)]
  else .h [.raw (u64le s.entries.length ++
    s.entries.flatMap (fun e => id32 e.cand.shash ++ id32 (ruleBase + e.cand.rule)))]

/-- `compute_rewrites_digest` over the reserved (accepted) rewrites -/
def rewritesPre (s : Success) : HExpr :=
  let acc := s.entries.filter (·.applied)
  if acc.isEmpty then .h [.raw (u64le 0)]
  else .h [.raw (u64le acc.length ++ acc.flatMap entryB)]

structure Digests where
  root : HExpr
  patch : HExpr
  commit : HExpr
  receipt : HExpr
  plan : HExpr
  rewrites : HExpr

def digestsOf (c : Ctx) (s : Success) : Digests :=
  { root := rootPre c s, patch := patchPre c s, commit := commitPre c s,
    receipt := receiptPre s, plan := planPre s, rewrites := rewritesPre s }

/-- The digests of a whole tick: pre-images of what `commit_with_receipt` publishes in the
    `Snapshot`, or the tick's failure. -/
def tickDigests (c : Ctx) (cfg : Cfg) (progOf : Nat → Nat → Option Program) (pre : WState)
    (radix : Bool) (cands : List TCand) : Except Fail Digests :=
  match (tick cfg progOf pre radix cands).2 with
  | .error e => .error e
  | .ok s => .ok (digestsOf c s)

end TickDigest
end EchoVerif
