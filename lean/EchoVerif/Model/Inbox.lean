/-
  EchoVerif.Model.Inbox — model of `head_inbox.rs` (`IngressEnvelope`, `compute_ingress_id`
  pre-image, `InboxPolicy`, `HeadInbox::{ingest,admitBatch,can_admit,set_policy}`) and of the
  per-head part of `coordinator.rs` (`WorldlineRuntime::ingest` committed-ingress check,
  routing, the per-head step of `super_tick`, `committed_ingress` of `worldline_state.rs`).
  Import-free (core + Model/SMap).
-/
import EchoVerif.Model.SMap

namespace EchoVerif
namespace Inbox
open SMap

/-! ### causal parents -/

/-- `IngressCausalParent`, flattened in the field order of its derived `Ord`:
    `(role, worldline_id, worldline_tick_after, commit_global_tick, commit_hash,
      submission_id, ticket_digest, receipt_content_digest)`;
    role `0` = `TickReceipt`, anything else = `ContractInverseTarget`.
    Lexicographic order on the tuple is the derived order (hashes compare as big-endian
    values, ticks as integers). -/
abbrev P4 := Nat × Nat × Nat × Nat
instance : DecidableEq P4 := inferInstanceAs (DecidableEq (Nat × Nat × Nat × Nat))
/-- `((role, worldline, wl_tick_after, global_tick), (commit, submission, ticket, receipt))`. -/
abbrev Parent := P4 × P4

def ascii (s : String) : Bytes := s.toList.map (fun c => UInt8.ofNat c.toNat)

/-- Domain tag hashed in front of each parent. -/
def roleTag (role : Nat) : Bytes :=
  if role = 0 then ascii "tick-receipt" ++ [0] else ascii "contract-inverse-target" ++ [0]

/-- `CausalTickReceiptRef::to_canonical_bytes` (200 bytes; ticks little-endian). -/
def parentRefBytes (p : Parent) : Bytes :=
  natToBE 32 p.1.2.1 ++ u64le p.1.2.2.1 ++ u64le p.1.2.2.2 ++ natToBE 32 p.2.1
    ++ natToBE 32 p.2.2.1 ++ natToBE 32 p.2.2.2.1 ++ natToBE 32 p.2.2.2.2

/-- `sort_unstable(); dedup()` of the constructor: the strictly sorted list of the distinct
    parents (a sorted set, built by insertion). -/
def canonParents (ps : List Parent) : List Parent :=
  keys (ps.foldl (fun (m : SMap Parent Unit) p => SMap.insert p () m) [])

/-! ### ingress id pre-image (`compute_ingress_id`) -/

/-- The byte parts fed to BLAKE3, in order. Parentless intents use the legacy domain
    `"ingress:" ‖ kind ‖ bytes` (no length prefix); causal intents use
    `"ingress:causal:v2\0" ‖ kind ‖ len(bytes) ‖ bytes ‖ n ‖ (tag ‖ ref)*`. -/
def idParts (kind : Nat) (bytes : Bytes) (parents : List Parent) : List Bytes :=
  match parents with
  | [] => [ascii "ingress:", natToBE 32 kind, bytes]
  | _ :: _ =>
    [ascii "ingress:causal:v2" ++ [0], natToBE 32 kind, u64le bytes.length, bytes,
     u64le parents.length] ++ parents.flatMap (fun p => [roleTag p.1.1, parentRefBytes p])

def idPreimage (kind : Nat) (bytes : Bytes) (parents : List Parent) : HExpr :=
  .h ((idParts kind bytes parents).map .raw)

/-! ### envelopes -/

/-- `IngressTarget`; a head key is `(worldline_id, head_id)`. Inbox names are opaque bytes. -/
inductive Target where
  | defaultWriter (wl : Nat)
  | inboxAddress (wl : Nat) (name : Bytes)
  | exactHead (wl : Nat) (head : Nat)
  deriving DecidableEq

/-- `IngressEnvelope`. `id` is the 32-byte ingress id **as computed by the real code** (the model
    never hashes); the driver also emits `idPreimage` so that the comparer checks
    `id = BLAKE3(pre-image)` for every envelope. `parents` is canonical by construction
    (`Envelope.mk'`). -/
structure Envelope where
  id : Nat
  target : Target
  kind : Nat
  bytes : Bytes
  parents : List Parent
  deriving DecidableEq

/-- `IngressEnvelope::local_intent_with_causal_parents`. -/
def Envelope.mk' (id : Nat) (target : Target) (kind : Nat) (bytes : Bytes) (rawParents : List Parent) :
    Envelope :=
  { id, target, kind, bytes, parents := canonParents rawParents }

def Envelope.preimage (e : Envelope) : HExpr := idPreimage e.kind e.bytes e.parents

/-! ### `InboxPolicy`, `HeadInbox` -/

inductive Policy where
  | acceptAll
  | kindFilter (allowed : List Nat)
  | budgeted (maxPerTick : Nat)
  deriving DecidableEq

inductive IngestResult where
  | accepted | duplicate | rejected
  deriving DecidableEq, Repr

structure HeadInbox where
  pending : SMap Nat Envelope
  policy : Policy

/-- `HeadInbox::policy_accepts`. -/
def policyAccepts (p : Policy) (e : Envelope) : Bool :=
  match p with
  | .kindFilter allowed => allowed.contains e.kind
  | _ => true

/-- `HeadInbox::ingest` (the canonical-id assertion is the comparer's `id = H(pre-image)` check). -/
def ingest (ib : HeadInbox) (e : Envelope) : HeadInbox × IngestResult :=
  if policyAccepts ib.policy e then
    match find? e.id ib.pending with
    | some _ => (ib, .duplicate)
    | none => ({ ib with pending := SMap.insert e.id e ib.pending }, .accepted)
  else (ib, .rejected)

/-- `pending.remove(id)` for each collected id. -/
def eraseAll (ids : List Nat) (m : SMap Nat Envelope) : SMap Nat Envelope :=
  ids.foldl (fun m k => SMap.erase k m) m

/-- `HeadInbox::admit`: unbudgeted policies drain everything in key order; `Budgeted` clones the
    first `max_per_tick` entries in key order, then removes exactly those keys. -/
def admitBatch (ib : HeadInbox) : HeadInbox × List Envelope :=
  match ib.policy with
  | .budgeted n =>
    let batch := ib.pending.take n
    ({ ib with pending := eraseAll (keys batch) ib.pending }, values batch)
  | _ => ({ ib with pending := [] }, values ib.pending)

/-- `HeadInbox::can_admit`. -/
def canAdmit (ib : HeadInbox) : Bool :=
  match ib.policy with
  | .budgeted n => decide (0 < n) && !ib.pending.isEmpty
  | _ => !ib.pending.isEmpty

/-- `HeadInbox::set_policy`: replace the policy, then `retain` what the new policy accepts. -/
def setPolicy (ib : HeadInbox) (p : Policy) : HeadInbox :=
  { pending := ib.pending.filter (fun kv => policyAccepts p kv.2), policy := p }

/-! ### one writer head as the runtime sees it -/

/-- A writer head's inbox plus its slice of `WorldlineState.committed_ingress`. -/
structure Head where
  inbox : HeadInbox
  committed : SMap Nat Unit

/-- `WorldlineRuntime::ingest` after routing: committed ingress is a duplicate, otherwise the
    inbox decides. -/
def Head.ingest (h : Head) (e : Envelope) : Head × IngestResult :=
  if contains e.id h.committed then (h, .duplicate)
  else
    let r := Inbox.ingest h.inbox e
    ({ h with inbox := r.1 }, r.2)

def recordCommitted (c : SMap Nat Unit) (batch : List Envelope) : SMap Nat Unit :=
  batch.foldl (fun c e => SMap.insert e.id () c) c

/-- The per-head step of a successful `super_tick`: `admit`; an empty batch is skipped, a
    non-empty one is committed and its ids recorded. Returns the committed batch (`[]` = none). -/
def Head.tick (h : Head) : Head × List Envelope :=
  let r := admitBatch h.inbox
  if r.2.isEmpty then ({ h with inbox := r.1 }, [])
  else ({ inbox := r.1, committed := recordCommitted h.committed r.2 }, r.2)

def Head.setPolicy (h : Head) (p : Policy) : Head := { h with inbox := Inbox.setPolicy h.inbox p }

/-- Restart with committed ingress rebuilt from history: the inbox comes back empty (pending
    envelopes are retained by the host, not re-entered), the committed set is preserved. -/
def Head.restart (h : Head) : Head := { h with inbox := { h.inbox with pending := [] } }

/-- Restart as `restore_causal_runtime_history` performs it for intents that entered through plain
    `WorldlineRuntime::ingest` (no admission ticket, hence no receipt correlation): replay rebuilds
    the worldline state with an EMPTY committed-ingress ledger and nothing re-populates it.
    (Finding C08-restart-plain-ingest: see `Props/C08.lean`, `plain_restart_recommits`.) -/
def Head.restartForgetful (h : Head) : Head :=
  { inbox := { h.inbox with pending := [] }, committed := [] }

/-- Operations on one head. -/
inductive Op where
  | ingest (e : Envelope)
  | tick
  | policy (p : Policy)
  | restart

/-- One step; the observable is the disposition (ingest) or the committed batch (tick). -/
def Head.step (h : Head) : Op → Head × Option IngestResult × List Envelope
  | .ingest e => let r := h.ingest e; (r.1, some r.2, [])
  | .tick => let r := h.tick; (r.1, none, r.2)
  | .policy p => (h.setPolicy p, none, [])
  | .restart => (h.restart, none, [])

def Head.run (h : Head) (ops : List Op) : Head := ops.foldl (fun h o => (h.step o).1) h

/-- All committed batches of a run, oldest first. -/
def Head.batches : Head → List Op → List (List Envelope)
  | _, [] => []
  | h, o :: os =>
    let r := h.step o
    match o with
    | .tick => if r.2.2.isEmpty then Head.batches r.1 os else r.2.2 :: Head.batches r.1 os
    | _ => Head.batches r.1 os

/-! ### the runtime: routing + heads in canonical order -/

abbrev HeadKey := Nat × Nat

structure RtHead where
  head : Head
  publicInbox : Option Bytes
  isDefault : Bool

structure Runtime where
  heads : SMap HeadKey RtHead
  /-- frontier tick per worldline -/
  ticks : SMap Nat Nat
  globalTick : Nat
  /-- `commit_global_tick` of the newest provenance entry (0 = no entry). -/
  lastCommit : Nat

inductive RouteError where
  | missingDefaultWriter | missingInboxAddress | unknownHead
  deriving DecidableEq, Repr

/-- `resolve_target`. Registration guarantees at most one default writer per worldline and
    unique public inbox names per worldline, so "first match in key order" is "the match". -/
def resolve (rt : Runtime) : Target → Except RouteError HeadKey
  | .defaultWriter wl =>
    match List.find? (fun (kv : HeadKey × RtHead) => kv.1.1 == wl && kv.2.isDefault) rt.heads with
    | some kv => .ok kv.1
    | none => .error .missingDefaultWriter
  | .inboxAddress wl name =>
    match List.find? (fun (kv : HeadKey × RtHead) => kv.1.1 == wl && kv.2.publicInbox == some name) rt.heads with
    | some kv => .ok kv.1
    | none => .error .missingInboxAddress
  | .exactHead wl hd =>
    match SMap.find? (wl, hd) rt.heads with
    | some _ => .ok (wl, hd)
    | none => .error .unknownHead

inductive RtDisp where
  | accepted (k : HeadKey) | duplicate (k : HeadKey) | rejected (k : HeadKey) | route (e : RouteError)

/-- `WorldlineRuntime::ingest`. -/
def Runtime.ingest (rt : Runtime) (e : Envelope) : Runtime × RtDisp :=
  match resolve rt e.target with
  | .error err => (rt, .route err)
  | .ok k =>
    match SMap.find? k rt.heads with
    | none => (rt, .route .unknownHead)
    | some rh =>
      let r := rh.head.ingest e
      let rt' := { rt with heads := SMap.insert k { rh with head := r.1 } rt.heads }
      match r.2 with
      | .accepted => (rt', .accepted k)
      | .duplicate => (rt', .duplicate k)
      | .rejected => (rt', .rejected k)

/-- A `StepRecord` as far as the inbox layer determines it, plus the committed ids. -/
structure Step where
  key : HeadKey
  batch : List Envelope
  tickAfter : Nat

/-- Successful `super_tick`: heads in key order, each `Head.tick`; a commit advances that
    worldline's frontier; the global tick advances once per pass. -/
def Runtime.superTick (rt : Runtime) : Runtime × List Step :=
  let r := rt.heads.foldl (fun (acc : SMap HeadKey RtHead × SMap Nat Nat × List Step) kv =>
      let t := kv.2.head.tick
      if t.2.isEmpty then (acc.1 ++ [(kv.1, { kv.2 with head := t.1 })], acc.2.1, acc.2.2)
      else
        let cur := match SMap.find? kv.1.1 acc.2.1 with | some n => n | none => 0
        (acc.1 ++ [(kv.1, { kv.2 with head := t.1 })], SMap.insert kv.1.1 (cur + 1) acc.2.1,
         acc.2.2 ++ [{ key := kv.1, batch := t.2, tickAfter := cur + 1 }]))
    (([] : SMap HeadKey RtHead), rt.ticks, ([] : List Step))
  ({ heads := r.1, ticks := r.2.1, globalTick := rt.globalTick + 1,
     lastCommit := if r.2.2.isEmpty then rt.lastCommit else rt.globalTick + 1 }, r.2.2)

/-- Restart of a runtime whose intents all entered through plain `ingest`: fresh registrations
    (empty inboxes), `restore_causal_runtime_history` replays provenance — frontier ticks come back,
    the global tick is recovered as the newest entry's commit tick, and every head's
    committed-ingress ledger is empty (`Head.restartForgetful`). -/
def Runtime.restartPlain (rt : Runtime) : Runtime :=
  { heads := rt.heads.map (fun kv => (kv.1, { kv.2 with head := kv.2.head.restartForgetful })),
    ticks := rt.ticks, globalTick := rt.lastCommit, lastCommit := rt.lastCommit }

end Inbox
end EchoVerif
