/-
  EchoVerif.Model.WscFile — C06, goal WSC: the columnar snapshot writer and reader, byte for byte.
  Rust: `wsc/build.rs` (`build_one_warp_input`, `att_to_row`, `align8_vec`), `wsc/write.rs`
  (`write_wsc_one_warp`, `align8`, `write_padding`), `wsc/types.rs` (row layouts), `wsc/read.rs`
  (`validate_header`, `read_slice`, `read_bytes`), `wsc/view.rs` (`WscFile::from_bytes`, `warp_view`,
  `WarpView::new` and accessors, `validate_index_ranges`), `wsc/validate.rs` (`validate_wsc`).

  Abstractions (stated, not hidden):
  * `GraphStore`'s four edge indexes are one sorted map edge id ↦ record (Model/Graph.lean), so
    `iter_edges().flat_map(..)` + `sort_by_key(id)` is the map's own iteration, and
    `edges_from(n)` + `sort_by_key(id)` is "the edges whose `src = n`, ascending by id".
  * `usize` = `u64` (64-bit target); `as u64` casts are `u64le`'s truncation.
  * The buffer handed to `bytemuck` is 8-aligned at its base (every non-empty `Vec<u8>` from the
    global allocator), so `PodCastError::TargetAlignmentGreaterAndInputNotAligned` fires exactly when
    the *offset* of a section whose rows contain a `u64` is not a multiple of 8.
  * After the strict ordering check `binary_search_by_key` is membership.
  Magic, tag bytes, struct sizes and alignment come from Generated/WscLayout.lean.
-/
import EchoVerif.Model.Graph
import EchoVerif.Generated.WscLayout

namespace EchoVerif
namespace WscFile
open Graph
open Generated

/-! ## rows (`wsc/types.rs`) -/

structure NodeRow where
  id : Nat
  ty : Nat
  deriving DecidableEq, Repr

structure EdgeRow where
  id : Nat
  src : Nat
  dst : Nat
  ty : Nat
  deriving DecidableEq, Repr

structure Range where
  start : Nat
  len : Nat
  deriving DecidableEq, Repr

structure OutRef where
  ix : Nat
  id : Nat
  deriving DecidableEq, Repr

/-- `tag` is the `u8`; `reserved` the big-endian value of `reserved0 : [u8; 7]`. -/
structure AttRow where
  tag : Nat
  reserved : Nat
  tyOrWarp : Nat
  off : Nat
  len : Nat
  deriving DecidableEq, Repr

/-- `OneWarpInput` without `warp_id` (the Graph model's `Store` does not carry its warp id; it is an
    argument of `write`). -/
structure Input where
  root : Nat
  nodes : List NodeRow
  edges : List EdgeRow
  outIndex : List Range
  outEdges : List OutRef
  nodeAttsIndex : List Range
  nodeAtts : List AttRow
  edgeAttsIndex : List Range
  edgeAtts : List AttRow
  blobs : Bytes
  deriving DecidableEq, Repr

def id32 (n : Nat) : Bytes := natToBE 32 n

def NodeRow.enc (r : NodeRow) : Bytes := id32 r.id ++ id32 r.ty
def EdgeRow.enc (r : EdgeRow) : Bytes := id32 r.id ++ id32 r.src ++ id32 r.dst ++ id32 r.ty
def Range.enc (r : Range) : Bytes := u64le r.start ++ u64le r.len
def OutRef.enc (r : OutRef) : Bytes := u64le r.ix ++ id32 r.id
def AttRow.enc (r : AttRow) : Bytes :=
  natToBE 1 r.tag ++ natToBE 7 r.reserved ++ id32 r.tyOrWarp ++ u64le r.off ++ u64le r.len

/-! ## `build_one_warp_input` -/

inductive BuildErr where
  /-- `assert!(store.node(&root).is_some() || (is_empty_store && is_zero_root))` -/
  | rootMissing
  /-- `.expect("edge_ix missing entry for edge in bucket …")` -/
  | edgeIxMissing
  deriving DecidableEq, Repr

/-- `(len + 7) & !7` (boundary extracted). -/
def alignUp (a n : Nat) : Nat := (n + (a - 1)) / a * a

/-- `align8_vec`: `v.resize((v.len() + 7) & !7, 0)`. -/
def align8Vec (v : Bytes) : Bytes := v ++ List.replicate (alignUp WscLayout.blobAlign v.length - v.length) 0

/-- `att_to_row`. -/
def attToRow (a : Att) (blobs : Bytes) : AttRow × Bytes :=
  match a with
  | .atom ty bytes =>
    let blobs1 := align8Vec blobs
    ({ tag := WscLayout.tagAtom, reserved := 0, tyOrWarp := ty, off := blobs1.length, len := bytes.length },
      blobs1 ++ bytes)
  | .descend w => ({ tag := WscLayout.tagDescend, reserved := 0, tyOrWarp := w, off := 0, len := 0 }, blobs)

/-- the `edge_ix : BTreeMap<EdgeId, u64>` built by `for (ix, e) in edges_all.iter().enumerate()`
    (a later entry replaces an earlier one), looked up for `id`; `i` = index of the list head. -/
def ixOf (id : Nat) : List (Nat × EdgeRec) → Nat → Option Nat
  | [], _ => none
  | (k, _) :: rest, i =>
    match ixOf id rest (i + 1) with
    | some j => some j
    | none => if k = id then some i else none

/-- the inner `for e in bucket` loop. -/
def pushBucket (edgesAll : List (Nat × EdgeRec)) : List (Nat × EdgeRec) → List OutRef → Except BuildErr (List OutRef)
  | [], acc => .ok acc
  | (id, _) :: rest, acc =>
    match ixOf id edgesAll 0 with
    | none => .error .edgeIxMissing
    | some ix => pushBucket edgesAll rest (acc ++ [{ ix, id }])

/-- step 3: `for (node_id, _) in &nodes` building `out_index` / `out_edges`. -/
def outLoop (edgesAll : List (Nat × EdgeRec)) :
    List (Nat × Nat) → List Range → List OutRef → Except BuildErr (List Range × List OutRef)
  | [], oi, oe => .ok (oi, oe)
  | (n, _) :: rest, oi, oe =>
    let start := oe.length
    let bucket := edgesAll.filter (fun e => e.2.src == n)
    match pushBucket edgesAll bucket oe with
    | .error e => .error e
    | .ok oe' => outLoop edgesAll rest (oi ++ [{ start, len := oe'.length - start }]) oe'

/-- step 4: one of the two attachment loops (over node ids resp. edge ids, in row order). -/
def attLoop (atts : SMap Nat Att) : List Nat → List Range → List AttRow → Bytes → List Range × List AttRow × Bytes
  | [], ix, rows, blobs => (ix, rows, blobs)
  | o :: rest, ix, rows, blobs =>
    let start := rows.length
    match SMap.find? o atts with
    | some a =>
      let (r, blobs') := attToRow a blobs
      let rows' := rows ++ [r]
      attLoop atts rest (ix ++ [{ start, len := rows'.length - start }]) rows' blobs'
    | none => attLoop atts rest (ix ++ [{ start, len := rows.length - start }]) rows blobs

def build (st : Store) (root : Nat) : Except BuildErr Input :=
  let isEmptyStore := st.nodes.isEmpty
  let isZeroRoot := root == 0
  if !((SMap.find? root st.nodes).isSome || (isEmptyStore && isZeroRoot)) then .error .rootMissing else
  let nodeRows : List NodeRow := st.nodes.map (fun (i, ty) => { id := i, ty })
  let edgeRows : List EdgeRow := st.edges.map (fun (i, e) => { id := i, src := e.src, dst := e.dst, ty := e.ty })
  match outLoop st.edges st.nodes [] [] with
  | .error e => .error e
  | .ok (outIndex, outEdges) =>
    let (nodeAttsIndex, nodeAtts, blobs1) := attLoop st.nodeAtt (st.nodes.map (·.1)) [] [] []
    let (edgeAttsIndex, edgeAtts, blobs2) := attLoop st.edgeAtt (st.edges.map (·.1)) [] [] blobs1
    .ok { root, nodes := nodeRows, edges := edgeRows, outIndex, outEdges,
          nodeAttsIndex, nodeAtts, edgeAttsIndex, edgeAtts, blobs := blobs2 }

/-! ## `write_wsc_one_warp` -/

/-- `write_padding(buf, 8)`: `buf.resize(buf.len().next_multiple_of(8), 0)`. -/
def writePadding (buf : Bytes) : Bytes :=
  buf ++ List.replicate (alignUp WscLayout.fileAlign buf.length - buf.length) 0

def align8 (n : Nat) : Nat := alignUp WscLayout.fileAlign n

/-- the offsets computed before anything is written. -/
structure Offsets where
  nodes : Nat
  edges : Nat
  outIndex : Nat
  outEdges : Nat
  nodeAttsIndex : Nat
  nodeAtts : Nat
  edgeAttsIndex : Nat
  edgeAtts : Nat
  blobs : Nat
  total : Nat
  deriving DecidableEq, Repr

def offsets (i : Input) : Offsets :=
  let warpDirOff := WscLayout.sizeWscHeader
  let nodesOff := align8 (warpDirOff + WscLayout.sizeWarpDirEntry)
  let edgesOff := align8 (nodesOff + i.nodes.length * WscLayout.sizeNodeRow)
  let outIndexOff := align8 (edgesOff + i.edges.length * WscLayout.sizeEdgeRow)
  let outEdgesOff := align8 (outIndexOff + i.outIndex.length * WscLayout.sizeRange)
  let nodeAttsIndexOff := align8 (outEdgesOff + i.outEdges.length * WscLayout.sizeOutEdgeRef)
  let nodeAttsOff := align8 (nodeAttsIndexOff + i.nodeAttsIndex.length * WscLayout.sizeRange)
  let edgeAttsIndexOff := align8 (nodeAttsOff + i.nodeAtts.length * WscLayout.sizeAttRow)
  let edgeAttsOff := align8 (edgeAttsIndexOff + i.edgeAttsIndex.length * WscLayout.sizeRange)
  let blobsOff := align8 (edgeAttsOff + i.edgeAtts.length * WscLayout.sizeAttRow)
  { nodes := nodesOff, edges := edgesOff, outIndex := outIndexOff, outEdges := outEdgesOff,
    nodeAttsIndex := nodeAttsIndexOff, nodeAtts := nodeAttsOff, edgeAttsIndex := edgeAttsIndexOff,
    edgeAtts := edgeAttsOff, blobs := blobsOff, total := blobsOff + i.blobs.length }

def headerBytes (schema tick : Nat) : Bytes :=
  WscLayout.magic ++ id32 schema ++ u64le tick ++ u64le 1 ++ u64le WscLayout.sizeWscHeader
    ++ List.replicate 64 0

def dirEntryBytes (i : Input) (warp : Nat) : Bytes :=
  let o := offsets i
  id32 warp ++ id32 i.root
    ++ u64le o.nodes ++ u64le i.nodes.length
    ++ u64le o.edges ++ u64le i.edges.length
    ++ u64le o.outIndex ++ u64le o.outEdges ++ u64le i.outEdges.length
    ++ u64le o.nodeAttsIndex ++ u64le o.nodeAtts ++ u64le i.nodeAtts.length
    ++ u64le o.edgeAttsIndex ++ u64le o.edgeAtts ++ u64le i.edgeAtts.length
    ++ u64le o.blobs ++ u64le i.blobs.length

inductive WriteErr where
  /-- `assert_eq!(buf.len(), total_size)` -/
  | sizeMismatch
  deriving DecidableEq, Repr

/-- the buffer as the sequence of `write_struct` / `write_padding` calls leaves it. -/
def writeBuf (i : Input) (warp schema tick : Nat) : Bytes :=
  let buf := headerBytes schema tick
  let buf := buf ++ dirEntryBytes i warp
  let buf := writePadding buf
  let buf := writePadding (buf ++ i.nodes.flatMap NodeRow.enc)
  let buf := writePadding (buf ++ i.edges.flatMap EdgeRow.enc)
  let buf := writePadding (buf ++ i.outIndex.flatMap Range.enc)
  let buf := writePadding (buf ++ i.outEdges.flatMap OutRef.enc)
  let buf := writePadding (buf ++ i.nodeAttsIndex.flatMap Range.enc)
  let buf := writePadding (buf ++ i.nodeAtts.flatMap AttRow.enc)
  let buf := writePadding (buf ++ i.edgeAttsIndex.flatMap Range.enc)
  let buf := writePadding (buf ++ i.edgeAtts.flatMap AttRow.enc)
  buf ++ i.blobs

def write (i : Input) (warp schema tick : Nat) : Except WriteErr Bytes :=
  let buf := writeBuf i warp schema tick
  if buf.length = (offsets i).total then .ok buf else .error .sizeMismatch

/-! ## reading: `validate_header`, `read_slice`, `WarpView::new`, `validate_wsc` -/

inductive Sec where
  | warpDirectory | nodes | edges | outIndex | outEdges | nodeAttsIndex | nodeAtts | edgeAttsIndex
  | edgeAtts | blobs
  deriving DecidableEq, Repr

inductive Ix where
  | outIndex | nodeAttsIndex | edgeAttsIndex
  deriving DecidableEq, Repr

inductive Err where
  | fileTooSmall
  | invalidMagic
  | sectionOutOfBounds (s : Sec)
  | alignment (s : Sec)
  | indexRangeOutOfBounds (ix : Ix)
  | orderingNode
  | orderingEdge
  | missingRoot
  | invalidAttachmentTag
  | nonZeroReservedBytes
  | blobOutOfBounds
  | nonAtomHasBlobFields
  | outEdgeReference
  /-- not a `ReadError`: the single-warp reader (`wsc_readback`) found `warp_count ≠ 1`. -/
  | warpCount
  deriving DecidableEq, Repr

def u64Max : Nat := 2 ^ 64 - 1
def satAdd (a b : Nat) : Nat := if a + b > u64Max then u64Max else a + b
def satMul (a b : Nat) : Nat := if a * b > u64Max then u64Max else a * b

def slice (bs : List α) (off len : Nat) : List α := (bs.drop off).take len

/-- `read_slice::<T>` / `read_bytes` (`aligned` = `align_of::<T>() == 8`). -/
def readSlice (data : Bytes) (off count size : Nat) (aligned : Bool) (s : Sec) : Except Err Bytes :=
  let byteLen := satMul count size
  let end_ := satAdd off byteLen
  if end_ > data.length then .error (.sectionOutOfBounds s)
  else if aligned && off % 8 != 0 then .error (.alignment s)
  else .ok (slice data off (end_ - off))

/-- fixed-size rows of a section. -/
def rowsOf (dec : Bytes → α) (size : Nat) : Nat → Bytes → List α
  | 0, _ => []
  | n + 1, bs => dec (bs.take size) :: rowsOf dec size n (bs.drop size)

def rdId (bs : Bytes) (off : Nat) : Nat := beNat (slice bs off 32)
def rdU64 (bs : Bytes) (off : Nat) : Nat := leNat (slice bs off 8)

def NodeRow.dec (bs : Bytes) : NodeRow := { id := rdId bs 0, ty := rdId bs 32 }
def EdgeRow.dec (bs : Bytes) : EdgeRow := { id := rdId bs 0, src := rdId bs 32, dst := rdId bs 64, ty := rdId bs 96 }
def Range.dec (bs : Bytes) : Range := { start := rdU64 bs 0, len := rdU64 bs 8 }
def OutRef.dec (bs : Bytes) : OutRef := { ix := rdU64 bs 0, id := rdId bs 8 }
def AttRow.dec (bs : Bytes) : AttRow :=
  { tag := beNat (slice bs 0 1), reserved := beNat (slice bs 1 7), tyOrWarp := rdId bs 8,
    off := rdU64 bs 40, len := rdU64 bs 48 }

/-- `WarpView` (all cached slices decoded) plus the header fields. -/
structure View where
  schema : Nat
  tick : Nat
  warp : Nat
  inp : Input
  deriving DecidableEq, Repr

def View.root (v : View) : Nat := v.inp.root

/-- `WarpView::new(data, entry)`; `e` = the 184 bytes of the directory entry. -/
def viewNew (data e : Bytes) (schema tick : Nat) : Except Err View := do
  let nodesB ← readSlice data (rdU64 e 64) (rdU64 e 72) WscLayout.sizeNodeRow false .nodes
  let nodes := rowsOf NodeRow.dec WscLayout.sizeNodeRow (nodesB.length / WscLayout.sizeNodeRow) nodesB
  let edgesB ← readSlice data (rdU64 e 80) (rdU64 e 88) WscLayout.sizeEdgeRow false .edges
  let edges := rowsOf EdgeRow.dec WscLayout.sizeEdgeRow (edgesB.length / WscLayout.sizeEdgeRow) edgesB
  let outIndexB ← readSlice data (rdU64 e 96) nodes.length WscLayout.sizeRange true .outIndex
  let outEdgesB ← readSlice data (rdU64 e 104) (rdU64 e 112) WscLayout.sizeOutEdgeRef true .outEdges
  let nodeAttsIndexB ← readSlice data (rdU64 e 120) nodes.length WscLayout.sizeRange true .nodeAttsIndex
  let nodeAttsB ← readSlice data (rdU64 e 128) (rdU64 e 136) WscLayout.sizeAttRow true .nodeAtts
  let edgeAttsIndexB ← readSlice data (rdU64 e 144) edges.length WscLayout.sizeRange true .edgeAttsIndex
  let edgeAttsB ← readSlice data (rdU64 e 152) (rdU64 e 160) WscLayout.sizeAttRow true .edgeAtts
  let blobs ← readSlice data (rdU64 e 168) (rdU64 e 176) 1 false .blobs
  pure { schema, tick, warp := rdId e 0,
         inp := { root := rdId e 32, nodes, edges,
                  outIndex := rowsOf Range.dec WscLayout.sizeRange (outIndexB.length / WscLayout.sizeRange) outIndexB,
                  outEdges := rowsOf OutRef.dec WscLayout.sizeOutEdgeRef (outEdgesB.length / WscLayout.sizeOutEdgeRef) outEdgesB,
                  nodeAttsIndex := rowsOf Range.dec WscLayout.sizeRange (nodeAttsIndexB.length / WscLayout.sizeRange) nodeAttsIndexB,
                  nodeAtts := rowsOf AttRow.dec WscLayout.sizeAttRow (nodeAttsB.length / WscLayout.sizeAttRow) nodeAttsB,
                  edgeAttsIndex := rowsOf Range.dec WscLayout.sizeRange (edgeAttsIndexB.length / WscLayout.sizeRange) edgeAttsIndexB,
                  edgeAtts := rowsOf AttRow.dec WscLayout.sizeAttRow (edgeAttsB.length / WscLayout.sizeAttRow) edgeAttsB,
                  blobs } }

/-- one loop of `validate_index_ranges`. -/
def checkRanges (ix : Ix) (dataLen : Nat) : List Range → Except Err Unit
  | [] => .ok ()
  | r :: rest =>
    if satAdd r.start r.len > dataLen then .error (.indexRangeOutOfBounds ix) else checkRanges ix dataLen rest

/-- `windows(2)`: `w[0] >= w[1]` is a violation. -/
def checkOrder (e : Err) : List Nat → Except Err Unit
  | a :: b :: rest => if a ≥ b then .error e else checkOrder e (b :: rest)
  | _ => .ok ()

/-- the accessors `out_edges_for_node` / `node_attachments` / `edge_attachments`:
    `index.get(ix).map_or(&[], |r| data.get(start..start.saturating_add(len)).unwrap_or(&[]))`. -/
def getRange (rows : List α) (r : Range) : List α :=
  let e := satAdd r.start r.len
  if e ≤ rows.length then slice rows r.start (e - r.start) else []

/-- `validate_attachment`. -/
def validateAttachment (blobSize : Nat) (a : AttRow) : Except Err Unit :=
  if a.tag != WscLayout.tagAtom && a.tag != WscLayout.tagDescend then .error .invalidAttachmentTag
  else if a.reserved != 0 then .error .nonZeroReservedBytes
  else if a.tag == WscLayout.tagAtom then
    (if satAdd a.off a.len > blobSize then .error .blobOutOfBounds else .ok ())
  else (if a.off != 0 || a.len != 0 then .error .nonAtomHasBlobFields else .ok ())

def forM_ (f : α → Except Err Unit) : List α → Except Err Unit
  | [] => .ok ()
  | x :: xs => match f x with
    | .error e => .error e
    | .ok () => forM_ f xs

/-- `validate_warp_view`. -/
def validateView (v : View) : Except Err Unit := do
  let i := v.inp
  checkRanges .outIndex i.outEdges.length i.outIndex
  checkRanges .nodeAttsIndex i.nodeAtts.length i.nodeAttsIndex
  checkRanges .edgeAttsIndex i.edgeAtts.length i.edgeAttsIndex
  checkOrder .orderingNode (i.nodes.map (·.id))
  checkOrder .orderingEdge (i.edges.map (·.id))
  if !i.nodes.isEmpty then
    (if i.nodes.any (fun n => n.id == i.root) then pure () else throw Err.missingRoot)
  else if i.root != 0 then throw Err.missingRoot
  forM_ (fun r => forM_ (validateAttachment i.blobs.length) (getRange i.nodeAtts r)) i.nodeAttsIndex
  forM_ (fun r => forM_ (validateAttachment i.blobs.length) (getRange i.edgeAtts r)) i.edgeAttsIndex
  forM_ (fun r => forM_ (fun (o : OutRef) => if o.ix ≥ i.edges.length then .error .outEdgeReference else .ok ())
      (getRange i.outEdges r)) i.outIndex

/-- the loop of `validate_wsc`: `warp_view(i)?` then `validate_warp_view`. -/
def viewsLoop (data : Bytes) (schema tick : Nat) : List Bytes → Except Err (List View)
  | [] => .ok []
  | e :: rest =>
    match viewNew data e schema tick with
    | .error err => .error err
    | .ok v =>
      match validateView v with
      | .error err => .error err
      | .ok () =>
        match viewsLoop data schema tick rest with
        | .error err => .error err
        | .ok vs => .ok (v :: vs)

/-- `WscFile::from_bytes` (= `validate_header`) followed by `validate_wsc`: all validated views. -/
def readFile (data : Bytes) : Except Err (List View) :=
  if data.length < WscLayout.sizeWscHeader then .error .fileTooSmall
  else if data.take 8 != WscLayout.magic then .error .invalidMagic
  else
    let schema := rdId data 8
    let tick := rdU64 data 40
    let count := rdU64 data 48
    let dirOff := rdU64 data 56
    if count = 0 then .ok [] else
    match readSlice data dirOff count WscLayout.sizeWarpDirEntry true .warpDirectory with
    | .error e => .error e
    | .ok dirB => viewsLoop data schema tick (rowsOf id WscLayout.sizeWarpDirEntry (dirB.length / WscLayout.sizeWarpDirEntry) dirB)

/-- the single-warp reader: `from_bytes`, `validate_wsc`, `warp_count == 1`, `warp_view(0)`. -/
def read (data : Bytes) : Except Err View :=
  match readFile data with
  | .error e => .error e
  | .ok [v] => .ok v
  | .ok _ => .error .warpCount

/-- `validate_wsc` alone. -/
def validate (data : Bytes) : Except Err Unit :=
  match readFile data with
  | .error e => .error e
  | .ok _ => .ok ()

/-! ## rows → store (what a consumer of the view rebuilds) -/

inductive BackErr where
  | multipleAttRows
  | blobOutOfRange
  | badAttachmentTag
  deriving DecidableEq, Repr

/-- `blob_for_attachment` + the tag dispatch of a consumer. -/
def attOf (blobs : Bytes) : List AttRow → Except BackErr (Option Att)
  | [] => .ok none
  | [r] =>
    if r.tag == WscLayout.tagAtom then
      let e := satAdd r.off r.len
      if e ≤ blobs.length then .ok (some (.atom r.tyOrWarp (slice blobs r.off (e - r.off))))
      else .error .blobOutOfRange
    else if r.tag == WscLayout.tagDescend then .ok (some (.descend r.tyOrWarp))
    else .error .badAttachmentTag
  | _ => .error .multipleAttRows

/-- attachments of the owners `ids` (parallel to `index`), inserted into a map in row order. -/
def attsBack (blobs : Bytes) (rows : List AttRow) : List Nat → List Range → SMap Nat Att → Except BackErr (SMap Nat Att)
  | id :: ids, r :: rs, m =>
    match attOf blobs (getRange rows r) with
    | .error e => .error e
    | .ok none => attsBack blobs rows ids rs m
    | .ok (some a) => attsBack blobs rows ids rs (SMap.insert id a m)
  | _, _, m => .ok m

def toStore (v : View) : Except BackErr Store :=
  let i := v.inp
  match attsBack i.blobs i.nodeAtts (i.nodes.map (·.id)) i.nodeAttsIndex [] with
  | .error e => .error e
  | .ok nodeAtt =>
    match attsBack i.blobs i.edgeAtts (i.edges.map (·.id)) i.edgeAttsIndex [] with
    | .error e => .error e
    | .ok edgeAtt =>
      .ok { nodes := i.nodes.foldl (fun m r => SMap.insert r.id r.ty m) [],
            edges := i.edges.foldl (fun m r => SMap.insert r.id { src := r.src, dst := r.dst, ty := r.ty } m) [],
            nodeAtt, edgeAtt }

/-- consistency of the redundant out-edge index with the edge rows: for every node row the refs are
    exactly the edge rows leaving it (ascending), and each ref's `edge_ix` addresses its own row. -/
def outIndexConsistent (i : Input) : Bool :=
  i.outIndex.length == i.nodes.length &&
  (i.nodes.zip i.outIndex).all (fun (n, r) =>
    let refs := getRange i.outEdges r
    refs.map (·.id) == (i.edges.filter (fun e => e.src == n.id)).map (·.id) &&
    refs.all (fun o => match i.edges[o.ix]? with
      | some e => e.id == o.id
      | none => false))

end WscFile
end EchoVerif
