/-
  EchoVerif.Model.Footprint — footprints and the three conflict predicates (C03, C01, C14).
  Rust anchors: crates/warp-core/src/footprint.rs (`Footprint`, `Footprint::independent`),
  scheduler.rs (`ActiveFootprints`, `RadixScheduler::has_conflict`, `mark_all`),
  engine_impl.rs (`footprints_conflict`).
  The predicates are interpreters of *tables* (which footprint set is intersected with which);
  the tables themselves are extracted from the Rust source into `Generated/Conflict.lean`.
  Import-free.
-/
import EchoVerif.Model.Basic

namespace EchoVerif.Footprint

/-- A warp-scoped resource key. The constructor is the resource class, so keys of different
    classes are never equal (in the Rust they have different types). -/
inductive Res where
  /-- `NodeKey { warp_id, local_id }` -/
  | node (warp id : Nat)
  /-- `EdgeKey { warp_id, local_id }` -/
  | edge (warp id : Nat)
  /-- `AttachmentKey { owner: Node|Edge (warp, id), plane: Alpha|Beta }` -/
  | att (ownerIsEdge : Bool) (warp id : Nat) (beta : Bool)
  /-- `WarpScopedPortKey = (WarpId, PortKey)` -/
  | port (warp key : Nat)
  deriving DecidableEq, Repr

/-- The eight resource sets of a `Footprint`. -/
inductive FSet where
  | nRead | nWrite | eRead | eWrite | aRead | aWrite | bIn | bOut
  deriving DecidableEq, Repr

/-- The seven generation-stamped sets of `ActiveFootprints`. -/
inductive MSet where
  | nodesWritten | nodesRead | edgesWritten | edgesRead | attWritten | attRead | ports
  deriving DecidableEq, Repr

def FSet.all : List FSet := [.nRead, .nWrite, .eRead, .eWrite, .aRead, .aWrite, .bIn, .bOut]
def MSet.all : List MSet :=
  [.nodesWritten, .nodesRead, .edgesWritten, .edgesRead, .attWritten, .attRead, .ports]

/-- `Footprint` (sets as lists: only membership matters to every predicate). -/
structure Footprint where
  nRead : List Res := []
  nWrite : List Res := []
  eRead : List Res := []
  eWrite : List Res := []
  aRead : List Res := []
  aWrite : List Res := []
  bIn : List Res := []
  bOut : List Res := []
  /-- `factor_mask: u64` -/
  mask : Nat := 0
  deriving Repr

def Footprint.get (f : Footprint) : FSet → List Res
  | .nRead => f.nRead | .nWrite => f.nWrite | .eRead => f.eRead | .eWrite => f.eWrite
  | .aRead => f.aRead | .aWrite => f.aWrite | .bIn => f.bIn | .bOut => f.bOut

/-- `intersects_btree`: the two sets share an element. -/
def intersects (a b : List Res) : Bool := a.any (fun k => b.contains k)

/-- `ActiveFootprints`: what each marked set currently contains. -/
structure Active where
  nodesWritten : List Res := []
  nodesRead : List Res := []
  edgesWritten : List Res := []
  edgesRead : List Res := []
  attWritten : List Res := []
  attRead : List Res := []
  ports : List Res := []

def Active.get (a : Active) : MSet → List Res
  | .nodesWritten => a.nodesWritten | .nodesRead => a.nodesRead
  | .edgesWritten => a.edgesWritten | .edgesRead => a.edgesRead
  | .attWritten => a.attWritten | .attRead => a.attRead | .ports => a.ports

def Active.empty : Active := {}

/-- mark every key of `ks` in set `m` -/
def Active.add (act : Active) (m : MSet) (ks : List Res) : Active :=
  match m with
  | .nodesWritten => { act with nodesWritten := ks ++ act.nodesWritten }
  | .nodesRead => { act with nodesRead := ks ++ act.nodesRead }
  | .edgesWritten => { act with edgesWritten := ks ++ act.edgesWritten }
  | .edgesRead => { act with edgesRead := ks ++ act.edgesRead }
  | .attWritten => { act with attWritten := ks ++ act.attWritten }
  | .attRead => { act with attRead := ks ++ act.attRead }
  | .ports => { act with ports := ks ++ act.ports }

/-- Table shape of `has_conflict` / `mark_all`: (footprint set iterated, marked set consulted /
    marked). -/
abbrev HasTable := List (FSet × MSet)

/-- `RadixScheduler::has_conflict`: some key of some listed footprint set is contained in the
    paired marked set. -/
def hasConflict (tbl : HasTable) (act : Active) (c : Footprint) : Bool :=
  tbl.any (fun sm => intersects (c.get sm.1) (act.get sm.2))

/-- `RadixScheduler::mark_all`. -/
def markAll (tbl : HasTable) (act : Active) (c : Footprint) : Active :=
  tbl.foldl (fun act sm => Active.add act sm.2 (c.get sm.1)) act

/-- Which argument of a two-footprint predicate. -/
inductive Side where
  | a | b
  deriving DecidableEq, Repr

def pick (x : Side) (a b : Footprint) : Footprint :=
  match x with
  | .a => a
  | .b => b

/-- Table shape of `footprints_conflict` / `Footprint::independent`: each row is one
    `X.s.intersects(&Y.t)` call. -/
abbrev PairTable := List (Side × FSet × Side × FSet)

/-- Disjunction of the listed `intersects` calls. -/
def pairConflict (tbl : PairTable) (a b : Footprint) : Bool :=
  tbl.any (fun r => intersects ((pick r.1 a b).get r.2.1) ((pick r.2.2.1 a b).get r.2.2.2))

/-- `Footprint::independent(self, other)`: mask prefilter (if present in the source), then the
    negated disjunction. -/
def independent (maskPrefilter : Bool) (tbl : PairTable) (self other : Footprint) : Bool :=
  (maskPrefilter && (self.mask &&& other.mask == 0)) || !pairConflict tbl self other

end EchoVerif.Footprint
