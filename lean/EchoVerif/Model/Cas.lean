/-
  EchoVerif.Model.Cas — model of `echo-cas`: `MemoryTier`, `DiskTier` (backing map + adversary),
  `RetainedBlobIndex`.  Import-free.  The content hash is NEVER modelled: every function that
  hashes takes `H : Bytes → Hash` as a parameter (`blob_hash` = BLAKE3 of the bytes, no domain prefix).
  Anchors: crates/echo-cas/src/{lib.rs,memory.rs,disk.rs,retention.rs}.
  `MemoryTier::put_verified` is modelled in its REPAIRED form (hash first, then the already-stored
  fast path) — see repo-patches/fix-c20-memory-put-verified.patch.
-/
import EchoVerif.Model.Basic
import EchoVerif.Model.SMap

namespace EchoVerif.Cas
open EchoVerif SMap

/-- `BlobHash` (32 bytes, big-endian value). -/
abbrev Hash := Nat

/-- `CasError::HashMismatch { expected, computed }`. -/
structure Mismatch where
  expected : Hash
  computed : Hash
deriving DecidableEq, Repr

abbrev PinSet := SMap Hash Unit

/-! ## MemoryTier (memory.rs) -/

structure Mem where
  blobs : SMap Hash Bytes
  pins : PinSet
  byteCount : Nat
  maxBytes : Option Nat

def Mem.new : Mem := { blobs := [], pins := [], byteCount := 0, maxBytes := none }
def Mem.withLimits (n : Nat) : Mem := { blobs := [], pins := [], byteCount := 0, maxBytes := some n }

/-- `BlobStore::put`: vacant entry ⇒ insert and account, occupied ⇒ nothing. -/
def Mem.put (H : Bytes → Hash) (s : Mem) (b : Bytes) : Mem × Hash :=
  match find? (H b) s.blobs with
  | some _ => (s, H b)
  | none => ({ s with blobs := insert (H b) b s.blobs, byteCount := s.byteCount + b.length }, H b)

/-- `BlobStore::put_verified` (repaired: the hash is computed before the fast path). -/
def Mem.putVerified (H : Bytes → Hash) (s : Mem) (expected : Hash) (b : Bytes) : Mem × Option Mismatch :=
  if H b ≠ expected then (s, some { expected := expected, computed := H b })
  else match find? expected s.blobs with
    | some _ => (s, none)
    | none => ({ s with blobs := insert (H b) b s.blobs, byteCount := s.byteCount + b.length }, none)

def Mem.get (s : Mem) (h : Hash) : Option Bytes := find? h s.blobs
def Mem.has (s : Mem) (h : Hash) : Bool := (find? h s.blobs).isSome
def Mem.pin (s : Mem) (h : Hash) : Mem := { s with pins := insert h () s.pins }
def Mem.unpin (s : Mem) (h : Hash) : Mem := { s with pins := erase h s.pins }
def Mem.isPinned (s : Mem) (h : Hash) : Bool := (find? h s.pins).isSome
def Mem.len (s : Mem) : Nat := s.blobs.length
def Mem.pinnedCount (s : Mem) : Nat := s.pins.length
def Mem.isOverBudget (s : Mem) : Bool :=
  match s.maxBytes with
  | some m => decide (s.byteCount > m)
  | none => false

/-- Operations of a history (both tiers; `advWrite`/`advDelete`/`reopen` only act on the disk). -/
inductive Op where
  | put (b : Bytes)
  | putv (expected : Hash) (b : Bytes)
  | get (h : Hash)
  | has (h : Hash)
  | pin (h : Hash)
  | unpin (h : Hash)
  | reopen
  | advWrite (h : Hash) (b : Bytes)   -- adversary overwrites/creates the backing file of `h`
  | advDelete (h : Hash)              -- adversary removes the backing file of `h`

/-- State transformer of one operation on the memory tier (adversary ops do not exist there). -/
def Mem.step (H : Bytes → Hash) (s : Mem) : Op → Mem
  | .put b => (s.put H b).1
  | .putv e b => (s.putVerified H e b).1
  | .pin h => s.pin h
  | .unpin h => s.unpin h
  | _ => s

def Mem.run (H : Bytes → Hash) (s : Mem) (ops : List Op) : Mem := ops.foldl (Mem.step H) s

/-! ## DiskTier (disk.rs): backing map `hash ↦ file bytes`, process-local pins -/

structure Disk where
  files : SMap Hash Bytes
  pins : PinSet

def Disk.empty : Disk := { files := [], pins := [] }

inductive GetResult where
  | absent                       -- Ok(None)
  | found (b : Bytes)            -- Ok(Some(bytes))
  | corrupt (m : Mismatch)       -- Err(Cas(HashMismatch))
deriving DecidableEq

/-- `DiskTier::put_verified`: always hashes; on success (over)writes the file via temp + rename. -/
def Disk.putVerified (H : Bytes → Hash) (s : Disk) (expected : Hash) (b : Bytes) : Disk × Option Mismatch :=
  if H b ≠ expected then (s, some { expected := expected, computed := H b })
  else ({ s with files := insert expected b s.files }, none)

def Disk.put (H : Bytes → Hash) (s : Disk) (b : Bytes) : Disk × Hash :=
  ((s.putVerified H (H b) b).1, H b)

/-- `DiskTier::get`: re-hash what was read. -/
def Disk.get (H : Bytes → Hash) (s : Disk) (h : Hash) : GetResult :=
  match find? h s.files with
  | none => .absent
  | some b => if H b ≠ h then .corrupt { expected := h, computed := H b } else .found b

def Disk.has (s : Disk) (h : Hash) : Bool := (find? h s.files).isSome
def Disk.list (s : Disk) : List Hash := keys s.files
def Disk.pin (s : Disk) (h : Hash) : Disk := { s with pins := insert h () s.pins }
def Disk.unpin (s : Disk) (h : Hash) : Disk := { s with pins := erase h s.pins }
def Disk.isPinned (s : Disk) (h : Hash) : Bool := (find? h s.pins).isSome
def Disk.pinnedCount (s : Disk) : Nat := s.pins.length
/-- Drop the handle and `DiskTier::open` the same root again: files persist, pins do not. -/
def Disk.reopen (s : Disk) : Disk := { s with pins := [] }
def Disk.advWrite (s : Disk) (h : Hash) (b : Bytes) : Disk := { s with files := insert h b s.files }
def Disk.advDelete (s : Disk) (h : Hash) : Disk := { s with files := erase h s.files }

def Disk.step (H : Bytes → Hash) (s : Disk) : Op → Disk
  | .put b => (s.put H b).1
  | .putv e b => (s.putVerified H e b).1
  | .pin h => s.pin h
  | .unpin h => s.unpin h
  | .reopen => s.reopen
  | .advWrite h b => s.advWrite h b
  | .advDelete h => s.advDelete h
  | _ => s

def Disk.run (H : Bytes → Hash) (s : Disk) (ops : List Op) : Disk := ops.foldl (Disk.step H) s

/-! ## Reference semantics: a content-addressed map is "the successful writes, by hash" -/

/-- The bytes a single operation successfully writes under hash `h`, if any. -/
def Op.writes (H : Bytes → Hash) (h : Hash) : Op → Option Bytes
  | .put b => if H b = h then some b else none
  | .putv e b => if H b = e ∧ e = h then some b else none
  | _ => none

/-- Memory tier: the FIRST successful write under `h` wins (later ones are no-ops). -/
def refFirst (H : Bytes → Hash) (h : Hash) : List Op → Option Bytes
  | [] => none
  | op :: rest => match op.writes H h with
    | some b => some b
    | none => refFirst H h rest

/-- Does the operation touch the backing file of `h` behind the store's back? -/
def Op.tampers (h : Hash) : Op → Bool
  | .advWrite h' _ => decide (h' = h)
  | .advDelete h' => decide (h' = h)
  | _ => false

/-! ## RetainedBlobIndex (retention.rs) -/

/-- `SemanticBlobCoordinate`: namespace, schema hash hex, artifact hash hex (UTF-8 bytes), role
    (enum discriminant 0..5), semantic digest. -/
structure Coord where
  ns : Bytes
  schema : Bytes
  artifact : Bytes
  role : Nat
  digest : Nat
deriving DecidableEq

structure Desc where
  coord : Coord
  contentHash : Hash
  byteLen : Nat
deriving DecidableEq

/-- The index is only ever read by exact key (no iteration is exposed), so an association list
    with first-match lookup models the `BTreeMap`. -/
abbrev Index := List (Coord × Desc)

def Index.find (ix : Index) (c : Coord) : Option Desc :=
  match ix with
  | [] => none
  | (c', d) :: rest => if c' = c then some d else Index.find rest c

inductive RetErr where
  | missingCoord
  | missingBlob (h : Hash)
  | rangeExceedsBudget (requested max : Nat)
  | rangeOutOfBounds (offset len byteLen : Nat)
  | conflict (existing new : Hash)
deriving DecidableEq

/-- `RetainedBlobIndex::retain` over a `MemoryTier`. -/
def retain (H : Bytes → Hash) (ix : Index) (s : Mem) (c : Coord) (b : Bytes) :
    Index × Mem × Except RetErr Desc :=
  match ix.find c with
  | some ex =>
    if ex.contentHash ≠ H b ∨ ex.byteLen ≠ b.length then
      (ix, s, .error (.conflict ex.contentHash (H b)))
    else
      let s1 := if s.has ex.contentHash then s else (s.put H b).1
      (ix, s1.pin ex.contentHash, .ok ex)
  | none =>
    let (s1, h) := s.put H b
    let d : Desc := { coord := c, contentHash := h, byteLen := b.length }
    ((c, d) :: ix, s1.pin h, .ok d)

def loadByHash (s : Mem) (h : Hash) : Except RetErr Bytes :=
  match s.get h with
  | some b => .ok b
  | none => .error (.missingBlob h)

def load (ix : Index) (s : Mem) (c : Coord) : Except RetErr (Desc × Bytes) :=
  match ix.find c with
  | none => .error .missingCoord
  | some d => match loadByHash s d.contentHash with
    | .ok b => .ok (d, b)
    | .error e => .error e

/-- `load_range`; `u64` overflow of `offset + len` lands in the same `RangeOutOfBounds` answer as
    the unbounded sum being past the end, so `Nat` arithmetic is exact here. -/
def loadRange (ix : Index) (s : Mem) (c : Coord) (offset len maxBytes : Nat) :
    Except RetErr (Desc × Bytes) :=
  match load ix s c with
  | .error e => .error e
  | .ok (d, b) =>
    if len > maxBytes then .error (.rangeExceedsBudget len maxBytes)
    else if offset + len > d.byteLen then .error (.rangeOutOfBounds offset len d.byteLen)
    else .ok (d, (b.drop offset).take len)

end EchoVerif.Cas
