/-
  EchoVerif.Model.Pass — one scheduler pass (`SchedulerCoordinator::super_tick_inner`,
  crates/warp-core/src/coordinator.rs) at the level of its MUTATIONS.

  Modelled (import-free, total, executable):
  * `WorldlineRuntime`: heads (`PlaybackHeadRegistry`, inbox pending map + policy), frontiers
    (`WorldlineRegistry`; the worldline state is abstracted to the list of commits applied to it plus
    the committed-ingress set), global tick, witnessed submissions, ticketed ingress, the five receipt
    correlation indexes + the pending-submission set, fault evidence.
  * `ProvenanceService`: per worldline entry list + checkpoint list, shell key sets.
  * `checkpoint_for` (copies only the touched heads / frontiers, records lengths), the per-head commit
    with every point at which it can fail, `record_receipt_correlations` with its undo log,
    `rollback_receipt_correlations` (log replayed in reverse), `restore` (overlay / truncate),
    fault recording and scoping, `refresh_runnable`, `resolve_scheduler_fault`.
  Not modelled: what the engine computes (hashes, graph contents); a commit either fails at a named
  point or appends an opaque `Commit` token. Ids that are BLAKE3 outputs in the code (submission id,
  ticketed-ingress id, fault id) are represented by the tuples they are derived from.
-/
import EchoVerif.Model.SMap

set_option linter.unusedSimpArgs false
set_option linter.unusedVariables false

namespace EchoVerif.Pass
open SMap

abbrev HeadKey := Nat × Nat              -- (worldline id, head id): `WriterHeadKey`, derived `Ord`
abbrev Target := HeadKey × Nat           -- (head, ingress id): names a submission / ticketed ingress
abbrev Ref := (Nat × Nat × Nat) × (Target × Nat)   -- CausalTickReceiptRef: (wl, tick_after, gtick), (sub, ticket)
abbrev Basis := Nat × Nat                -- (worldline, tick_after [, commit hash])

/-- `u64::MAX` (both `WorldlineTick::MAX` and `GlobalTick::MAX`). -/
def maxTick : Nat := 18446744073709551615

/-- behaviour classes of an intent under the harness rules (first payload byte) -/
def clsConflict : Nat := 67   -- 'C'
def clsPanic : Nat := 80      -- 'P'

structure Head where
  paused : Bool
  admitted : Bool               -- `HeadEligibility::Admitted`
  budget : Option Nat           -- `InboxPolicy::Budgeted { max_per_tick }`; `none` = `AcceptAll`
  pending : SMap Nat Nat        -- ingress id ↦ behaviour class
deriving DecidableEq

/-- opaque token for what one head commit appends to the worldline state / provenance -/
structure Commit where
  head : HeadKey
  ids : List Nat
  gtick : Nat
deriving DecidableEq

structure Frontier where
  tick : Nat
  broken : Bool                 -- root warp instance missing: the engine answers `UnknownWarp`
  hist : List Commit            -- stands for warp_state / tick_history / last_snapshot / materialization
  committed : SMap Target Unit  -- `committed_ingress`
deriving DecidableEq

structure CorrRec where
  target : Target
  ticket : Nat
  ref : Ref
deriving DecidableEq

structure Corr where
  byTid : SMap Target CorrRec                 -- receipt_correlations_by_ticketed_ingress
  bySub : SMap Target Target                  -- receipt_correlation_by_submission
  byTicket : SMap Nat Target                  -- receipt_correlation_by_ticket
  byRef : SMap Ref Target                     -- receipt_correlation_by_receipt_ref
  byBasis : SMap Basis (SMap Target Unit)     -- receipt_correlations_by_current_basis
  pendingSubs : SMap Target Unit              -- pending_witnessed_submission_ids
deriving DecidableEq

inductive Scope where
  | head (k : HeadKey)
  | runtime
deriving DecidableEq

structure FaultRec where
  gen : Nat
  scope : Scope
  active : Bool
deriving DecidableEq

structure Faults where
  records : List FaultRec             -- scheduler_faults, in generation order
  faultedHeads : SMap HeadKey Nat     -- head ↦ generation of its active fault
  runtimeFault : Option Nat
  nextGen : Nat
deriving DecidableEq

structure Runtime where
  heads : SMap HeadKey Head
  frontiers : SMap Nat Frontier
  gtick : Nat
  subs : SMap Target Unit             -- witnessed_submissions (+ by_target, envelopes)
  ticketed : SMap Target Nat          -- ticketed_runtime_ingress (+ by_target, by_submission): ticket digest
  corr : Corr
  faults : Faults
deriving DecidableEq

structure ProvWl where
  entries : List Commit
  checkpoints : List Nat
deriving DecidableEq

structure Prov where
  wls : SMap Nat ProvWl
  shells : List Nat                   -- braid_shells keys
  plural : List Nat                   -- plural_shell_index keys
deriving DecidableEq

/-! ## logged writes -/

/-- write-or-remove: `Some(previous) => insert`, `None => remove` -/
def setOpt {κ ν : Type} [DecidableEq κ] [LinOrd κ] (k : κ) : Option ν → SMap κ ν → SMap κ ν
  | some v, m => insert k v m
  | none, m => erase k m

def setMem {κ : Type} [DecidableEq κ] [LinOrd κ] (k : κ) (b : Bool) (m : SMap κ Unit) : SMap κ Unit :=
  if b then insert k () m else erase k m

/-- `ReceiptCorrelationRollbackEntry` -/
structure RbEntry where
  tid : Target
  prevRec : Option CorrRec
  sub : Target
  prevSub : Option Target
  ticket : Nat
  prevTicket : Option Target
  ref : Ref
  prevRef : Option Target
  basis : Basis
  prevBasis : Option (SMap Target Unit)
  prevPending : Bool

/-- one iteration of `rollback_receipt_correlations` -/
def undoEntry (e : RbEntry) (c : Corr) : Corr :=
  { byTid := setOpt e.tid e.prevRec c.byTid
    bySub := setOpt e.sub e.prevSub c.bySub
    byTicket := setOpt e.ticket e.prevTicket c.byTicket
    byRef := setOpt e.ref e.prevRef c.byRef
    byBasis := setOpt e.basis e.prevBasis c.byBasis
    pendingSubs := setMem e.sub e.prevPending c.pendingSubs }

/-- `for entry in rollback.entries.drain(..).rev()`; the log is kept in push order. -/
def rollbackCorr (log : List RbEntry) (c : Corr) : Corr := log.foldr undoEntry c

/-- the pass state threaded through the head loop -/
structure PState where
  rt : Runtime
  prov : Prov
  log : List RbEntry

/-! ## primitive mutations of a pass -/

def setHead (k : HeadKey) (h : Head) (s : PState) : PState :=
  { s with rt := { s.rt with heads := insert k h s.rt.heads } }

def setFrontier (w : Nat) (f : Frontier) (s : PState) : PState :=
  { s with rt := { s.rt with frontiers := insert w f s.rt.frontiers } }

def appendProv (w : Nat) (pw : ProvWl) (c : Commit) (s : PState) : PState :=
  { s with prov := { s.prov with wls := insert w { pw with entries := pw.entries ++ [c] } s.prov.wls } }

/-- the six index writes of `record_receipt_correlations` for one envelope -/
def writeCorr (e : RbEntry) (rec : CorrRec) (c : Corr) : Corr :=
  let set' : SMap Target Unit :=
    match find? e.basis c.byBasis with      -- `.entry(current_basis).or_default().insert(..)`
    | some set => insert e.tid () set
    | none => insert e.tid () []
  { byTid := insert e.tid rec c.byTid
    bySub := insert e.sub e.tid c.bySub
    byTicket := insert e.ticket e.tid c.byTicket
    byRef := insert e.ref e.tid c.byRef
    byBasis := insert e.basis set' c.byBasis
    pendingSubs := erase e.sub c.pendingSubs }

/-- ... together with the log entry pushed for them -/
def corrWrite (e : RbEntry) (rec : CorrRec) (s : PState) : PState :=
  { s with rt := { s.rt with corr := writeCorr e rec s.rt.corr }, log := s.log ++ [e] }

/-- the log entry `record_receipt_correlations` pushes: previous values of every slot it writes -/
def mkEntry (c : Corr) (tgt : Target) (ticket : Nat) (ref : Ref) (basis : Basis) : RbEntry :=
  { tid := tgt, prevRec := find? tgt c.byTid
    sub := tgt, prevSub := find? tgt c.bySub
    ticket := ticket, prevTicket := find? ticket c.byTicket
    ref := ref, prevRef := find? ref c.byRef
    basis := basis, prevBasis := find? basis c.byBasis
    prevPending := contains tgt c.pendingSubs }

inductive ErrKind where
  | engine | prov | overflow | unkwl | unkhead | corr | goverflow | rtfault
deriving DecidableEq

inductive Fail where
  | err (e : ErrKind)
  | panic
deriving DecidableEq

/-- `scheduler_fault_scope_for_error` (restricted to the errors a pass can raise); the table is
    checked against the one extracted from the Rust source by `C09.scope_table`. -/
def isHeadScoped : ErrKind → Bool
  | .engine => true
  | .overflow => true
  | _ => false

def scopeOf (k : HeadKey) (e : ErrKind) : Scope :=
  if isHeadScoped e then .head k else .runtime

/-- `receipt_correlations_by_current_basis.get(&basis).is_some_and(|set| set.contains(&tid))` -/
def basisHas (c : Corr) (basis : Basis) (tgt : Target) : Bool :=
  match find? basis c.byBasis with
  | some set => contains tgt set
  | none => false

/-- one envelope of `record_receipt_correlations` -/
def corrStep (key : HeadKey) (tickAfter gtick : Nat) (id : Nat) (s : PState) : Except ErrKind PState :=
  let tgt : Target := (key, id)
  match find? tgt s.rt.ticketed with
  | none => .ok s
  | some ticket =>
    if contains tgt s.rt.corr.byTid then .ok s
    else
      let ref : Ref := ((key.1, tickAfter, gtick), (tgt, ticket))
      let basis : Basis := (key.1, tickAfter)
      let c := s.rt.corr
      if contains tgt c.bySub || contains ticket c.byTicket || contains ref c.byRef || basisHas c basis tgt then
        .error .corr
      else
        .ok (corrWrite (mkEntry c tgt ticket ref basis) { target := tgt, ticket := ticket, ref := ref } s)

/-- `record_receipt_correlations`: on error the entries already written stay (the caller rolls back) -/
def corrLoop (key : HeadKey) (tickAfter gtick : Nat) : List Nat → PState → Option ErrKind × PState
  | [], s => (none, s)
  | id :: ids, s =>
    match corrStep key tickAfter gtick id s with
    | .error e => (some e, s)
    | .ok s' => corrLoop key tickAfter gtick ids s'

structure Step where
  head : HeadKey
  tickAfter : Nat
  gtick : Nat
  admitted : Nat
  rejected : Nat
deriving DecidableEq

/-- `HeadInbox::admit` (named admitBatch here: the bare word is a banned token) -/
def admitBatch (h : Head) : List (Nat × Nat) × Head :=
  match h.budget with
  | none => (h.pending, { h with pending := [] })
  | some n => (h.pending.take n, { h with pending := h.pending.drop n })

/-- `HeadInbox::can_admit` -/
def canAdmit (h : Head) : Bool :=
  match h.budget with
  | none => !h.pending.isEmpty
  | some n => n != 0 && !h.pending.isEmpty

/-- lawful rejections of one commit: all but one of the shared-footprint candidates -/
def rejectedCount (adm : List (Nat × Nat)) : Nat :=
  (adm.filter (fun p => p.2 == clsConflict)).length - 1

def markCommitted (key : HeadKey) (adm : List (Nat × Nat)) (m : SMap Target Unit) : SMap Target Unit :=
  adm.foldl (fun m p => insert (key, p.1) () m) m

/-- The body of the `catch_unwind` closure for one head with a non-empty admitted batch.
    `inj` is the failure injected at the last point (after every mutation of this head). The
    returned state is the state AT the point of failure: nothing is undone here. -/
def commitHead (key : HeadKey) (nextG : Nat) (inj : Option Fail) (adm : List (Nat × Nat))
    (s : PState) : Sum Fail Step × PState :=
  match find? key.1 s.rt.frontiers with
  | none => (.inl (.err .unkwl), s)
  | some fr =>
    match find? key.1 s.prov.wls with
    | none => (.inl (.err .prov), s)                       -- `provenance.tip_ref`
    | some pw =>
      -- `engine.commit_with_state`: its guard leaves the worldline state untouched on error / unwind
      if fr.broken then (.inl (.err .engine), s)
      else if adm.any (fun p => p.2 == clsPanic) then (.inl .panic, s)
      else
        let commit : Commit := { head := key, ids := adm.map (·.1), gtick := nextG }
        let fr1 : Frontier := { fr with hist := fr.hist ++ [commit] }
        let s1 := setFrontier key.1 fr1 s
        -- `provenance.append_local_commit`: entry tick must be the next append index
        if fr.tick ≠ pw.entries.length then (.inl (.err .prov), s1)
        else
          let s2 := appendProv key.1 pw commit s1
          let fr2 : Frontier := { fr1 with committed := markCommitted key adm fr1.committed }
          let s3 := setFrontier key.1 fr2 s2
          -- `frontier.advance_tick()`
          if fr.tick = maxTick then (.inl (.err .overflow), s3)
          else
            let fr3 : Frontier := { fr2 with tick := fr.tick + 1 }
            let s4 := setFrontier key.1 fr3 s3
            match corrLoop key (fr.tick + 1) nextG (adm.map (·.1)) s4 with
            | (some e, s5) => (.inl (.err e), s5)
            | (none, s5) =>
              match inj with
              | some f => (.inl f, s5)
              | none =>
                (.inr { head := key, tickAfter := fr.tick + 1, gtick := nextG,
                        admitted := adm.length, rejected := rejectedCount adm }, s5)

inductive LoopRes where
  | done (recs : List Step) (s : PState)
  | abort (e : ErrKind) (s : PState)            -- `?` inside the loop: returned as is (unreachable)
  | failed (key : HeadKey) (f : Fail) (s : PState)

/-- failure plan: the `k`-th head commit reaching the injection point fails with `f` -/
def injAt (c : Nat) : Option (Nat × Fail) → Option Fail
  | some (k, f) => if k = c then some f else none
  | none => none

/-- the per-head loop of `super_tick_inner`; `c` counts the heads committed so far -/
def passLoop (nextG : Nat) (inj : Option (Nat × Fail)) :
    List HeadKey → Nat → PState → List Step → LoopRes
  | [], _, s, recs => .done recs s
  | key :: rest, c, s, recs =>
    match find? key s.rt.heads with
    | none => .abort .unkhead s
    | some h =>
      if (admitBatch h).1.isEmpty then passLoop nextG inj rest c s recs
      else
        match commitHead key nextG (injAt c inj) (admitBatch h).1 (setHead key (admitBatch h).2 s) with
        | (.inl f, s') => .failed key f s'
        | (.inr step, s') => passLoop nextG inj rest (c + 1) s' (recs ++ [step])

/-! ## runnable set, checkpoints, restore, faults -/

def isRunnable (fs : Faults) (p : HeadKey × Head) : Bool :=
  p.2.admitted && !p.2.paused && !(contains p.1 fs.faultedHeads)

/-- `refresh_runnable` followed by `runnable.iter()` -/
def runnableKeys (rt : Runtime) : List HeadKey :=
  match rt.faults.runtimeFault with
  | some _ => []
  | none => (rt.heads.filter (isRunnable rt.faults)).map (·.1)

structure RtCheckpoint where
  gtick : Nat
  heads : SMap HeadKey Head
  frontiers : SMap Nat Frontier

/-- `WorldlineRuntime::checkpoint_for` -/
def cpLoop (rt : Runtime) : List HeadKey → SMap HeadKey Head → SMap Nat Frontier →
    Except ErrKind (SMap HeadKey Head × SMap Nat Frontier)
  | [], hs, fs => .ok (hs, fs)
  | k :: ks, hs, fs =>
    match find? k rt.heads with
    | none => .error .unkhead
    | some h =>
      match find? k.1 fs with
      | some _ => cpLoop rt ks (insert k h hs) fs
      | none =>
        match find? k.1 rt.frontiers with
        | none => .error .unkwl
        | some f => cpLoop rt ks (insert k h hs) (insert k.1 f fs)

def checkpointFor (rt : Runtime) (keys : List HeadKey) : Except ErrKind RtCheckpoint :=
  match cpLoop rt keys [] [] with
  | .error e => .error e
  | .ok (hs, fs) => .ok { gtick := rt.gtick, heads := hs, frontiers := fs }

/-- `WorldlineRuntime::restore` (the derived runnable cache is not part of the model state) -/
def restoreRt (cp : RtCheckpoint) (rt : Runtime) : Runtime :=
  { rt with
    gtick := cp.gtick
    heads := cp.heads.foldl (fun m p => insert p.1 p.2 m) rt.heads
    frontiers := cp.frontiers.foldl (fun m p => insert p.1 p.2 m) rt.frontiers }

structure ProvCheckpoint where
  wls : SMap Nat (Nat × Nat)          -- entry_len, checkpoint_len
  shells : List Nat
  plural : List Nat

def provCpLoop (pv : Prov) : List Nat → SMap Nat (Nat × Nat) → Option (SMap Nat (Nat × Nat))
  | [], acc => some acc
  | w :: ws, acc =>
    match find? w pv.wls with
    | none => none
    | some pw => provCpLoop pv ws (insert w (pw.entries.length, pw.checkpoints.length) acc)

/-- `ProvenanceService::checkpoint_for` -/
def provCheckpointFor (pv : Prov) (ws : List Nat) : Option ProvCheckpoint :=
  match provCpLoop pv ws [] with
  | none => none
  | some m => some { wls := m, shells := pv.shells, plural := pv.plural }

def restoreWl (m : SMap Nat ProvWl) (p : Nat × (Nat × Nat)) : SMap Nat ProvWl :=
  match find? p.1 m with
  | some pw => insert p.1 { entries := pw.entries.take p.2.1, checkpoints := pw.checkpoints.take p.2.2 } m
  | none => m

/-- `ProvenanceService::restore` -/
def restoreProv (cp : ProvCheckpoint) (pv : Prov) : Prov :=
  { wls := cp.wls.foldl restoreWl pv.wls
    shells := pv.shells.filter (fun x => cp.shells.contains x)
    plural := pv.plural.filter (fun x => cp.plural.contains x) }

/-- `record_scheduler_head_fault` -/
def recordHeadFault (k : HeadKey) (fs : Faults) : Faults :=
  if contains k fs.faultedHeads then fs
  else
    { records := fs.records ++ [{ gen := fs.nextGen + 1, scope := .head k, active := true }]
      faultedHeads := insert k (fs.nextGen + 1) fs.faultedHeads
      runtimeFault := fs.runtimeFault
      nextGen := fs.nextGen + 1 }

/-- `record_scheduler_runtime_fault` -/
def recordRuntimeFault (fs : Faults) : Faults :=
  match fs.runtimeFault with
  | some _ => fs
  | none =>
    { records := fs.records ++ [{ gen := fs.nextGen + 1, scope := .runtime, active := true }]
      faultedHeads := fs.faultedHeads
      runtimeFault := some (fs.nextGen + 1)
      nextGen := fs.nextGen + 1 }

def recordFault : Scope → Faults → Faults
  | .head k, fs => recordHeadFault k fs
  | .runtime, fs => recordRuntimeFault fs

inductive Pre where
  | ok
  | err (e : ErrKind)
  | overflow (k : HeadKey)

/-- the pre-flight loop: a head with admissible work on a worldline at `WorldlineTick::MAX` -/
def preflight (rt : Runtime) : List HeadKey → Pre
  | [] => .ok
  | k :: ks =>
    match find? k rt.heads with
    | none => .err .unkhead
    | some h =>
      if !canAdmit h then preflight rt ks
      else
        match find? k.1 rt.frontiers with
        | none => .err .unkwl
        | some f => if f.tick = maxTick then .overflow k else preflight rt ks

inductive PassOut where
  | ok (recs : List Step)
  | err (e : ErrKind)
  | panic
deriving DecidableEq

def withFaults (rt : Runtime) (fs : Faults) : Runtime := { rt with faults := fs }

/-- what the error / unwind arms of `super_tick_inner` do with the state at the point of failure -/
def restoreAll (cp : RtCheckpoint) (pcp : ProvCheckpoint) (s : PState) : Runtime × Prov :=
  (restoreRt cp { s.rt with corr := rollbackCorr s.log s.rt.corr }, restoreProv pcp s.prov)

/-- `SchedulerCoordinator::super_tick_inner` -/
def pass (inj : Option (Nat × Fail)) (rt : Runtime) (pv : Prov) : PassOut × Runtime × Prov :=
  match rt.faults.runtimeFault with
  | some _ => (.err .rtfault, rt, pv)
  | none =>
    let keys := runnableKeys rt
    if rt.gtick = maxTick then (.err .goverflow, withFaults rt (recordRuntimeFault rt.faults), pv)
    else
      match preflight rt keys with
      | .err e => (.err e, rt, pv)
      | .overflow k => (.err .overflow, withFaults rt (recordHeadFault k rt.faults), pv)
      | .ok =>
        match checkpointFor rt keys with
        | .error e => (.err e, rt, pv)
        | .ok cp =>
          match provCheckpointFor pv (keys.map (·.1)) with
          | none => (.err .prov, rt, pv)
          | some pcp =>
            match passLoop (rt.gtick + 1) inj keys 0 { rt := rt, prov := pv, log := [] } [] with
            | .done recs s => (.ok recs, { s.rt with gtick := rt.gtick + 1 }, s.prov)
            | .abort e s => (.err e, s.rt, s.prov)
            | .failed key f s =>
              let r := restoreAll cp pcp s
              match f with
              | .err e => (.err e, withFaults r.1 (recordFault (scopeOf key e) r.1.faults), r.2)
              | .panic => (.panic, withFaults r.1 (recordRuntimeFault r.1.faults), r.2)

/-! ## operations around passes -/

def setActive (i : Nat) : List FaultRec → List FaultRec
  | [] => []
  | r :: rs => match i with
    | 0 => { r with active := false } :: rs
    | i + 1 => r :: setActive i rs

inductive ResolveOut where
  | ok | noFault | alreadyResolved
deriving DecidableEq

/-- `resolve_scheduler_fault` on the `i`-th fault record (generation order) -/
def resolve (i : Nat) (fs : Faults) : ResolveOut × Faults :=
  match fs.records[i]? with
  | none => (.noFault, fs)
  | some r =>
    if !r.active then (.alreadyResolved, fs)
    else
      match r.scope with
      | .head k =>
        (.ok, { fs with
          faultedHeads := if find? k fs.faultedHeads = some r.gen then erase k fs.faultedHeads else fs.faultedHeads
          records := setActive i fs.records })
      | .runtime =>
        (.ok, { fs with
          runtimeFault := if fs.runtimeFault = some r.gen then none else fs.runtimeFault
          records := setActive i fs.records })

/-- `set_head_eligibility` -/
def setEligibility (k : HeadKey) (on : Bool) (rt : Runtime) : Option Runtime :=
  match find? k rt.heads with
  | none => none
  | some h => some { rt with heads := insert k { h with admitted := on } rt.heads }

inductive IngOut where
  | accepted | duplicate | staged | ticketDup
  | unkHead | unkSub | alreadyStaged | dupIngress
deriving DecidableEq

def isCommitted (rt : Runtime) (tgt : Target) : Bool :=
  match find? tgt.1.1 rt.frontiers with
  | some f => contains tgt f.committed
  | none => false

/-- `record_witnessed_submission` -/
def witness (tgt : Target) (rt : Runtime) : Runtime :=
  if contains tgt rt.subs then rt
  else { rt with subs := insert tgt () rt.subs
                 corr := { rt.corr with pendingSubs := insert tgt () rt.corr.pendingSubs } }

/-- `WorldlineRuntime::ingest` with an `ExactHead` target -/
def ingest (key : HeadKey) (id cls : Nat) (rt : Runtime) : IngOut × Runtime :=
  match find? key rt.heads with
  | none => (.unkHead, rt)
  | some h =>
    if isCommitted rt (key, id) then (.duplicate, rt)
    else if contains id h.pending then (.duplicate, rt)
    else
      (.accepted, witness (key, id) { rt with heads := insert key { h with pending := insert id cls h.pending } rt.heads })

/-- `ingest_ticketed_invocation` (after `submit_intent` produced `rt1`) -/
def stageTicket (key : HeadKey) (id cls ticket : Nat) (rt1 : Runtime) : IngOut × Runtime :=
  if !contains (key, id) rt1.subs then (.unkSub, rt1)
  else
    match find? (key, id) rt1.ticketed with
    | some t => if t = ticket then (.ticketDup, rt1) else (.alreadyStaged, rt1)
    | none =>
      match ingest key id cls rt1 with
      | (.accepted, rt2) => (.staged, { rt2 with ticketed := insert (key, id) ticket rt2.ticketed })
      | (_, rt2) => (.dupIngress, rt2)

/-- `submit_intent` followed by `ingest_ticketed_invocation` -/
def ingestTicketed (key : HeadKey) (id cls ticket : Nat) (rt : Runtime) : IngOut × Runtime :=
  match find? key rt.heads with
  | none => (.unkHead, rt)
  | some _ =>
    -- submit_intent: a committed ingress is a duplicate, otherwise the submission is witnessed
    stageTicket key id cls ticket (if isCommitted rt (key, id) then rt else witness (key, id) rt)

end EchoVerif.Pass
