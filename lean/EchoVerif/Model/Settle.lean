/-
  EchoVerif.Model.Settle — strand fork, live-basis report, settlement planner and settlement
  execution at the SLOT level (import-free, total, executable).

  Rust anchors: crates/warp-core/src/coordinator.rs (`fork_strand`, `super_tick_inner`),
  provenance_store.rs (`fork`, `rewrite_entry_for_fork`, `checkpoint_for`, `restore`,
  `append_braid_shell`), strand.rs (`live_basis_report`, `StrandDivergenceFootprint`,
  `ParentMovementFootprint`), settlement.rs (`plan_with_policy_internal`,
  `settle_with_policy_internal`, `overlap_slots_for_patch`, `overlap_slots_are_clean`,
  `append_recorded_entry`, `append_conflict_artifact`).

  Abstraction: a worldline state is a map `Slot → Option Nat` (node slot ↦ node type, alpha
  attachment slot ↦ atom value); a tick patch is `(in_slots, out_slots, ops)` with the three op kinds
  the harness programs can produce (`UpsertNode`, `DeleteNode` incl. its attachment mini-cascade,
  `SetAttachment`), each with its real failure condition (`MissingNode`). State roots are represented
  by the values of the tracked slot universe. Hash ids (plural artifact id, shell digest) are the
  tuples they are derived from. Braid-shell contents, postures other than shared/non-shared and
  support pins are not modelled (only "shell appended last / rolled back").
-/
set_option linter.unusedSimpArgs false
set_option linter.unusedVariables false

namespace EchoVerif.Settle

/-! ## slots, states, ops, patches -/

inductive Slot where
  | node (n : Nat)
  | att (n : Nat)
deriving DecidableEq, Repr

abbrev Val := Option Nat
abbrev St := Slot → Val

def St.set (σ : St) (s : Slot) (v : Val) : St := fun t => if t = s then v else σ t

/-- `WarpOp` restricted to the kinds a patch of the harness can contain. -/
inductive Op where
  | up (n ty : Nat)            -- UpsertNode
  | del (n : Nat)              -- DeleteNode (+ alpha attachment mini-cascade)
  | set (n : Nat) (v : Val)    -- SetAttachment(node alpha)
deriving DecidableEq, Repr

/-- `op_write_targets` -/
def Op.targets : Op → List Slot
  | .up n _ => [.node n]
  | .del n => [.node n, .att n]
  | .set n _ => [.att n]

/-- `apply_op_to_state`: `none` = `TickPatchError::MissingNode`. -/
def Op.apply (σ : St) : Op → Option St
  | .up n ty => some (σ.set (.node n) (some ty))
  | .del n => if (σ (.node n)).isSome then some ((σ.set (.node n) none).set (.att n) none) else none
  | .set n v => if (σ (.node n)).isSome then some (σ.set (.att n) v) else none

/-- `apply_ops_to_state` -/
def applyOps (σ : St) : List Op → Option St
  | [] => some σ
  | o :: os => match o.apply σ with
    | none => none
    | some σ' => applyOps σ' os

structure Patch where
  ins : List Slot
  outs : List Slot
  ops : List Op

def Patch.targets (p : Patch) : List Slot := p.ops.flatMap Op.targets

/-- Honesty of a patch (C14 for enforced ticks): every written slot is a declared out-slot. -/
def Patch.Honest (p : Patch) : Prop := ∀ s ∈ p.targets, s ∈ p.outs

def emptyPatch : Patch := { ins := [], outs := [], ops := [] }

/-! ## provenance entries -/

inductive Reason where
  | channelPolicy | unsupported | baseDivergence | overlap | quantum | pluralUpstream
deriving DecidableEq, Repr

inductive Kind where
  | localCommit (head : Nat)
  | mergeImport (srcWl srcTick : Nat)
  | conflictArtifact (reason : Reason) (srcWl srcTick : Nat)
  | pluralArtifact (srcWl srcTick : Nat)
deriving DecidableEq, Repr

def Kind.isLocal : Kind → Bool
  | .localCommit _ => true
  | _ => false

/-- `ProvenanceEntry` (the fields the planner and the fork read). `root` stands for
    `expected.state_root`: the values of the tracked slots after the entry. -/
structure Entry where
  wl : Nat
  kind : Kind
  patch : Option Patch
  root : List Val

/-- `rewrite_entry_for_fork` (the head key's worldline is `entry.wl` in this model). -/
def rewriteEntry (new : Nat) (e : Entry) : Entry := { e with wl := new }

def rootOf (univ : List Slot) (σ : St) : List Val := univ.map σ

/-- replay of a history prefix from the initial state: `replay_worldline_state_at`. -/
def replay (σ : St) : List Entry → Option St
  | [] => some σ
  | e :: es => match e.patch with
    | none => none
    | some p => match applyOps σ p.ops with
      | none => none
      | some σ' => replay σ' es

/-! ## harness programs (the data-driven rule of harness/src/c15.rs) -/

inductive Instr where
  | up (n ty : Nat)
  | del (n : Nat)
  | set (n v : Nat)
  | clr (n : Nat)
  | cp (s d : Nat)
deriving DecidableEq, Repr

structure Prog where
  instrs : List Instr
  xr : List Slot     -- extra declared reads
  xw : List Slot     -- extra declared writes
deriving DecidableEq, Repr

/-- ops the executor emits against the pre-state view -/
def Instr.emit (σ : St) : Instr → List Op
  | .up n ty => [.up n ty]
  | .del n => if (σ (.node n)).isSome then [.del n] else []
  | .set n v => if (σ (.node n)).isSome then [.set n (some v)] else []
  | .clr n => if (σ (.node n)).isSome then [.set n none] else []
  | .cp s d => if (σ (.node d)).isSome then [.set d (σ (.att s))] else []

/-- declared footprint: (reads, writes) -/
def Instr.reads : Instr → List Slot
  | .up _ _ => []
  | .del n => [.node n]
  | .set n _ => [.node n]
  | .clr n => [.node n]
  | .cp s d => [.node d, .att s]

def Instr.writes : Instr → List Slot
  | .up n _ => [.node n]
  | .del n => [.node n, .att n]
  | .set n _ => [.att n]
  | .clr n => [.att n]
  | .cp _ d => [.att d]

/-- node an instruction targets (programs must target pairwise distinct nodes) -/
def Instr.tgt : Instr → Nat
  | .up n _ => n | .del n => n | .set n _ => n | .clr n => n | .cp _ d => d

def distinctNats : List Nat → Bool
  | [] => true
  | x :: xs => !xs.contains x && distinctNats xs

def Prog.wellFormed (p : Prog) : Bool := distinctNats (p.instrs.map Instr.tgt)

/-- `diff_state` restricted to one emitted op: ops that change nothing are dropped. -/
def Op.effective (σ : St) : Op → Bool
  | .up n ty => σ (.node n) != some ty
  | .del _ => true
  | .set n v => σ (.att n) != v

def Op.rank : Op → Nat
  | .del _ => 0 | .up _ _ => 1 | .set _ _ => 2

/-- the committed tick patch: `in_slots`/`out_slots` from the declared footprint
    (`extend_slots_from_footprint`), ops = canonical diff of the tick. -/
def Prog.patch (σ : St) (p : Prog) : Patch :=
  let emitted := (p.instrs.flatMap (Instr.emit σ)).filter (Op.effective σ)
  let ws := p.instrs.flatMap Instr.writes ++ p.xw
  { ins := p.instrs.flatMap Instr.reads ++ p.xr ++ ws
    outs := ws
    ops := emitted.filter (fun o => o.rank == 0) ++ emitted.filter (fun o => o.rank == 1)
            ++ emitted.filter (fun o => o.rank == 2) }

/-! ## runtime + provenance -/

structure LaneRt where
  state : St
  pending : Option Prog
  head : Nat

structure Strand where
  parent : Nat
  forkTick : Nat
  child : Nat
  head : Nat
  shared : Bool
deriving DecidableEq, Repr

/-- shell digest ≙ (strand, target, target length at plan time); plural id ≙ (target, source
    worldline, source tick, canonical overlap slots) under the one plural policy of the harness. -/
abbrev ShellKey := Nat × Nat × Nat
abbrev PluralKey := Nat × Nat × Nat × List Slot

structure Rt where
  lanes : List (Nat × LaneRt)
  strands : List (Nat × Strand)
  gtick : Nat

structure Pv where
  hists : List (Nat × List Entry)
  shells : List ShellKey
  plurals : List PluralKey

def lookup {α : Type} (k : Nat) : List (Nat × α) → Option α
  | [] => none
  | (k', v) :: rest => if k' = k then some v else lookup k rest

def setKV {α : Type} (k : Nat) (v : α) : List (Nat × α) → List (Nat × α)
  | [] => [(k, v)]
  | (k', v') :: rest => if k' = k then (k, v) :: rest else (k', v') :: setKV k v rest

/-! ## a scheduler pass restricted to what C15 needs (C09 owns the pass itself) -/

def insertSorted (k : Nat) : List Nat → List Nat
  | [] => [k]
  | x :: xs => if k ≤ x then k :: x :: xs else x :: insertSorted k xs

def sortNats (l : List Nat) : List Nat := l.foldr insertSorted []

/-- commit of one head: run the program on the frontier, append the local commit. -/
def commitLane (univ : List Slot) (w : Nat) (s : Rt × Pv) : Rt × Pv :=
  match lookup w s.1.lanes, lookup w s.2.hists with
  | some l, some h =>
    match l.pending with
    | none => s
    | some prog =>
      let p := prog.patch l.state
      match applyOps l.state p.ops with
      | none => s    -- unreachable: the executor's guards make every emitted op applicable
      | some σ' =>
        let e : Entry := { wl := w, kind := .localCommit l.head, patch := some p, root := rootOf univ σ' }
        ({ s.1 with lanes := setKV w { l with state := σ', pending := none } s.1.lanes },
         { s.2 with hists := setKV w (h ++ [e]) s.2.hists })
  | _, _ => s

/-- `super_tick`: heads in ascending key order, global tick +1. -/
def pass (univ : List Slot) (rt : Rt) (pv : Pv) : Rt × Pv :=
  let keys := sortNats (rt.lanes.map (·.1))
  let s := keys.foldl (fun s w => commitLane univ w s) (rt, pv)
  ({ s.1 with gtick := s.1.gtick + 1 }, s.2)

inductive IngOut where
  | accepted | busy | unknown
deriving DecidableEq, Repr

def ingest (w : Nat) (prog : Prog) (rt : Rt) : IngOut × Rt :=
  match lookup w rt.lanes with
  | none => (.unknown, rt)
  | some l => match l.pending with
    | some _ => (.busy, rt)
    | none => (.accepted, { rt with lanes := setKV w { l with pending := some prog } rt.lanes })

/-! ## fork_strand -/

inductive ForkErr where
  | unknownWorldline | tick | dupWorldline | dupStrand | replay
deriving DecidableEq, Repr

structure ForkReq where
  sid : Nat
  src : Nat
  tick : Nat
  child : Nat
  head : Nat
  shared : Bool

structure ForkReceipt where
  sid : Nat
  src : Nat
  tick : Nat
  child : Nat
  head : Nat
  basisRoot : List Val     -- `fork_basis_ref.boundary_hash`

def fork (init : St) (rq : ForkReq) (rt : Rt) (pv : Pv) : Except ForkErr (Rt × Pv × ForkReceipt) :=
  match lookup rq.src rt.lanes, lookup rq.src pv.hists with
  | some _, some h =>
    -- `replay_worldline_state_at(source, fork_tick)`
    if rq.tick > h.length then .error .tick
    -- `provenance.fork`
    else if (lookup rq.child pv.hists).isSome then .error .dupWorldline
    else if rq.tick ≥ h.length then .error .tick
    else
      let ch := (h.take (rq.tick + 1)).map (rewriteEntry rq.child)
      match replay init ch, h[rq.tick]? with
      | some σ, some be =>
        -- `register_worldline` / `register_strand`
        if (lookup rq.child rt.lanes).isSome then .error .dupWorldline
        else if (lookup rq.sid rt.strands).isSome then .error .dupStrand
        else
          let lane : LaneRt := { state := σ, pending := none, head := rq.head }
          let st : Strand := { parent := rq.src, forkTick := rq.tick, child := rq.child, head := rq.head,
                               shared := rq.shared }
          .ok ({ rt with lanes := rt.lanes ++ [(rq.child, lane)], strands := rt.strands ++ [(rq.sid, st)] },
               { pv with hists := pv.hists ++ [(rq.child, ch)] },
               { sid := rq.sid, src := rq.src, tick := rq.tick, child := rq.child, head := rq.head,
                 basisRoot := be.root })
      | _, _ => .error .replay
  | _, _ => .error .unknownWorldline

/-! ## live-basis report (strand.rs) -/

inductive Basis where
  | atAnchor
  | disjoint
  | reval (slots : List Slot)
deriving DecidableEq, Repr

def Basis.overlap : Basis → Option (List Slot)
  | .reval s => some s
  | _ => none

def patchesOf (es : List Entry) : List Patch := es.filterMap (·.patch)

/-- `collect_parent_movement`: out-slots of parent entries after the anchor. -/
def movement (parentSuffix : List Entry) : List Slot := (patchesOf parentSuffix).flatMap (·.outs)

/-- `collect_divergence_footprint`, closed (reads ∪ writes). -/
def closedFootprint (childSuffix : List Entry) : List Slot :=
  (patchesOf childSuffix).flatMap (fun p => p.ins ++ p.outs)

def liveBasis (st : Strand) (parent child : List Entry) : Basis :=
  if parent.length = st.forkTick + 1 then .atAnchor
  else
    let closed := closedFootprint (child.drop (st.forkTick + 1))
    let ov := (movement (parent.drop (st.forkTick + 1))).filter (fun s => closed.contains s)
    if ov.isEmpty then .disjoint else .reval ov

/-! ## planner (settlement.rs: plan_with_policy_internal) -/

inductive Reval where
  | clean (slots : List Slot)
  | obstructed (slots : List Slot)
  | conflict (slots : List Slot)
deriving DecidableEq, Repr

inductive Decision where
  | imp (srcTick : Nat) (root : List Val) (rev : Option Reval)
  | conf (srcTick : Nat) (reason : Reason) (rev : Option Reval)
  | plur (srcTick : Nat) (slots : List Slot)
deriving DecidableEq, Repr

def Decision.isImport : Decision → Bool
  | .imp _ _ _ => true
  | _ => false

structure PlanAcc where
  sim : St
  blocked : Option Reason
  tick : Nat

/-- `overlap_slots_for_patch` -/
def entryOverlap (basis : Basis) (p : Patch) : List Slot :=
  match basis.overlap with
  | none => []
  | some slots => slots.filter (fun s => p.ins.contains s || p.outs.contains s)

/-- one iteration of the planner loop. The `BaseDivergence` arm of the Rust is unreachable
    (at the anchor the frontier tick equals the suffix start and the tip is the fork basis; both are
    implied by `ensure_frontier_matches_provenance` + append-only history) and is omitted. -/
def planStep (univ : List Slot) (plural : Bool) (basis : Basis) (a : PlanAcc) (e : Entry) : PlanAcc × Decision :=
  let next := a.tick + 1
  let reason : Option Reason := match a.blocked with
    | some r => some r
    | none => if e.kind.isLocal then none else some .unsupported
  match reason with
  | some r => ({ a with blocked := some r, tick := next }, .conf a.tick r none)
  | none =>
    match e.patch with
    | none => ({ a with blocked := some .unsupported, tick := next }, .conf a.tick .unsupported none)
    | some p =>
      let eo := entryOverlap basis p
      match applyOps a.sim p.ops with
      | none =>
        let r : Reason := if eo.isEmpty then .unsupported else .overlap
        let rev := if eo.isEmpty then none else some (Reval.obstructed eo)
        ({ a with blocked := some r, tick := next }, .conf a.tick r rev)
      | some cand =>
        if basis = .atAnchor && rootOf univ cand != e.root then
          ({ a with blocked := some .unsupported, tick := next }, .conf a.tick .unsupported none)
        else if eo.isEmpty then
          ({ a with sim := cand, tick := next }, .imp a.tick (rootOf univ cand) none)
        else if eo.all (fun s => a.sim s == cand s) then
          ({ a with sim := cand, tick := next }, .imp a.tick (rootOf univ cand) (some (.clean eo)))
        else if plural then
          ({ a with blocked := some .pluralUpstream, tick := next }, .plur a.tick eo)
        else
          ({ a with blocked := some .overlap, tick := next }, .conf a.tick .overlap (some (.conflict eo)))

/-- the planner loop over the suffix entries, in order -/
def planGo (univ : List Slot) (plural : Bool) (basis : Basis) : PlanAcc → List Entry → List Decision × PlanAcc
  | a, [] => ([], a)
  | a, e :: es =>
    let r := planStep univ plural basis a e
    let rest := planGo univ plural basis r.1 es
    (r.2 :: rest.1, rest.2)

inductive SettleErr where
  | strandNotFound | nonShared | unknownWorldline | gtickOverflow | apply | rootMismatch
  | missingPatch | shell | pluralBound
deriving DecidableEq, Repr

structure Plan where
  sid : Nat
  target : Nat
  source : Nat
  targetLen : Nat
  basis : Basis
  decisions : List Decision
  finalSim : St

def planLoop (univ : List Slot) (plural : Bool) (basis : Basis) (σ : St) (start : Nat) (suffix : List Entry) :
    List Decision × PlanAcc :=
  planGo univ plural basis { sim := σ, blocked := none, tick := start } suffix

def plan (univ : List Slot) (plural : Bool) (sid : Nat) (rt : Rt) (pv : Pv) : Except SettleErr Plan :=
  match lookup sid rt.strands with
  | none => .error .strandNotFound
  | some st =>
    if !st.shared then .error .nonShared
    else match lookup st.parent rt.lanes, lookup st.parent pv.hists, lookup st.child pv.hists with
      | some pl, some ph, some ch =>
        let basis := liveBasis st ph ch
        let acc := planLoop univ plural basis pl.state (st.forkTick + 1) (ch.drop (st.forkTick + 1))
        .ok { sid := sid, target := st.parent, source := st.child, targetLen := ph.length, basis := basis,
              decisions := acc.1, finalSim := acc.2.sim }
      | _, _, _ => .error .unknownWorldline

/-! ## settlement execution (settle_with_policy_internal) -/

/-- failure injection: `before k` = `advance_global_tick` overflows before decision `k`
    (honestly reachable with the global tick at `MAX - k`); `shell` = shell assembly refuses
    (honestly reachable with an all-zero policy id). -/
inductive Fail where
  | none | before (k : Nat) | shell
deriving DecidableEq, Repr

/-- `append_recorded_entry` on the target worldline -/
def appendRecorded (univ : List Slot) (target : Nat) (kind : Kind) (p : Patch) (expected : Option (List Val))
    (s : Rt × Pv) : Except SettleErr (Rt × Pv) :=
  match lookup target s.1.lanes, lookup target s.2.hists with
  | some l, some h =>
    match applyOps l.state p.ops with
    | none => .error .apply
    | some σ' =>
      let r := rootOf univ σ'
      if expected.isSome && expected != some r then .error .rootMismatch
      else
        let e : Entry := { wl := target, kind := kind, patch := some p, root := r }
        .ok ({ s.1 with lanes := setKV target { l with state := σ' } s.1.lanes },
             { s.2 with hists := setKV target (h ++ [e]) s.2.hists })
  | _, _ => .error .unknownWorldline

def execDecision (univ : List Slot) (pl : Plan) (d : Decision) (s : Rt × Pv) : Except SettleErr (Rt × Pv) :=
  let s1 : Rt × Pv := ({ s.1 with gtick := s.1.gtick + 1 }, s.2)
  match d with
  | .imp t root _ =>
    match (lookup pl.source s1.2.hists).bind (fun h => h[t]?) with
    | none => .error .unknownWorldline
    | some se => match se.patch with
      | none => .error .missingPatch
      | some p => appendRecorded univ pl.target (.mergeImport pl.source t) p (some root) s1
  | .conf t r _ => appendRecorded univ pl.target (.conflictArtifact r pl.source t) emptyPatch none s1
  | .plur t _ => appendRecorded univ pl.target (.pluralArtifact pl.source t) emptyPatch none s1

/-- the decision loop at the level of its MUTATIONS: returns the (possibly half-way) mutated runtime and
    provenance together with the failure, so that the rollback is a real operation on a dirty state. -/
def execLoop (univ : List Slot) (pl : Plan) (fail : Fail) :
    Nat → List Decision → Rt × Pv → Option SettleErr × (Rt × Pv)
  | _, [], s => (none, s)
  | i, d :: ds, s =>
    if fail = .before i then (some .gtickOverflow, s)
    else match execDecision univ pl d s with
      | .error e => (some e, s)
      | .ok s' => execLoop univ pl fail (i + 1) ds s'

def pluralKeyOf (univ : List Slot) (pl : Plan) : List PluralKey :=
  pl.decisions.filterMap (fun d => match d with
    | .plur t slots => some (pl.target, pl.source, t, univ.filter (fun s => slots.contains s))
    | _ => none)

def appendShell (univ : List Slot) (pl : Plan) (fail : Fail) (pv : Pv) : Except SettleErr Pv :=
  if fail = .shell then .error .shell
  else
    let key : ShellKey := (pl.sid, pl.target, pl.targetLen)
    let pks := pluralKeyOf univ pl
    if pv.shells.contains key then .ok pv
    else if pks.any (fun k => pv.plurals.contains k) then .error .pluralBound
    else .ok { pv with shells := pv.shells ++ [key], plurals := pv.plurals ++ pks }

structure ProvCheckpoint where
  target : Nat
  len : Nat
  shells : List ShellKey
  plurals : List PluralKey

def checkpointFor (target : Nat) (pv : Pv) : Option ProvCheckpoint :=
  (lookup target pv.hists).map (fun h =>
    { target := target, len := h.length, shells := pv.shells, plurals := pv.plurals })

/-- `ProvenanceService::restore`: truncate the touched worldline, prune shells and plural bindings. -/
def restoreProv (cp : ProvCheckpoint) (pv : Pv) : Pv :=
  { hists := match lookup cp.target pv.hists with
      | some h => setKV cp.target (h.take cp.len) pv.hists
      | none => pv.hists
    shells := pv.shells.filter (fun k => cp.shells.contains k)
    plurals := pv.plurals.filter (fun k => cp.plurals.contains k) }

structure SettleOk where
  plan : Plan
  imports : Nat
  conflicts : Nat
  plurals : Nat
  shell : Bool

def countP (f : Decision → Bool) (ds : List Decision) : Nat := (ds.filter f).length

def settle (univ : List Slot) (plural : Bool) (fail : Fail) (sid : Nat) (rt : Rt) (pv : Pv) :
    Except SettleErr SettleOk × Rt × Pv :=
  match plan univ plural sid rt pv with
  | .error e => (.error e, rt, pv)
  | .ok pl =>
    if pl.decisions.isEmpty then
      (.ok { plan := pl, imports := 0, conflicts := 0, plurals := 0, shell := false }, rt, pv)
    else
      match checkpointFor pl.target pv with
      | none => (.error .unknownWorldline, rt, pv)
      | some cp =>
        -- `runtime_before = runtime.clone()`; the closure mutates `runtime` / `provenance` in place
        let r := execLoop univ pl fail 0 pl.decisions (rt, pv)
        let dirty : Option SettleErr × (Rt × Pv) :=
          match r.1 with
          | some e => (some e, r.2)
          | none => match appendShell univ pl fail r.2.2 with
            | .error e => (some e, r.2)
            | .ok pv' => (none, (r.2.1, pv'))
        match dirty.1 with
        | none =>
          (.ok { plan := pl, imports := countP Decision.isImport pl.decisions,
                 conflicts := countP (fun d => match d with | .conf _ _ _ => true | _ => false) pl.decisions,
                 plurals := countP (fun d => match d with | .plur _ _ => true | _ => false) pl.decisions,
                 shell := true }, dirty.2.1, dirty.2.2)
        | some e => (.error e, rt, restoreProv cp dirty.2.2)

end EchoVerif.Settle
