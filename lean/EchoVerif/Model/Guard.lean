/-
  EchoVerif.Model.Guard — model of footprint enforcement (property C14):
  `footprint_guard.rs` (`FootprintGuard::new`, `check_node_read`, `check_edge_read`,
  `check_attachment_read`, `check_op` over the generated table `op_write_targets`),
  `graph_view.rs` (`GraphView::new_guarded`: which accessor checks which declared set),
  `parallel/exec.rs` (`execute_item_enforced`, the worker loop of `execute_work_queue`, poisoning)
  and the failure path of `engine_impl.rs::merge_parallel_deltas` (a poisoned worker aborts the
  tick before any op is applied).

  Rule bodies are the harness's data-driven interpreter rule (DESIGN Appendix B, reduced):
  guarded reads, unconditional / conditional emits, an executor panic.
-/
import EchoVerif.Generated.WriteTargets

namespace EchoVerif
namespace Guard
open Graph Generated

/-- `Footprint` (graph part): warp-scoped node / edge keys and attachment keys. -/
structure Footprint where
  nRead : List (Nat × Nat)
  nWrite : List (Nat × Nat)
  eRead : List (Nat × Nat)
  eWrite : List (Nat × Nat)
  aRead : List AttKey
  aWrite : List AttKey
  deriving DecidableEq, Repr

/-- `FootprintGuard`: local ids of one warp. -/
structure Guard where
  warp : Nat
  nodesRead : List Nat
  nodesWrite : List Nat
  edgesRead : List Nat
  edgesWrite : List Nat
  attRead : List AttKey
  attWrite : List AttKey
  isSystem : Bool
  deriving DecidableEq, Repr

/-- `FootprintGuard::new`: `none` = the cross-warp-entry assertion fires (a plain panic, not a
    violation); otherwise the sets filtered to the warp, as local ids. -/
def mkGuard (fp : Footprint) (warp : Nat) (isSystem : Bool) : Option Guard :=
  let okN (l : List (Nat × Nat)) := l.all (fun k => k.1 == warp)
  let okA (l : List AttKey) := l.all (fun k => ownerWarpId k.owner == warp)
  if okN fp.nRead && okN fp.nWrite && okN fp.eRead && okN fp.eWrite && okA fp.aRead && okA fp.aWrite then
    some { warp, nodesRead := fp.nRead.map (·.2), nodesWrite := fp.nWrite.map (·.2),
           edgesRead := fp.eRead.map (·.2), edgesWrite := fp.eWrite.map (·.2),
           attRead := fp.aRead, attWrite := fp.aWrite, isSystem }
  else none

inductive VKind where
  | nodeRead (id : Nat)
  | edgeRead (id : Nat)
  | attRead (k : AttKey)
  | nodeWrite (id : Nat)
  | edgeWrite (id : Nat)
  | attWrite (k : AttKey)
  | crossWarp (opWarp : Nat)
  | unauthorizedInstanceOp
  | opWarpUnknown
  deriving DecidableEq, Repr

/-- `FootprintViolation` (minus rule name / guard warp). -/
structure Violation where
  kind : VKind
  opKind : String
  deriving DecidableEq, Repr

/-- One guarded `GraphView` access. -/
structure Read where
  acc : Accessor
  id : Nat
  deriving DecidableEq, Repr

/-- The attachment key a guarded attachment accessor builds (`store.warp_id()` = guard warp). -/
def Read.attKey (g : Guard) (r : Read) : AttKey :=
  if accessorNodeKey r.acc then AttKey.nodeAlpha g.warp r.id else AttKey.edgeBeta g.warp r.id

/-- `GraphView::{node, edges_from, node_attachment, edge_attachment, has_edge}` with a guard. -/
def checkRead (g : Guard) (r : Read) : Option Violation :=
  match accessorSet r.acc with
  | .nodes => if r.id ∈ g.nodesRead then none else some ⟨.nodeRead r.id, readLabel r.acc⟩
  | .edges => if r.id ∈ g.edgesRead then none else some ⟨.edgeRead r.id, readLabel r.acc⟩
  | .atts => if r.attKey g ∈ g.attRead then none else some ⟨.attRead (r.attKey g), readLabel r.acc⟩

def firstMissing {α : Type} [DecidableEq α] (decl : List α) : List α → Option α
  | [] => none
  | x :: xs => if x ∈ decl then firstMissing decl xs else some x

/-- `FootprintGuard::check_op`. -/
def checkOp (g : Guard) (o : Op) : Option Violation :=
  let t := opTargets o
  let k := opKindStr o.tag
  if t.inst && !g.isSystem then some ⟨.unauthorizedInstanceOp, k⟩ else
  let warpBad : Option Violation :=
    match t.warp with
    | some w => if w ≠ g.warp then some ⟨.crossWarp w, k⟩ else none
    | none => if !t.inst then some ⟨.opWarpUnknown, k⟩ else none
  match warpBad with
  | some v => some v
  | none =>
    match firstMissing g.nodesWrite t.nodes with
    | some n => some ⟨.nodeWrite n, k⟩
    | none =>
      match firstMissing g.edgesWrite t.edges with
      | some e => some ⟨.edgeWrite e, k⟩
      | none =>
        match firstMissing g.attWrite t.atts with
        | some a => some ⟨.attWrite a, k⟩
        | none => none

/-- `FootprintGuard::check_op_in` (what `execute_item_enforced` runs on every emitted op, `st` = the
    pre-state store of the guard's warp): `check_op`, then the previous source of an edge the op
    moves (`moved_edge_previous_source`) must be a declared node write too. -/
def checkOpIn (g : Guard) (st : Store) (o : Op) : Option Violation :=
  match checkOp g o with
  | some v => some v
  | none =>
    match movedPrev g.warp st o with
    | some n => if n ∈ g.nodesWrite then none else some ⟨.nodeWrite n, opKindStr o.tag⟩
    | none => none

/-! ### the interpreter rule -/

inductive Cond where
  | nodeExists (id : Nat)
  | hasEdge (id : Nat)
  deriving DecidableEq, Repr

def Cond.read : Cond → Read
  | .nodeExists id => ⟨.node, id⟩
  | .hasEdge id => ⟨.hasEdge, id⟩

def Cond.eval (st : Store) : Cond → Bool
  | .nodeExists id => (SMap.find? id st.nodes).isSome
  | .hasEdge id => (SMap.find? id st.edges).isSome

inductive Instr where
  | read (r : Read)
  | emit (o : Op)
  | emitIf (c : Cond) (o : Op)
  | panic
  deriving DecidableEq, Repr

/-- Why the executor stopped early. -/
inductive Halt where
  | readViolation (v : Violation)
  | userPanic
  deriving DecidableEq, Repr

/-- The executor body under a guarded view: ops emitted so far, and the panic (if any). -/
def exec (g : Guard) (st : Store) : List Instr → List Op → List Op × Option Halt
  | [], acc => (acc, none)
  | .read r :: rest, acc =>
    match checkRead g r with
    | some v => (acc, some (.readViolation v))
    | none => exec g st rest acc
  | .emit o :: rest, acc => exec g st rest (acc ++ [o])
  | .emitIf c o :: rest, acc =>
    match checkRead g c.read with
    | some v => (acc, some (.readViolation v))
    | none => if c.eval st then exec g st rest (acc ++ [o]) else exec g st rest acc
  | .panic :: _, acc => (acc, some .userPanic)

def firstBadOp (g : Guard) (st : Store) : List Op → Option Violation
  | [] => none
  | o :: os => match checkOpIn g st o with
    | some v => some v
    | none => firstBadOp g st os

inductive ItemResult where
  | ok (ops : List Op)
  /-- `withPanic` = payload `FootprintViolationWithPanic` (executor panicked *and* an emitted op
      violates); otherwise a plain `FootprintViolation`. -/
  | violation (v : Violation) (withPanic : Bool)
  /-- executor panic without any write violation: poisoned with the executor's own payload -/
  | panicked
  deriving DecidableEq, Repr

def ItemResult.isOk : ItemResult → Bool
  | .ok _ => true
  | _ => false

/-- `execute_item_enforced` for one item. -/
def runItem (g : Guard) (st : Store) (prog : List Instr) : ItemResult :=
  let r := exec g st prog []
  match r.2, firstBadOp g st r.1 with
  | none, none => .ok r.1
  | some (.readViolation v), none => .violation v false
  | some .userPanic, none => .panicked
  | none, some v => .violation v false
  | some _, some v => .violation v true

/-! ### the tick: workers, poisoning, no commit -/

structure Item where
  guard : Guard
  prog : List Instr
  deriving Repr

inductive WorkerOut where
  | success (ops : List Op)
  | poisoned (r : ItemResult)
  | missingStore (w : Nat)
  deriving Repr

def WorkerOut.isSuccess : WorkerOut → Bool
  | .success _ => true
  | _ => false

def WorkerOut.ops? : WorkerOut → Option (List Op)
  | .success ops => some ops
  | _ => none

/-- One worker of `execute_work_queue`: the items of the units it claimed, in claim order,
    executed serially against the immutable pre-state; fail-fast on the first non-ok item. -/
def runWorker (s : WState) : List Item → List Op → WorkerOut
  | [], acc => .success acc
  | it :: rest, acc =>
    match s.store? it.guard.warp with
    | none => .missingStore it.guard.warp
    | some st =>
      match runItem it.guard st it.prog with
      | .ok ops => runWorker s rest (acc ++ ops)
      | r => .poisoned r

inductive TickOut where
  | committed (s' : WState)
  | failed
  deriving Repr

/-- `apply_reserved_rewrites`: run every worker, and only if none is poisoned / missing a store
    hand the deltas to merge-and-apply (`commit`, abstract: may itself fail). -/
def runTick (commit : WState → List (List Op) → Option WState) (s : WState)
    (workers : List (List Item)) : TickOut :=
  let outs := workers.map (fun l => runWorker s l [])
  if outs.all WorkerOut.isSuccess then
    match commit s (outs.filterMap WorkerOut.ops?) with
    | some s' => .committed s'
    | none => .failed
  else .failed

/-- The engine state a caller can observe after the tick attempt. -/
def visible (s : WState) : TickOut → WState
  | .committed s' => s'
  | .failed => s

/-! ### observable locations (what a guarded view can see) -/

inductive Loc where
  | node (w i : Nat)       -- node record, `GraphView::node`
  | adj (w n : Nat)        -- outgoing edge set of `n`, `GraphView::edges_from`
  | edge (w e : Nat)       -- edge existence / record, `GraphView::has_edge`
  | natt (w i : Nat)       -- `GraphView::node_attachment`
  | eatt (w e : Nat)       -- `GraphView::edge_attachment`
  deriving DecidableEq, Repr

def Loc.warp : Loc → Nat
  | .node w _ | .adj w _ | .edge w _ | .natt w _ | .eatt w _ => w

/-- A declared node write covers the node record and its outgoing adjacency; an edge write the edge;
    an attachment key its slot. -/
def covers (t : Targets) : Loc → Bool
  | .node w i => t.warp == some w && t.nodes.contains i
  | .adj w n => t.warp == some w && t.nodes.contains n
  | .edge w e => t.warp == some w && t.edges.contains e
  | .natt w i => t.atts.contains (AttKey.nodeAlpha w i)
  | .eatt w e => t.atts.contains (AttKey.edgeBeta w e)

/-- Instance-level ops are attributed at instance granularity: the instance the op creates
    (`collect_new_warps`) or replaces / deletes (`extract_target_warp`). -/
def instWarps (o : Op) : List Nat :=
  if (opTargets o).inst then (newWarp o).toList ++ (mergeTargetWarp o).toList else []

def covered (o : Op) (l : Loc) : Bool :=
  covers (opTargets o) l || (instWarps o).contains l.warp

/-- The state-dependent target: the outgoing adjacency of the previous source of a moved edge. -/
def movedAdj (s : WState) (o : Op) (l : Loc) : Bool :=
  match l with
  | .adj w n =>
    match s.store? w with
    | some st => movedPrev w st o == some n
    | none => false
  | _ => false

/-- Attribution used by enforcement on the pre-state `s`: `op_write_targets` (instance-level ops at
    instance granularity) plus `moved_edge_previous_source`. -/
def coveredIn (s : WState) (o : Op) (l : Loc) : Bool :=
  covered o l || movedAdj s o l

end Guard
end EchoVerif
