/-
  EchoVerif.Model.WalIntegrity — the integrity side of WAL recovery (C11), on top of Model/Wal.lean.

  * `recoverLoopT` / `recoverFCT`: `recover_from_frames_and_commits` AS IT IS NOW, i.e. with the
    commit-marker tiling check of /repo commit 891bbae ("WAL recovery requires commit markers to tile
    the frame LSN sequence"): each marker must start right after the previously recovered LSN range,
    the first one at the smallest frame LSN.  (`Wal.recoverLoop` is the pre-fix loop.)
  * the two byte-level entry points on top of it, the doctor posture, the manifest agreement check
    (`validate_filesystem_manifest`) and the envelope of the writer-epoch ledger file.
  * structural edits of a record list (delete / duplicate / move / swap) — what the C11 theorems and
    the correspondence streams quantify over.
-/
import EchoVerif.Model.Wal

namespace EchoVerif.Wal

/-- `frames.iter().map(|f| f.header.lsn).min()` -/
def minLsn : List Frame → Option Nat
  | [] => none
  | f :: fs =>
    match minLsn fs with
    | none => some f.header.lsn
    | some m => some (min f.header.lsn m)

/-- `Lsn::checked_next` -/
def checkedNext (l : Nat) : Option Nat := if l = u64Max then none else some (l + 1)

/-- `expected_first_lsn` of the tiling check -/
def expectedFirst (frames : List Frame) : Option Nat → Option Nat
  | some l => checkedNext l
  | none => minLsn frames

/-- the loop over commit markers of the FIXED `recover_from_frames_and_commits`; the state is
    `last_committed_lsn`; returns the recovered transactions and the final `last_committed_lsn` -/
def recoverLoopT (cfg : Cfg) (H : HashFn) (frames : List Frame) :
    Option Nat → List Commit → Except VErr (List RecoveredTx × Option Nat)
  | last, [] => .ok ([], last)
  | last, c :: cs =>
    if expectedFirst frames last ≠ some c.firstLsn then .error .lsnContinuity
    else
      let sel := selectFrames frames c
      match validateTx cfg H sel c with
      | .error e => .error e
      | .ok _ =>
        match recoverLoopT cfg H frames (some c.lastLsn) cs with
        | .error e => .error e
        | .ok (txs, l) => .ok (⟨c, sel⟩ :: txs, l)

/-- `recover_from_frames_and_commits` (current code) -/
def recoverFCT (cfg : Cfg) (H : HashFn) (frames : List Frame) (commits : List Commit) (mode : Mode) :
    Except VErr Report :=
  match validateFrameOrder cfg H frames with
  | .error e => .error e
  | .ok _ =>
    match recoverLoopT cfg H frames none commits with
    | .error e => .error e
    | .ok (txs, last) =>
      let tailExists := frames.any (fun f => match last with | none => true | some l => f.header.lsn > l)
      .ok { txs, tail := if tailExists then tailOf mode last else .clean }

/-- `recover_wal_segment_bytes` (current code): (segment digest, report) -/
def recoverSegmentBytesT (cfg : Cfg) (H : HashFn) (segmentId : Nat) (bs : Bytes) (mode : Mode) :
    Except RErr (Bytes × Report) :=
  match scan cfg H (decodeRec cfg H) bs with
  | .error e => .error e
  | .ok (recs, torn) =>
    let frames := framesOf recs
    match firstSegmentMismatch segmentId frames with
    | some actual => .error (.segment segmentId actual)
    | none =>
      match recoverFCT cfg H frames (commitsOf recs) mode with
      | .error e => .error (.validation e)
      | .ok r => .ok (segmentDigest cfg H segmentId frames, applyTorn mode torn r)

/-- `recover_filesystem_store` (current code) for a root with one segment file -/
def recoverFilesystemT (cfg : Cfg) (H : HashFn) (bs : Bytes) (mode : Mode) : Except RErr Report :=
  match scan cfg H (decodeRec cfg H) bs with
  | .error e => .error e
  | .ok (recs, torn) =>
    let frames := sortBy (fun f => f.header.lsn) (framesOf recs)
    let commits := sortBy (fun c => c.lastLsn) (commitsOf recs)
    match recoverFCT cfg H frames commits mode with
    | .error e => .error (.validation e)
    | .ok r => .ok (applyTorn mode torn r)

/-! ### `doctor_filesystem_store` -/

inductive Doctor where
  | recoverable | recoverableWithTail | obstructed
  deriving DecidableEq, Repr

/-- posture of `doctor_filesystem_store`: read-only recovery, any error ⇒ `Obstructed` -/
def doctor (cfg : Cfg) (H : HashFn) (bs : Bytes) : Doctor :=
  match recoverFilesystemT cfg H bs .readOnly with
  | .error _ => .obstructed
  | .ok r =>
    match r.tail with
    | .clean => .recoverable
    | .wouldTruncateAll | .wouldTruncateAfter _ => .recoverableWithTail
    | .truncatedAll | .truncatedAfter _ => .obstructed

/-! ### `validate_filesystem_manifest` -/

structure Manifest where
  digest : Bytes
  lastLsn : Option Nat
  lastCommitDigest : Option Bytes
  segCount : Nat
  deriving DecidableEq, Repr

inductive MErr where
  | missing | decode (e : DErr) | store (e : RErr) | uncommittedTail | segCount | lastLsn | lastDigest
  deriving DecidableEq, Repr

def rdOptLsn : Rd (Option Nat) := fun bs =>
  match rdLE 1 bs with
  | .error e => .error e
  | .ok (0, rest) => .ok (none, rest)
  | .ok (1, rest) =>
    match rdLE 8 rest with
    | .error e => .error e
    | .ok (n, rest') => .ok (some n, rest')
  | .ok (c, _) => .error (.enumCode "Option<Lsn>" c)

def rdOptHash : Rd (Option Bytes) := fun bs =>
  match rdLE 1 bs with
  | .error e => .error e
  | .ok (0, rest) => .ok (none, rest)
  | .ok (1, rest) =>
    match rdBytes 32 rest with
    | .error e => .error e
    | .ok (h, rest') => .ok (some h, rest')
  | .ok (c, _) => .error (.enumCode "Option<Hash>" c)

/-- `decode_manifest` -/
def decodeManifest (bs : Bytes) : Except DErr Manifest :=
  let p : Rd Manifest := do
    let digest ← rdBytes 32
    let lastLsn ← rdOptLsn
    let lastCommitDigest ← rdOptHash
    let segCount ← rdLE 8
    rdFinish
    pure { digest, lastLsn, lastCommitDigest, segCount }
  match p bs with
  | .error e => .error e
  | .ok (m, _) => .ok m

/-- `encode_manifest` -/
def encodeManifest (m : Manifest) : Bytes :=
  m.digest
    ++ (match m.lastLsn with | some l => byte 1 ++ u64 l | none => byte 0)
    ++ (match m.lastCommitDigest with | some d => byte 1 ++ d | none => byte 0)
    ++ u64 m.segCount

def maxLast : List Commit → Option Nat
  | [] => none
  | c :: cs =>
    match maxLast cs with
    | none => some c.lastLsn
    | some m => some (max c.lastLsn m)

/-- `validate_filesystem_manifest` for a root with one segment file (`segFiles` = number of segment
    files found) and the manifest file contents (`none` = no manifest file) -/
def validateManifest (cfg : Cfg) (H : HashFn) (manifestFile : Option Bytes) (segFiles : Nat) (bs : Bytes) :
    Except MErr Unit :=
  match manifestFile with
  | none => .error .missing
  | some mb =>
    match decodeManifest mb with
    | .error e => .error (.decode e)
    | .ok m =>
      match scan cfg H (decodeRec cfg H) bs with
      | .error e => .error (.store e)
      | .ok (recs, torn) =>
        let frames := sortBy (fun f => f.header.lsn) (framesOf recs)
        let commits := sortBy (fun c => c.lastLsn) (commitsOf recs)
        if torn then .error .uncommittedTail
        else
          let last := maxLast commits
          if frames.any (fun f => match last with | none => true | some l => f.header.lsn > l) then
            .error .uncommittedTail
          else if m.segCount ≠ segFiles then .error .segCount
          else if m.lastLsn ≠ last then .error .lastLsn
          else if m.lastCommitDigest ≠ commits.getLast?.map (fun c => c.commitDigest) then .error .lastDigest
          else .ok ()

/-! ### the envelope of the writer-epoch ledger file (`read_writer_epoch_ledger`) -/

inductive LErr where
  | eof | magic | trailing | digest
  deriving DecidableEq, Repr

/-- `magic(8) ‖ len u64 ‖ payload ‖ digest(32)`, digest = `H(domain ‖ u64 len ‖ payload)`; returns the
    payload handed to `decode_writer_epoch_ledger` -/
def readLedgerEnvelope (H : HashFn) (magic domain : Bytes) (bs : Bytes) : Except LErr Bytes :=
  if bs.length < magic.length then .error .eof
  else if bs.take magic.length ≠ magic then .error .magic
  else
    let r1 := bs.drop magic.length
    if r1.length < 8 then .error .eof
    else
      let len := leNat (r1.take 8)
      let r2 := r1.drop 8
      if r2.length < len then .error .eof
      else
        let payload := r2.take len
        let r3 := r2.drop len
        if r3.length < 32 then .error .eof
        else if r3.length ≠ 32 then .error .trailing
        else if r3 ≠ H (domain ++ u64 payload.length ++ payload) then .error .digest
        else .ok payload

/-! ### structural edits of a record list -/

/-- insert `x` at position `j` (at the end when `j` is past the end) -/
def insertAt {α : Type} (x : α) : Nat → List α → List α
  | 0, xs => x :: xs
  | _ + 1, [] => [x]
  | j + 1, y :: ys => y :: insertAt x j ys

inductive Edit where
  | del (i : Nat)            -- remove record i
  | dup (i j : Nat)          -- insert a copy of record i at position j (of the unedited list)
  | move (i j : Nat)         -- remove record i, re-insert it at position j (of the shortened list)
  | swap (i : Nat)           -- exchange records i and i+1
  deriving DecidableEq, Repr

def Edit.apply {α : Type} (e : Edit) (xs : List α) : List α :=
  match e with
  | .del i => xs.eraseIdx i
  | .dup i j => match xs[i]? with | some x => insertAt x j xs | none => xs
  | .move i j => match xs[i]? with | some x => insertAt x j (xs.eraseIdx i) | none => xs
  | .swap i =>
    match xs[i]?, xs[i + 1]? with
    | some a, some b => (xs.take i) ++ b :: a :: xs.drop (i + 2)
    | _, _ => xs

end EchoVerif.Wal
