/-
  EchoVerif.Model.ExtAct — model of `crates/warp-core/src/external_action.rs`:
  the durable request → claim → settlement coordinator (`ExternalActionCoordinatorV1`,
  `record_external_action_request`, `claim_external_action`, `admit_external_action_settlement`,
  `reconcile_external_action_settlement_retry`, `observe_external_actions`, `recover`) over an
  abstract WAL store (committed transactions + "uncommitted tail" bit + one-shot store fault),
  and the request-id-keyed sparse Merkle lifecycle index (`plan_entry`/`apply_mutation`).

  Abstractions (each one is checked by the correspondence run, see NOTES):
  * digests are never computed: ids are `Nat`, "this digest is the hash of those fields" is the
    pre-image (`AttemptId.derived`, `DX`), so digest equality = pre-image equality;
  * a WAL commit digest is modelled as the ordinal of the commit in the store's commit list;
  * the `(depth, prefix)`-keyed `BTreeMap` of Merkle nodes is a binary trie (same map, keyed by the
    prefix bit string); `Trie.update` is `plan_entry` + `apply_mutation` (one leaf-to-root path over
    the *stored* sibling digests, default = the empty-subtree digest of that depth).
-/
import EchoVerif.Model.Basic
import EchoVerif.Model.SMap

namespace EchoVerif
namespace ExtAct

/-! ## 1. generic sparse Merkle index -/

inductive Trie (D : Type) where
  | nil : Trie D
  | node : D → Trie D → Trie D → Trie D
  deriving Repr

namespace Trie
variable {D : Type}

/-- `merkle_nodes.get(depth, prefix).unwrap_or(empty_hashes[depth])`. -/
def dig (E : Nat → D) (d : Nat) : Trie D → D
  | nil => E d
  | node x _ _ => x

def left : Trie D → Trie D
  | nil => nil
  | node _ l _ => l

def right : Trie D → Trie D
  | nil => nil
  | node _ _ r => r

/-- `plan_entry` + `apply_mutation`: rewrite the stored digests on the path of `key` (bits from
    depth `d` downwards), reading only the stored sibling digests. -/
def update (E : Nat → D) (N : Nat → D → D → D) (leaf : D) : Nat → List Bool → Trie D → Trie D
  | _, [], _ => node leaf nil nil
  | d, b :: bs, t =>
    if b then
      let r' := update E N leaf (d + 1) bs t.right
      node (N d (dig E (d + 1) t.left) (dig E (d + 1) r')) t.left r'
    else
      let l' := update E N leaf (d + 1) bs t.left
      node (N d (dig E (d + 1) l') (dig E (d + 1) t.right)) l' t.right

end Trie

/-- entries below one child: keys starting with `b`, with that bit removed. -/
def sub {D : Type} (b : Bool) (es : List (List Bool × D)) : List (List Bool × D) :=
  es.filterMap (fun kv => match kv.1 with
    | [] => none
    | b' :: ks => if b' = b then some (ks, kv.2) else none)

/-- The root recomputed from the full entry list (first entry for a key wins), `rem` levels below
    depth `d`: an empty sub-tree has the empty digest of its depth. -/
def build {D : Type} (E : Nat → D) (N : Nat → D → D → D) : Nat → Nat → List (List Bool × D) → D
  | d, 0, es => match es with
    | [] => E d
    | kv :: _ => kv.2
  | d, rem + 1, es => match es with
    | [] => E d
    | _ :: _ => N d (build E N (d + 1) rem (sub false es)) (build E N (d + 1) rem (sub true es))

/-- first-match lookup in an entry list -/
def lookup {D : Type} (k : List Bool) : List (List Bool × D) → Option D
  | [] => none
  | kv :: rest => if kv.1 = k then some kv.2 else lookup k rest

/-- big-endian bits of a `n`-bit key (`external_action_index_bit`). -/
def keyBits (n : Nat) (k : Nat) : List Bool :=
  (List.range n).map (fun i => (k / 2 ^ (n - 1 - i)) % 2 == 1)

/-! ## 2. protocol values -/

def maxSettlementBytes : Nat := 1048576

inductive Err where
  | emptyBudget | requestBudgetLimitExceeded | unsupportedAttemptBudget | requestIdentityMismatch
  | unauthorizedAdapter | authorizationBindingMismatch | missingLeaseEvidence
  | missingAuthorizationPolicyEvidence | staleBasis | attemptBudgetExhausted | claimBindingMismatch
  | settlementSchemaMismatch | settlementResultDigestMismatch | settlementBudgetExceeded
  | settlementClaimMismatch | duplicateRequest | duplicateClaim | duplicateSettlement
  | conflictingSettlement | missingRequest | missingClaim | missingSettlement
  | coordinatorRecoveryRequired | walTailNotClean | missingSchemaAdmissionEvidence
  | missingExternalEvidence | frontierMismatch | walStore
  deriving DecidableEq, Repr

def Err.name : Err → String
  | .emptyBudget => "EmptyBudget"
  | .requestBudgetLimitExceeded => "RequestBudgetLimitExceeded"
  | .unsupportedAttemptBudget => "UnsupportedAttemptBudget"
  | .requestIdentityMismatch => "RequestIdentityMismatch"
  | .unauthorizedAdapter => "UnauthorizedAdapter"
  | .authorizationBindingMismatch => "AuthorizationBindingMismatch"
  | .missingLeaseEvidence => "MissingLeaseEvidence"
  | .missingAuthorizationPolicyEvidence => "MissingAuthorizationPolicyEvidence"
  | .staleBasis => "StaleBasis"
  | .attemptBudgetExhausted => "AttemptBudgetExhausted"
  | .claimBindingMismatch => "ClaimBindingMismatch"
  | .settlementSchemaMismatch => "SettlementSchemaMismatch"
  | .settlementResultDigestMismatch => "SettlementResultDigestMismatch"
  | .settlementBudgetExceeded => "SettlementBudgetExceeded"
  | .settlementClaimMismatch => "SettlementClaimMismatch"
  | .duplicateRequest => "DuplicateRequest"
  | .duplicateClaim => "DuplicateClaim"
  | .duplicateSettlement => "DuplicateSettlement"
  | .conflictingSettlement => "ConflictingSettlement"
  | .missingRequest => "MissingRequest"
  | .missingClaim => "MissingClaim"
  | .missingSettlement => "MissingSettlement"
  | .coordinatorRecoveryRequired => "CoordinatorRecoveryRequired"
  | .walTailNotClean => "WalTailNotClean"
  | .missingSchemaAdmissionEvidence => "MissingSchemaAdmissionEvidence"
  | .missingExternalEvidence => "MissingExternalEvidence"
  | .frontierMismatch => "ExternalActionFrontierMismatch"
  | .walStore => "WalStore"

/-- `ExternalActionRequestV1`. `idOk` = "request_id equals the digest of the other fields"
    (the digest itself is compared through its pre-image by the correspondence run). -/
structure Request where
  rid : Nat
  idOk : Bool
  worldline : Nat
  operation : Nat
  inSchema : Nat
  setSchema : Nat
  scope : Nat
  basis : Nat
  maxBytes : Nat
  maxAttempts : Nat
  input : Nat
  law : Nat
  deriving DecidableEq, Repr

/-- budget checks shared by `ExternalActionRequestV1::new` and `validate_identity`. -/
def budgetCheck (maxBytes maxAttempts : Nat) : Except Err Unit :=
  if maxBytes = 0 ∨ maxAttempts = 0 then .error .emptyBudget
  else if maxAttempts ≠ 1 then .error .unsupportedAttemptBudget
  else if maxBytes > maxSettlementBytes then .error .requestBudgetLimitExceeded
  else .ok ()

def Request.validateIdentity (r : Request) : Except Err Unit :=
  if !r.idOk then .error .requestIdentityMismatch
  else budgetCheck r.maxBytes r.maxAttempts

/-- an attempt id is the digest of `(request, ordinal, adapter, lease, policy)`, or foreign bytes. -/
inductive AttemptId where
  | derived (rid ordinal adapter lease policy : Nat)
  | raw (x : Nat)
  deriving DecidableEq, Repr

/-- `ExternalActionClaimV1` (the idempotency key is the digest of `(rid, law)`, both kept). -/
structure Claim where
  rid : Nat
  attempt : AttemptId
  ordinal : Nat
  adapter : Nat
  lease : Nat
  law : Nat
  basis : Nat
  policy : Nat
  deriving DecidableEq, Repr

def Claim.forRequest (r : Request) (adapter ordinal lease policy : Nat) : Claim :=
  { rid := r.rid, attempt := .derived r.rid ordinal adapter lease policy, ordinal, adapter, lease,
    law := r.law, basis := r.basis, policy }

/-- `ExternalActionAdapterAuthorizationV1`. -/
structure Auth where
  adapter : Nat
  operation : Nat
  scope : Nat
  rid : Nat
  basis : Nat
  policy : Nat
  deriving DecidableEq, Repr

/-- `ExternalActionAdapterRegistryV1::authorize` over a binding list `(operation, scope, adapter)`;
    `policy` is the registry identity digest. -/
def authorize (bindings : List (Nat × Nat × Nat)) (policy : Nat) (r : Request) (adapter : Nat) :
    Except Err Auth :=
  if bindings.any (fun b => b.1 = r.operation ∧ b.2.1 = r.scope ∧ b.2.2 = adapter) then
    .ok { adapter, operation := r.operation, scope := r.scope, rid := r.rid, basis := r.basis, policy }
  else .error .unauthorizedAdapter

/-- `ExternalActionSettlementCandidateV1`; `digestOk` = "declared digest = digest of the bytes". -/
structure Candidate where
  rid : Nat
  attempt : AttemptId
  adapter : Nat
  kind : Nat
  schema : Nat
  basis : Nat
  bytes : Bytes
  digestOk : Bool
  schemaEv : Nat
  extEv : Nat
  deriving DecidableEq, Repr

/-- `ExternalActionSettlementV1` (the result digest is the digest of `bytes` once admitted). -/
structure Settlement where
  rid : Nat
  attempt : AttemptId
  adapter : Nat
  kind : Nat
  schema : Nat
  basis : Nat
  bytes : Bytes
  schemaEv : Nat
  extEv : Nat
  deriving DecidableEq, Repr

def Settlement.ofCandidate (c : Candidate) : Settlement :=
  { rid := c.rid, attempt := c.attempt, adapter := c.adapter, kind := c.kind, schema := c.schema,
    basis := c.basis, bytes := c.bytes, schemaEv := c.schemaEv, extEv := c.extEv }

def Settlement.toCandidate (s : Settlement) : Candidate :=
  { rid := s.rid, attempt := s.attempt, adapter := s.adapter, kind := s.kind, schema := s.schema,
    basis := s.basis, bytes := s.bytes, digestOk := true, schemaEv := s.schemaEv, extEv := s.extEv }

inductive Posture where
  | requested | claimed | settled (kind : Nat)
  deriving DecidableEq, Repr

/-- `RecoveredExternalActionV1`; commit digests are commit ordinals. -/
structure Entry where
  request : Request
  reqCommit : Nat
  claim : Option Claim
  claimCommit : Option Nat
  settlement : Option Settlement
  setCommit : Option Nat
  posture : Posture
  deriving DecidableEq, Repr

/-- digest expressions of the lifecycle index (free term algebra = pre-images). -/
inductive DX where
  | empty (depth : Nat)                      -- `external_action_empty_hashes()[depth]`
  | leaf (r : Request) (c : Option Claim) (s : Option Settlement)   -- `external_action_index_leaf`
  | node (depth : Nat) (l r : DX)            -- `external_action_index_node_hash`
  deriving DecidableEq, Repr

def indexDepth : Nat := 256

/-- `RecoveredExternalActionIndexV1`. -/
structure Index where
  entries : SMap Nat Entry
  trie : Trie DX
  deriving Repr

def Index.empty : Index := { entries := [], trie := .nil }

def Index.get (i : Index) (rid : Nat) : Option Entry := SMap.find? rid i.entries

def Index.rootDigest (i : Index) : DX := Trie.dig DX.empty 0 i.trie

def leafOf (e : Entry) : DX := .leaf e.request e.claim e.settlement

/-- `plan_entry`: the trie after the path rewrite (its root is the planned `root_digest`). -/
def Index.plan (i : Index) (e : Entry) : Trie DX :=
  Trie.update DX.empty DX.node (leafOf e) 0 (keyBits indexDepth e.request.rid) i.trie

/-- `apply_mutation` of the planned trie with the (commit-completed) entry. -/
def Index.apply (i : Index) (e : Entry) (planned : Trie DX) : Index :=
  { entries := SMap.insert e.request.rid e i.entries, trie := planned }

/-- `insert_entry` / `replace_entry`. -/
def Index.put (i : Index) (e : Entry) : Index := i.apply e (i.plan e)

/-! ## 3. the durable log -/

inductive TxBody where
  | request (r : Request)
  | claim (c : Claim)
  | settlement (s : Settlement)
  deriving DecidableEq, Repr

/-- one committed external-action transaction: commit ordinal, record, frontier (before, after). -/
structure Tx where
  commit : Nat
  body : TxBody
  before : DX
  after : DX
  deriving DecidableEq, Repr

/-- store: committed transactions, "an uncommitted frame is at the tail", armed one-shot fault
    (1 = `append_frame` fails, 2 = frame stored but commit flush fails, 3 = commit stored but the
    flush reports failure, anything else = none). -/
structure Store where
  commits : List Tx
  dirty : Bool
  fault : Nat
  deriving Repr

def Store.empty : Store := { commits := [], dirty := false, fault := 0 }

/-- `ExternalActionCoordinatorV1` (`previous_*_digest` abstracted to the last commit ordinal). -/
structure Coord where
  index : Index
  nextLsn : Nat
  prevCommit : Option Nat
  ready : Bool
  deriving Repr

structure Sys where
  store : Store
  coord : Coord
  deriving Repr

/-! ### validation -/

/-- `validate_claim`. -/
def validateClaim (r : Request) (c : Claim) : Except Err Unit :=
  if c ≠ Claim.forRequest r c.adapter c.ordinal c.lease c.policy then .error .claimBindingMismatch
  else if c.ordinal ≥ r.maxAttempts then .error .attemptBudgetExhausted
  else if c.lease = 0 then .error .missingLeaseEvidence
  else if c.policy = 0 then .error .missingAuthorizationPolicyEvidence
  else .ok ()

/-- `validate_settlement_candidate`. -/
def validateCandidate (r : Request) (c : Claim) (k : Candidate) : Except Err Unit :=
  if k.rid ≠ r.rid ∨ k.attempt ≠ c.attempt ∨ k.adapter ≠ c.adapter ∨ k.basis ≠ r.basis then
    .error .settlementClaimMismatch
  else if k.schema ≠ r.setSchema then .error .settlementSchemaMismatch
  else if k.schemaEv = 0 then .error .missingSchemaAdmissionEvidence
  else if k.extEv = 0 then .error .missingExternalEvidence
  else if k.bytes.length > r.maxBytes then .error .settlementBudgetExceeded
  else if !k.digestOk then .error .settlementResultDigestMismatch
  else .ok ()

/-! ### recovery: `observe_external_actions` as a fold over the committed transactions -/

def applyBody (i : Index) (commit : Nat) : TxBody → Except Err Index
  | .request r =>
    match r.validateIdentity with
    | .error e => .error e
    | .ok () =>
      match i.get r.rid with
      | some _ => .error .duplicateRequest
      | none => .ok (i.put { request := r, reqCommit := commit, claim := none, claimCommit := none,
                             settlement := none, setCommit := none, posture := .requested })
  | .claim c =>
    match i.get c.rid with
    | none => .error .missingRequest
    | some e =>
      if e.claim.isSome then .error .duplicateClaim
      else match validateClaim e.request c with
        | .error err => .error err
        | .ok () => .ok (i.put { e with claim := some c, claimCommit := some commit, posture := .claimed })
  | .settlement s =>
    match i.get s.rid with
    | none => .error .missingRequest
    | some e =>
      match e.claim with
      | none => .error .missingClaim
      | some c =>
        match validateCandidate e.request c s.toCandidate with
        | .error err => .error err
        | .ok () =>
          match e.settlement, e.setCommit with
          | some _, none => .error .missingSettlement
          | some ex, some exc =>
            if ex = s ∧ exc = commit then .error .duplicateSettlement else .error .conflictingSettlement
          | none, _ =>
            .ok (i.put { e with posture := .settled s.kind, settlement := some s, setCommit := some commit })

/-- one transaction of `observe_external_actions`, including the frontier check. -/
def applyTx (i : Index) (tx : Tx) : Except Err Index :=
  match applyBody i tx.commit tx.body with
  | .error e => .error e
  | .ok i' =>
    if tx.before = i.rootDigest ∧ tx.after = i'.rootDigest then .ok i' else .error .frontierMismatch

def observeFrom (i : Index) : List Tx → Except Err Index
  | [] => .ok i
  | tx :: rest =>
    match applyTx i tx with
    | .error e => .error e
    | .ok i' => observeFrom i' rest

def observe (log : List Tx) : Except Err Index := observeFrom Index.empty log

def lastCommit : List Tx → Option Nat
  | [] => none
  | [tx] => some tx.commit
  | _ :: rest => lastCommit rest

/-- `ExternalActionCoordinatorV1::recover` (one frame per transaction, LSNs from 0). -/
def recover (st : Store) : Except Err Coord :=
  if st.dirty then .error .walTailNotClean
  else match observe st.commits with
    | .error e => .error e
    | .ok i => .ok { index := i, nextLsn := st.commits.length, prevCommit := lastCommit st.commits,
                     ready := true }

def genesis : Sys :=
  { store := Store.empty,
    coord := { index := Index.empty, nextLsn := 0, prevCommit := none, ready := true } }

/-! ### the live transitions -/

/-- `append_transaction`: frames, then the commit flush; `ready` is false in between and stays
    false if the store fails. Returns the commit ordinal (the commit digest) on success. -/
def appendTx (s : Sys) (body : TxBody) (before after : DX) : Sys × Option Nat :=
  let c := s.store.commits.length
  let tx : Tx := { commit := c, body, before, after }
  let down : Coord := { s.coord with ready := false }
  if s.store.fault = 1 then
    ({ store := { s.store with fault := 0 }, coord := down }, none)
  else if s.store.fault = 2 then
    ({ store := { s.store with fault := 0, dirty := true }, coord := down }, none)
  else if s.store.fault = 3 then
    ({ store := { s.store with fault := 0, commits := s.store.commits ++ [tx] }, coord := down }, none)
  else
    ({ store := { s.store with fault := 0, commits := s.store.commits ++ [tx] },
       coord := { s.coord with nextLsn := s.coord.nextLsn + 1, prevCommit := some c, ready := true } },
     some c)

inductive Out where
  | recorded (r : Request) (commit : Nat)
  | grant (r : Request) (c : Claim) (commit : Nat)
  | admitted (s : Settlement) (commit : Nat)
  | err (e : Err)
  | done
  deriving DecidableEq, Repr

/-- shared tail of the three transitions: plan the index mutation (`plan_entry`), append + flush the
    transaction whose frontier is (current root, planned root), and only then apply the mutation,
    completed with the commit digest, and build the grant. -/
def commitStep (s : Sys) (body : TxBody) (e : Entry) (fin : Nat → Entry) (mk : Nat → Out) : Sys × Out :=
  let planned := s.coord.index.plan e
  match appendTx s body s.coord.index.rootDigest (Trie.dig DX.empty 0 planned) with
  | (s', none) => (s', .err .walStore)
  | (s', some c) =>
    ({ s' with coord := { s'.coord with index := s.coord.index.apply (fin c) planned } }, mk c)

/-- `record_external_action_request`. -/
def recordRequest (s : Sys) (r : Request) : Sys × Out :=
  if !s.coord.ready then (s, .err .coordinatorRecoveryRequired)
  else if (s.coord.index.get r.rid).isSome then (s, .err .duplicateRequest)
  else
    let e : Entry := { request := r, reqCommit := 0, claim := none, claimCommit := none,
                       settlement := none, setCommit := none, posture := .requested }
    match r.validateIdentity with
    | .error err => (s, .err err)
    | .ok () => commitStep s (.request r) e (fun c => { e with reqCommit := c }) (fun c => .recorded r c)

/-- `claim_external_action`; `tok` is the request inside the `DurablyRecorded…` token. -/
def claimAction (s : Sys) (tok : Request) (a : Auth) (curBasis ordinal lease : Nat) : Sys × Out :=
  if !s.coord.ready then (s, .err .coordinatorRecoveryRequired)
  else match tok.validateIdentity with
  | .error err => (s, .err err)
  | .ok () =>
    match s.coord.index.get tok.rid with
    | none => (s, .err .missingRequest)
    | some rec =>
      if rec.request ≠ tok then (s, .err .requestIdentityMismatch)
      else if rec.claim.isSome then (s, .err .duplicateClaim)
      else if a.operation ≠ tok.operation ∨ a.scope ≠ tok.scope then (s, .err .unauthorizedAdapter)
      else if a.rid ≠ tok.rid ∨ a.basis ≠ tok.basis ∨ a.policy = 0 then
        (s, .err .authorizationBindingMismatch)
      else if curBasis ≠ tok.basis then (s, .err .staleBasis)
      else if ordinal ≥ tok.maxAttempts then (s, .err .attemptBudgetExhausted)
      else if lease = 0 then (s, .err .missingLeaseEvidence)
      else
        let claim := Claim.forRequest tok a.adapter ordinal lease a.policy
        let e : Entry := { rec with claim := some claim, claimCommit := none, posture := .claimed }
        commitStep s (.claim claim) e (fun c => { e with claimCommit := some c }) (fun c => .grant tok claim c)

/-- `admit_external_action_settlement`; `(gr, gc, gcommit)` is the `ExternalActionClaimGrantV1`. -/
def admitSettlement (s : Sys) (gr : Request) (gc : Claim) (gcommit : Nat) (k : Candidate) : Sys × Out :=
  if !s.coord.ready then (s, .err .coordinatorRecoveryRequired)
  else match s.coord.index.get gr.rid with
  | none => (s, .err .missingRequest)
  | some rec =>
    match rec.claim with
    | none => (s, .err .missingClaim)
    | some rc =>
      if rec.request ≠ gr ∨ rc ≠ gc ∨ rec.claimCommit ≠ some gcommit then
        (s, .err .settlementClaimMismatch)
      else if rec.settlement.isSome then (s, .err .duplicateSettlement)
      else match validateCandidate gr gc k with
      | .error err => (s, .err err)
      | .ok () =>
        let st := Settlement.ofCandidate k
        let e : Entry := { rec with posture := .settled st.kind, settlement := some st, setCommit := none }
        commitStep s (.settlement st) e (fun c => { e with setCommit := some c }) (fun c => .admitted st c)

/-- `reconcile_external_action_settlement_retry` (read-only). -/
def retrySettlement (c : Coord) (k : Candidate) : Out :=
  if !c.ready then .err .coordinatorRecoveryRequired
  else match c.index.get k.rid with
  | none => .err .missingRequest
  | some rec =>
    match rec.claim with
    | none => .err .missingClaim
    | some cl =>
      match validateCandidate rec.request cl k with
      | .error err => .err err
      | .ok () =>
        match rec.settlement, rec.setCommit with
        | none, _ => .err .missingSettlement
        | some _, none => .err .missingSettlement
        | some st, some sc =>
          if st ≠ Settlement.ofCandidate k then .err .conflictingSettlement else .admitted st sc

/-- `ExternalActionCoordinatorV1::recorded_request`. -/
def recordedRequest (c : Coord) (rid : Nat) : Out :=
  if !c.ready then .err .coordinatorRecoveryRequired
  else match c.index.get rid with
  | none => .err .missingRequest
  | some e => if e.claim.isSome then .err .duplicateClaim else .recorded e.request e.reqCommit

/-- `ExternalActionCoordinatorV1::claim_grant`. -/
def claimGrant (c : Coord) (rid : Nat) : Out :=
  if !c.ready then .err .coordinatorRecoveryRequired
  else match c.index.get rid with
  | none => .err .missingRequest
  | some e =>
    match e.claim with
    | none => .err .missingClaim
    | some cl =>
      if e.settlement.isSome then .err .duplicateSettlement
      else match e.claimCommit with
        | none => .err .missingClaim
        | some cc => .grant e.request cl cc

/-- `ExternalActionCoordinatorV1::admitted_settlement`. -/
def admittedSettlement (c : Coord) (rid : Nat) : Out :=
  if !c.ready then .err .coordinatorRecoveryRequired
  else match c.index.get rid with
  | none => .err .missingRequest
  | some e =>
    match e.settlement, e.setCommit with
    | some st, some sc => .admitted st sc
    | _, _ => .err .missingSettlement

/-! ## 4. the state machine -/

inductive Op where
  | request (r : Request)
  | claim (tok : Request) (a : Auth) (curBasis ordinal lease : Nat)
  | settle (gr : Request) (gc : Claim) (gcommit : Nat) (k : Candidate)
  | retry (k : Candidate)
  | recordedRequest (rid : Nat)
  | claimGrant (rid : Nat)
  | admittedSettlement (rid : Nat)
  | recover          -- drop the coordinator, `ExternalActionCoordinatorV1::recover(store)`
  | trunc            -- writable WAL recovery: drop the uncommitted tail
  | fault (k : Nat)  -- arm the store fault
  deriving Repr

def step (s : Sys) : Op → Sys × Out
  | .request r => recordRequest s r
  | .claim tok a b o l => claimAction s tok a b o l
  | .settle gr gc gcm k => admitSettlement s gr gc gcm k
  | .retry k => (s, retrySettlement s.coord k)
  | .recordedRequest rid => (s, recordedRequest s.coord rid)
  | .claimGrant rid => (s, claimGrant s.coord rid)
  | .admittedSettlement rid => (s, admittedSettlement s.coord rid)
  | .recover =>
    match recover s.store with
    | .error e => (s, .err e)
    | .ok c => ({ s with coord := c }, .done)
  | .trunc => ({ s with store := { s.store with dirty := false } }, .done)
  | .fault k => ({ s with store := { s.store with fault := k } }, .done)

/-- run an op sequence, collecting (operation, output) pairs. -/
def run (s : Sys) : List Op → Sys × List (Op × Out)
  | [] => (s, [])
  | op :: ops =>
    let r := step s op
    let rest := run r.1 ops
    (rest.1, (op, r.2) :: rest.2)

end ExtAct
end EchoVerif
