/-
  EchoVerif.Model.Bus — model of `materialization/{bus,reduce_op,emit_key,channel}.rs`
  and of `snapshot.rs::compute_emissions_digest` (pre-image only).
-/
import EchoVerif.Model.SMap

namespace EchoVerif
namespace Bus

/-- `EmitKey` ordering is lexicographic `(scope_hash, rule_id, subkey)`. -/
abbrev EmitKey := Nat × Nat × Nat

inductive ReduceOp where
  | sum | max | min | bitor | bitand | first | last | concat
  deriving DecidableEq, Repr

inductive Policy where
  | log | strictSingle | reduce (op : ReduceOp)
  deriving DecidableEq, Repr

/-! ### byte strings under `Vec<u8>`'s `Ord` (lexicographic, shorter prefix first) -/

def bytesLt : Bytes → Bytes → Bool
  | [], [] => false
  | [], _ :: _ => true
  | _ :: _, [] => false
  | a :: as, b :: bs => a.toNat < b.toNat || (a.toNat = b.toNat && bytesLt as bs)

/-- `Iterator::max`: keeps the later element unless the accumulator is strictly greater. -/
def maxB (acc v : Bytes) : Bytes := if bytesLt v acc then acc else v
/-- `Iterator::min`: keeps the accumulator unless the later element is strictly smaller. -/
def minB (acc v : Bytes) : Bytes := if bytesLt v acc then v else acc

/-- `bitwise_or`: length = max, the shorter operand is zero-extended. -/
def bor : Bytes → Bytes → Bytes
  | [], b => b
  | a, [] => a
  | x :: a, y :: b => (x ||| y) :: bor a b

/-- `bitwise_and`: length = min. -/
def band : Bytes → Bytes → Bytes
  | [], _ => []
  | _, [] => []
  | x :: a, y :: b => (x &&& y) :: band a b

/-- First ≤ 8 bytes as a little-endian u64. -/
def sumOperand (v : Bytes) : Nat := leNat (v.take 8)

def two64 : Nat := 18446744073709551616

/-- `iter.reduce(f)` on a non-empty list. -/
def reduce1 (f : Bytes → Bytes → Bytes) : List Bytes → Bytes
  | [] => []
  | x :: xs => xs.foldl f x

def lastB : List Bytes → Bytes
  | [] => []
  | [x] => x
  | _ :: xs => lastB xs

/-- `ReduceOp::apply`. -/
def ReduceOp.apply (op : ReduceOp) (vs : List Bytes) : Bytes :=
  match vs with
  | [] => match op with
    | .sum => natToLE 8 0
    | _ => []
  | x :: xs =>
    match op with
    | .sum => natToLE 8 ((x :: xs).foldl (fun acc v => (acc + sumOperand v) % two64) 0)
    | .max => reduce1 maxB (x :: xs)
    | .min => reduce1 minB (x :: xs)
    | .bitor => reduce1 bor (x :: xs)
    | .bitand => reduce1 band (x :: xs)
    | .first => x
    | .last => lastB (x :: xs)
    | .concat => (x :: xs).flatten

/-! ### the bus -/

structure State where
  pending : SMap Nat (SMap EmitKey Bytes)
  policies : SMap Nat Policy

def empty (policies : SMap Nat Policy) : State := { pending := [], policies := policies }

def registerChannel (s : State) (ch : Nat) (p : Policy) : State :=
  { s with policies := SMap.insert ch p s.policies }

inductive EmitResult where
  | ok | duplicate
  deriving DecidableEq, Repr

structure Emission where
  chan : Nat
  key : EmitKey
  data : Bytes

/-- `MaterializationBus::emit`. -/
def emit (s : State) (e : Emission) : State × EmitResult :=
  match SMap.find? e.chan s.pending with
  | none => ({ s with pending := SMap.insert e.chan [(e.key, e.data)] s.pending }, .ok)
  | some m =>
    match SMap.find? e.key m with
    | some _ => (s, .duplicate)
    | none => ({ s with pending := SMap.insert e.chan (SMap.insert e.key e.data m) s.pending }, .ok)

def emitAll (s : State) (es : List Emission) : State := es.foldl (fun s e => (emit s e).1) s

def policyOf (s : State) (ch : Nat) : Policy :=
  match SMap.find? ch s.policies with
  | some p => p
  | none => .log

/-- `finalize_channel`: `.inl data` or `.inr emission_count`. -/
def finalizeChannel (emissions : SMap EmitKey Bytes) : Policy → Sum Bytes Nat
  | .log => .inl ((SMap.values emissions).flatMap (fun d => u32le d.length ++ d))
  | .strictSingle =>
    if emissions.length > 1 then .inr emissions.length
    else match SMap.values emissions with
      | [] => .inl []
      | d :: _ => .inl d
  | .reduce op => .inl (op.apply (SMap.values emissions))

structure Report where
  channels : List (Nat × Bytes)
  errors : List (Nat × Nat)
  deriving DecidableEq

/-- `finalize`: channels in id order, partitioned into successes and conflicts. -/
def finalizeMap (policies : SMap Nat Policy) : SMap Nat (SMap EmitKey Bytes) → Report
  | [] => { channels := [], errors := [] }
  | (ch, em) :: rest =>
    let r := finalizeMap policies rest
    let pol := match SMap.find? ch policies with | some p => p | none => Policy.log
    match finalizeChannel em pol with
    | .inl d => { r with channels := (ch, d) :: r.channels }
    | .inr n => { r with errors := (ch, n) :: r.errors }

def finalize (s : State) : Report × State :=
  (finalizeMap s.policies s.pending, { s with pending := [] })

/-- stable insertion sort by channel id (`sort_by` on `channel.0`). -/
def insertByChan (x : Nat × Bytes) : List (Nat × Bytes) → List (Nat × Bytes)
  | [] => [x]
  | y :: ys => if x.1 < y.1 then x :: y :: ys else y :: insertByChan x ys

def sortByChan (xs : List (Nat × Bytes)) : List (Nat × Bytes) :=
  xs.foldl (fun acc x => insertByChan x acc) []

/-- `compute_emissions_digest` pre-image. -/
def emissionsDigest (channels : List (Nat × Bytes)) : HExpr :=
  let sorted := sortByChan channels
  .h ([.raw (u16le 1), .raw (u64le sorted.length)] ++
      sorted.flatMap (fun (c, d) => [.raw (natToBE 32 c), .raw (u64le d.length), .raw d]))

end Bus
end EchoVerif
