/-
  EchoVerif.Model.WscExport — C20, the three WAL causal-history export profiles of
  crates/warp-core/src/wsc/store.rs (`wsc_{self_contained,cas_addressed,ref_only}_wal_export` and
  `validate_wsc_*_wal_export`), retained-material part, over a WAL root without segments.

  THE RULE THE CODE IMPLEMENTS (self-contained profile, both directions):
    every embedded payload hashes to the digest it is filed under — WHATEVER the posture of the
    retained-material record that digest belongs to (`validate_self_contained_retained_hashes` runs
    over ALL embedded payloads before any posture is looked at); only the COVERAGE rule is
    posture-dependent (a payload is REQUIRED for `Present` records only; one is ALLOWED for every
    recorded digest; none is allowed for an unrecorded digest).
  CAS-addressed profile: the references are exactly the `Present` records (kind, digest, coordinate);
  on import every referenced blob must be in the store, hash to the reference and have its length.
  Reference-only profile: records only.

  Hash abstract (`H : Bytes → Nat`); an envelope is its decoded content (the payload layouts are tied
  to the code through the basis-digest pre-images below).  Import-free.
-/
import EchoVerif.Model.WscStore

namespace EchoVerif.WscExp
open EchoVerif SMap Wsc

/-- `EvidenceMaterialPosture::Present.code()`. -/
def presentCode : Nat := 1

def isPresent (m : Material) : Bool := decide (m.posture = presentCode)

/-- `WscSelfContainedRetainedMaterial`. -/
structure Payload where
  material : Material
  bytes : Bytes
deriving DecidableEq

/-- `WscCasAddressedRetainedMaterialReference`. -/
structure CasRef where
  kind : Nat
  contentHash : Nat
  coord : Nat
  byteLen : Nat
deriving DecidableEq

/-! ## Payload layouts and basis-digest pre-images -/

/-- `self_contained_retained_material_payload`. -/
def Payload.encode (p : Payload) : Bytes :=
  natToLE 8 p.material.payloadBytes.length ++ p.material.payloadBytes
    ++ natToLE 8 p.bytes.length ++ p.bytes

def scRetainedBasisDomain : Bytes := "echo:wsc_store:self_contained_retained_basis:v1".toUTF8.toList ++ [0]

/-- `self_contained_retained_material_basis_digest`. -/
def scRetainedBasis (ps : List Payload) : HExpr :=
  .h (.raw scRetainedBasisDomain :: ps.map (fun p => .raw p.encode))

/-- `cas_addressed_retained_reference_payload`. -/
def CasRef.encode (r : CasRef) : Bytes :=
  [UInt8.ofNat r.kind] ++ natToBE 32 r.contentHash ++ natToBE 32 r.coord ++ natToLE 8 r.byteLen

def casRefBasisDomain : Bytes := "echo:wsc_store:cas_addressed_wal_ref_basis:v1".toUTF8.toList ++ [0]

/-- `cas_addressed_reference_basis_digest` (no segment references: the root has no segments). -/
def casRefBasis (rs : List CasRef) : HExpr :=
  .h (.raw casRefBasisDomain :: rs.flatMap (fun r => [.raw "retained".toUTF8.toList, .raw r.encode]))

/-! ## Canonicalisation of embedded payloads / CAS references (one `BTreeMap`, first conflict wins) -/

/-- The loop shared by `canonical_self_contained_retained_materials` and
    `canonical_cas_addressed_retained_references`: one `BTreeMap` keyed by `key`; an item that differs
    from the one already filed under its key is the typed `DuplicateEnvelopeMismatch` (error payload
    `err item` names it); otherwise it (re)places the entry. -/
def canonGo {κ ρ : Type} [DecidableEq κ] [LinOrd κ] [DecidableEq ρ] (key : ρ → κ) (err : ρ → Nat) :
    SMap κ ρ → List ρ → Except Nat (SMap κ ρ)
  | m, [] => .ok m
  | m, p :: ps =>
    match find? (key p) m with
    | some ex => if ex = p then canonGo key err (insert (key p) p m) ps else .error (err p)
    | none => canonGo key err (insert (key p) p m) ps

def canonBy {κ ρ : Type} [DecidableEq κ] [LinOrd κ] [DecidableEq ρ] (key : ρ → κ) (err : ρ → Nat)
    (ps : List ρ) : Except Nat (List ρ) :=
  match canonGo key err [] ps with
  | .ok m => .ok (values m)
  | .error d => .error d

/-- `canonical_self_contained_retained_materials`: keyed by material digest. -/
def canonPayloads (ps : List Payload) : Except Nat (List Payload) :=
  canonBy (fun p => p.material.digest) (fun p => p.material.digest) ps

/-- `canonical_cas_addressed_retained_references`: keyed by (kind, coordinate); error = coordinate. -/
def canonRefs (rs : List CasRef) : Except Nat (List CasRef) :=
  canonBy (fun r => (r.kind, r.coord)) (fun r => r.coord) rs

/-! ## Self-contained profile -/

inductive PayErr where
  | digestMismatch (expected : Nat) (bytes : Bytes)   -- actual = H bytes
  | missing (digest : Nat)
  | extra (digest : Nat)
deriving DecidableEq

/-- `validate_self_contained_retained_hashes`: EVERY payload, in order; no posture is consulted. -/
def firstHashMismatch (H : Bytes → Nat) : List Payload → Option (Nat × Bytes)
  | [] => none
  | p :: ps => if H p.bytes = p.material.digest then firstHashMismatch H ps else some (p.material.digest, p.bytes)

/-- `validate_self_contained_{export,import}_retained_payloads` (identical bodies). -/
def validatePayloads (H : Bytes → Nat) (ms : List Material) (ps : List Payload) : Option PayErr :=
  match firstHashMismatch H ps with
  | some (e, b) => some (.digestMismatch e b)
  | none =>
    match (ms.filter isPresent).find? (fun m => !(ps.any (fun p => decide (p.material.digest = m.digest)))) with
    | some m => some (.missing m.digest)
    | none =>
      match ps.find? (fun p => !(ms.any (fun m => decide (m.digest = p.material.digest)))) with
      | some p => some (.extra p.material.digest)
      | none => none

inductive ExpErr where
  | materialDup (digest : Nat)      -- RetainedMaterial / CasReferences (DuplicateEnvelopeMismatch)
  | pay (e : PayErr)
  | refsMismatch (missing extra : Nat)
  | retentionConflict               -- Retention(DuplicateEnvelopeMismatch)
deriving DecidableEq

/-- Content of the envelopes of a self-contained export that concern retained material. -/
structure ScExport where
  payloads : List Payload     -- retained_material_envelope
  ms : List Material          -- retention_envelope
  rs : List Reading
deriving DecidableEq

/-- Records of the retention envelope (`retention_records_to_wsc_envelope`). -/
def canonRecords (ms : List Material) (rs : List Reading) : Option (List Material × List Reading) :=
  match canonMaterials ms, canonReadings rs with
  | some cms, some crs => some (cms, crs)
  | _, _ => none

/-- `wsc_self_contained_wal_export` (coverage is checked against the RAW record slice). -/
def scExport (H : Bytes → Nat) (ms : List Material) (rs : List Reading) (ps : List Payload) :
    Except ExpErr ScExport :=
  match canonPayloads ps with
  | .error d => .error (.materialDup d)
  | .ok cps =>
    match validatePayloads H ms cps with
    | some e => .error (.pay e)
    | none =>
      match canonRecords ms rs with
      | some (cms, crs) => .ok { payloads := cps, ms := cms, rs := crs }
      | none => .error .retentionConflict

inductive ImpErr where
  | rootMismatch                    -- ProjectionBasisMismatch
  | materialDup (digest : Nat)
  | retentionConflict
  | pay (e : PayErr)
  | refsMismatch (missing extra : Nat)
  | missingBlob (hash coord : Nat)
  | blobHashMismatch (expected : Nat) (bytes : Bytes)
  | blobLenMismatch (expected actual : Nat)
deriving DecidableEq

/-- `validate_wsc_self_contained_wal_export`: the envelopes are decoded (each decoder canonicalises
    again), then the SAME payload rule as on export.  `sameRoot` = the expected WAL root is the
    exported one. -/
def scImport (H : Bytes → Nat) (sameRoot : Bool) (e : ScExport) : Except ImpErr ScExport :=
  if !sameRoot then .error .rootMismatch else
  match canonPayloads e.payloads with
  | .error d => .error (.materialDup d)
  | .ok cps =>
    match canonRecords e.ms e.rs with
    | none => .error .retentionConflict
    | some (cms, crs) =>
      match validatePayloads H cms cps with
      | some err => .error (.pay err)
      | none => .ok { payloads := cps, ms := cms, rs := crs }

/-! ## CAS-addressed profile -/

abbrev RefKey := Nat × (Nat × Nat)   -- (kind, content hash, coordinate)

/-- A list as a set (the code collects into `BTreeSet`s and counts the differences). -/
def dedup : List RefKey → List RefKey
  | [] => []
  | x :: xs => if (dedup xs).contains x then dedup xs else x :: dedup xs

def expectedRefKeys (ms : List Material) : List RefKey :=
  dedup ((ms.filter isPresent).map (fun m => (m.kind, m.digest, m.coord)))
def actualRefKeys (refs : List CasRef) : List RefKey :=
  dedup (refs.map (fun r => (r.kind, r.contentHash, r.coord)))

/-- `validate_cas_addressed_retained_references`: the two SETS must coincide. -/
def refsMismatch (ms : List Material) (refs : List CasRef) : Option (Nat × Nat) :=
  let ex := expectedRefKeys ms
  let ac := actualRefKeys refs
  let missing := (ex.filter (fun k => !ac.contains k)).length
  let extra := (ac.filter (fun k => !ex.contains k)).length
  if missing = 0 ∧ extra = 0 then none else some (missing, extra)

structure CasExport where
  refs : List CasRef
  ms : List Material
  rs : List Reading
deriving DecidableEq

/-- `wsc_cas_addressed_wal_export`. -/
def casExport (ms : List Material) (rs : List Reading) (refs : List CasRef) : Except ExpErr CasExport :=
  match canonRefs refs with
  | .error d => .error (.materialDup d)
  | .ok crefs =>
    match refsMismatch ms crefs with
    | some (a, b) => .error (.refsMismatch a b)
    | none =>
      match canonRecords ms rs with
      | some (cms, crs) => .ok { refs := crefs, ms := cms, rs := crs }
      | none => .error .retentionConflict

/-- `validated_cas_blob_bytes` over `validate_cas_addressed_retained_blob_availability`. -/
def firstBlobFault (H : Bytes → Nat) (cas : Nat → Option Bytes) : List CasRef → Option ImpErr
  | [] => none
  | r :: rs =>
    match cas r.contentHash with
    | none => some (.missingBlob r.contentHash r.coord)
    | some b =>
      if H b ≠ r.contentHash then some (.blobHashMismatch r.contentHash b)
      else if b.length ≠ r.byteLen then some (.blobLenMismatch r.byteLen b.length)
      else firstBlobFault H cas rs

/-- `validate_wsc_cas_addressed_wal_export`. -/
def casImport (H : Bytes → Nat) (cas : Nat → Option Bytes) (sameRoot : Bool) (e : CasExport) :
    Except ImpErr CasExport :=
  if !sameRoot then .error .rootMismatch else
  match canonRefs e.refs with
  | .error d => .error (.materialDup d)
  | .ok crefs =>
    match canonRecords e.ms e.rs with
    | none => .error .retentionConflict
    | some (cms, crs) =>
      match refsMismatch cms crefs with
      | some (a, b) => .error (.refsMismatch a b)
      | none =>
        match firstBlobFault H cas crefs with
        | some err => .error err
        | none => .ok { refs := crefs, ms := cms, rs := crs }

/-! ## Reference-only profile -/

/-- `wsc_ref_only_wal_export`: records only. -/
def refExport (ms : List Material) (rs : List Reading) : Except ExpErr (List Material × List Reading) :=
  match canonRecords ms rs with
  | some p => .ok p
  | none => .error .retentionConflict

/-- `validate_wsc_ref_only_wal_export`. -/
def refImport (sameRoot : Bool) (e : List Material × List Reading) :
    Except ImpErr (List Material × List Reading) :=
  if !sameRoot then .error .rootMismatch else
  match canonRecords e.1 e.2 with
  | some p => .ok p
  | none => .error .retentionConflict

/-! ## The seeded regression (reference point for the theorems) -/

/-- The single-pass variant: a payload is resolved and hashed only for `Present` records. -/
def validatePayloadsPresentOnly (H : Bytes → Nat) (ms : List Material) (ps : List Payload) : Option PayErr :=
  let rec go : List Material → Option PayErr
    | [] => none
    | m :: rest =>
      if !isPresent m then go rest else
      match ps.find? (fun p => decide (p.material.digest = m.digest)) with
      | none => some (.missing m.digest)
      | some p => if H p.bytes = m.digest then go rest else some (.digestMismatch m.digest p.bytes)
  match go ms with
  | some e => some e
  | none =>
    match ps.find? (fun p => !(ms.any (fun m => decide (m.digest = p.material.digest)))) with
    | some p => some (.extra p.material.digest)
    | none => none

end EchoVerif.WscExp
