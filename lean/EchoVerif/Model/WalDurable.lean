/-
  EchoVerif.Model.WalDurable — the durability side of the WAL (C10), on top of Model/Wal.lean and the
  CURRENT recovery loop of Model/WalIntegrity.lean (`recoverFCT`, /repo 891bbae).

  1. writable recovery and the truncation rewrite (`recover_filesystem_store(Writable)` →
     `rewrite_filesystem_segments_after_truncation` / `clear_filesystem_segments` →
     `rewrite_segment_records`), incl. the staged rewrite of /repo 9800f72 at the level of the bytes a
     process death can leave behind;
  2. the host's durability discipline (`TrustedRuntimeHost` + `TrustedRuntimeWal` over the filesystem
     store) as a state machine over the log — see the second half of this file.
-/
import EchoVerif.Model.WalIntegrity

namespace EchoVerif.Wal

/-! ### 1. writable recovery, truncation rewrite -/

/-- the records `rewrite_filesystem_segments_after_truncation(root, after_lsn)` keeps
    (`read_filesystem_segments` sorts frames by LSN and markers by `last_lsn` first) -/
def keptFrames (recs : List Rec) (lsn : Nat) : List Frame :=
  (sortBy (fun f => f.header.lsn) (framesOf recs)).filter (fun f => f.header.lsn ≤ lsn)

def keptCommits (recs : List Rec) (lsn : Nat) : List Commit :=
  (sortBy (fun c => c.lastLsn) (commitsOf recs)).filter (fun c => c.lastLsn ≤ lsn)

/-- what writable `recover_filesystem_store` leaves in the (single) segment file: unchanged when
    nothing is truncated; `TruncatedAfter lsn` ⇒ `rewrite_segment_records(kept frames, kept markers)`
    (all frames first, then all markers); `TruncatedAll` ⇒ `clear_filesystem_segments` =
    `rewrite_segment_records([], [])` (an empty file).  Result: (report, segment bytes afterwards). -/
def afterWritableRecoveryT (cfg : Cfg) (H : HashFn) (bs : Bytes) : Except RErr (Report × Bytes) :=
  match recoverFilesystemT cfg H bs .writable with
  | .error e => .error e
  | .ok r =>
    match r.tail with
    | .truncatedAfter lsn =>
      match scan cfg H (decodeRec cfg H) bs with
      | .error e => .error e
      | .ok (recs, _) => .ok (r, encodeRecords cfg H (keptFrames recs lsn) (keptCommits recs lsn))
    | .truncatedAll => .ok (r, [])
    | _ => .ok (r, bs)

/-- the segment directory as recovery sees it: `live` = `segment-…1.ecwal`; `staging` =
    `segment-…1.ecwal-rewrite` (`segment_paths` only lists files whose extension is `ecwal`, so the
    staging file is never read; the next rewrite re-creates it with `File::create`, i.e. truncated) -/
structure SegDir where
  live : Bytes
  staging : Option Bytes
  deriving DecidableEq, Repr

/-- every directory state a process death can leave behind while `rewrite_segment_records`
    (as of /repo 9800f72) replaces the segment `old` by `new`: the staging file is created empty and
    grown record by record — the crash model is "any byte prefix" — synced, and then published by ONE
    `rename` over the live file (rename atomicity = OS assumption). -/
def rewriteCrashStates (old new : Bytes) : List SegDir :=
  ⟨old, none⟩ :: (List.range (new.length + 1)).map (fun j => ⟨old, some (new.take j)⟩) ++ [⟨new, none⟩]

/-- the same for the code BEFORE 9800f72 (delete every segment file, then append the kept records to
    the live file): the live file passes through every byte prefix of `new`.  Only used to state what
    the fix bought (`Props/C10.lean: unstaged_rewrite_loses_commits`). -/
def rewriteCrashStatesUnstaged (old new : Bytes) : List SegDir :=
  ⟨old, none⟩ :: (List.range (new.length + 1)).map (fun j => ⟨new.take j, none⟩)

/-- recovery of a segment directory reads the live file only -/
def recoverDir (cfg : Cfg) (H : HashFn) (d : SegDir) (mode : Mode) : Except RErr Report :=
  recoverFilesystemT cfg H d.live mode

/-! ### 2. the host's durability discipline (abstract: one log, whole transactions)

  Followed in the code (crates/warp-core/src/trusted_runtime_host.rs, causal_wal.rs):
    * `TrustedRuntimeApp::submit_intent_with_runtime_wal_ack_inner`: clone runtime → `submit_app_intent`
      (in-memory intake, duplicate by `(head, ingress_id)`) → duplicate AND
      `TrustedRuntimeWal::has_submission_acceptance` ⇒ return the handle without appending → else
      `record_submission_acceptance` → `TrustedRuntimeWal::append_transaction` →
      `FilesystemWalStore::append_transaction` (every `append_frame`, THEN `flush_commit_with_capabilities`:
      marker appended + synced, THEN writer-epoch ledger persisted) → only then
      `durable_submission_acceptances.insert` and `Ok(handle)` (the acknowledgement).  On `Err`:
      `recover_filesystem_submission_acceptance_after_error` = `refresh_cursor_from_store_for_writer`
      (WRITABLE `recover_filesystem_store`: truncates the uncommitted tail, rebuilds the de-dup index
      from `recover_submission_index(report)`) and, if the acceptance is found committed after all
      (failure after the marker was synced), acknowledge; otherwise restore the cloned runtime, `Err`.
    * `TrustedRuntimeHost::tick_once`: clone runtime/provenance → `super_tick…` (outcome exists in memory
      while `&mut self` is held) → `record_tick_receipt` → same `append_transaction` → `Ok(records)` (the
      outcome becomes observable through `app().observe_intent_outcome`).  On `Err`:
      `recover_filesystem_tick_commit_after_error` (refresh + `recover_read_only`, compares
      `receipts.receipt_by_submission[sid]` with the receipt ref) ⇒ publish, else roll back, `Err`.
    * restart: `TrustedRuntimeHost::enable_runtime_wal` on a fresh host = `TrustedRuntimeWal::from_config`
      (`recover_for_writer` = writable recovery, cursor + de-dup index from the report, fresh writer
      epoch) + `recover_read_only` + `restore_witnessed_submission_persistence` /
      `restore_provenance_entries` / `restore_causal_runtime_history`: everything is a function of the
      recovered transactions; no rule, handler or observer is run.

  Abstraction: the disk is "whole transactions + at most one transaction whose marker is not completely
  on disk".  That this is exactly what byte-level recovery sees at EVERY byte is
  `Props/C10.lean: inflight_invisible / synced_survives_crash` (over `recoverFilesystemT`). -/

namespace Host

/-- what a runtime transaction carries, as far as C10 is concerned -/
inductive ATx where
  /-- `SubmissionIntake`: submission id, canonical envelope digest (= ingress id) -/
  | accept (sid env : Nat)
  /-- `SchedulerTick`: submission id, tick receipt digest, state root / commit hash -/
  | tick (sid receipt root : Nat)
  deriving DecidableEq, Repr

structure ADisk where
  /-- transactions whose commit marker is completely on disk, in log order -/
  committed : List ATx
  /-- frames (any number, the last possibly torn, possibly a torn marker) of one more transaction -/
  tail : Option ATx
  deriving DecidableEq, Repr

/-- `FilesystemWalFaultTarget` on the append path (`PublishManifest` is not on it) -/
inductive Fault where
  | none | appendFrame | flushCommit | markerSynced
  deriving DecidableEq, Repr

inductive Resp where
  | ackNew (sid env : Nat) | ackDup (sid env : Nat) | outcome (sid receipt root : Nat) | err | idle
  deriving DecidableEq, Repr

structure Host where
  /-- `true` = a state in the middle of an operation: the caller has not been answered; the only
      thing that can happen to such a state from outside is a process death (then `restart`) -/
  mid : Bool
  disk : ADisk
  /-- `TrustedRuntimeWal::durable_submission_acceptances`: sid ↦ envelope digest (newest first) -/
  dedup : List (Nat × Nat)
  /-- runtime `submission_by_target` / witnessed submissions: envelope digest ↦ sid -/
  subs : List (Nat × Nat)
  /-- runtime decided outcomes: sid ↦ (receipt digest, state root) -/
  outcomes : List (Nat × Nat × Nat)
  /-- GHOST: acknowledgements returned to callers (`Ok(handle)`), ever -/
  acked : List (Nat × Nat)
  /-- GHOST: outcomes made observable (`tick_once` returned `Ok`), ever -/
  published : List (Nat × Nat × Nat)
  /-- GHOST: answers in reverse order -/
  resps : List Resp
  deriving DecidableEq, Repr

def acc? : ATx → Option (Nat × Nat)
  | .accept s e => some (s, e)
  | .tick _ _ _ => none

def sub? : ATx → Option (Nat × Nat)
  | .accept s e => some (e, s)
  | .tick _ _ _ => none

def tick? : ATx → Option (Nat × Nat × Nat)
  | .accept _ _ => none
  | .tick s r root => some (s, r, root)

/-- `recover_submission_index(report)` as the de-dup map (newest first = `BTreeMap::insert` wins) -/
def accIndex (c : List ATx) : List (Nat × Nat) := (c.filterMap acc?).reverse
/-- `restore_witnessed_submission_persistence` -/
def subsOf (c : List ATx) : List (Nat × Nat) := (c.filterMap sub?).reverse
/-- `recover_receipt_index` / `restore_causal_runtime_history` -/
def ticksOf (c : List ATx) : List (Nat × Nat × Nat) := (c.filterMap tick?).reverse

def init : Host :=
  { mid := false, disk := ⟨[], none⟩, dedup := [], subs := [], outcomes := [], acked := [], published := [],
    resps := [] }

structure Append where
  /-- disk states passed through before `append_transaction` returns -/
  mids : List ADisk
  final : ADisk
  ok : Bool

/-- `FilesystemWalStore::append_transaction`: frames first, then the marker (append + sync), then the
    ledger; `ok` only when everything succeeded -/
def appendTx (d : ADisk) (a : ATx) : Fault → Append
  | .none => ⟨[⟨d.committed, some a⟩], ⟨d.committed ++ [a], none⟩, true⟩
  | .appendFrame => ⟨[], ⟨d.committed, some a⟩, false⟩
  | .flushCommit => ⟨[], ⟨d.committed, some a⟩, false⟩
  | .markerSynced => ⟨[⟨d.committed, some a⟩], ⟨d.committed ++ [a], none⟩, false⟩

/-- writable `recover_filesystem_store` on the live store (`refresh_cursor_from_store_for_writer`, and
    `TrustedRuntimeWal::from_config`): the uncommitted tail is truncated -/
def truncated (d : ADisk) : ADisk := ⟨d.committed, none⟩

/-- the states `TrustedRuntimeWal::append_transaction(a)` and, on `Err`, the after-error repair
    (`refresh_cursor_from_store_for_writer`) pass through, starting from `h1` (= the host with its
    in-memory mutation already applied); `onOk` / `onErr` build the state in which the caller is
    answered from the disk as it is then -/
def commitStates (h1 : Host) (a : ATx) (f : Fault) (onOk onErr : ADisk → Host) : List Host :=
  let ap := appendTx h1.disk a f
  let mids := (ap.mids ++ [ap.final]).map (fun d => { h1 with mid := true, disk := d })
  if ap.ok then mids ++ [onOk ap.final]
  else
    let d' := truncated ap.final
    mids ++ [{ h1 with mid := true, disk := d', dedup := accIndex d'.committed }, onErr d']

/-- `submit_intent_with_runtime_wal_ack_inner` after `runtime.submit_app_intent` returned the handle
    (`known` = `handle.duplicate`, `sid` = `handle.submission_id`, `subs1` = the runtime's submissions
    after the intake) -/
def submitWith (h : Host) (known : Bool) (sid : Nat) (subs1 : List (Nat × Nat)) (env : Nat) (f : Fault) :
    List Host :=
  if known = true ∧ h.dedup.lookup sid = some env then
    [{ h with acked := (sid, env) :: h.acked, resps := .ackDup sid env :: h.resps }]
  else
    commitStates { h with subs := subs1 } (.accept sid env) f
      (fun d => { h with subs := subs1, disk := d, dedup := (sid, env) :: h.dedup,
                         acked := (sid, env) :: h.acked, resps := .ackNew sid env :: h.resps })
      (fun d =>
        if (accIndex d.committed).lookup sid = some env then
          { h with subs := subs1, disk := d, dedup := accIndex d.committed, acked := (sid, env) :: h.acked,
                   resps := .ackNew sid env :: h.resps }
        else
          { h with disk := d, dedup := accIndex d.committed, resps := .err :: h.resps })

/-- all states `submit_intent_with_runtime_wal_ack(envelope)` passes through; the last one is the state
    in which the caller has its answer.  `submit_app_intent`: a known `(head, ingress_id)` is a
    duplicate with its recorded submission id, otherwise a new witnessed submission `sidOf env`. -/
def submitStates (sidOf : Nat → Nat) (h : Host) (env : Nat) (f : Fault) : List Host :=
  match h.subs.lookup env with
  | some s => submitWith h true s h.subs env f
  | none => submitWith h false (sidOf env) ((env, sidOf env) :: h.subs) env f

/-- all states `tick_once` passes through when the scheduler decides the submission of envelope `env`
    with tick receipt `receipt` and resulting state root `root` (inputs: the engine is not modelled) -/
def tickStates (h : Host) (env receipt root : Nat) (f : Fault) : List Host :=
  match h.subs.lookup env with
  | none => [{ h with resps := .idle :: h.resps }]
  | some sid =>
    if (h.outcomes.lookup sid).isSome then [{ h with resps := .idle :: h.resps }]
    else
      let out1 := (sid, receipt, root) :: h.outcomes
      commitStates { h with outcomes := out1 } (.tick sid receipt root) f
        (fun d => { h with outcomes := out1, disk := d, published := (sid, receipt, root) :: h.published,
                           resps := .outcome sid receipt root :: h.resps })
        (fun d =>
          if ((ticksOf d.committed).lookup sid).map (fun p => p.1) = some receipt then
            { h with outcomes := out1, disk := d, dedup := accIndex d.committed,
                     published := (sid, receipt, root) :: h.published,
                     resps := .outcome sid receipt root :: h.resps }
          else
            { h with disk := d, dedup := accIndex d.committed, resps := .err :: h.resps })

/-- the process stops here — at an operation boundary or in the middle of one, at any byte of the
    record being written — and a fresh host runs `enable_runtime_wal` on the same root: everything
    in memory is a function of the committed transactions -/
def restart (h : Host) : Host :=
  { mid := false, disk := truncated h.disk, dedup := accIndex h.disk.committed,
    subs := subsOf h.disk.committed, outcomes := ticksOf h.disk.committed,
    acked := h.acked, published := h.published, resps := h.resps }

inductive Op where
  | submit (env : Nat) (f : Fault)
  | tick (env receipt root : Nat) (f : Fault)
  deriving DecidableEq, Repr

def opStates (sidOf : Nat → Nat) (h : Host) : Op → List Host
  | .submit env f => submitStates sidOf h env f
  | .tick env receipt root f => tickStates h env receipt root f

/-- every state the system can be in: after any sequence of operations, each possibly with an injected
    store fault, the process possibly dying (then restarting) at any operation boundary or inside any
    operation, any number of times -/
inductive Reach (sidOf : Nat → Nat) : Host → Prop
  | init : Reach sidOf init
  | step {h h' : Host} (op : Op) : Reach sidOf h → h.mid = false → h' ∈ opStates sidOf h op → Reach sidOf h'
  | restart {h : Host} : Reach sidOf h → Reach sidOf (restart h)

/-- the last state of an operation (the one in which the caller has been answered); driver use -/
def lastState (h : Host) : List Host → Host
  | [] => h
  | [x] => x
  | _ :: xs => lastState h xs

end Host

end EchoVerif.Wal
