/-
  EchoVerif.Model.Chain — provenance history, replay, checkpoints, fork, playback cursor.
  Shared by C07 (path independence) and C05 (tamper evidence).

  Rust anchors (crates/warp-core/src):
    provenance_store.rs : ProvenanceEntry, validate_shared_entry / validate_local_commit_entry /
                          append_local_commit, replay_artifacts_for_entry, validate_replay_base,
                          restore_replay_base, advance_replay_state,
                          replay_worldline_state_at_from_provenance, validate_checkpoint_for_history,
                          add_checkpoint, checkpoint_before, LocalProvenanceStore::fork
    playback.rs         : PlaybackCursor::{new, seek_to, step}, map_replay_error
    coordinator.rs      : super_tick_inner (what a live commit records)

  Abstraction (deliberate): the graph state is an abstract `S`, a patch an abstract `P`; how a patch
  applies and what the digests are is a record `Sem` of functions.  Digests are an abstract type `D`
  with decidable equality — the executable driver instantiates `D := String` (rendered hash
  pre-image), theorems take `Function.Injective` hypotheses on the digest functions they need.
  `last_snapshot`, `committed_ingress`, `last_materialization_errors` are fields of the checkpoint
  only (`Cp.ls`, `Cp.nIngress`, `Cp.nErrs`): in every replayed `WorldlineState` they are
  `tick_history.last` / empty, which is exactly what `validate_checkpoint_for_history` enforces.
  Not modelled: `u64` overflow corners (`checked_increment` at `u64::MAX`).
-/
import EchoVerif.Model.Basic

namespace EchoVerif.Chain

/-- Error classes (the `SeekError` / `ReplayError` / `HistoryError` kinds the harness prints). -/
inductive RErr where
  | histUnavail (t : Nat)
  | apply (t : Nat) (code : Nat)
  | stateRoot (t : Nat)
  | commitHash (t : Nat)
  | patchDigest (t : Nat)
  | receipt (t : Nat)
  | cpRoot (t : Nat)
  | baseWarp
  | boundary
  | pinned
  -- add_checkpoint / fork / append
  | cpWarp
  | cpBoundary
  | cpMeta
  | wlExists
  | wlMissing
  | entryWl
  | tickGap
  | parentsOrder
  | parentMissing
  | parentHash
  | noHead
  | headWl
  | noPatch
  | rcptTx
  | rcptDigest
  | kind
  deriving DecidableEq, Repr

/-- What replay needs to know about graph states and patches. -/
structure Sem (S P D O M : Type) where
  /-- `apply_ops_to_state`: new (on error: partially updated) state and an error code. -/
  apply : S → P → S × Option Nat
  /-- `compute_state_root`. -/
  root : S → D
  /-- `patch.warp_id`. -/
  pwarp : P → Nat
  /-- `patch.header.policy_id`. -/
  policy : P → Nat
  /-- the `patch_digest` field stored in the patch. -/
  stored : P → D
  /-- digest recomputed from the canonicalised patch contents (`WarpTickPatchV1::new(..).digest()`). -/
  computed : P → D
  /-- `patch.header.decision_digest`. -/
  decision : P → D
  /-- `compute_commit_hash_v2 (state_root, parents, patch_digest, policy)`. -/
  commit : List D → D → D → Nat → D
  /-- everything else of the patch that lands in `tick_history` (header digests, canonical ops). -/
  pmeta : P → M
  /-- empty `last_materialization`. -/
  noOut : O
  /-- digest of the empty receipt `TickReceipt::new(tx, [], [])` substituted when none is retained. -/
  emptyRcpt : D

/-- `ProvenanceRef`. -/
structure PRef (D : Type) where
  wl : Nat
  tick : Nat
  commit : D
  deriving DecidableEq

/-- `ProvenanceEntry`. `atomWrites`/`gtick`/`head` are carried because they are retained fields. -/
structure Entry (P D O : Type) where
  wl : Nat
  tick : Nat
  gtick : Nat
  head : Option (Nat × Nat)
  parents : List (PRef D)
  localKind : Bool
  expRoot : D
  expDigest : D
  expCommit : D
  patch : Option P
  receipt : Option (Nat × D)
  outputs : O
  atomWrites : Nat

/-- One `tick_history` element `(Snapshot, TickReceipt, WarpTickPatchV1)`. -/
structure Art (D M : Type) where
  hash : D
  root : D
  parents : List D
  pdigest : D
  policy : Nat
  tx : Nat
  rcpt : Nat × D
  pm : M
  deriving DecidableEq

structure Core (S D M : Type) where
  g : S
  hist : List (Art D M)

/-- `WorldlineState` as far as replay reads or writes it. -/
structure WState (S D O M : Type) where
  core : Core S D M
  lastMat : O
  txc : Nat

/-- `ReplayCheckpoint` (its state carries its own root warp and preserved initial state).
    `ls` = the state's `last_snapshot`, carried as the `tick_history` element whose snapshot it is
    (in every replayed state it is `tick_history.last`); `nIngress` / `nErrs` = sizes of the retained
    `committed_ingress` / `last_materialization_errors` (empty in every replayed state). -/
structure Cp (S D O M : Type) where
  tick : Nat
  hash : D
  w : WState S D O M
  warp : Nat
  s0 : S
  ls : Option (Art D M)
  nIngress : Nat
  nErrs : Nat

/-- `WorldlineHistory`. -/
structure Hist (S P D O M : Type) where
  u0 : Nat
  boundary : D
  entries : List (Entry P D O)
  cps : List (Cp S D O M)

/-- The `initial_state: &WorldlineState` argument: root warp + preserved U0 graph. -/
structure Base (S : Type) where
  warp : Nat
  s0 : S

section
variable {S P D O M : Type} [DecidableEq D] [DecidableEq M] [DecidableEq O]
variable (sem : Sem S P D O M)

/-- `replay_artifacts_for_entry`. -/
def artOf (k : Nat) (e : Entry P D O) (p : P) : Except RErr (Art D M) :=
  if e.expDigest ≠ sem.stored p then .error (.patchDigest k)
  else if sem.computed p ≠ sem.stored p then .error (.patchDigest k)
  else
    let a : Art D M :=
      { hash := e.expCommit, root := e.expRoot, parents := e.parents.map (·.commit),
        pdigest := e.expDigest, policy := sem.policy p, tx := k + 1,
        rcpt := (match e.receipt with | some r => r | none => (k + 1, sem.emptyRcpt)),
        pm := sem.pmeta p }
    match e.receipt with
    | none => .ok a
    | some (tx, dg) =>
      if tx ≠ k + 1 then .error (.receipt k)
      else if dg ≠ sem.decision p then .error (.receipt k)
      else .ok a

/-- Loop body of `advance_replay_state` for the entry at tick `k`. `u0` is `replayed.root().warp_id`. -/
def step (u0 : Nat) (k : Nat) (e : Entry P D O) (c : Core S D M) : Core S D M × Option RErr :=
  match e.patch with
  | none => (c, some (.histUnavail k))
  | some p =>
    if sem.pwarp p ≠ u0 then (c, some (.apply k 100))
    else
      match sem.apply c.g p with
      | (g', some code) => ({ c with g := g' }, some (.apply k code))
      | (g', none) =>
        let r := sem.root g'
        if r ≠ e.expRoot then ({ c with g := g' }, some (.stateRoot k))
        else if sem.commit (e.parents.map (·.commit)) r e.expDigest (sem.policy p) ≠ e.expCommit then
          ({ c with g := g' }, some (.commitHash k))
        else
          match artOf sem k e p with
          | .error err => ({ c with g := g' }, some err)
          | .ok a => ({ g := g', hist := c.hist ++ [a] }, none)

/-- `for raw_tick in k .. k+n`: fetch the entry, run the body, stop at the first error. -/
def runFrom (u0 : Nat) (es : List (Entry P D O)) : Nat → Nat → Core S D M → Core S D M × Option RErr
  | _, 0, c => (c, none)
  | k, n + 1, c =>
    match es[k]? with
    | none => (c, some (.histUnavail k))
    | some e =>
      match step sem u0 k e c with
      | (c', some err) => (c', some err)
      | (c', none) => runFrom u0 es (k + 1) n c'

/-- `advance_replay_state(start = k, target = t)` including `finalize_replay_metadata`.
    On error the partially advanced state is returned as the code leaves it in `&mut replayed`. -/
def advance (h : Hist S P D O M) (w : WState S D O M) (k t : Nat) : WState S D O M × Option RErr :=
  if k = t then (w, none)
  else
    match runFrom sem h.u0 h.entries k (t - k) w.core with
    | (c, some err) => ({ w with core := c }, some err)
    | (c, none) =>
      if t = 0 then ({ core := c, lastMat := sem.noOut, txc := 0 }, none)
      else
        let lm := match h.entries[t - 1]? with
          | some e => if k < t then e.outputs else w.lastMat
          | none => w.lastMat
        ({ core := c, lastMat := lm, txc := t }, none)

/-- `WorldlineState::replay_base_from_initial`. -/
def resetBase (b : Base S) : WState S D O M :=
  { core := { g := b.s0, hist := [] }, lastMat := sem.noOut, txc := 0 }

/-- `validate_replay_base`. -/
def validateBase (h : Hist S P D O M) (b : Base S) : Option RErr :=
  if b.warp ≠ h.u0 then some .baseWarp
  else if sem.root b.s0 ≠ h.boundary then some .boundary
  else none

/-- `checkpoint_before(w, tick)`: the last checkpoint with `worldline_tick < tick`
    (binary search over the tick-sorted vector). -/
def cpBefore (cps : List (Cp S D O M)) (t : Nat) : Option (Cp S D O M) :=
  (cps.filter (fun c => c.tick < t)).getLast?

/-- `expected_state_root_at_materialized_tick` / `expected_state_root_for_checkpoint`. -/
def expectedRootAt (h : Hist S P D O M) (t : Nat) : Except RErr D :=
  if t = 0 then .ok h.boundary
  else match h.entries[t - 1]? with
    | some e => .ok e.expRoot
    | none => .error (.histUnavail (t - 1))

/-- `restore_replay_base`. -/
def restoreBase (h : Hist S P D O M) (b : Base S) (t : Nat) : Except RErr (WState S D O M × Nat) :=
  match cpBefore h.cps (t + 1) with
  | some c =>
    match expectedRootAt h c.tick with
    | .error e => .error e
    | .ok ex =>
      if c.hash ≠ ex then .error (.cpRoot c.tick)
      else if sem.root c.w.core.g ≠ ex then .error (.cpRoot c.tick)
      else .ok (c.w, c.tick)
  | none => .ok (resetBase sem b, 0)

/-- `replay_worldline_state_at_from_provenance` (uses the stored checkpoints). -/
def replayAt (h : Hist S P D O M) (b : Base S) (t : Nat) : Except RErr (WState S D O M) :=
  if t > h.entries.length then .error (.histUnavail t)
  else match validateBase sem h b with
    | some e => .error e
    | none =>
      match restoreBase sem h b t with
      | .error e => .error e
      | .ok (w, start) =>
        match advance sem h w start t with
        | (_, some e) => .error e
        | (w', none) => .ok w'

/-- The reference: replay ticks `0..t` from the initial state, no checkpoints. -/
def replayRef (h : Hist S P D O M) (b : Base S) (t : Nat) : WState S D O M × Option RErr :=
  advance sem h (resetBase sem b) 0 t

/-! ### Playback cursor -/

inductive Mode where
  | paused
  | play
  | stepForward
  | stepBack
  | seek (target : Nat) (thenPlay : Bool)
  deriving DecidableEq, Repr

structure Cursor (S D O M : Type) where
  tick : Nat
  w : WState S D O M
  mode : Mode
  reader : Bool
  pin : Nat
  validated : Bool

/-- `PlaybackCursor::new` (the harness always passes an unadvanced base). -/
def Cursor.fresh (b : Base S) (reader : Bool) (pin : Nat) : Cursor S D O M :=
  { tick := 0, w := resetBase sem b, mode := .paused, reader := reader, pin := pin, validated := false }

/-- Which branch `seek_to` takes (not observable on the real cursor; used for coverage tags and
    stated in `seek_path_free`). -/
inductive Branch where
  | rejected
  | noop
  | forward
  | restore
  deriving DecidableEq, Repr

/-- `should_restore_from_checkpoint`: the nearest checkpoint at or below the target lies strictly
    after the cursor. -/
def viaCheckpoint (h : Hist S P D O M) (curTick t : Nat) : Bool :=
  match cpBefore h.cps (t + 1) with
  | some c => decide (c.tick > curTick)
  | none => false

def seekBranch (h : Hist S P D O M) (cur : Cursor S D O M) (t : Nat) : Branch :=
  if t > cur.pin then .rejected
  else if t > h.entries.length then .rejected
  else if t = cur.tick then .noop
  else if (decide (t < cur.tick) || viaCheckpoint h cur.tick t) then .restore else .forward

/-- The forward branch of `seek_to`: the advance runs on a scratch copy which is committed only on
    success (fix-c07-seek-failed-advance: before the fix the half-advanced state stayed in the
    cursor behind the old tick). -/
def seekForward (h : Hist S P D O M) (cur : Cursor S D O M) (t : Nat) : Cursor S D O M × Option RErr :=
  match advance sem h cur.w cur.tick t with
  | (_, some e) => (cur, some e)
  | (w', none) => ({ cur with w := w', tick := t }, none)

/-- `PlaybackCursor::seek_to`. -/
def seekTo (h : Hist S P D O M) (b : Base S) (cur : Cursor S D O M) (t : Nat) :
    Cursor S D O M × Option RErr :=
  if t > cur.pin then (cur, some .pinned)
  else if t > h.entries.length then (cur, some (.histUnavail t))
  else if t = cur.tick then
    if !cur.validated ∧ cur.tick = 0 then
      match validateBase sem h b with
      | some e => (cur, some e)
      | none => ({ cur with validated := true }, none)
    else (cur, none)
  else if (decide (t < cur.tick) || viaCheckpoint h cur.tick t) then
    match replayAt sem h b t with
    | .error e => (cur, some e)
    | .ok w => ({ cur with w := w, validated := true, tick := t }, none)
  else if !cur.validated then
    match validateBase sem h b with
    | some e => (cur, some e)
    | none => seekForward sem h { cur with validated := true } t
  else seekForward sem h cur t

inductive StepResult where
  | noOp
  | advanced
  | seeked
  | reachedFrontier
  deriving DecidableEq, Repr

/-- `PlaybackCursor::step`. -/
def stepCursor (h : Hist S P D O M) (b : Base S) (cur : Cursor S D O M) :
    Cursor S D O M × Except RErr StepResult :=
  match cur.mode with
  | .paused => (cur, .ok .noOp)
  | .play =>
    if cur.reader then
      if cur.tick ≥ cur.pin then ({ cur with mode := .paused }, .ok .reachedFrontier)
      else match seekTo sem h b cur (cur.tick + 1) with
        | (c, some e) => (c, .error e)
        | (c, none) => (c, .ok .advanced)
    else (cur, .ok .noOp)
  | .stepForward =>
    if cur.reader then
      if cur.tick ≥ cur.pin then ({ cur with mode := .paused }, .ok .reachedFrontier)
      else match seekTo sem h b cur (cur.tick + 1) with
        | (c, some e) => (c, .error e)
        | (c, none) => ({ c with mode := .paused }, .ok .advanced)
    else ({ cur with mode := .paused }, .ok .noOp)
  | .stepBack =>
    match seekTo sem h b cur (cur.tick - 1) with
    | (c, some e) => (c, .error e)
    | (c, none) => ({ c with mode := .paused }, .ok .seeked)
  | .seek target thenPlay =>
    match seekTo sem h b cur target with
    | (c, some e) => (c, .error e)
    | (c, none) => ({ c with mode := if thenPlay then .play else .paused }, .ok .seeked)

/-- Cursor operations of the correspondence stream. -/
inductive COp where
  | seek (t : Nat)
  | setMode (m : Mode)
  | setPin (p : Nat)
  | step
  deriving DecidableEq, Repr

def applyCOp (h : Hist S P D O M) (b : Base S) (cur : Cursor S D O M) : COp → Cursor S D O M
  | .seek t => (seekTo sem h b cur t).1
  | .setMode m => { cur with mode := m }
  | .setPin p => { cur with pin := p }
  | .step => (stepCursor sem h b cur).1

def runCOps (h : Hist S P D O M) (b : Base S) (cur : Cursor S D O M) (ops : List COp) : Cursor S D O M :=
  ops.foldl (applyCOp sem h b) cur

/-! ### Checkpoints -/

/-- The `tick_history` comparison loop of `validate_checkpoint_for_history`. -/
def histMatches (es : List (Entry P D O)) : Nat → List (Art D M) → Bool
  | _, [] => true
  | i, a :: rest =>
    match es[i]? with
    | none => false
    | some e =>
      match e.patch with
      | none => false
      | some p =>
        match artOf sem i e p with
        | .error _ => false
        | .ok a' => decide (a = a') && histMatches es (i + 1) rest

/-- `validate_checkpoint_for_history`. -/
def validateCp (h : Hist S P D O M) (c : Cp S D O M) : Option RErr :=
  if c.tick > h.entries.length then some (.histUnavail c.tick)
  else if c.warp ≠ h.u0 then some .cpWarp
  else if sem.root c.s0 ≠ h.boundary then some .cpBoundary
  else if sem.root c.w.core.g ≠ c.hash then some (.cpRoot c.tick)
  else match expectedRootAt h c.tick with
    | .error _ => some (.histUnavail c.tick)
    | .ok ex =>
      if sem.root c.w.core.g ≠ ex then some (.cpRoot c.tick)
      else if c.w.core.hist.length ≠ c.tick then some .cpMeta
      else if c.w.txc ≠ c.tick then some .cpMeta
      else if c.nIngress ≠ 0 then some .cpMeta
      else if c.nErrs ≠ 0 then some .cpMeta
      else if c.tick = 0 then
        (if c.ls.isSome then some .cpMeta
         else if c.w.lastMat ≠ sem.noOut then some .cpMeta else none)
      else if !histMatches sem h.entries 0 c.w.core.hist then some .cpMeta
      else match h.entries[c.tick - 1]? with
        | none => some (.histUnavail c.tick)
        | some e =>
          if c.w.lastMat ≠ e.outputs then some .cpMeta
          else if c.ls.isNone then some .cpMeta
          else if c.ls ≠ c.w.core.hist.getLast? then some .cpMeta
          else none

/-- Sorted insert-or-replace by tick (`binary_search_by_key` + `insert`). -/
def insertCp (c : Cp S D O M) : List (Cp S D O M) → List (Cp S D O M)
  | [] => [c]
  | x :: rest =>
    if c.tick < x.tick then c :: x :: rest
    else if c.tick = x.tick then c :: rest
    else x :: insertCp c rest

/-- `LocalProvenanceStore::add_checkpoint`. -/
def addCheckpoint (h : Hist S P D O M) (c : Cp S D O M) : Except RErr (Hist S P D O M) :=
  match validateCp sem h c with
  | some e => .error e
  | none => .ok { h with cps := insertCp c h.cps }

/-- `ReplayCheckpoint::from_state` of a state that came out of replay on base `b`. -/
def Cp.ofState (b : Base S) (t : Nat) (w : WState S D O M) : Cp S D O M :=
  { tick := t, hash := sem.root w.core.g, w := w, warp := b.warp, s0 := b.s0
    ls := w.core.hist.getLast?, nIngress := 0, nErrs := 0 }

/-! ### Fork -/

/-- `rewrite_entry_for_fork`. -/
def rewriteEntry (src new : Nat) (e : Entry P D O) : Entry P D O :=
  { e with
    wl := new
    head := e.head.map (fun hk => if hk.1 = src then (new, hk.2) else hk)
    parents := e.parents.map (fun p => if p.wl = src then { p with wl := new } else p) }

/-- `LocalProvenanceStore::fork` on the source history (existence of `new` is checked by the caller). -/
def forkHist (h : Hist S P D O M) (src new k : Nat) : Except RErr (Hist S P D O M) :=
  if k ≥ h.entries.length then .error (.histUnavail k)
  else .ok
    { u0 := h.u0, boundary := h.boundary
      entries := (h.entries.take (k + 1)).map (rewriteEntry src new)
      cps := h.cps.filter (fun c => c.tick ≤ k + 1) }

/-! ### Append (validate_shared_entry + validate_local_commit_entry) -/

/-- All registered worldlines: id ↦ history. -/
abbrev Prov (S P D O M : Type) := List (Nat × Hist S P D O M)

def Prov.get (pv : Prov S P D O M) (w : Nat) : Option (Hist S P D O M) := pv.lookup w

def Prov.set (pv : Prov S P D O M) (w : Nat) (h : Hist S P D O M) : Prov S P D O M :=
  match pv with
  | [] => [(w, h)]
  | (w', h') :: rest => if w' = w then (w, h) :: rest else (w', h') :: Prov.set rest w h

/-- strict ascent of parent commit hashes under the byte order `lt`. -/
def parentsAscending (lt : D → D → Bool) : List (PRef D) → Bool
  | [] => true
  | [_] => true
  | a :: b :: rest => lt a.commit b.commit && parentsAscending lt (b :: rest)

def parentsResolve (pv : Prov S P D O M) : List (PRef D) → Option RErr
  | [] => none
  | p :: rest =>
    match (pv.get p.wl).bind (fun h => h.entries[p.tick]?) with
    | none => some .parentMissing
    | some st => if st.expCommit ≠ p.commit then some .parentHash else parentsResolve pv rest

/-- `validate_local_commit_entry` for the worldline `e.wl` whose next tick is `len`. -/
def validateLocal (lt : D → D → Bool) (pv : Prov S P D O M) (len : Nat) (e : Entry P D O) : Option RErr :=
  if e.tick ≠ len then some .tickGap
  else if !parentsAscending lt e.parents then some .parentsOrder
  else match parentsResolve pv e.parents with
    | some err => some err
    | none =>
      match e.head with
      | none => some .noHead
      | some hk =>
        if hk.1 ≠ e.wl then some .headWl
        else match e.patch with
          | none => some .noPatch
          | some p =>
            let rc : Option RErr := match e.receipt with
              | none => none
              | some (tx, dg) =>
                if tx ≠ e.tick + 1 then some .rcptTx
                else if dg ≠ sem.decision p then some .rcptDigest else none
            match rc with
            | some err => some err
            | none => if !e.localKind then some .kind else none

/-- `append_local_commit`. -/
def appendLocal (lt : D → D → Bool) (pv : Prov S P D O M) (e : Entry P D O) :
    Except RErr (Prov S P D O M) :=
  match pv.get e.wl with
  | none => .error .wlMissing
  | some h =>
    match validateLocal sem lt pv h.entries.length e with
    | some err => .error err
    | none => .ok (pv.set e.wl { h with entries := h.entries ++ [e] })

/-! ### Live runtime (what `super_tick_inner` records for one committed tick) -/

/-- One live commit: the engine moved the graph to `g'` and produced `p`; the coordinator appends the
    entry built from the tip and pushes the same artefacts onto the live `tick_history`. -/
def liveEntry (h : Hist S P D O M) (wl headId gtick : Nat) (g' : S) (p : P) (outs : O) :
    Entry P D O :=
  let parents : List (PRef D) := match h.entries.getLast? with
    | none => []
    | some e => [{ wl := e.wl, tick := e.tick, commit := e.expCommit }]
  let r := sem.root g'
  { wl := wl, tick := h.entries.length, gtick := gtick, head := some (wl, headId), parents := parents
    localKind := true, expRoot := r, expDigest := sem.stored p
    expCommit := sem.commit (parents.map (·.commit)) r (sem.stored p) (sem.policy p)
    patch := some p, receipt := some (h.entries.length + 1, sem.decision p), outputs := outs
    atomWrites := 0 }

def liveCommit (h : Hist S P D O M) (w : WState S D O M) (wl headId gtick : Nat) (g' : S) (p : P)
    (outs : O) : Hist S P D O M × WState S D O M :=
  let e := liveEntry sem h wl headId gtick g' p outs
  let a : Art D M :=
    { hash := e.expCommit, root := e.expRoot, parents := e.parents.map (·.commit)
      pdigest := e.expDigest, policy := sem.policy p, tx := h.entries.length + 1
      rcpt := (h.entries.length + 1, sem.decision p), pm := sem.pmeta p }
  ({ h with entries := h.entries ++ [e] },
   { core := { g := g', hist := w.core.hist ++ [a] }, lastMat := outs, txc := h.entries.length + 1 })

end

end EchoVerif.Chain
