/-
  EchoVerif.Model.Root — model of the two state-root computations (property C06):

  * `snapshot.rs`: `collect_reachable_graph` (BFS over out-edges and descended portals) and
    `compute_state_root` (canonical stream over the reachable part of every reachable instance);
  * `snapshot_accum.rs`: `SnapshotAccumulator::from_warp_state`, `compute_reachability`,
    `compute_state_root` (the same stream, produced from flat tables without reverse indexes).

  Both traversals are instances of one queue-driven loop over a `View` (what the loop reads from
  the state); both streams are `encode tags (content …)`, where `Content` is the abstract reachable
  content. Tag bytes and the domain prefix come from `Generated/RootTags` (extracted from the Rust
  source on every run). The digest itself is never modelled: `rootPreimage` is an `HExpr`.

  Production behaviour is modelled where the Rust has `debug_assert!(false); continue`:
  a reachable warp without store/instance is skipped.
-/
import EchoVerif.Model.Graph
import EchoVerif.Generated.RootTags

namespace EchoVerif
namespace Root
open Graph

abbrev NKey := Nat × Nat   -- (warp id, node id) = `NodeKey`

/-! ### reachability -/

/-- What the traversal reads from a state. -/
structure View where
  /-- out-edges of a node key: (target node id, β attachment of the edge) -/
  out : NKey → List (Nat × Option Att)
  /-- α attachment of a node key -/
  natt : NKey → Option Att
  /-- `instance(warp).root_node` -/
  instRoot : Nat → Option Nat

/-- `BTreeSet<WarpId>::insert` on the sorted list representation. -/
def insertW (w : Nat) : List Nat → List Nat
  | [] => [w]
  | x :: xs => if w < x then w :: x :: xs else if w = x then x :: xs else x :: insertW w xs

structure Vis where
  nodes : List NKey     -- `reachable_nodes` (a set; membership is all that is used)
  warps : List Nat      -- `reachable_warps` (sorted, duplicate-free)
  queue : List NKey
  deriving DecidableEq, Repr

/-- `if reachable_nodes.insert(k) { queue.push_back(k) }` -/
def Vis.visit (v : Vis) (k : NKey) : Vis :=
  if k ∈ v.nodes then v else { v with nodes := k :: v.nodes, queue := v.queue ++ [k] }

/-- `if let Some(Descend(child)) = att { enqueue_descend(child) }` -/
def descend (V : View) (v : Vis) : Option Att → Vis
  | some (.descend c) =>
    let v1 : Vis := { v with warps := insertW c v.warps }
    match V.instRoot c with
    | none => v1
    | some r => v1.visit (c, r)
  | _ => v

def edgeStep (V : View) (cur : NKey) (v : Vis) (p : Nat × Option Att) : Vis :=
  descend V (v.visit (cur.1, p.1)) p.2

/-- body of the `while let Some(current) = queue.pop_front()` loop -/
def expand (V : View) (v : Vis) (cur : NKey) : Vis :=
  descend V ((V.out cur).foldl (edgeStep V cur) v) (V.natt cur)

def loop (V : View) : Nat → Vis → Vis
  | 0, v => v
  | f + 1, v =>
    match v.queue with
    | [] => v
    | cur :: q => loop V f (expand V { v with queue := q } cur)

def init (r : NKey) : Vis := { nodes := [r], warps := [r.1], queue := [r] }

/-- every key the traversal can ever insert (used only for the fuel bound) -/
structure Universe (V : View) where
  keys : List NKey
  out_mem : ∀ k p, p ∈ V.out k → (k.1, p.1) ∈ keys
  inst_mem : ∀ c r, V.instRoot c = some r → (c, r) ∈ keys

/-! ### the store path (`snapshot.rs`) -/

def outEdges (st : Store) (n : Nat) : List (Nat × EdgeRec) :=
  st.edges.filter (fun p => p.2.src == n)

def storeView (s : WState) : View where
  out k := match s.store? k.1 with
    | none => []
    | some st => (outEdges st k.2).map (fun p => (p.2.dst, SMap.find? p.1 st.edgeAtt))
  natt k := match s.store? k.1 with
    | none => none
    | some st => SMap.find? k.2 st.nodeAtt
  instRoot c := (SMap.find? c s.instances).map (·.root)

/-- all edge targets and all instance roots -/
def storeKeys (s : WState) : List NKey :=
  s.stores.flatMap (fun ws => ws.2.edges.map (fun p => (ws.1, p.2.dst)))
    ++ s.instances.map (fun ci => (ci.1, ci.2.root))

def storeFuel (s : WState) : Nat := (storeKeys s).length + 2

/-- `collect_reachable_graph` -/
def reach (s : WState) (r : NKey) : Vis := loop (storeView s) (storeFuel s) (init r)

/-! ### abstract reachable content and its byte encoding -/

structure NodeC where
  id : Nat
  ty : Nat
  att : Option Att
  deriving DecidableEq, Repr

structure EdgeC where
  id : Nat
  ty : Nat
  dst : Nat
  att : Option Att
  deriving DecidableEq, Repr

structure BucketC where
  src : Nat
  edges : List EdgeC
  deriving DecidableEq, Repr

structure InstC where
  warp : Nat
  root : Nat
  parent : Option AttKey
  nodes : List NodeC
  buckets : List BucketC
  deriving DecidableEq, Repr

structure Content where
  rootWarp : Nat
  rootNode : Nat
  insts : List InstC
  deriving DecidableEq, Repr

structure Tags where
  attNone : UInt8
  attSome : UInt8
  attAtom : UInt8
  attDescend : UInt8
  keyNone : UInt8
  keySome : UInt8
  ownerNode : UInt8
  ownerEdge : UInt8
  planeAlpha : UInt8
  planeBeta : UInt8
  deriving DecidableEq, Repr

open Generated.RootTags in
def storeTags : Tags :=
  { attNone := storeAttNone, attSome := storeAttSome, attAtom := storeAttAtom,
    attDescend := storeAttDescend, keyNone := storeKeyNone, keySome := storeKeySome,
    ownerNode := ownerNode, ownerEdge := ownerEdge, planeAlpha := planeAlpha, planeBeta := planeBeta }

open Generated.RootTags in
def accumTags : Tags :=
  { attNone := accumAttNone, attSome := accumAttSome, attAtom := accumAttAtom,
    attDescend := accumAttDescend, keyNone := accumKeyNone, keySome := accumKeySome,
    ownerNode := ownerNode, ownerEdge := ownerEdge, planeAlpha := planeAlpha, planeBeta := planeBeta }

def id32 (n : Nat) : Bytes := natToBE 32 n

/-- `hash_attachment_value_opt` -/
def encAtt (t : Tags) : Option Att → Bytes
  | none => [t.attNone]
  | some (.atom ty b) => t.attSome :: t.attAtom :: (id32 ty ++ (u64le b.length ++ b))
  | some (.descend w) => t.attSome :: t.attDescend :: id32 w

/-- `hash_attachment_key_opt` -/
def encKey (t : Tags) : Option AttKey → Bytes
  | none => [t.keyNone]
  | some k =>
    let pt := match k.plane with | .alpha => t.planeAlpha | .beta => t.planeBeta
    match k.owner with
    | .node w i => t.keySome :: t.ownerNode :: pt :: (id32 w ++ id32 i)
    | .edge w i => t.keySome :: t.ownerEdge :: pt :: (id32 w ++ id32 i)

def encNode (t : Tags) (n : NodeC) : Bytes := id32 n.id ++ (id32 n.ty ++ encAtt t n.att)

def encEdge (t : Tags) (e : EdgeC) : Bytes :=
  id32 e.id ++ (id32 e.ty ++ (id32 e.dst ++ encAtt t e.att))

def encBucket (t : Tags) (b : BucketC) : Bytes :=
  id32 b.src ++ (u64le b.edges.length ++ b.edges.flatMap (encEdge t))

def encInst (t : Tags) (i : InstC) : Bytes :=
  id32 i.warp ++ (id32 i.root ++ (encKey t i.parent ++
    (i.nodes.flatMap (encNode t) ++ i.buckets.flatMap (encBucket t))))

def encode (t : Tags) (c : Content) : Bytes :=
  id32 c.rootWarp ++ (id32 c.rootNode ++ c.insts.flatMap (encInst t))

/-! ### store path: content of a state -/

/-- keys of `store.edges_from` (non-empty buckets), ascending -/
def sources (st : Store) : List Nat :=
  st.edges.foldl (fun acc p => insertW p.2.src acc) []

def storeNodes (w : Nat) (st : Store) (vis : List NKey) : List NodeC :=
  (st.nodes.filter (fun p => decide ((w, p.1) ∈ vis))).map
    (fun p => { id := p.1, ty := p.2, att := SMap.find? p.1 st.nodeAtt })

def storeBucket (w : Nat) (st : Store) (vis : List NKey) (src : Nat) : BucketC :=
  { src := src,
    edges := ((outEdges st src).filter (fun p => decide ((w, p.2.dst) ∈ vis))).map
      (fun p => { id := p.1, ty := p.2.ty, dst := p.2.dst, att := SMap.find? p.1 st.edgeAtt }) }

def storeBuckets (w : Nat) (st : Store) (vis : List NKey) : List BucketC :=
  ((sources st).filter (fun src => decide ((w, src) ∈ vis))).map (storeBucket w st vis)

/-- one iteration of `for warp_id in &reachable_warps` (both lookups must succeed) -/
def storeInst (s : WState) (vis : List NKey) (w : Nat) : List InstC :=
  match SMap.find? w s.instances, s.store? w with
  | some inst, some st =>
    [{ warp := inst.warp, root := inst.root, parent := inst.parent,
       nodes := storeNodes w st vis, buckets := storeBuckets w st vis }]
  | _, _ => []

def contentOf (s : WState) (r : NKey) (v : Vis) : Content :=
  { rootWarp := r.1, rootNode := r.2, insts := v.warps.flatMap (storeInst s v.nodes) }

def content (s : WState) (r : NKey) : Content := contentOf s r (reach s r)

open Generated.RootTags in
def domainIf (b : Bool) : Bytes := if b then domainStateRoot else []

open Generated.RootTags in
/-- the exact byte stream fed to BLAKE3 by `snapshot::compute_state_root` -/
def rootBytes (s : WState) (r : NKey) : Bytes :=
  domainIf storeHasDomain ++ encode storeTags (content s r)

def rootPreimage (s : WState) (r : NKey) : HExpr := .h [.raw (rootBytes s r)]

/-! ### the accumulator path (`snapshot_accum.rs`) -/

structure Acc where
  instances : SMap Nat Instance
  nodes : List (NKey × Nat)          -- `BTreeMap<NodeKey, NodeRowParts>` in key order
  edges : List (NKey × EdgeRec)      -- `BTreeMap<(WarpId, EdgeId), EdgeRowParts>` in key order
  nodeAtt : List (NKey × Att)
  edgeAtt : List (NKey × Att)
  deriving DecidableEq, Repr

def alookup {ν : Type} (k : NKey) : List (NKey × ν) → Option ν
  | [] => none
  | (k', v) :: rest => if k = k' then some v else alookup k rest

/-- `SnapshotAccumulator::from_warp_state`: stores ascend by warp, rows by local id, so the
    concatenation is in `(warp, id)` order. -/
def Acc.ofState (s : WState) : Acc :=
  { instances := s.instances,
    nodes := s.stores.flatMap (fun ws => ws.2.nodes.map (fun p => ((ws.1, p.1), p.2))),
    edges := s.stores.flatMap (fun ws => ws.2.edges.map (fun p => ((ws.1, p.1), p.2))),
    nodeAtt := s.stores.flatMap (fun ws => ws.2.nodeAtt.map (fun p => ((ws.1, p.1), p.2))),
    edgeAtt := s.stores.flatMap (fun ws => ws.2.edgeAtt.map (fun p => ((ws.1, p.1), p.2))) }

def accView (a : Acc) : View where
  out k := (a.edges.filter (fun p => p.1.1 == k.1 && p.2.src == k.2)).map
    (fun p => (p.2.dst, alookup p.1 a.edgeAtt))
  natt k := alookup k a.nodeAtt
  instRoot c := (SMap.find? c a.instances).map (·.root)

def accKeys (a : Acc) : List NKey :=
  a.edges.map (fun p => (p.1.1, p.2.dst)) ++ a.instances.map (fun ci => (ci.1, ci.2.root))

def accFuel (a : Acc) : Nat := (accKeys a).length + 2

/-- `compute_reachability` -/
def accReach (a : Acc) (r : NKey) : Vis := loop (accView a) (accFuel a) (init r)

def accNodes (a : Acc) (w : Nat) (vis : List NKey) : List NodeC :=
  (a.nodes.filter (fun p => p.1.1 == w && decide (p.1 ∈ vis))).map
    (fun p => { id := p.1.2, ty := p.2, att := alookup p.1 a.nodeAtt })

/-- edges of warp `w` with reachable source and target, in edge-id order -/
def accEdges (a : Acc) (w : Nat) (vis : List NKey) : List (NKey × EdgeRec) :=
  a.edges.filter (fun p => p.1.1 == w && decide ((w, p.2.src) ∈ vis) && decide ((w, p.2.dst) ∈ vis))

/-- `edges_by_source` (a `BTreeMap<NodeId, Vec<…>>`, each vector then sorted by edge id) -/
def accBuckets (a : Acc) (w : Nat) (vis : List NKey) : List BucketC :=
  let es := accEdges a w vis
  let srcs := es.foldl (fun acc p => insertW p.2.src acc) []
  srcs.map (fun src =>
    { src := src,
      edges := (es.filter (fun p => p.2.src == src)).map
        (fun p => { id := p.1.2, ty := p.2.ty, dst := p.2.dst, att := alookup p.1 a.edgeAtt }) })

def accInst (a : Acc) (vis : List NKey) (w : Nat) : List InstC :=
  match SMap.find? w a.instances with
  | some inst =>
    [{ warp := inst.warp, root := inst.root, parent := inst.parent,
       nodes := accNodes a w vis, buckets := accBuckets a w vis }]
  | none => []

def accContentOf (a : Acc) (r : NKey) (v : Vis) : Content :=
  { rootWarp := r.1, rootNode := r.2, insts := v.warps.flatMap (accInst a v.nodes) }

def accContent (a : Acc) (r : NKey) : Content := accContentOf a r (accReach a r)

open Generated.RootTags in
/-- the byte stream of `SnapshotAccumulator::compute_state_root` for `from_warp_state(s)` -/
def accumBytes (s : WState) (r : NKey) : Bytes :=
  domainIf accumHasDomain ++ encode accumTags (accContent (Acc.ofState s) r)

def accumPreimage (s : WState) (r : NKey) : HExpr := .h [.raw (accumBytes s r)]

end Root
end EchoVerif
