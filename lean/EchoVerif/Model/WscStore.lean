/-
  EchoVerif.Model.WscStore — C20, snapshot-store part (crates/warp-core/src/wsc/store.rs):
  * canonicalisation of retained-evidence records (`canonical_retained_material_records`,
    `canonical_reading_ref_records`) and the retention basis-digest pre-image
    (`retention_basis_digest`) — what `retention_records_to_wsc_envelope` exports and
    `retention_records_from_wsc_envelope` / `_from_wsc_store` re-import;
  * the two-file publication protocol of `FilesystemWscStore` (envelope file + commit marker)
    with an adversary on both files.  File CONTENT is abstract: a file is the encoding of some
    envelope id with a set of flipped byte offsets; any non-identical content obstructs.
  Import-free.
-/
import EchoVerif.Model.Basic
import EchoVerif.Model.SMap

namespace EchoVerif.Wsc
open EchoVerif SMap

/-! ## Records -/

/-- `RetainedMaterialRecord` (payload = digest ‖ coordinate ‖ kind code ‖ posture code). -/
structure Material where
  digest : Nat
  coord : Nat
  kind : Nat
  posture : Nat
deriving DecidableEq

/-- `ReadingRefRecord`. -/
structure Reading where
  readingId : Nat
  coord : Nat
  payload : Nat
  envelope : Nat
  posture : Nat
deriving DecidableEq

/-- Sort key = the payload bytes compared lexicographically (fixed-width fields ⇒ tuple order). -/
abbrev MKey := Nat × (Nat × (Nat × Nat))
abbrev RKey := Nat × (Nat × (Nat × (Nat × Nat)))

def Material.key (m : Material) : MKey := (m.digest, m.coord, m.kind, m.posture)
def Reading.key (r : Reading) : RKey := (r.readingId, r.coord, r.payload, r.envelope, r.posture)

def Material.payloadBytes (m : Material) : Bytes :=
  natToBE 32 m.digest ++ natToBE 32 m.coord ++ [UInt8.ofNat m.kind, UInt8.ofNat m.posture]
def Reading.payloadBytes (r : Reading) : Bytes :=
  natToBE 32 r.readingId ++ natToBE 32 r.coord ++ natToBE 32 r.payload ++ natToBE 32 r.envelope
    ++ [UInt8.ofNat r.posture]

/-- One step of the canonicalisation loop: `byId` remembers the record seen for an identity;
    a different record under the same identity is the typed `DuplicateEnvelopeMismatch`. -/
def canonStep {ρ κ : Type} [DecidableEq ρ] [DecidableEq κ] [LinOrd κ] (key : ρ → κ) (ident : ρ → Nat)
    (st : Option (SMap κ ρ × SMap Nat ρ)) (r : ρ) : Option (SMap κ ρ × SMap Nat ρ) :=
  match st with
  | none => none
  | some (byKey, byId) =>
    match find? (ident r) byId with
    | some ex => if ex ≠ r then none else some (insert (key r) r byKey, insert (ident r) r byId)
    | none => some (insert (key r) r byKey, insert (ident r) r byId)

/-- `canonical_*_records`: `none` = conflict obstruction, `some` = records in payload order. -/
def canonical {ρ κ : Type} [DecidableEq ρ] [DecidableEq κ] [LinOrd κ] (key : ρ → κ) (ident : ρ → Nat)
    (rs : List ρ) : Option (List ρ) :=
  match rs.foldl (canonStep key ident) (some ([], [])) with
  | none => none
  | some (byKey, _) => some (values byKey)

def canonMaterials (ms : List Material) : Option (List Material) := canonical Material.key Material.digest ms
def canonReadings (rs : List Reading) : Option (List Reading) := canonical Reading.key Reading.readingId rs

/-- `WSC_RETENTION_BASIS_DOMAIN` = "echo:wsc_store:retention_basis:v1\0". -/
def basisDomain : Bytes := "echo:wsc_store:retention_basis:v1".toUTF8.toList ++ [0]

/-- Pre-image of `retention_basis_digest` over canonical records. -/
def basisDigest (ms : List Material) (rs : List Reading) : HExpr :=
  .h ([.raw basisDomain]
    ++ ms.flatMap (fun m => [.raw "material".toUTF8.toList, .raw m.payloadBytes])
    ++ rs.flatMap (fun r => [.raw "reading".toUTF8.toList, .raw r.payloadBytes]))

/-! ## The store: per envelope id, an envelope file and a commit-marker file -/

/-- Content of a backing file: the canonical encoding for envelope id `base`, with the byte offsets
    in `flips` bit-flipped (kept sorted and duplicate-free: flipping twice restores). -/
structure File where
  base : Nat
  flips : List Nat
deriving DecidableEq

def toggle (k : Nat) : List Nat → List Nat
  | [] => [k]
  | x :: xs => if k = x then xs else if k < x then k :: x :: xs else x :: toggle k xs

/-- The file at the path of `id` is byte-identical to what the store itself writes for `id`. -/
def File.intactFor (f : File) (id : Nat) : Bool := decide (f.base = id) && f.flips.isEmpty

structure Store where
  envs : SMap Nat File
  marks : SMap Nat File

def Store.empty : Store := { envs := [], marks := [] }

inductive Res where
  | ok
  | missing       -- MissingEnvelope
  | incomplete    -- IncompleteEnvelopeWrite
  | obstructed    -- any other typed obstruction (digest/duplicate/marker mismatch, invalid bytes)
deriving DecidableEq

/-- `read_envelope_material` / `read_commit_marker_material`: absent, readable, or obstruction. -/
inductive Mat where
  | absent | good | bad
deriving DecidableEq

def matOf (m : SMap Nat File) (id : Nat) : Mat :=
  match find? id m with
  | none => .absent
  | some f => if f.intactFor id then .good else .bad

/-- Decision table of `stage_envelope_without_commit_marker` over (envelope material, marker
    material): both are read first (either may obstruct); an existing envelope is left alone;
    otherwise the envelope file is written.  `true` = write the envelope file. -/
def stageOf : Mat → Mat → Bool × Res
  | .bad, _ => (false, .obstructed)
  | _, .bad => (false, .obstructed)
  | .good, _ => (false, .ok)
  | .absent, _ => (true, .ok)

/-- `stage_envelope_without_commit_marker` for the (unique) envelope whose id is `id`. -/
def Store.stage (s : Store) (id : Nat) : Store × Res :=
  match stageOf (matOf s.envs id) (matOf s.marks id) with
  | (true, r) => ({ s with envs := insert id { base := id, flips := [] } s.envs }, r)
  | (false, r) => (s, r)

/-- Decision table of `commit_staged_envelope`.  `true` = write the marker file. -/
def commitOf : Mat → Mat → Bool × Res
  | .absent, _ => (false, .incomplete)
  | .bad, _ => (false, .obstructed)
  | .good, .good => (false, .ok)
  | .good, .bad => (false, .obstructed)
  | .good, .absent => (true, .ok)

/-- `commit_staged_envelope`. -/
def Store.commit (s : Store) (id : Nat) : Store × Res :=
  match commitOf (matOf s.envs id) (matOf s.marks id) with
  | (true, r) => ({ s with marks := insert id { base := id, flips := [] } s.marks }, r)
  | (false, r) => (s, r)

/-- `WscStorePort::write_envelope` = stage, then commit. -/
def Store.write (s : Store) (id : Nat) : Store × Res :=
  match s.stage id with
  | (s1, .ok) => s1.commit id
  | (s1, r) => (s1, r)

/-- Decision table of `read_envelope` (envelope material is read first, then the marker). -/
def readOf : Mat → Mat → Res
  | .bad, _ => .obstructed
  | _, .bad => .obstructed
  | .good, .good => .ok
  | .absent, .absent => .missing
  | _, _ => .incomplete

/-- `WscStorePort::read_envelope`. -/
def Store.read (s : Store) (id : Nat) : Res := readOf (matOf s.envs id) (matOf s.marks id)

/-- `list_envelopes` of the filesystem store: every id that has a commit-marker FILE (unread). -/
def Store.list (s : Store) : List Nat := keys s.marks

/-- Adversary. -/
def Store.delEnv (s : Store) (id : Nat) : Store := { s with envs := erase id s.envs }
def Store.delMark (s : Store) (id : Nat) : Store := { s with marks := erase id s.marks }
def flipIn (m : SMap Nat File) (id k : Nat) : SMap Nat File :=
  match find? id m with
  | none => m
  | some f => insert id { f with flips := toggle k f.flips } m
def Store.flipEnv (s : Store) (id k : Nat) : Store := { s with envs := flipIn s.envs id k }
def Store.flipMark (s : Store) (id k : Nat) : Store := { s with marks := flipIn s.marks id k }
/-- Put the pristine envelope bytes of `src` at the envelope path of `id`. -/
def Store.plantEnv (s : Store) (id src : Nat) : Store :=
  { s with envs := insert id { base := src, flips := [] } s.envs }

inductive Op where
  | write (id : Nat) | stage (id : Nat) | commit (id : Nat)
  | delEnv (id : Nat) | delMark (id : Nat) | flipEnv (id k : Nat) | flipMark (id k : Nat)
  | plantEnv (id src : Nat)

def Store.step (s : Store) : Op → Store
  | .write id => (s.write id).1
  | .stage id => (s.stage id).1
  | .commit id => (s.commit id).1
  | .delEnv id => s.delEnv id
  | .delMark id => s.delMark id
  | .flipEnv id k => s.flipEnv id k
  | .flipMark id k => s.flipMark id k
  | .plantEnv id src => s.plantEnv id src

def Store.run (s : Store) (ops : List Op) : Store := ops.foldl Store.step s

/-- `retention_records_from_wsc_store`: read every listed envelope (first obstruction wins), pool
    the records in list order, canonicalise.  `recs id` = the canonical records exported under `id`. -/
inductive Import where
  | blocked (r : Res)
  | conflict
  | records (ms : List Material) (rs : List Reading)

def firstBlocked (s : Store) : List Nat → Option Res
  | [] => none
  | id :: rest => match s.read id with
    | .ok => firstBlocked s rest
    | r => some r

def Store.importRetention (s : Store) (recs : Nat → List Material × List Reading) : Import :=
  match firstBlocked s s.list with
  | some r => .blocked r
  | none =>
    match canonMaterials (s.list.flatMap (fun id => (recs id).1)),
          canonReadings (s.list.flatMap (fun id => (recs id).2)) with
    | some ms, some rs => .records ms rs
    | _, _ => .conflict

end EchoVerif.Wsc
