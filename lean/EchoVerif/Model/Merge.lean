/-
  EchoVerif.Model.Merge — model of the parallel execution / merge path (property C02).

  Rust anchors
    parallel/shard.rs   : `shard_of`, `partition_into_shards`        (constants: Generated/Shard.lean)
    parallel/exec.rs    : `build_work_units`, `execute_work_queue` (worker loop, early return on a
                          missing store / poisoned item), `execute_item_enforced` (outcome only),
                          the five `execute_*_per_worker/_per_shard` policy functions
    parallel/merge.rs   : `merge_deltas` (variant A, `delta_validate`), `collect_new_warps`,
                          `extract_target_warp`
    engine_impl.rs      : `merge_parallel_deltas` (variant B = default build: flatten,
                          `sort_unstable_by` key, `windows(2)` conflict check, `dedup_by` key,
                          `check_write_to_new_warp`)
    tick_delta.rs       : `OpOrigin` (derived lexicographic `Ord`)

  A worker delta is a list of `(Op, Origin)`. Thread interleaving is not modelled: workers share
  only an immutable store reference and the claim counter, so a run is determined by the
  *schedule* = which unit indices each worker claims, in which order.
-/
import EchoVerif.Model.Diff
import EchoVerif.Generated.Shard

namespace EchoVerif
namespace Merge
open Graph

/-! ### origins, entries, results -/

/-- `OpOrigin { intent_id, rule_id, match_ix, op_ix }`. -/
structure Origin where
  intent : Nat
  rule : Nat
  matchIx : Nat
  opIx : Nat
  deriving DecidableEq, Repr

def Origin.zero : Origin := { intent := 0, rule := 0, matchIx := 0, opIx := 0 }

/-- derived `Ord` of `OpOrigin`: lexicographic in field order. -/
def Origin.key (o : Origin) : Nat × Nat × Nat × Nat := (o.intent, o.rule, o.matchIx, o.opIx)

abbrev Entry := Op × Origin

inductive MergeErr where
  | conflict | poisoned | newWarp | missingStore
  deriving DecidableEq, Repr

/-- `WorkerResult`. -/
inductive WorkerRes where
  | success (delta : List Entry)
  | poisoned
  | missingStore
  deriving DecidableEq, Repr

def WorkerRes.isMissing : WorkerRes → Bool
  | .missingStore => true
  | _ => false

def WorkerRes.isPoisoned : WorkerRes → Bool
  | .poisoned => true
  | _ => false

/-- ops-and-origins of a successful delta (`into_parts_unsorted`). -/
def WorkerRes.entries : WorkerRes → List Entry
  | .success d => d
  | _ => []

/-! ### sorting -/

/-- stable insertion: after every element whose key is `≤`. -/
def insertBy {α κ : Type} [LinOrd κ] (k : α → κ) (x : α) : List α → List α
  | [] => [x]
  | y :: ys => if LinOrd.lt (k x) (k y) then x :: y :: ys else y :: insertBy k x ys

/-- `sort_by` on a key (stable). `sort_unstable_by` is covered by a theorem over *every*
    key-sorted permutation (Props/C02 `mergeB_any_sort`). -/
def sortBy {α κ : Type} [LinOrd κ] (k : α → κ) (l : List α) : List α :=
  l.foldl (fun acc x => insertBy k x acc) []

/-! ### the new-warp rule -/

/-- `collect_new_warps`: child warps of `OpenPortal { init: Empty }`. -/
def newWarps (ops : List Op) : List Nat :=
  ops.filterMap (fun o => match o with
    | .openPortal _ cw _ (.empty _) => some cw
    | _ => none)

/-- `extract_target_warp`. -/
def targetWarp : Op → Option Nat
  | .openPortal .. => none
  | .upsertNode w _ _ => some w
  | .deleteNode w _ => some w
  | .upsertEdge w _ _ _ _ => some w
  | .deleteEdge w _ _ => some w
  | .setAtt key _ => some (ownerWarp key.owner)
  | .upsertInstance inst => some inst.warp
  | .deleteInstance w => some w

def hitsWarps (nw : List Nat) (o : Op) : Bool :=
  match targetWarp o with
  | some w => nw.contains w
  | none => false

/-- `check_write_to_new_warp` / the loop in `merge_deltas`: some op targets a warp that an
    `OpenPortal(Empty)` of the same list creates. -/
def writesNewWarp (ops : List Op) : Bool := ops.any (hitsWarps (newWarps ops))

/-! ### variant B — `merge_parallel_deltas`, default build -/

/-- `for w in flat.windows(2) { if w[0].0 == w[1].0 && w[0].1 != w[1].1 { conflict } }`. -/
def conflictWindow : List Op → Bool
  | [] => false
  | a :: rest =>
    match rest with
    | [] => false
    | b :: _ => (decide (a.sortKey = b.sortKey) && decide (a ≠ b)) || conflictWindow rest

/-- `dedup_by(|a, b| a.0 == b.0)`: an element is dropped when its key equals the key of the last
    *retained* element. -/
def dedupFrom (prev : Op) : List Op → List Op
  | [] => []
  | b :: rest => if b.sortKey = prev.sortKey then dedupFrom prev rest else b :: dedupFrom b rest

def dedupByKey : List Op → List Op
  | [] => []
  | a :: rest => a :: dedupFrom a rest

/-- everything after the sort. -/
def finishB (sorted : List Op) : Except MergeErr (List Op) :=
  if conflictWindow sorted then .error .conflict
  else
    let ops := dedupByKey sorted
    if writesNewWarp ops then .error .newWarp else .ok ops

def flatOps (rs : List WorkerRes) : List Op := (rs.flatMap WorkerRes.entries).map (·.1)

def mergeB (rs : List WorkerRes) : Except MergeErr (List Op) :=
  if rs.any WorkerRes.isMissing then .error .missingStore      -- `UnknownWarp`, collected first
  else if rs.any WorkerRes.isPoisoned then .error .poisoned    -- `resume_unwind`
  else finishB (sortBy Op.sortKey (flatOps rs))

/-! ### variant A — `merge_deltas` (`delta_validate`) -/

/-- the grouping loop: a run of equal keys yields its first op iff every op of the run equals it. -/
def groupFrom (first : Op) : List Op → Except MergeErr (List Op)
  | [] => .ok [first]
  | b :: rest =>
    if b.sortKey = first.sortKey then
      (if b = first then groupFrom first rest else .error .conflict)
    else
      match groupFrom b rest with
      | .ok out => .ok (first :: out)
      | .error e => .error e

def groupRuns : List Op → Except MergeErr (List Op)
  | [] => .ok []
  | a :: rest => groupFrom a rest

def entryKey (e : Entry) : OpKey × (Nat × Nat × Nat × Nat) := (e.1.sortKey, e.2.key)

def finishA (sorted : List Op) : Except MergeErr (List Op) :=
  if writesNewWarp sorted then .error .newWarp else groupRuns sorted

def mergeA (rs : List WorkerRes) : Except MergeErr (List Op) :=
  if rs.any WorkerRes.isMissing then .error .missingStore
  else if rs.any WorkerRes.isPoisoned then .error .poisoned
  else finishA ((sortBy entryKey (rs.flatMap WorkerRes.entries)).map (·.1))

/-! ### shards and work units -/

/-- `shard_of`: the extracted byte window of the 32-byte id, as a `u64`, masked. -/
def shardOf (id : Nat) : Nat :=
  let bs := natToBE 32 id
  let win := Generated.shardBytes.filterMap (fun i => bs[i]?)
  let val := if Generated.shardLittleEndian then leNat win else beNat win
  val &&& Generated.shardMask

/-- `WorkUnit` (guards are part of the item outcome, see `ItemOut`). -/
structure WUnit (ι : Type) where
  warp : Nat
  items : List ι
  deriving Repr

/-- `partition_into_shards` followed by dropping empty shards: one list per non-empty shard, in
    shard order, arrival order inside. -/
def shardGroups {ι : Type} (scope : ι → Nat) (items : List ι) : List (List ι) :=
  (List.range Generated.numShards).filterMap (fun s =>
    let sel := items.filter (fun it => shardOf (scope it) == s)
    if sel.isEmpty then none else some sel)

/-- `by_warp.entry(w).or_default().push(item)` over a `BTreeMap`. -/
def groupStep {ι : Type} (warp : ι → Nat) (m : SMap Nat (List ι)) (it : ι) : SMap Nat (List ι) :=
  match SMap.find? (warp it) m with
  | none => SMap.insert (warp it) [it] m
  | some l => SMap.insert (warp it) (l ++ [it]) m

def groupByWarp {ι : Type} (warp : ι → Nat) (items : List ι) : SMap Nat (List ι) :=
  items.foldl (groupStep warp) []

/-- `build_work_units` over the warp-grouped items. -/
def buildUnits {ι : Type} (warp scope : ι → Nat) (items : List ι) : List (WUnit ι) :=
  (groupByWarp warp items).flatMap (fun (w, its) =>
    (shardGroups scope its).map (fun sel => { warp := w, items := sel }))

/-! ### execution under a schedule -/

/-- outcome of `execute_item_enforced` on one item: the entries it appends, or a poisoned delta
    (executor panic or footprint violation). -/
inductive ItemOut where
  | ok (es : List Entry)
  | poison
  deriving DecidableEq, Repr

/-- the item loop of one unit; `none` = `return WorkerResult::Poisoned`. -/
def runItems {ι : Type} (f : ι → ItemOut) : List ι → List Entry → Option (List Entry)
  | [], d => some d
  | it :: rest, d =>
    match f it with
    | .ok es => runItems f rest (d ++ es)
    | .poison => none

/-- the worker loop of `execute_work_queue` over the units this worker claims, in claim order. -/
def runWorker {ι : Type} (f : Nat → ι → ItemOut) (hasStore : Nat → Bool) :
    List (WUnit ι) → List Entry → WorkerRes
  | [], d => .success d
  | u :: rest, d =>
    if !hasStore u.warp then .missingStore
    else match runItems (f u.warp) u.items d with
      | none => .poisoned
      | some d' => runWorker f hasStore rest d'

/-- A schedule: for each worker the unit indices it claims, in claim order. -/
abbrev Schedule := List (List Nat)

/-- every unit index `< n` is claimed exactly once. -/
def Schedule.Valid (σ : Schedule) (n : Nat) : Prop := σ.flatten.Perm (List.range n)

def resolve {ι : Type} (units : List (WUnit ι)) (claims : List Nat) : List (WUnit ι) :=
  claims.filterMap (fun i => units[i]?)

def runSchedule {ι : Type} (f : Nat → ι → ItemOut) (hasStore : Nat → Bool)
    (units : List (WUnit ι)) (σ : Schedule) : List WorkerRes :=
  σ.map (fun claims => runWorker f hasStore (resolve units claims) [])

def ItemOut.entries : ItemOut → List Entry
  | .ok es => es
  | .poison => []

def unitEntries {ι : Type} (f : Nat → ι → ItemOut) (u : WUnit ι) : List Entry :=
  u.items.flatMap (fun it => (f u.warp it).entries)

/-- all entries of all items, in unit order (what one worker running everything produces when
    nothing is poisoned). -/
def allEntries {ι : Type} (f : Nat → ι → ItemOut) (units : List (WUnit ι)) : List Entry :=
  units.flatMap (unitEntries f)

def AllGood {ι : Type} (f : Nat → ι → ItemOut) (hasStore : Nat → Bool) (units : List (WUnit ι)) : Prop :=
  ∀ u ∈ units, hasStore u.warp = true ∧ ∀ it ∈ u.items, f u.warp it ≠ .poison

/-! ### the shard-level policies of `execute_parallel_sharded_with_policy` -/

/-- `(start..n).step_by(step)`. -/
def stepFrom (start step n : Nat) : List Nat :=
  (List.range n).filter (fun s => decide (start ≤ s) && (s - start) % step == 0)

/-- `StaticRoundRobin`: worker `i` of `w` runs shards `i, i+w, i+2w, …`. -/
def staticRoundRobin (w n : Nat) : Schedule := (List.range w).map (fun i => stepFrom i w n)

/-- `DynamicSteal`: whatever the claim counter hands out; `owner s` = the worker that won shard `s`.
    Claim order inside a worker is ascending because the counter only grows. -/
def dynamicSteal (owner : Nat → Nat) (w n : Nat) : Schedule :=
  (List.range w).map (fun i => (List.range n).filter (fun s => owner s == i))

/-- `PerShard` accumulation / `DedicatedPerShard`: one delta per shard, in shard order
    (`deltas.sort_by_key(shard_id)`). -/
def perShard (n : Nat) : Schedule := (List.range n).map (fun s => [s])

/-- `capped_workers`. -/
def cappedWorkers (w : Nat) : Nat := if w < Generated.numShards then w else Generated.numShards

/-! ### the harness's data-driven executor (`harness/src/c02.rs::exec_prog`)
    The scope node's α attachment is an atom whose bytes are a program of 3-byte instructions
    `[opcode, a, b]`; ids are `small_id(n)` (value `n`). -/

structure Item where
  warp : Nat
  scope : Nat
  origin : Origin
  sys : Bool       -- `ExecItem::new_system`
  honest : Bool    -- footprint declares every same-warp write target (else: no write at all)
  deriving DecidableEq, Repr

/-- one instruction against the PRE-state store: `none` = panic, `some none` = stop. -/
def instr (st : Store) (warp opc a b : Nat) : Option (Option Op) :=
  match opc with
  | 1 => some (some (.setAtt (AttKey.nodeAlpha warp a) (some (.atom 0x70 [UInt8.ofNat b]))))
  | 2 => some (some (.upsertNode warp a (0x10 + b % 4)))
  | 3 => some (some (.deleteNode warp a))
  | 4 => some (some (.upsertEdge warp (0x20 + a) b b 0x30))
  | 5 => some (some (.deleteEdge warp b (0x20 + a)))
  | 6 =>
    match SMap.find? b st.nodeAtt with
    | some (.atom _ bytes) => some (some (.setAtt (AttKey.nodeAlpha warp a) (some (.atom 0x71 (bytes ++ [0xEE])))))
    | _ => some (some (.setAtt (AttKey.nodeAlpha warp a) none))
  | 7 => none
  | 8 => some (some (.setAtt (AttKey.nodeAlpha (0xA0 + b) a) (some (.atom 0x70 [UInt8.ofNat b]))))
  | 9 => some (some (.openPortal (AttKey.nodeAlpha warp a) (0xB0 + b) 1 (.empty 0x10)))
  | _ => some none

/-- runs the program; `(ops emitted, panicked)`. -/
def interp (st : Store) (warp : Nat) : Bytes → List Op → List Op × Bool
  | opc :: a :: b :: rest, acc =>
    match instr st warp opc.toNat a.toNat b.toNat with
    | none => (acc, true)
    | some none => (acc, false)
    | some (some o) => interp st warp rest (acc ++ [o])
  | _, acc => (acc, false)

def isInstanceOp : Op → Bool
  | .openPortal .. => true
  | .upsertInstance _ => true
  | .deleteInstance _ => true
  | _ => false

/-- `op_warp` of `op_write_targets`. -/
def opWarp : Op → Nat
  | .openPortal key _ _ _ => ownerWarp key.owner
  | .upsertInstance inst => inst.warp
  | .deleteInstance w => w
  | .upsertNode w _ _ => w
  | .deleteNode w _ => w
  | .upsertEdge w _ _ _ _ => w
  | .deleteEdge w _ _ => w
  | .setAtt key _ => ownerWarp key.owner

/-- `FootprintGuard::check_op` for the two footprints the harness builds. Every op the program can
    emit has at least one node/edge/attachment target, so a write-free footprint rejects it. -/
def guardRejects (it : Item) (unitWarp : Nat) (o : Op) : Bool :=
  (isInstanceOp o && !it.sys) || opWarp o != unitWarp || !it.honest

/-- `execute_item_enforced` with enforcement compiled in (the harness build). Executors push with
    `TickDelta::push`, i.e. origin `OpOrigin::default()`. -/
def itemOut (s : WState) (unitWarp : Nat) (it : Item) : ItemOut :=
  match s.store? unitWarp with
  | none => .ok []      -- unreachable from `runWorker` (missing store returns first)
  | some st =>
    let prog := match SMap.find? it.scope st.nodeAtt with
      | some (.atom _ bytes) => bytes
      | _ => []
    let (ops, panicked) := interp st unitWarp prog []
    if panicked || ops.any (guardRejects it unitWarp) then .poison
    else .ok (ops.map (fun o => (o, Origin.zero)))

def hasStore (s : WState) (w : Nat) : Bool := (s.store? w).isSome

end Merge
end EchoVerif
