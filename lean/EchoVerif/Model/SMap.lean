/-
  EchoVerif.Model.SMap — finite maps as strictly key-sorted association lists.
  This is the model of every `BTreeMap` in the Rust code: iteration order is the
  key order, and "the same map" is literal equality (see `SMap.ext`).
  Import-free; the order class is our own so that no library API is trusted.
-/
import EchoVerif.Model.Basic

set_option linter.unusedSectionVars false
set_option linter.unusedSimpArgs false

namespace EchoVerif

/-- A decidable strict total order. -/
class LinOrd (κ : Type) where
  lt : κ → κ → Bool
  lt_irrefl : ∀ a, lt a a = false
  lt_trans : ∀ a b c, lt a b = true → lt b c = true → lt a c = true
  lt_tri : ∀ a b, lt a b = true ∨ a = b ∨ lt b a = true

namespace LinOrd
variable {κ : Type} [LinOrd κ]

theorem lt_asymm {a b : κ} (h : lt a b = true) : lt b a = false := by
  cases hb : lt b a with
  | false => rfl
  | true =>
    have := lt_trans a b a h hb
    rw [lt_irrefl] at this; cases this

theorem ne_of_lt {a b : κ} (h : lt a b = true) : a ≠ b := by
  intro e; subst e; rw [lt_irrefl] at h; cases h

theorem not_lt_of_eq {a b : κ} (h : a = b) : lt a b = false := by
  subst h; exact lt_irrefl a

end LinOrd

instance : LinOrd Nat where
  lt a b := decide (a < b)
  lt_irrefl a := by simp
  lt_trans a b c := by simp; omega
  lt_tri a b := by simp; omega

/-- Lexicographic order on pairs. -/
instance {α β : Type} [DecidableEq α] [LinOrd α] [LinOrd β] : LinOrd (α × β) where
  lt p q := LinOrd.lt p.1 q.1 || (decide (p.1 = q.1) && LinOrd.lt p.2 q.2)
  lt_irrefl p := by simp [LinOrd.lt_irrefl]
  lt_trans p q r := by
    intro h1 h2
    simp only [Bool.or_eq_true, Bool.and_eq_true, decide_eq_true_eq] at *
    rcases h1 with h1 | ⟨e1, h1⟩ <;> rcases h2 with h2 | ⟨e2, h2⟩
    · exact Or.inl (LinOrd.lt_trans _ _ _ h1 h2)
    · exact Or.inl (e2 ▸ h1)
    · exact Or.inl (e1 ▸ h2)
    · exact Or.inr ⟨e1.trans e2, LinOrd.lt_trans _ _ _ h1 h2⟩
  lt_tri p q := by
    obtain ⟨p1, p2⟩ := p; obtain ⟨q1, q2⟩ := q
    simp only [Bool.or_eq_true, Bool.and_eq_true, decide_eq_true_eq, Prod.mk.injEq]
    rcases LinOrd.lt_tri p1 q1 with h | h | h
    · exact Or.inl (Or.inl h)
    · subst h
      rcases LinOrd.lt_tri p2 q2 with h | h | h
      · exact Or.inl (Or.inr ⟨rfl, h⟩)
      · exact Or.inr (Or.inl ⟨rfl, h⟩)
      · exact Or.inr (Or.inr (Or.inr ⟨rfl, h⟩))
    · exact Or.inr (Or.inr (Or.inl h))

abbrev SMap (κ ν : Type) := List (κ × ν)

namespace SMap
variable {κ ν : Type} [DecidableEq κ] [LinOrd κ]

open LinOrd

/-- All keys of `m` are strictly above `k`. -/
def Above (k : κ) : SMap κ ν → Prop
  | [] => True
  | (k', _) :: _ => lt k k' = true

def Sorted : SMap κ ν → Prop
  | [] => True
  | (k, _) :: rest => Above k rest ∧ Sorted rest

def find? (k : κ) : SMap κ ν → Option ν
  | [] => none
  | (k', v) :: rest => if lt k k' then none else if k = k' then some v else find? k rest

def insert (k : κ) (v : ν) : SMap κ ν → SMap κ ν
  | [] => [(k, v)]
  | (k', v') :: rest =>
    if lt k k' then (k, v) :: (k', v') :: rest
    else if k = k' then (k, v) :: rest
    else (k', v') :: insert k v rest

def erase (k : κ) : SMap κ ν → SMap κ ν
  | [] => []
  | (k', v') :: rest =>
    if lt k k' then (k', v') :: rest
    else if k = k' then rest
    else (k', v') :: erase k rest

def contains (k : κ) (m : SMap κ ν) : Bool := (find? k m).isSome

def keys (m : SMap κ ν) : List κ := m.map (·.1)
def values (m : SMap κ ν) : List ν := m.map (·.2)

/-- Every key of `m` is strictly above `k` (the transitive form of `Above`). -/
theorem all_above {k : κ} : ∀ {m : SMap κ ν}, Above k m → Sorted m →
    ∀ p ∈ m, lt k p.1 = true
  | [], _, _, p, hp => by cases hp
  | (k', v') :: rest, ha, hs, p, hp => by
    cases hp with
    | head => exact ha
    | tail _ hp' =>
      have : Above k rest := by
        cases rest with
        | nil => trivial
        | cons q rest' =>
          obtain ⟨q1, q2⟩ := q
          exact lt_trans _ _ _ ha hs.1
      exact all_above this hs.2 p hp'

theorem find?_of_above {k : κ} {m : SMap κ ν} (ha : Above k m) : find? k m = none := by
  cases m with
  | nil => rfl
  | cons p rest => obtain ⟨k', v'⟩ := p; simp only [find?]; rw [show lt k k' = true from ha]; rfl

theorem find?_above_lt {k k' : κ} {m : SMap κ ν} (ha : Above k' m) (hs : Sorted m)
    (h : lt k k' = true) : find? k m = none := by
  cases m with
  | nil => rfl
  | cons p rest =>
    obtain ⟨k'', v'⟩ := p
    simp only [find?]
    rw [show lt k k'' = true from lt_trans _ _ _ h ha]; rfl

theorem above_insert {k0 k : κ} {v : ν} {m : SMap κ ν} (ha : Above k0 m) (h : lt k0 k = true) :
    Above k0 (insert k v m) := by
  cases m with
  | nil => exact h
  | cons p rest =>
    obtain ⟨k', v'⟩ := p
    simp only [insert]
    split
    · exact h
    · split
      · exact h
      · exact ha

theorem sorted_insert (k : κ) (v : ν) : ∀ {m : SMap κ ν}, Sorted m → Sorted (insert k v m)
  | [], _ => ⟨trivial, trivial⟩
  | (k', v') :: rest, hs => by
    simp only [insert]
    split
    · rename_i h; exact ⟨h, hs⟩
    · split
      · rename_i h1 h2; subst h2; exact ⟨hs.1, hs.2⟩
      · rename_i h1 h2
        have hlt : lt k' k = true := by
          rcases lt_tri k k' with h | h | h
          · rw [h] at h1; exact absurd rfl h1
          · exact absurd h h2
          · exact h
        exact ⟨above_insert hs.1 hlt, sorted_insert k v hs.2⟩

theorem above_erase {k0 k : κ} : ∀ {m : SMap κ ν}, Above k0 m → Sorted m → Above k0 (erase k m)
  | [], _, _ => trivial
  | (k', v') :: rest, ha, hs => by
    simp only [erase]
    split
    · exact ha
    · split
      · cases rest with
        | nil => trivial
        | cons q rest' => obtain ⟨q1, q2⟩ := q; exact lt_trans _ _ _ ha hs.1
      · exact ha

theorem sorted_erase (k : κ) : ∀ {m : SMap κ ν}, Sorted m → Sorted (erase k m)
  | [], _ => trivial
  | (k', v') :: rest, hs => by
    simp only [erase]
    split
    · exact hs
    · split
      · exact hs.2
      · exact ⟨above_erase hs.1 hs.2, sorted_erase k hs.2⟩

theorem find?_insert_self (k : κ) (v : ν) : ∀ (m : SMap κ ν), find? k (insert k v m) = some v
  | [] => by simp [insert, find?, lt_irrefl]
  | (k', v') :: rest => by
    simp only [insert]
    split
    · simp [find?, lt_irrefl]
    · split
      · simp [find?, lt_irrefl]
      · rename_i h1 h2
        simp only [find?]
        rw [if_neg h1, if_neg h2]
        exact find?_insert_self k v rest

theorem find?_insert_ne {k k0 : κ} (v : ν) (hne : k0 ≠ k) :
    ∀ (m : SMap κ ν), find? k0 (insert k v m) = find? k0 m
  | [] => by
    simp [insert, find?, hne]
  | (k', v') :: rest => by
    simp only [insert]
    split
    · rename_i h
      -- inserted in front
      simp only [find?]
      by_cases h0 : lt k0 k = true
      · rw [if_pos h0, if_pos (lt_trans _ _ _ h0 h)]
      · rw [if_neg h0, if_neg hne]
    · split
      · rename_i h1 h2
        subst h2
        simp only [find?]
        by_cases h0 : lt k0 k = true
        · simp [h0]
        · simp [h0, hne]
      · rename_i h1 h2
        simp only [find?]
        split
        · rfl
        · split
          · rfl
          · exact find?_insert_ne v hne rest

theorem find?_insert (k k0 : κ) (v : ν) (m : SMap κ ν) :
    find? k0 (insert k v m) = if k0 = k then some v else find? k0 m := by
  split
  · rename_i h; subst h; exact find?_insert_self _ v m
  · rename_i h; exact find?_insert_ne v h m

theorem find?_erase_self (k : κ) : ∀ {m : SMap κ ν}, Sorted m → find? k (erase k m) = none
  | [], _ => rfl
  | (k', v') :: rest, hs => by
    simp only [erase]
    split
    · rename_i h; simp only [find?]; rw [if_pos h]
    · split
      · rename_i h1 h2; subst h2; exact find?_of_above hs.1
      · rename_i h1 h2
        simp only [find?]; rw [if_neg h1, if_neg h2]
        exact find?_erase_self k hs.2

theorem find?_erase_ne {k k0 : κ} (hne : k0 ≠ k) :
    ∀ {m : SMap κ ν}, Sorted m → find? k0 (erase k m) = find? k0 m
  | [], _ => rfl
  | (k', v') :: rest, hs => by
    simp only [erase]
    split
    · rfl
    · split
      · rename_i h1 h2
        subst h2
        simp only [find?]
        split
        · rename_i h0; exact find?_above_lt hs.1 hs.2 h0
        · simp [hne]
      · simp only [find?]
        split
        · rfl
        · split
          · rfl
          · exact find?_erase_ne hne hs.2

theorem find?_erase (k k0 : κ) {m : SMap κ ν} (hs : Sorted m) :
    find? k0 (erase k m) = if k0 = k then none else find? k0 m := by
  split
  · rename_i h; subst h; exact find?_erase_self _ hs
  · rename_i h; exact find?_erase_ne h hs

theorem find?_head {k : κ} {v : ν} {rest : SMap κ ν} : find? k ((k, v) :: rest) = some v := by
  simp [find?, lt_irrefl]

/-- Extensionality: two sorted maps with the same lookups are the same list. -/
theorem ext : ∀ {a b : SMap κ ν}, Sorted a → Sorted b → (∀ k, find? k a = find? k b) → a = b
  | [], [], _, _, _ => rfl
  | [], (k, v) :: rest, _, _, h => by
    have := h k; rw [find?_head] at this; cases this
  | (k, v) :: rest, [], _, _, h => by
    have := h k; rw [find?_head] at this; cases this
  | (k1, v1) :: r1, (k2, v2) :: r2, hs1, hs2, h => by
    have hk : k1 = k2 := by
      rcases lt_tri k1 k2 with hlt | he | hlt
      · have := h k1
        rw [find?_head] at this
        simp only [find?] at this; rw [if_pos hlt] at this; cases this
      · exact he
      · have := h k2
        rw [find?_head] at this
        simp only [find?] at this; rw [if_pos hlt] at this; cases this
    subst hk
    have hv : v1 = v2 := by
      have := h k1; rw [find?_head, find?_head] at this; exact Option.some.inj this
    subst hv
    have hr : r1 = r2 := by
      apply ext hs1.2 hs2.2
      intro k
      have hk := h k
      simp only [find?] at hk
      by_cases h0 : lt k k1 = true
      · rw [find?_above_lt hs1.1 hs1.2 h0, find?_above_lt hs2.1 hs2.2 h0]
      · rw [if_neg h0, if_neg h0] at hk
        by_cases h1 : k = k1
        · subst h1; rw [find?_of_above hs1.1, find?_of_above hs2.1]
        · rw [if_neg h1, if_neg h1] at hk; exact hk
    rw [hr]

/-- Inserting distinct keys commutes (on sorted maps). -/
theorem insert_comm {k1 k2 : κ} (v1 v2 : ν) (hne : k1 ≠ k2) {m : SMap κ ν} (hs : Sorted m) :
    insert k1 v1 (insert k2 v2 m) = insert k2 v2 (insert k1 v1 m) := by
  apply ext (sorted_insert _ _ (sorted_insert _ _ hs)) (sorted_insert _ _ (sorted_insert _ _ hs))
  intro k
  simp only [find?_insert]
  by_cases h1 : k = k1 <;> by_cases h2 : k = k2
  · subst h1; subst h2; exact absurd rfl hne
  · subst h1; simp [hne]
  · subst h2; simp [h1]
  · simp [h1, h2]

theorem mem_find? : ∀ {m : SMap κ ν}, Sorted m → ∀ {k : κ} {v : ν}, (k, v) ∈ m → find? k m = some v
  | [], _, _, _, h => by cases h
  | (k', v') :: rest, hs, k, v, h => by
    cases h with
    | head => exact find?_head
    | tail _ h' =>
      have hlt := all_above hs.1 hs.2 (k, v) h'
      simp only [find?]
      rw [if_neg (by rw [lt_asymm hlt]; simp), if_neg (fun e => ne_of_lt hlt e.symm)]
      exact mem_find? hs.2 h'

theorem find?_mem : ∀ {m : SMap κ ν} {k : κ} {v : ν}, find? k m = some v → (k, v) ∈ m
  | [], _, _, h => by cases h
  | (k', v') :: rest, k, v, h => by
    simp only [find?] at h
    split at h
    · cases h
    · split at h
      · rename_i h2; cases h; subst h2; exact List.mem_cons_self
      · exact List.mem_cons_of_mem _ (find?_mem h)

end SMap
end EchoVerif
