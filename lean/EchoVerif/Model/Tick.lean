/-
  EchoVerif.Model.Tick — one engine tick (`Engine::apply_in_warp`* ; `commit_with_receipt`):
  enqueue (last-wins) → drain in canonical order → reserve / receipt → execute every accepted
  rewrite against the PRE-state (guarded) → merge → canonical patch order → apply → diff.
  Composition of Model/Sched (C03), Model/Exec, Model/Graph+Diff (C04).
-/
import EchoVerif.Model.Exec
import EchoVerif.Model.Sched

namespace EchoVerif
namespace Tick
open Graph Exec

structure TCand where
  rule : Nat          -- compact rule id (registration order); rule id = ruleBase + rule
  warp : Nat
  scope : Nat
  shash : Nat         -- the real scope hash (never computed by the model)
  deriving Repr

def ruleBase : Nat := 0xF1

structure Cfg where
  sort : Sched.SortCfg
  confl : Sched.ConflictCfg

inductive Fail where
  | unknownWarp            -- apply_in_warp: UnknownWarp
  | drainPanic             -- one of the scheduler's unreachable!/bounds panics
  | receiptCorruption      -- reserve_for_receipt: "scheduler rejected rewrite but no blockers were found"
  | violation | progPanic | bothPanic
  | mergeConflict
  | applyFailed
  deriving Repr, DecidableEq

structure Entry where
  cand : TCand
  applied : Bool
  blockers : List Nat
  deriving Repr

structure Success where
  entries : List Entry
  merged : List Op
  patch : List Op
  post : WState
  /-- `in_slots` / `out_slots` of `reserve_for_receipt` (`extend_slots_from_footprint` over the
      accepted rewrites, in reservation order; canonicalised by `WarpTickPatchV1::new`) -/
  inSlots : List Footprint.Res
  outSlots : List Footprint.Res
  deriving Repr

/-- Matching phase: per arrival `true` = Applied (enqueued), `false` = NoMatch; stops at the first
    candidate whose warp has no store. -/
def matchAll (progOf : Nat → Nat → Option Program) (pre : WState) :
    List TCand → List Bool × List (TCand × Program) × Bool
  | [] => ([], [], false)
  | c :: rest =>
    match pre.store? c.warp with
    | none => ([], [], true)
    | some _ =>
      let (bs, qs, bad) := matchAll progOf pre rest
      match progOf c.warp c.scope with
      | none => (false :: bs, qs, bad)
      | some p => (true :: bs, (c, p) :: qs, bad)

/-- Footprint the scheduler sees for a matched candidate. -/
def fpOf (cp : TCand × Program) : Footprint.Footprint := schedFootprint cp.1.warp cp.1.scope cp.2.fp

/-- `extend_slots_from_footprint`: every read or written resource is an in-slot … -/
def slotsIn (f : Footprint.Footprint) : List Footprint.Res :=
  f.nRead ++ f.nWrite ++ f.eRead ++ f.eWrite ++ f.aRead ++ f.aWrite ++ f.bIn ++ f.bOut

/-- … and every written one an out-slot. -/
def slotsOut (f : Footprint.Footprint) : List Footprint.Res :=
  f.nWrite ++ f.eWrite ++ f.aWrite ++ f.bOut

/-- `RadixScheduler`: enqueue every match (last-wins on `(scope hash, compact rule)`), then drain
    in canonical order; `none` = scheduler panic. -/
def radixDrained (cfg : Sched.SortCfg) (matched : List (TCand × Program)) : Option (List (TCand × Program)) :=
  (matched.foldl (fun (q : Sched.PendingTx (TCand × Program)) cp => q.enqueue cp.1.shash cp.1.rule cp) {}).drain cfg

/-- `LegacyScheduler`: a `BTreeMap` keyed by `(scope hash, rule id)`, drained by `into_values`. -/
def legacyQueue (matched : List (TCand × Program)) : SMap (Nat × Nat) (TCand × Program) :=
  matched.foldl (fun m cp => SMap.insert (cp.1.shash, ruleBase + cp.1.rule) cp m) []

def legacyDrained (matched : List (TCand × Program)) : List (TCand × Program) :=
  SMap.values (legacyQueue matched)

/-- run every accepted item against the pre-state; first failure (in the given order) wins -/
def execAll (pre : WState) : List (TCand × Program) → Except Fail (List (List Op))
  | [] => .ok []
  | (c, p) :: rest =>
    match pre.store? c.warp with
    | none => .error .unknownWarp
    | some st =>
      match runItem { warp := c.warp, scope := c.scope, fp := p.fp } st p with
      | .violation => .error .violation
      | .panicked => .error .progPanic
      | .both => .error .bothPanic
      | .ok ops =>
        match execAll pre rest with
        | .error e => .error e
        | .ok more => .ok (ops :: more)

/-- Everything after the drain: receipt, guarded execution against the pre-state, merge, apply, diff. -/
def commitDrained (cfg : Cfg) (pre : WState) (radix : Bool) (items : List (TCand × Program)) :
    Except Fail Success :=
  let rows := if radix then Sched.receiptRadix cfg.confl (items.map fpOf)
              else Sched.receiptLegacy cfg.confl (items.map fpOf)
  match rows with
  | none => .error .receiptCorruption
  | some rows =>
    let entries := (items.zip rows).map (fun (cp, r) => ({ cand := cp.1, applied := r.1, blockers := r.2 } : Entry))
    let accepted := (items.zip rows).filterMap (fun (cp, r) => if r.1 then some cp else none)
    match execAll pre accepted with
    | .error e => .error e
    | .ok deltas =>
      match mergeOps deltas with
      | .error _ => .error .mergeConflict
      | .ok merged =>
        match applyOps pre (patchCanon merged) with
        | .error _ => .error .applyFailed
        | .ok post =>
          .ok { entries, merged, patch := diffState pre post, post,
                inSlots := accepted.flatMap (fun cp => slotsIn (fpOf cp)),
                outSlots := accepted.flatMap (fun cp => slotsOut (fpOf cp)) }

def commit (cfg : Cfg) (pre : WState) (radix : Bool) (matched : List (TCand × Program)) :
    Except Fail Success :=
  let drained := if radix then radixDrained cfg.sort matched else some (legacyDrained matched)
  match drained with
  | none => .error .drainPanic
  | some items => commitDrained cfg pre radix items

def tick (cfg : Cfg) (progOf : Nat → Nat → Option Program) (pre : WState) (radix : Bool)
    (cands : List TCand) : List Bool × Except Fail Success :=
  let (bs, matched, bad) := matchAll progOf pre cands
  if bad then (bs, .error .unknownWarp) else (bs, commit cfg pre radix matched)

end Tick
end EchoVerif
