/-
  EchoVerif.Model.CostEdict — COST model of the Edict canonical CBOR decoder
  (crates/echo-edict-canonical/src/lib.rs: `decode_canonical_cbor_v1`, `Decoder::value`), C13.

  Follows `Decoder::value` arm by arm. Each call returns the rest of the input and the canonical
  re-encoding of the decoded value (that is all the value is needed for: duplicate-key detection uses
  the re-encoded key, and the final gate compares the re-encoding of the root with the input), and
  a cost record on every path:
    reserved  Σ of node reservations (`reserve_nodes`: `length` per array, `2·length` per map) —
              every `Vec::with_capacity(length)` is preceded by such a reservation,
    copied    bytes copied out of the input for byte/text strings,
    steps     number of `value` calls, maxDepth deepest `depth` argument.
  Parameters that a one-line Rust edit can flip are extracted (Generated/CostEdict.lean).
  Recursion is structural on `room` = MAX_CANONICAL_NESTING_DEPTH_V1 − depth. Import-free.
-/
import EchoVerif.Model.CostCbor

namespace EchoVerif.CostEdict
open EchoVerif
open EchoVerif.CostCbor (validUtf8 bytesLt shorter)

structure Params where
  /-- `MAX_CANONICAL_NESTING_DEPTH_V1` -/
  maxDepth : Nat
  /-- `MAX_CANONICAL_DECODE_NODES_V1` -/
  nodeBudget : Nat
  /-- both container arms start with `check_container_depth(depth)?` -/
  depthChecked : Bool
  /-- both container arms call `ensure_nodes_available` and `reserve_nodes` before `with_capacity` -/
  reserveChecked : Bool
  /-- `checked_collection_length` rejects `declared > remaining` -/
  lengthChecked : Bool
  deriving Repr

inductive Err
  | unsupportedValue | unexpectedEof | trailingData | unsupportedCbor | nonCanonical
  | nestingLimit | duplicateKey | invalidUtf8
  /-- model-only (proved unreachable) -/
  | fuel
  deriving DecidableEq, Repr

def Err.tok : Err → String
  | .unsupportedValue => "unsupported-value" | .unexpectedEof => "unexpected-eof"
  | .trailingData => "trailing-data" | .unsupportedCbor => "unsupported-cbor"
  | .nonCanonical => "noncanonical" | .nestingLimit => "nesting-limit-exceeded"
  | .duplicateKey => "duplicate-map-key" | .invalidUtf8 => "invalid-utf8" | .fuel => "model-fuel"

structure St where
  /-- `remaining_nodes` -/
  nodes : Nat
  /-- `remaining_reserved_nodes` -/
  resv : Nat
  reserved : Nat
  copied : Nat
  steps : Nat
  maxDepth : Nat
  deriving Repr

/-- result of one `value` call: rest of the input and canonical re-encoding of the value -/
abbrev R := St × Except Err (Bytes × Bytes)

/-- `encode_type_value` -/
def encHead (major : Nat) (v : Nat) : Bytes :=
  let p := major * 32
  if v ≤ 23 then [UInt8.ofNat (p + v)]
  else if v ≤ 0xff then UInt8.ofNat (p + 24) :: natToBE 1 v
  else if v ≤ 0xffff then UInt8.ofNat (p + 25) :: natToBE 2 v
  else if v ≤ 0xffffffff then UInt8.ofNat (p + 26) :: natToBE 4 v
  else UInt8.ofNat (p + 27) :: natToBE 8 v

/-- `Decoder::argument` -/
def argument (info : Nat) (bs : Bytes) : Except Err (Nat × Bytes) :=
  if info ≤ 23 then .ok (info, bs)
  else
    let w := if info = 24 then 1 else if info = 25 then 2 else if info = 26 then 4 else if info = 27 then 8 else 0
    if w = 0 then .error .unsupportedCbor
    else if shorter bs w then .error .unexpectedEof
    else .ok (beNat (bs.take w), bs.drop w)

/-- `Decoder::length` = `argument` + `checked_collection_length(declared, remaining)` -/
def length (p : Params) (info : Nat) (bs : Bytes) : Except Err (Nat × Bytes) :=
  match argument info bs with
  | .error e => .error e
  | .ok (n, r) => if p.lengthChecked && shorter r n then .error .unexpectedEof else .ok (n, r)

inductive Head
  | done (r : Except Err (Bytes × Bytes)) (copied : Nat)
  | arr (len : Nat) (rest : Bytes)
  | map (len : Nat) (rest : Bytes)
  /-- a container head at the nesting limit (`check_container_depth` precedes `length`) -/
  | container

def headInt (major info : Nat) (rest : Bytes) : Head :=
  match argument info rest with
  | .ok (n, r) => .done (.ok (r, encHead major n)) 0
  | .error e => .done (.error e) 0

def headStr (p : Params) (major info : Nat) (rest : Bytes) : Head :=
  match length p info rest with
  | .ok (n, r) =>
    if shorter r n then .done (.error .unexpectedEof) 0
    else if major = 3 && !validUtf8 (r.take n) then .done (.error .invalidUtf8) 0
    else .done (.ok (r.drop n, encHead major n ++ r.take n)) n
  | .error e => .done (.error e) 0

def headCont (p : Params) (atLimit : Bool) (major info : Nat) (rest : Bytes) : Head :=
  if atLimit && p.depthChecked then .container
  else
    match length p info rest with
    | .ok (n, r) => if major = 4 then .arr n r else .map n r
    | .error e => .done (.error e) 0

def dispatch (p : Params) (atLimit : Bool) (b0 : UInt8) (major info : Nat) (rest : Bytes) : Head :=
  if major = 0 || major = 1 then headInt major info rest
  else if major = 2 || major = 3 then headStr p major info rest
  else if major = 4 || major = 5 then headCont p atLimit major info rest
  else if major = 7 && (info = 20 || info = 21 || info = 22) then .done (.ok (rest, [b0])) 0
  else .done (.error .unsupportedCbor) 0

/-- what one `value` call does after `charge_nodes`, before recursing; `atLimit` = `depth ≥ MAX` -/
def decHead (p : Params) (atLimit : Bool) : Bytes → Head
  | [] => .done (.error .unexpectedEof) 0
  | b0 :: rest => dispatch p atLimit b0 (b0.toNat / 32) (b0.toNat % 32) rest

/-- `charge_nodes(1)` at the entry of a call at `depth` -/
def tick (st : St) (depth : Nat) : Except Err St :=
  if st.nodes = 0 then .error .unsupportedValue
  else .ok { st with nodes := st.nodes - 1, steps := st.steps + 1, maxDepth := max st.maxDepth depth }

/-- `ensure_nodes_available(n)?; reserve_nodes(n)?` then `Vec::with_capacity(..)` -/
def reserve (p : Params) (n : Nat) (st : St) : Except Err St :=
  if p.reserveChecked then
    if n > st.nodes then .error .unsupportedValue
    else if n > st.resv then .error .unsupportedValue
    else .ok { st with resv := st.resv - n, reserved := st.reserved + n }
  else .ok { st with reserved := st.reserved + n }

/-- array loop; `acc` = canonical encodings of the elements so far, reversed -/
def items (dv : Bytes → St → R) : Nat → Bytes → St → List Bytes → St × Except Err (Bytes × List Bytes)
  | 0, bs, st, acc => (st, .ok (bs, acc))
  | n + 1, bs, st, acc =>
    match dv bs st with
    | (st', .ok (rest, c)) => items dv n rest st' (c :: acc)
    | (st', .error e) => (st', .error e)

/-- map loop; `acc` = (key encoding, value encoding) so far, reversed; duplicate detection on the
    re-encoded key as in `encoded_keys.insert(key_bytes)` -/
def entries (dv : Bytes → St → R) : Nat → Bytes → St → List (Bytes × Bytes) →
    St × Except Err (Bytes × List (Bytes × Bytes))
  | 0, bs, st, acc => (st, .ok (bs, acc))
  | n + 1, bs, st, acc =>
    match dv bs st with
    | (st1, .error e) => (st1, .error e)
    | (st1, .ok (r1, kc)) =>
      if acc.any (fun e => e.1 == kc) then (st1, .error .duplicateKey)
      else
        match dv r1 st1 with
        | (st2, .error e) => (st2, .error e)
        | (st2, .ok (r2, vc)) => entries dv n r2 st2 ((kc, vc) :: acc)

/-- insertion into a list sorted by key bytes (`encoded_entries.sort_by(cmp)`; keys are distinct) -/
def insertEntry (e : Bytes × Bytes) : List (Bytes × Bytes) → List (Bytes × Bytes)
  | [] => [e]
  | x :: xs => if bytesLt e.1 x.1 then e :: x :: xs else x :: insertEntry e xs

def sortEntries (es : List (Bytes × Bytes)) : List (Bytes × Bytes) :=
  es.foldl (fun acc e => insertEntry e acc) []

def encArray (len : Nat) (revItems : List Bytes) : Bytes :=
  encHead 4 len ++ (revItems.reverse.flatMap id)

def encMap (len : Nat) (revEntries : List (Bytes × Bytes)) : Bytes :=
  encHead 5 len ++ ((sortEntries revEntries).flatMap (fun e => e.1 ++ e.2))

def noRoom (p : Params) : Err := if p.depthChecked then .nestingLimit else .fuel

/-- `Decoder::value(depth)`; `room` = nesting levels still allowed below this call -/
def decValue (p : Params) : Nat → Nat → Bytes → St → R
  | 0, depth, bs, st =>
    match tick st depth with
    | .error e => (st, .error e)
    | .ok st1 =>
      match decHead p true bs with
      | .done r c => ({ st1 with copied := st1.copied + c }, r)
      | .container => (st1, .error (noRoom p))
      | .arr _ _ => (st1, .error (noRoom p))
      | .map _ _ => (st1, .error (noRoom p))
  | room + 1, depth, bs, st =>
    match tick st depth with
    | .error e => (st, .error e)
    | .ok st1 =>
      match decHead p false bs with
      | .done r c => ({ st1 with copied := st1.copied + c }, r)
      | .container => (st1, .error (noRoom p))
      | .arr len rest =>
        match reserve p len st1 with
        | .error e => (st1, .error e)
        | .ok st2 =>
          match items (decValue p room (depth + 1)) len rest st2 [] with
          | (st3, .ok (r, acc)) => (st3, .ok (r, encArray len acc))
          | (st3, .error e) => (st3, .error e)
      | .map len rest =>
        match reserve p (len * 2) st1 with
        | .error e => (st1, .error e)
        | .ok st2 =>
          match entries (decValue p room (depth + 1)) len rest st2 [] with
          | (st3, .ok (r, acc)) => (st3, .ok (r, encMap len acc))
          | (st3, .error e) => (st3, .error e)

def St.init (p : Params) : St :=
  { nodes := p.nodeBudget, resv := p.nodeBudget, reserved := 0, copied := 0, steps := 0, maxDepth := 0 }

def rootRoom (p : Params) (bs : Bytes) : Nat := if p.depthChecked then p.maxDepth else bs.length

/-- `decode_canonical_cbor_v1`: value, trailing check, re-encode gate -/
def decode (p : Params) (bs : Bytes) : St × Except Err Unit :=
  match decValue p (rootRoom p bs) 0 bs (St.init p) with
  | (st, .error e) => (st, .error e)
  | (st, .ok (_ :: _, _)) => (st, .error .trailingData)
  | (st, .ok ([], c)) => if c = bs then (st, .ok ()) else (st, .error .nonCanonical)

/-- proportionality bucket compared with the measured peak: a reserved node is at most 32 bytes of
    `Vec` capacity (an entry = two nodes = 64 bytes). -/
def allocOk (st : St) (len : Nat) : Bool := st.reserved * 32 + st.copied ≤ 256 * len + 4 * 1048576

def render (bs : Bytes) (r : St × Except Err Unit) : String :=
  let bucket := if allocOk r.1 bs.length then "alloc-ok" else "alloc-excess"
  match r.2 with
  | .ok () => s!"ok nodes={r.1.steps} depth={r.1.maxDepth} {bucket}"
  | .error e => s!"err {e.tok} {bucket}"

end EchoVerif.CostEdict
