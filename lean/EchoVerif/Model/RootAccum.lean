/-
  EchoVerif.Model.RootAccum — model of `SnapshotAccumulator::apply_ops` (snapshot_accum.rs), the
  op interpreter of the columnar accumulator (property C06, second root computation).

  The accumulator has no reverse indexes and no validation pass: every op is a keyed insert /
  remove / retain on its flat tables; the `assert!`/`panic!` sites are modelled as `none`.

  Abstraction: the Rust attachment maps are keyed by the full `AttachmentKey` (owner + plane),
  the model's by the owner key. Every reader (`compute_reachability`, `compute_state_root`,
  `build_attachments`) looks up `(Node, Alpha)` / `(Edge, Beta)` only, so an entry written under an
  off-plane key is invisible to every observation; `setAttInternal` models such a write as a no-op.
-/
import EchoVerif.Model.Root

namespace EchoVerif
namespace Root
open Graph

/-- `set_attachment_internal` (routes by owner; insert or remove) -/
def Acc.setAttInternal (a : Acc) (key : AttKey) (v : Option Att) : Acc :=
  match key.owner, key.plane with
  | .node w i, .alpha =>
    { a with nodeAtt := match v with
        | some x => SMap.insert (w, i) x a.nodeAtt
        | none => SMap.erase (w, i) a.nodeAtt }
  | .edge w i, .beta =>
    { a with edgeAtt := match v with
        | some x => SMap.insert (w, i) x a.edgeAtt
        | none => SMap.erase (w, i) a.edgeAtt }
  | _, _ => a

/-- `owner_exists` of `apply_open_portal` -/
def Acc.ownerExists (a : Acc) (key : AttKey) : Bool :=
  match key.owner with
  | .node w i => (SMap.find? (w, i) a.nodes).isSome
  | .edge w i => (SMap.find? (w, i) a.edges).isSome

/-- `apply_op`; `none` = one of the `assert!`/`panic!` sites fires. -/
def Acc.applyOp (a : Acc) : Op → Option Acc
  | .openPortal key cw cr init =>
    if !a.ownerExists key then none else
    match init with
    | .empty rootTy =>
      let a1 : Acc := { a with
        instances := SMap.insert cw { warp := cw, root := cr, parent := some key } a.instances,
        nodes := SMap.insert (cw, cr) rootTy a.nodes }
      some (a1.setAttInternal key (some (.descend cw)))
    | .requireExisting =>
      match SMap.find? cw a.instances with
      | none => none
      | some ex =>
        if ex.parent ≠ some key then none
        else if ex.root ≠ cr then none
        else if (SMap.find? (cw, cr) a.nodes).isNone then none
        else some (a.setAttInternal key (some (.descend cw)))
  | .upsertInstance inst => some { a with instances := SMap.insert inst.warp inst a.instances }
  | .deleteInstance w =>
    some { instances := SMap.erase w a.instances,
           nodes := a.nodes.filter (fun p => p.1.1 != w),
           edges := a.edges.filter (fun p => p.1.1 != w),
           nodeAtt := a.nodeAtt.filter (fun p => p.1.1 != w),
           edgeAtt := a.edgeAtt.filter (fun p => p.1.1 != w) }
  | .upsertNode w i ty => some { a with nodes := SMap.insert (w, i) ty a.nodes }
  | .deleteNode w i =>
    if a.edges.any (fun p => p.1.1 == w && (p.2.src == i || p.2.dst == i)) then none
    else some { a with nodes := SMap.erase (w, i) a.nodes, nodeAtt := SMap.erase (w, i) a.nodeAtt }
  | .upsertEdge w id src dst ty => some { a with edges := SMap.insert (w, id) { src, dst, ty } a.edges }
  | .deleteEdge w _ id =>
    some { a with edges := SMap.erase (w, id) a.edges, edgeAtt := SMap.erase (w, id) a.edgeAtt }
  | .setAtt key v => some (a.setAttInternal key v)

/-- `apply_ops` -/
def Acc.applyOps : Acc → List Op → Option Acc
  | a, [] => some a
  | a, op :: rest =>
    match a.applyOp op with
    | none => none
    | some a' => Acc.applyOps a' rest

open Generated.RootTags in
/-- the byte stream of `SnapshotAccumulator::compute_state_root` for an arbitrary accumulator -/
def accBytesOf (a : Acc) (r : NKey) : Bytes :=
  domainIf accumHasDomain ++ encode accumTags (accContent a r)

def accPreimageOf (a : Acc) (r : NKey) : HExpr := .h [.raw (accBytesOf a r)]

end Root
end EchoVerif
