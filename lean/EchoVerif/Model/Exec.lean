/-
  EchoVerif.Model.Exec — the interpreter rule's program IR (DESIGN Appendix B; Rust twin:
  harness/src/interp.rs), its evaluation against the PRE-state under footprint enforcement
  (`GraphView::new_guarded` reads + `FootprintGuard::check_op` writes), and the merge of the
  emitted ops (`engine_impl.rs::merge_parallel_deltas`, default build).
-/
import EchoVerif.Model.Diff
import EchoVerif.Model.Footprint

namespace EchoVerif
namespace Exec
open Graph

/-- attachment key local to the executing warp -/
inductive AKey where
  | node (i : Nat)
  | edge (i : Nat)
  deriving DecidableEq, Repr

structure Fp where
  nr : List Nat := []
  nw : List Nat := []
  er : List Nat := []
  ew : List Nat := []
  ar : List AKey := []
  aw : List AKey := []
  deriving Repr

inductive Instr where
  | emit (op : Op)
  | ifNode (n : Nat) (op : Op)
  | ifAtt (n : Nat) (a b : Op)
  | ifEdge (e : Nat) (op : Op)
  | adj (n k : Nat) (op : Op)
  | copy (src dst : Nat)
  | copyEdge (e dst : Nat)
  | panic
  deriving Repr

structure Program where
  fp : Fp
  body : List Instr
  deriving Repr

inductive Outcome where
  | ok (ops : List Op)
  | violation            -- `FootprintViolation` panic payload
  | panicked             -- the program's own panic
  | both                 -- executor panic AND a write violation (`FootprintViolationWithPanic`)
  deriving Repr

/-- The guard of one item: declared sets (the scope's own α attachment is always readable — the
    rule's `compute_footprint` adds it). -/
structure Guard where
  warp : Nat
  scope : Nat
  fp : Fp

def Guard.nodeRead (g : Guard) (n : Nat) : Bool := g.fp.nr.contains n
def Guard.edgeRead (g : Guard) (e : Nat) : Bool := g.fp.er.contains e
def Guard.attRead (g : Guard) (k : AKey) : Bool := k == AKey.node g.scope || g.fp.ar.contains k

/-- `op_write_targets`: (nodes, edges, attachment keys, is_instance_op, op_warp). -/
def writeTargets : Op → List Nat × List Nat × List AttKey × Bool × Nat
  | .upsertNode w i _ => ([i], [], [], false, w)
  | .deleteNode w i => ([i], [], [AttKey.nodeAlpha w i], false, w)
  | .upsertEdge w id src _ _ => ([src], [id], [], false, w)
  | .deleteEdge w src id => ([src], [id], [AttKey.edgeBeta w id], false, w)
  | .setAtt key _ => ([], [], [key], false, ownerWarp key.owner)
  | .openPortal key _ _ _ => ([], [], [key], true, ownerWarp key.owner)
  | .upsertInstance inst => ([], [], [], true, inst.warp)
  | .deleteInstance w => ([], [], [], true, w)

def Guard.attWrite (g : Guard) (k : AttKey) : Bool :=
  match k.owner, k.plane with
  | .node w i, .alpha => w == g.warp && g.fp.aw.contains (.node i)
  | .edge w i, .beta => w == g.warp && g.fp.aw.contains (.edge i)
  | _, _ => false

/-- `FootprintGuard::check_op` for a non-system rule: `true` = allowed. -/
def Guard.checkOp (g : Guard) (o : Op) : Bool :=
  let (ns, es, as, inst, w) := writeTargets o
  !inst && w == g.warp && ns.all g.fp.nw.contains && es.all g.fp.ew.contains && as.all g.attWrite

/-- `moved_edge_previous_source` (fix 7993b16): the source an existing edge of the guard's warp is
    currently stored under, when an `UpsertEdge` moves it to another source. -/
def movedPrevSrc (sw : Nat) (st : Store) : Op → Option Nat
  | .upsertEdge w id src _ _ =>
    if w = sw then
      match SMap.find? id st.edges with
      | some r => if r.src ≠ src then some r.src else none
      | none => none
    else none
  | _ => none

/-- `FootprintGuard::check_op_in(store, op)`: `check_op`, plus the previous source of a moved
    edge must be a declared node write. -/
def Guard.checkOpIn (g : Guard) (st : Store) (o : Op) : Bool :=
  g.checkOp o &&
    (match movedPrevSrc g.warp st o with
     | some n => g.fp.nw.contains n
     | none => true)

/-- Guarded evaluation of the body against the pre-state store. `none` = read violation or panic
    (the Bool says which: `true` = program panic). Ops emitted before the stop are kept: the
    post-hoc write check runs on them even when the executor unwound. -/
def runBody (g : Guard) (st : Store) : List Instr → List Op → List Op × Option Bool
  | [], acc => (acc, none)
  | i :: rest, acc =>
    match i with
    | .emit op => runBody g st rest (acc ++ [op])
    | .ifNode n op =>
      if !g.nodeRead n then (acc, some false) else
      runBody g st rest (if (SMap.find? n st.nodes).isSome then acc ++ [op] else acc)
    | .ifAtt n a b =>
      if !g.attRead (.node n) then (acc, some false) else
      runBody g st rest (acc ++ [if (SMap.find? n st.nodeAtt).isSome then a else b])
    | .ifEdge e op =>
      if !g.edgeRead e then (acc, some false) else
      runBody g st rest (if (SMap.find? e st.edges).isSome then acc ++ [op] else acc)
    | .adj n k op =>
      if !g.nodeRead n then (acc, some false) else
      let cnt := (st.edges.filter (fun p => p.2.src == n)).length
      runBody g st rest (if cnt ≥ k then acc ++ [op] else acc)
    | .copy src dst =>
      if !g.attRead (.node src) then (acc, some false) else
      runBody g st rest (acc ++ [.setAtt (AttKey.nodeAlpha g.warp dst) (SMap.find? src st.nodeAtt)])
    | .copyEdge e dst =>
      if !g.attRead (.edge e) then (acc, some false) else
      runBody g st rest (acc ++ [.setAtt (AttKey.nodeAlpha g.warp dst) (SMap.find? e st.edgeAtt)])
    | .panic => (acc, some true)

/-- `execute_item_enforced`. -/
def runItem (g : Guard) (st : Store) (p : Program) : Outcome :=
  let (ops, stop) := runBody g st p.body []
  let writesOk := ops.all (g.checkOpIn st)
  match stop, writesOk with
  | none, true => .ok ops
  | none, false => .violation
  | some false, _ => .violation          -- read violation is itself a FootprintViolation panic;
                                          -- a further write violation wraps it (observed as `both`)
  | some true, true => .panicked
  | some true, false => .both

/-- Footprint of a candidate as the scheduler sees it (`interp::footprint`). -/
def schedFootprint (w scope : Nat) (fp : Fp) : Footprint.Footprint :=
  let akey : AKey → Footprint.Res
    | .node i => .att false w i false
    | .edge i => .att true w i true
  { nRead := fp.nr.map (.node w), nWrite := fp.nw.map (.node w),
    eRead := fp.er.map (.edge w), eWrite := fp.ew.map (.edge w),
    aRead := Footprint.Res.att false w scope false :: fp.ar.map akey, aWrite := fp.aw.map akey,
    mask := 18446744073709551615 }

/-! ### merge -/

inductive MergeErr where
  | conflict            -- "conflicting ops share sort_key"
  deriving Repr

/-- adjacent-pair divergence check over the key-sorted list -/
def hasDivergent : List Op → Bool
  | a :: b :: rest => (decide (a.sortKey = b.sortKey) && !decide (a = b)) || hasDivergent (b :: rest)
  | _ => false

/-- `dedup_by(key)`: keeps the first of each run of equal keys -/
def dedupByKey : List Op → List Op
  | a :: b :: rest => if a.sortKey = b.sortKey then dedupByKey (a :: rest) else a :: dedupByKey (b :: rest)
  | l => l
termination_by l => l.length

/-- `merge_parallel_deltas` (default build): flatten, sort by key, reject divergent, dedupe. -/
def mergeOps (deltas : List (List Op)) : Except MergeErr (List Op) :=
  let flat := sortOps deltas.flatten
  if hasDivergent flat then .error .conflict else .ok (dedupByKey flat)

/-- `WarpTickPatchV1::new` on ops: BTreeMap insert by key = sorted, last wins. -/
def patchCanon (ops : List Op) : List Op :=
  let sorted := sortOps ops
  let rec lastWins : List Op → List Op
    | a :: b :: rest => if a.sortKey = b.sortKey then lastWins (b :: rest) else a :: lastWins (b :: rest)
    | l => l
  lastWins sorted

end Exec
end EchoVerif
