/-
  C09 — a scheduler pass is all-or-nothing and strictly ordered.
  Property theorems over `EchoVerif.Model.Pass` (the model of `super_tick_inner`).
-/
import EchoVerif.Lemmas.Pass
import EchoVerif.Lemmas.PassTwin
import EchoVerif.Generated.FaultScope

set_option linter.unusedSimpArgs false
set_option linter.unusedVariables false

namespace EchoVerif.C09
open EchoVerif EchoVerif.Pass SMap LinOrd

def emptyCorr' : Corr :=
  { byTid := [], bySub := [], byTicket := [], byRef := [], byBasis := [], pendingSubs := [] }

/-! ### small facts about the pass wrapper -/

theorem withFaults_self (rt : Runtime) : withFaults rt rt.faults = rt := by cases rt; rfl

theorem withFaults_withFaults (rt : Runtime) (a b : Faults) :
    withFaults (withFaults rt a) b = withFaults rt b := by cases rt; rfl

theorem runnableKeys_pairwise {rt : Runtime} (hs : Sorted rt.heads) :
    List.Pairwise (fun a b => lt a b = true) (runnableKeys rt) := by
  unfold runnableKeys
  cases rt.faults.runtimeFault with
  | some _ => exact List.Pairwise.nil
  | none => exact (pairwise_keys hs).sublist (List.filter_sublist.map _)

theorem runnableKeys_nodup {rt : Runtime} (hs : Sorted rt.heads) : (runnableKeys rt).Nodup :=
  (runnableKeys_pairwise hs).imp (fun h => ne_of_lt h)

theorem runnableKeys_present {rt : Runtime} (hs : Sorted rt.heads) :
    ∀ k ∈ runnableKeys rt, (find? k rt.heads).isSome = true := by
  intro k hk
  unfold runnableKeys at hk
  cases hr : rt.faults.runtimeFault with
  | some _ => rw [hr] at hk; cases hk
  | none =>
    rw [hr] at hk
    obtain ⟨p, hp, rfl⟩ := List.mem_map.mp hk
    exact mem_keys_find? hs (List.mem_map.mpr ⟨p, (List.mem_filter.mp hp).1, rfl⟩)

theorem runnableKeys_not_faulted {rt : Runtime} {k : HeadKey}
    (hf : contains k rt.faults.faultedHeads = true) : k ∉ runnableKeys rt := by
  intro hk
  unfold runnableKeys at hk
  cases hr : rt.faults.runtimeFault with
  | some _ => rw [hr] at hk; cases hk
  | none =>
    rw [hr] at hk
    obtain ⟨p, hp, rfl⟩ := List.mem_map.mp hk
    have := (List.mem_filter.mp hp).2
    simp [isRunnable, hf] at this

/-- The state the loop of a pass is started from, and the facts `passLoop_spec` needs about it. -/
theorem loop_spec {rt : Runtime} {pv : Prov} (wf : WF rt pv) (g : Nat) (inj : Option (Nat × Fail)) :
    match passLoop g inj (runnableKeys rt) 0 { rt := rt, prov := pv, log := [] } [] with
    | .done recs s' =>
      Inv (runnableKeys rt) { rt := rt, prov := pv, log := [] } s' ∧
        recs.map (·.head) = (runnableKeys rt).filter (willCommit rt) ∧
        TicksOk g (tickOf rt.frontiers) recs ∧
        (∀ w, tickOf s'.rt.frontiers w = advance (tickOf rt.frontiers) recs w) ∧
        (∀ r ∈ recs, ∃ hd, find? r.head rt.heads = some hd ∧
          r.admitted = (admitBatch hd).1.length ∧ r.rejected = rejectedCount (admitBatch hd).1)
    | .failed key f s' =>
      Inv (runnableKeys rt) { rt := rt, prov := pv, log := [] } s' ∧ key ∈ runnableKeys rt
    | .abort _ _ => False := by
  have := passLoop_spec g inj { rt := rt, prov := pv, log := [] } (runnableKeys rt) [] 0
    { rt := rt, prov := pv, log := [] } [] (Inv.refl wf []) (runnableKeys_nodup wf.heads)
    (fun k _ h => by cases h) (runnableKeys_present wf.heads)
  cases hr : passLoop g inj (runnableKeys rt) 0 { rt := rt, prov := pv, log := [] } [] with
  | done recs s' =>
    rw [hr] at this
    obtain ⟨a, new, b, c, d, e, f⟩ := this
    simp only [List.nil_append] at b
    subst b
    exact ⟨a, c, d, e, f⟩
  | failed k f s' => rw [hr] at this; exact this
  | abort e s' => rw [hr] at this; exact this

/-! ### restore_inverse -/

/-- **restore_inverse.** For EVERY state `s` reachable inside a pass — characterised by the frame
    invariant `Inv`: only heads in `keys` and their worldlines' frontiers were replaced, provenance was
    only appended to on those worldlines, correlation writes were logged with their previous values —
    restoring the checkpoints taken before the pass and replaying the undo log in reverse yields exactly
    the pre-pass runtime and provenance (fault evidence is untouched by the mutations, hence included). -/
theorem restore_inverse {rt : Runtime} {pv : Prov} {keys : List HeadKey} {cp : RtCheckpoint}
    {pcp : ProvCheckpoint} {s : PState} (wf : WF rt pv)
    (hcp : checkpointFor rt keys = .ok cp)
    (hpcp : provCheckpointFor pv (keys.map (·.1)) = some pcp)
    (h : Inv keys { rt := rt, prov := pv, log := [] } s) :
    restoreAll cp pcp s = (rt, pv) := by
  unfold restoreAll
  rw [restoreRt_inverse wf hcp h, restoreProv_inverse wf hpcp h]

/-- **restore_inverse_prefix.** `Inv` is not vacuous: every prefix of head commits a pass can perform —
    the loop stopped at a failing head at ANY of its failure points (engine, provenance append, tick
    advance, after `j` correlation inserts, or after all of its mutations), or ran to completion — ends
    in a state from which restore recovers the pre-pass state. Quantified over every failure plan. -/
theorem restore_inverse_prefix {rt : Runtime} {pv : Prov} {cp : RtCheckpoint} {pcp : ProvCheckpoint}
    (wf : WF rt pv) (g : Nat) (inj : Option (Nat × Fail))
    (hcp : checkpointFor rt (runnableKeys rt) = .ok cp)
    (hpcp : provCheckpointFor pv ((runnableKeys rt).map (·.1)) = some pcp) :
    match passLoop g inj (runnableKeys rt) 0 { rt := rt, prov := pv, log := [] } [] with
    | .done _ s' => restoreAll cp pcp s' = (rt, pv)
    | .failed _ _ s' => restoreAll cp pcp s' = (rt, pv)
    | .abort _ _ => False := by
  have := loop_spec wf g inj
  cases hr : passLoop g inj (runnableKeys rt) 0 { rt := rt, prov := pv, log := [] } [] with
  | done recs s' => rw [hr] at this; exact restore_inverse wf hcp hpcp this.1
  | failed k f s' => rw [hr] at this; exact restore_inverse wf hcp hpcp this.1
  | abort e s' => rw [hr] at this; exact this

/-! ### pass_atomic -/

/-- **pass_atomic.** For every runtime / provenance with sorted maps, every failure plan (position `k`
    of the failing head, failure kind) and every honest failure (broken instance, panicking intent,
    provenance gap, tick overflow, correlation clash): if the pass does not return step records then the
    state afterwards equals the state before on every component except the fault evidence. -/
theorem pass_atomic {rt rt' : Runtime} {pv pv' : Prov} {out : PassOut} (wf : WF rt pv)
    (inj : Option (Nat × Fail)) (h : pass inj rt pv = (out, rt', pv'))
    (hfail : ∀ recs, out ≠ .ok recs) :
    withFaults rt' rt.faults = rt ∧ pv' = pv := by
  unfold pass at h
  cases hrf : rt.faults.runtimeFault with
  | some gen =>
    simp only [hrf] at h
    obtain ⟨_, rfl, rfl⟩ := Prod.mk.inj h |>.imp id Prod.mk.inj
    exact ⟨withFaults_self rt, rfl⟩
  | none =>
    simp only [hrf] at h
    split at h
    · obtain ⟨_, rfl, rfl⟩ := Prod.mk.inj h |>.imp id Prod.mk.inj
      exact ⟨by rw [withFaults_withFaults, withFaults_self], rfl⟩
    · split at h
      · obtain ⟨_, rfl, rfl⟩ := Prod.mk.inj h |>.imp id Prod.mk.inj
        exact ⟨withFaults_self rt, rfl⟩
      · obtain ⟨_, rfl, rfl⟩ := Prod.mk.inj h |>.imp id Prod.mk.inj
        exact ⟨by rw [withFaults_withFaults, withFaults_self], rfl⟩
      · split at h
        · obtain ⟨_, rfl, rfl⟩ := Prod.mk.inj h |>.imp id Prod.mk.inj
          exact ⟨withFaults_self rt, rfl⟩
        · next cp hcp =>
          split at h
          · obtain ⟨_, rfl, rfl⟩ := Prod.mk.inj h |>.imp id Prod.mk.inj
            exact ⟨withFaults_self rt, rfl⟩
          · next pcp hpcp =>
            have spec := restore_inverse_prefix wf (rt.gtick + 1) inj hcp hpcp
            split at h
            · next recs s hl =>
              obtain ⟨rfl, _, _⟩ := Prod.mk.inj h |>.imp id Prod.mk.inj
              exact absurd rfl (hfail recs)
            · next e s hl => rw [hl] at spec; exact spec.elim
            · next key f s hl =>
              rw [hl] at spec
              simp only [] at spec
              simp only [spec] at h
              split at h
              · obtain ⟨_, rfl, rfl⟩ := Prod.mk.inj h |>.imp id Prod.mk.inj
                exact ⟨by rw [withFaults_withFaults, withFaults_self], rfl⟩
              · obtain ⟨_, rfl, rfl⟩ := Prod.mk.inj h |>.imp id Prod.mk.inj
                exact ⟨by rw [withFaults_withFaults, withFaults_self], rfl⟩

/-- failure leaves the global tick where it was (corollary of `pass_atomic`) -/
theorem pass_fail_gtick {rt rt' : Runtime} {pv pv' : Prov} {out : PassOut} (wf : WF rt pv)
    (inj : Option (Nat × Fail)) (h : pass inj rt pv = (out, rt', pv'))
    (hfail : ∀ recs, out ≠ .ok recs) : rt'.gtick = rt.gtick := by
  have := (pass_atomic wf inj h hfail).1
  have e : (withFaults rt' rt.faults).gtick = rt.gtick := by rw [this]
  exact e

/-! ### success: order and ticks -/

/-- everything a successful pass guarantees, extracted once -/
theorem pass_ok_spec {rt rt' : Runtime} {pv pv' : Prov} {recs : List Step} (wf : WF rt pv)
    (inj : Option (Nat × Fail)) (h : pass inj rt pv = (.ok recs, rt', pv')) :
    ∃ s', rt' = { s'.rt with gtick := rt.gtick + 1 } ∧ pv' = s'.prov ∧
      rt.faults.runtimeFault = none ∧
      Inv (runnableKeys rt) { rt := rt, prov := pv, log := [] } s' ∧
      recs.map (·.head) = (runnableKeys rt).filter (willCommit rt) ∧
      TicksOk (rt.gtick + 1) (tickOf rt.frontiers) recs ∧
      (∀ w, tickOf s'.rt.frontiers w = advance (tickOf rt.frontiers) recs w) ∧
      (∀ r ∈ recs, ∃ hd, find? r.head rt.heads = some hd ∧
        r.admitted = (admitBatch hd).1.length ∧ r.rejected = rejectedCount (admitBatch hd).1) := by
  unfold pass at h
  cases hrf : rt.faults.runtimeFault with
  | some gen => simp only [hrf] at h; cases h
  | none =>
    simp only [hrf] at h
    split at h
    · cases h
    · split at h
      · cases h
      · cases h
      · split at h
        · cases h
        · split at h
          · cases h
          · have spec := loop_spec wf (rt.gtick + 1) inj
            split at h
            · next recs' s hl =>
              rw [hl] at spec
              obtain ⟨e1, rfl, rfl⟩ := Prod.mk.inj h |>.imp id Prod.mk.inj
              cases e1
              exact ⟨s, rfl, rfl, rfl, spec⟩
            · cases h
            · split at h <;> cases h

theorem advance_count (w : Nat) : ∀ (recs : List Step) (t : Nat → Nat),
    advance t recs w = t w + (recs.filter (fun r => decide (r.head.1 = w))).length
  | [], t => by simp [advance]
  | r :: rs, t => by
    rw [advance, advance_count w rs, List.filter_cons]
    by_cases e : r.head.1 = w
    · simp [bump, e]; omega
    · have : ¬ w = r.head.1 := fun h => e h.symm
      simp [bump, e, this]

/-- **pass_order.** A successful pass commits exactly the runnable (admitted, unpaused, not
    fault-quarantined) heads that have admissible work, in strictly ascending `WriterHeadKey` order;
    every record reports "its worldline's tick at that moment + 1" and the pass's global tick; each
    worldline's frontier tick grows by exactly the number of commits on it; the global tick by one. -/
theorem pass_order {rt rt' : Runtime} {pv pv' : Prov} {recs : List Step} (wf : WF rt pv)
    (inj : Option (Nat × Fail)) (h : pass inj rt pv = (.ok recs, rt', pv')) :
    recs.map (·.head) = (runnableKeys rt).filter (willCommit rt) ∧
    List.Pairwise (fun a b => lt a b = true) (recs.map (·.head)) ∧
    TicksOk (rt.gtick + 1) (tickOf rt.frontiers) recs ∧
    (∀ w, tickOf rt'.frontiers w =
      tickOf rt.frontiers w + (recs.filter (fun r => decide (r.head.1 = w))).length) ∧
    rt'.gtick = rt.gtick + 1 := by
  obtain ⟨s', rfl, rfl, _, _, a, b, c, _⟩ := pass_ok_spec wf inj h
  refine ⟨a, ?_, b, ?_, rfl⟩
  · rw [a]; exact (runnableKeys_pairwise wf.heads).sublist List.filter_sublist
  · intro w
    show tickOf s'.rt.frontiers w = _
    rw [c w, advance_count]

/-! ### rejections are receipts, not faults -/

/-- **rejection_not_fault.** A pass that returns records leaves the fault evidence exactly as it was,
    whatever number of candidates its commits rejected; each record carries the rejection count of the
    batch its head admitted (all but one of the shared-footprint candidates). -/
theorem rejection_not_fault {rt rt' : Runtime} {pv pv' : Prov} {recs : List Step} (wf : WF rt pv)
    (inj : Option (Nat × Fail)) (h : pass inj rt pv = (.ok recs, rt', pv')) :
    rt'.faults = rt.faults ∧
    ∀ r ∈ recs, ∃ hd, find? r.head rt.heads = some hd ∧ r.rejected = rejectedCount (admitBatch hd).1 := by
  obtain ⟨s', rfl, rfl, _, inv, _, _, _, d⟩ := pass_ok_spec wf inj h
  refine ⟨inv.faults, ?_⟩
  intro r hr
  obtain ⟨hd, a, _, c⟩ := d r hr
  exact ⟨hd, a, c⟩

/-! ### quarantine -/

/-- **quarantine_skips.** A fault-quarantined head is not committed by a successful pass and its head
    record (inbox included) is untouched. -/
theorem quarantine_skips {rt rt' : Runtime} {pv pv' : Prov} {recs : List Step} (wf : WF rt pv)
    (inj : Option (Nat × Fail)) (h : pass inj rt pv = (.ok recs, rt', pv')) (k : HeadKey)
    (hq : contains k rt.faults.faultedHeads = true) :
    k ∉ recs.map (·.head) ∧ find? k rt'.heads = find? k rt.heads := by
  obtain ⟨s', rfl, rfl, _, inv, a, _, _, _⟩ := pass_ok_spec wf inj h
  have nk := runnableKeys_not_faulted hq
  refine ⟨?_, inv.hFrame k nk⟩
  rw [a]
  exact fun m => nk (List.mem_filter.mp m).1

/-- **quarantine_others_proceed.** Head-scoped quarantine does not block unrelated heads: in a
    successful pass every admitted, unpaused, unfaulted head with admissible work is committed. -/
theorem quarantine_others_proceed {rt rt' : Runtime} {pv pv' : Prov} {recs : List Step}
    (wf : WF rt pv) (inj : Option (Nat × Fail)) (h : pass inj rt pv = (.ok recs, rt', pv'))
    (k : HeadKey) (hd : Head) (hk : find? k rt.heads = some hd)
    (hrun : isRunnable rt.faults (k, hd) = true) (hwork : (admitBatch hd).1.isEmpty = false) :
    k ∈ recs.map (·.head) := by
  obtain ⟨s', rfl, rfl, hrf, _, a, _, _, _⟩ := pass_ok_spec wf inj h
  rw [a]
  refine List.mem_filter.mpr ⟨?_, by simp [willCommit, hk, hwork]⟩
  unfold runnableKeys
  rw [hrf]
  exact List.mem_map.mpr ⟨(k, hd), List.mem_filter.mpr ⟨find?_mem hk, hrun⟩, rfl⟩

/-- **runtime_fault_blocks_all.** With an active runtime-scoped fault a pass does nothing at all. -/
theorem runtime_fault_blocks_all (inj : Option (Nat × Fail)) (rt : Runtime) (pv : Prov) (gen : Nat)
    (h : rt.faults.runtimeFault = some gen) : pass inj rt pv = (.err .rtfault, rt, pv) := by
  unfold pass; rw [h]

theorem contains_recordFault (sc : Scope) (fs : Faults) (k : HeadKey)
    (hq : contains k fs.faultedHeads = true) : contains k (recordFault sc fs).faultedHeads = true := by
  cases sc with
  | runtime =>
    simp only [recordFault, recordRuntimeFault]
    cases fs.runtimeFault <;> exact hq
  | head k' =>
    simp only [recordFault, recordHeadFault]
    split
    · exact hq
    · simp only [contains, find?_insert]
      by_cases e : k = k'
      · simp [e]
      · simpa [e, contains] using hq

/-- the only ways a pass changes fault evidence: not at all, or by recording one fault -/
theorem pass_faults {rt rt' : Runtime} {pv pv' : Prov} {out : PassOut} (wf : WF rt pv)
    (inj : Option (Nat × Fail)) (h : pass inj rt pv = (out, rt', pv')) :
    rt'.faults = rt.faults ∨ ∃ sc, rt'.faults = recordFault sc rt.faults := by
  cases out with
  | ok recs => exact Or.inl (rejection_not_fault wf inj h).1
  | err e =>
    have at' := (pass_atomic wf inj h (fun _ hh => by cases hh)).1
    revert h
    unfold pass
    cases hrf : rt.faults.runtimeFault with
    | some gen => simp only []; intro h; cases h; exact Or.inl rfl
    | none =>
      simp only []
      split
      · intro h; cases h; exact Or.inr ⟨.runtime, rfl⟩
      · split
        · intro h; cases h; exact Or.inl rfl
        · intro h; cases h; exact Or.inr ⟨.head _, rfl⟩
        · split
          · intro h; cases h; exact Or.inl rfl
          · split
            · intro h; cases h; exact Or.inl rfl
            · next cp hcp _ pcp hpcp =>
              have spec := restore_inverse_prefix wf (rt.gtick + 1) inj hcp hpcp
              split
              · intro h; cases h
              · next e s hl => rw [hl] at spec; exact spec.elim
              · next key f s hl =>
                rw [hl] at spec
                simp only [] at spec
                simp only [spec]
                split
                · intro h; cases h; exact Or.inr ⟨_, rfl⟩
                · intro h; cases h
  | panic =>
    revert h
    unfold pass
    cases hrf : rt.faults.runtimeFault with
    | some gen => simp only []; intro h; cases h
    | none =>
      simp only []
      split
      · intro h; cases h
      · split
        · intro h; cases h
        · intro h; cases h
        · split
          · intro h; cases h
          · split
            · intro h; cases h
            · next cp hcp _ pcp hpcp =>
              have spec := restore_inverse_prefix wf (rt.gtick + 1) inj hcp hpcp
              split
              · intro h; cases h
              · next e s hl => rw [hl] at spec; exact spec.elim
              · next key f s hl =>
                rw [hl] at spec
                simp only [] at spec
                simp only [spec]
                split
                · intro h; cases h
                · intro h; cases h; exact Or.inr ⟨.runtime, rfl⟩

/-- **quarantine_persists.** No pass — successful, failed, or panicking — releases a quarantined head:
    only `resolve` does. -/
theorem quarantine_persists {rt rt' : Runtime} {pv pv' : Prov} {out : PassOut} (wf : WF rt pv)
    (inj : Option (Nat × Fail)) (h : pass inj rt pv = (out, rt', pv')) (k : HeadKey)
    (hq : contains k rt.faults.faultedHeads = true) : contains k rt'.faults.faultedHeads = true := by
  rcases pass_faults wf inj h with e | ⟨sc, e⟩
  · rw [e]; exact hq
  · rw [e]; exact contains_recordFault sc _ k hq

/-- a recorded head fault quarantines that head -/
theorem head_fault_quarantines (k : HeadKey) (fs : Faults) :
    contains k (recordFault (.head k) fs).faultedHeads = true := by
  simp only [recordFault, recordHeadFault]
  split
  · assumption
  · simp [contains, find?_insert]

/-- **resolve_releases.** Trusted recovery of a head's active fault releases exactly that head and
    keeps the evidence (the record stays, marked resolved). -/
theorem resolve_releases (i : Nat) (fs fs' : Faults) (r : FaultRec) (k : HeadKey)
    (hs : Sorted fs.faultedHeads) (hr : fs.records[i]? = some r) (ha : r.active = true)
    (hsc : r.scope = .head k) (hq : find? k fs.faultedHeads = some r.gen)
    (h : resolve i fs = (.ok, fs')) :
    contains k fs'.faultedHeads = false ∧ fs'.records.length = fs.records.length ∧
    ∀ k', k' ≠ k → find? k' fs'.faultedHeads = find? k' fs.faultedHeads := by
  have len : ∀ (i : Nat) (l : List FaultRec), (setActive i l).length = l.length := by
    intro i l
    induction l generalizing i with
    | nil => simp [setActive]
    | cons x xs ih => cases i <;> simp [setActive, ih]
  unfold resolve at h
  rw [hr] at h
  simp only [ha, Bool.not_true, Bool.false_eq_true, if_false, hsc, hq, if_true] at h
  obtain ⟨_, rfl⟩ := Prod.mk.inj h
  refine ⟨?_, len _ _, ?_⟩
  · simp [contains, find?_erase_self k hs]
  · intro k' hne
    exact find?_erase_ne hne hs

/-! ### recovery: the retried pass equals the pass of a never-failed twin -/

/-- the quarantine sets stay sorted maps along every run (needed by `retry_equals_twin`) -/
theorem pass_faults_sorted {rt rt' : Runtime} {pv pv' : Prov} {out : PassOut} (wf : WF rt pv)
    (hs : Sorted rt.faults.faultedHeads) (inj : Option (Nat × Fail))
    (h : pass inj rt pv = (out, rt', pv')) : Sorted rt'.faults.faultedHeads := by
  rcases pass_faults wf inj h with e | ⟨sc, e⟩
  · rw [e]; exact hs
  · rw [e]; exact sorted_recordFault sc _ hs

theorem resolve_faults_sorted (i : Nat) (fs : Faults) (hs : Sorted fs.faultedHeads) :
    Sorted (resolve i fs).2.faultedHeads := sorted_resolve i fs hs

/-- **pass_reads_quarantine_only.** The fault evidence influences a pass only through `faulted_heads`
    and `runtime_fault`: records, their status and the generation counter are never read. -/
theorem pass_reads_quarantine_only (inj : Option (Nat × Fail)) (rt : Runtime) (pv : Prov)
    (fs1 fs2 : Faults) (hH : fs1.faultedHeads = fs2.faultedHeads)
    (hR : fs1.runtimeFault = fs2.runtimeFault) :
    (pass inj (withFaults rt fs1) pv).1 = (pass inj (withFaults rt fs2) pv).1 ∧
    (pass inj (withFaults rt fs1) pv).2.2 = (pass inj (withFaults rt fs2) pv).2.2 ∧
    ∀ F, withFaults (pass inj (withFaults rt fs1) pv).2.1 F =
      withFaults (pass inj (withFaults rt fs2) pv).2.1 F :=
  pass_faults_congr inj rt pv fs1 fs2 hH hR

/-- **retry_equals_twin.** For every well-formed state, every failure plan and every honest failure: if
    a pass fails and records a fault, then after trusted recovery of exactly that fault the NEXT pass
    (under any failure plan `inj'`) has the same outcome (step records / error), the same provenance and
    the same runtime - heads, inboxes, frontiers, ticks, submissions, tickets, all correlation indexes -
    as the same pass on the twin runtime that never ran the failed pass. The only difference is the
    evidence: the resolved record and the advanced generation counter. -/
theorem retry_equals_twin {rt rt1 : Runtime} {pv pv1 : Prov} {out : PassOut} (wf : WF rt pv)
    (hs : Sorted rt.faults.faultedHeads) (inj inj' : Option (Nat × Fail))
    (h : pass inj rt pv = (out, rt1, pv1)) (hfail : ∀ recs, out ≠ .ok recs)
    (hrec : rt1.faults ≠ rt.faults) :
    (resolve rt.faults.records.length rt1.faults).1 = .ok ∧
    (pass inj' (withFaults rt1 (resolve rt.faults.records.length rt1.faults).2) pv1).1 =
      (pass inj' rt pv).1 ∧
    (pass inj' (withFaults rt1 (resolve rt.faults.records.length rt1.faults).2) pv1).2.2 =
      (pass inj' rt pv).2.2 ∧
    ∀ F, withFaults (pass inj' (withFaults rt1 (resolve rt.faults.records.length rt1.faults).2) pv1).2.1 F =
      withFaults (pass inj' rt pv).2.1 F := by
  obtain ⟨a, rfl⟩ := pass_atomic wf inj h hfail
  have e1 : rt1 = withFaults rt rt1.faults := by
    rw [← a, withFaults_withFaults, withFaults_self]
  rcases pass_faults wf inj h with e | ⟨sc, e⟩
  · exact absurd e hrec
  · have hnew : recordFault sc rt.faults ≠ rt.faults := by rw [← e]; exact hrec
    obtain ⟨r1, r2, r3, _, _⟩ := resolve_recordFault sc rt.faults hs hnew
    rw [← e] at r1 r2 r3
    refine ⟨r1, ?_⟩
    have c := pass_faults_congr inj' rt pv1
      (resolve rt.faults.records.length rt1.faults).2 rt.faults r2 r3
    rw [withFaults_self] at c
    have e2 : withFaults rt1 (resolve rt.faults.records.length rt1.faults).2 =
        withFaults rt (resolve rt.faults.records.length rt1.faults).2 := by
      rw [e1, withFaults_withFaults]
    rw [e2]
    exact c

/-- replaying the undo log in PUSH order instead of reverse order is wrong as soon as two entries of
    one pass share a key (two tickets correlated under one current-basis key): witness -/
theorem rollback_order_matters :
    ∃ (c : Corr) (e1 e2 : RbEntry) (r1 r2 : CorrRec),
      rollbackCorr [e1, e2] (writeCorr e2 r2 (writeCorr e1 r1 c)) = c ∧
      [e1, e2].foldl (fun c e => undoEntry e c) (writeCorr e2 r2 (writeCorr e1 r1 c)) ≠ c := by
  let c : Corr := emptyCorr'
  let rf1 : Ref := ((1, 1, 1), (((1, 1), 5), 100))
  let rf2 : Ref := ((1, 1, 1), (((1, 1), 6), 101))
  let e1 := mkEntry c ((1, 1), 5) 100 rf1 (1, 1)
  let c1 := writeCorr e1 { target := ((1, 1), 5), ticket := 100, ref := rf1 } c
  let e2 := mkEntry c1 ((1, 1), 6) 101 rf2 (1, 1)
  exact ⟨c, e1, e2, { target := ((1, 1), 5), ticket := 100, ref := rf1 },
    { target := ((1, 1), 6), ticket := 101, ref := rf2 }, by decide, by decide⟩

/-! ### the fault-scope table (extracted from `scheduler_fault_scope_for_error` on every run) -/

/-- **scope_table.** The model's scope classification is the table written in the Rust source. -/
theorem scope_table : ∀ e : ErrKind, isHeadScoped e = Generated.faultScopeIsHead e := by
  intro e; cases e <;> decide

/-- **head_scoped_faults_isolate.** Over the extracted table: typed engine errors and frontier tick
    overflow quarantine only the culprit head (the runtime-wide fault slot is untouched, so unrelated
    heads keep running), while errors that cannot be pinned on one head — provenance, unknown
    worldline / head, correlation clash, global tick overflow — stop the whole runtime. -/
theorem head_scoped_faults_isolate (k : HeadKey) (fs : Faults) :
    (∀ e, Generated.faultScopeIsHead e = true →
      (recordFault (scopeOf k e) fs).runtimeFault = fs.runtimeFault ∧
      contains k (recordFault (scopeOf k e) fs).faultedHeads = true) ∧
    Generated.faultScopeIsHead .engine = true ∧ Generated.faultScopeIsHead .overflow = true ∧
    (∀ e, e ∈ [ErrKind.prov, .unkwl, .unkhead, .corr, .goverflow] →
      Generated.faultScopeIsHead e = false ∧
      (fs.runtimeFault = none → (recordFault (scopeOf k e) fs).runtimeFault.isSome = true)) := by
  refine ⟨?_, by decide, by decide, ?_⟩
  · intro e he
    rw [← scope_table] at he
    simp only [scopeOf, he, if_true]
    refine ⟨?_, head_fault_quarantines k fs⟩
    simp only [recordFault, recordHeadFault]
    split <;> rfl
  · intro e he
    have hf : Generated.faultScopeIsHead e = false := by
      simp only [List.mem_cons, List.not_mem_nil, or_false] at he
      rcases he with rfl | rfl | rfl | rfl | rfl <;> decide
    refine ⟨hf, ?_⟩
    intro hn
    rw [← scope_table] at hf
    simp only [scopeOf, hf, Bool.false_eq_true, if_false, recordFault, recordRuntimeFault, hn]
    rfl

/-! ### well-formedness is preserved, so the theorems apply to every later pass of a run -/

theorem pass_wf {rt rt' : Runtime} {pv pv' : Prov} {out : PassOut} (wf : WF rt pv)
    (inj : Option (Nat × Fail)) (h : pass inj rt pv = (out, rt', pv')) : WF rt' pv' := by
  cases out with
  | ok recs =>
    obtain ⟨s', rfl, rfl, _, inv, _⟩ := pass_ok_spec wf inj h
    exact ⟨inv.hSorted, inv.fSorted, inv.pSorted, inv.cSorted⟩
  | err e =>
    obtain ⟨a, rfl⟩ := pass_atomic wf inj h (fun _ hh => by cases hh)
    have : rt' = withFaults rt rt'.faults := by
      rw [← a, withFaults_withFaults, withFaults_self]
    rw [this]
    exact ⟨wf.heads, wf.frontiers, wf.wls, wf.corr⟩
  | panic =>
    obtain ⟨a, rfl⟩ := pass_atomic wf inj h (fun _ hh => by cases hh)
    have : rt' = withFaults rt rt'.faults := by
      rw [← a, withFaults_withFaults, withFaults_self]
    rw [this]
    exact ⟨wf.heads, wf.frontiers, wf.wls, wf.corr⟩

theorem witness_wf {rt : Runtime} {pv : Prov} (wf : WF rt pv) (t : Target) : WF (witness t rt) pv := by
  unfold witness
  split
  · exact wf
  · exact ⟨wf.heads, wf.frontiers, wf.wls,
      ⟨wf.corr.byTid, wf.corr.bySub, wf.corr.byTicket, wf.corr.byRef, wf.corr.byBasis,
        sorted_insert _ _ wf.corr.pendingSubs⟩⟩

theorem ingest_wf {rt : Runtime} {pv : Prov} (wf : WF rt pv) (key : HeadKey) (id cls : Nat) :
    WF (ingest key id cls rt).2 pv := by
  unfold ingest
  split
  · exact wf
  · next h _ =>
    split
    · exact wf
    · split
      · exact wf
      · exact witness_wf
          (rt := { rt with heads := insert key { h with pending := insert id cls h.pending } rt.heads })
          ⟨sorted_insert _ _ wf.heads, wf.frontiers, wf.wls, wf.corr⟩ _

theorem stageTicket_wf {rt : Runtime} {pv : Prov} (wf : WF rt pv) (key : HeadKey)
    (id cls ticket : Nat) : WF (stageTicket key id cls ticket rt).2 pv := by
  unfold stageTicket
  split
  · exact wf
  · split
    · split <;> exact wf
    · have w2 := ingest_wf wf key id cls
      split
      · next rt2 heq =>
        rw [heq] at w2
        exact ⟨w2.heads, w2.frontiers, w2.wls, w2.corr⟩
      · next o rt2 _ heq =>
        rw [heq] at w2
        exact w2

theorem ingestTicketed_wf {rt : Runtime} {pv : Prov} (wf : WF rt pv) (key : HeadKey)
    (id cls ticket : Nat) : WF (ingestTicketed key id cls ticket rt).2 pv := by
  unfold ingestTicketed
  split
  · exact wf
  · apply stageTicket_wf
    split
    · exact wf
    · exact witness_wf wf _

theorem setEligibility_wf {rt rt' : Runtime} {pv : Prov} (wf : WF rt pv) (k : HeadKey) (on : Bool)
    (h : setEligibility k on rt = some rt') : WF rt' pv := by
  unfold setEligibility at h
  split at h
  · cases h
  · cases h
    exact ⟨sorted_insert _ _ wf.heads, wf.frontiers, wf.wls, wf.corr⟩

theorem resolve_wf {rt : Runtime} {pv : Prov} (wf : WF rt pv) (i : Nat) :
    WF (withFaults rt (resolve i rt.faults).2) pv :=
  ⟨wf.heads, wf.frontiers, wf.wls, wf.corr⟩

/-! ### non-vacuity -/

def emptyCorr : Corr :=
  { byTid := [], bySub := [], byTicket := [], byRef := [], byBasis := [], pendingSubs := [] }

/-- two worldlines, three heads; head (1,2) holds two shared-footprint intents (one is ticketed),
    head (2,1) one ticketed no-op intent -/
def demoRt : Runtime :=
  { heads := [((1, 1), { paused := false, admitted := true, budget := none, pending := [(5, 78)] }),
              ((1, 2), { paused := false, admitted := true, budget := none, pending := [(6, 67), (7, 67)] }),
              ((2, 1), { paused := false, admitted := true, budget := some 1, pending := [(8, 78), (9, 78)] })]
    frontiers := [(1, { tick := 0, broken := false, hist := [], committed := [] }),
                  (2, { tick := 0, broken := false, hist := [], committed := [] })]
    gtick := 0
    subs := [(((1, 2), 6), ()), (((2, 1), 8), ())]
    ticketed := [(((1, 2), 6), 100), (((2, 1), 8), 101)]
    corr := { emptyCorr with pendingSubs := [(((1, 2), 6), ()), (((2, 1), 8), ())] }
    faults := { records := [], faultedHeads := [], runtimeFault := none, nextGen := 0 } }

def demoPv : Prov :=
  { wls := [(1, { entries := [], checkpoints := [] }), (2, { entries := [], checkpoints := [] })]
    shells := [], plural := [] }

theorem demo_wf : WF demoRt demoPv := by
  refine ⟨?_, ?_, ?_, ⟨?_, ?_, ?_, ?_, ?_, ?_⟩⟩ <;> simp [demoRt, demoPv, emptyCorr, Sorted, Above, LinOrd.lt]

/-- the hypotheses of the success theorems are satisfiable: three commits in key order, one lawful
    rejection, no fault -/
example : (pass none demoRt demoPv).1 =
    .ok [{ head := (1, 1), tickAfter := 1, gtick := 1, admitted := 1, rejected := 0 },
         { head := (1, 2), tickAfter := 2, gtick := 1, admitted := 2, rejected := 1 },
         { head := (2, 1), tickAfter := 1, gtick := 1, admitted := 1, rejected := 0 }] := by decide

/-- ... and of the failure theorems: the third head fails after all its mutations (correlations
    included); the state is restored and exactly one head-scoped fault is recorded -/
example : (pass (some (2, .err .engine)) demoRt demoPv) =
    (.err .engine,
     withFaults demoRt { records := [{ gen := 1, scope := .head (2, 1), active := true }]
                         faultedHeads := [((2, 1), 1)], runtimeFault := none, nextGen := 1 },
     demoPv) := by decide

/-- `retry_equals_twin` is not vacuous: the demo pass fails at its third head after the first two heads
    correlated a ticket each; the fault is recorded (hypothesis `hrec`) and resolving it succeeds -/
example : (pass (some (2, .err .engine)) demoRt demoPv).2.1.faults ≠ demoRt.faults ∧
    (resolve demoRt.faults.records.length (pass (some (2, .err .engine)) demoRt demoPv).2.1.faults).1 = .ok ∧
    (pass none (withFaults (pass (some (2, .err .engine)) demoRt demoPv).2.1
      (resolve 0 (pass (some (2, .err .engine)) demoRt demoPv).2.1.faults).2) demoPv).1 =
      (pass none demoRt demoPv).1 := by decide

end EchoVerif.C09
