/-
  C10 — what was acknowledged survives any crash; what was not is invisible (partial: a crash is
  "the segment file is a byte prefix of what was appended").

  Theorems are about `Model/Wal.lean` (the reader `read_segment_bytes` + recovery, the writer
  `append_segment_record`), for an ARBITRARY hash function `H` returning 32 bytes and arbitrary
  configuration constants.
-/
import EchoVerif.Lemmas.WalLog
import EchoVerif.Lemmas.WalBuilt
set_option linter.unusedSimpArgs false
set_option linter.unusedVariables false

namespace EchoVerif.C10
open EchoVerif EchoVerif.Wal

/-- `record_roundtrip`: one appended record is read back as exactly that record, no torn tail. -/
theorem record_roundtrip {R : Type} (cfg : Cfg) (H : HashFn) (h32 : Hash32 H)
    (dec : UInt8 → Bytes → Except RErr R) (tag : UInt8) (p : Bytes) (v : R)
    (hp : p.length < 2 ^ 64) (hdec : dec tag p = .ok v) :
    scan cfg H dec (encRec cfg H tag p) = .ok ([v], false) := by
  have := scan_encRec_append cfg H h32 dec tag p [] hp
  simp only [List.append_nil] at this
  rw [this, hdec, scan_nil]

/-- `prefix_parse`: for a segment written as records `r₁ … rₙ` back to back and EVERY cut
    `m ≤ |B|`, reading the first `m` bytes succeeds and yields exactly the records whose last byte
    lies inside the cut (`j` = number of record end offsets `≤ m`), and the torn-tail flag is raised
    iff the cut is neither `0` nor a record end. -/
theorem prefix_parse {R : Type} (cfg : Cfg) (H : HashFn) (h32 : Hash32 H)
    (dec : UInt8 → Bytes → Except RErr R) (val : DRec → R) (rs : List DRec)
    (hlen : ∀ r ∈ rs, r.payload.length < 2 ^ 64)
    (hdec : ∀ r ∈ rs, dec r.tag r.payload = .ok (val r))
    (m : Nat) (hm : m ≤ (encRecs cfg H rs).length) :
    ∃ torn : Bool,
      scan cfg H dec ((encRecs cfg H rs).take m)
        = .ok ((rs.take ((ends cfg H 0 rs).filter (fun e => e ≤ m)).length).map val, torn)
      ∧ (torn = true ↔ (m ≠ 0 ∧ m ∉ ends cfg H 0 rs)) := by
  refine ⟨(wholeInside cfg H rs m).2, ?_, ?_⟩
  · rw [prefix_parse_rec cfg H h32 dec val rs hlen hdec m hm, wholeInside_count cfg H h32 rs 0 m]
    simp
  · have := wholeInside_torn cfg H h32 rs 0 m hm
    simpa using this

/-- a pure truncation is never an error, and nothing of a record that is not wholly inside the
    cut is returned: the result is a prefix of the written record list -/
theorem truncation_reads_prefix {R : Type} (cfg : Cfg) (H : HashFn) (h32 : Hash32 H)
    (dec : UInt8 → Bytes → Except RErr R) (val : DRec → R) (rs : List DRec)
    (hlen : ∀ r ∈ rs, r.payload.length < 2 ^ 64)
    (hdec : ∀ r ∈ rs, dec r.tag r.payload = .ok (val r))
    (m : Nat) (hm : m ≤ (encRecs cfg H rs).length) :
    ∃ j torn, scan cfg H dec ((encRecs cfg H rs).take m) = .ok ((rs.map val).take j, torn) := by
  refine ⟨(wholeInside cfg H rs m).1, (wholeInside cfg H rs m).2, ?_⟩
  rw [prefix_parse_rec cfg H h32 dec val rs hlen hdec m hm, List.map_take]

/-- the whole segment reads back completely and cleanly -/
theorem whole_segment_clean {R : Type} (cfg : Cfg) (H : HashFn) (h32 : Hash32 H)
    (dec : UInt8 → Bytes → Except RErr R) (val : DRec → R) (rs : List DRec)
    (hlen : ∀ r ∈ rs, r.payload.length < 2 ^ 64)
    (hdec : ∀ r ∈ rs, dec r.tag r.payload = .ok (val r)) :
    scan cfg H dec (encRecs cfg H rs) = .ok (rs.map val, false) := by
  induction rs with
  | nil => simp [encRecs, scan_nil]
  | cons r rs ih =>
    have hB : encRecs cfg H (r :: rs) = encRec cfg H r.tag r.payload ++ encRecs cfg H rs := by
      simp [encRecs, DRec.enc]
    rw [hB, scan_encRec_append cfg H h32 dec r.tag r.payload _ (hlen r (by simp)),
      hdec r (by simp), ih (fun r' h => hlen r' (by simp [h])) (fun r' h => hdec r' (by simp [h]))]
    simp

/-- `recover_prefix` — the core of C10.  For a log of transactions `ts` appended by
    `append_transaction` (each passes `validate_transaction_frames`, LSNs run on from `base`;
    `LogAt`), cut at EVERY byte position `m`, `recover_wal_segment_bytes` on the first `m` bytes
      * succeeds (a pure truncation is never an error),
      * returns exactly the first `k` transactions, `k` being the number of transactions whose
        bytes — through the end of the commit marker — lie inside the cut
        (`|enc(ts.take k)| ≤ m < |enc(ts.take (k+1))|`): no frame of an incomplete transaction,
      * with tail posture `Clean` iff the cut is exactly a transaction boundary, else
        `TruncatedAfter last_lsn` / `TruncatedAll` (`WouldTruncate…` read-only). -/
theorem recover_prefix (cfg : Cfg) (H : HashFn) (h32 : Hash32 H) (seg base : Nat) (mode : Mode)
    (ts : List Tx) (hlog : LogAt cfg H base ts) (hc : Codec cfg H ts)
    (hseg : ∀ t ∈ ts, ∀ f ∈ t.frames, f.header.segmentId = seg)
    (m : Nat) (hm : m ≤ (encLog cfg H ts).length) :
    ∃ k d, k ≤ ts.length
      ∧ (encLog cfg H (ts.take k)).length ≤ m
      ∧ (k < ts.length → m < (encLog cfg H (ts.take (k + 1))).length)
      ∧ recoverSegmentBytes cfg H seg ((encLog cfg H ts).take m) mode
          = .ok (d, { txs := recoveredOf (ts.take k),
                      tail := if m = (encLog cfg H (ts.take k)).length then .clean
                              else tailOf mode (lastLsnOf (ts.take k)) }) := by
  obtain ⟨k, extra, torn, hk, ⟨i, hex⟩, hscan, hle, hnext, hiff⟩ := scan_log_prefix cfg H h32 ts hc m hm
  refine ⟨k, segmentDigest cfg H seg (framesOfTxs (ts.take k) ++ extra), hk, hle, hnext, ?_⟩
  have hchain : Chain cfg H base (framesOfTxs (ts.take k) ++ extra) := by
    rw [hex]; exact hlog.chain_next k i
  have hsegs : firstSegmentMismatch seg (framesOfTxs (ts.take k) ++ extra) = none := by
    apply firstSegmentMismatch_none
    intro f hf
    rw [List.mem_append] at hf
    rcases hf with hf | hf
    · simp only [framesOfTxs, List.mem_flatMap] at hf
      obtain ⟨t, ht, hft⟩ := hf
      exact hseg t (List.mem_of_mem_take ht) f hft
    · rw [hex] at hf
      have hf' := List.mem_of_mem_take hf
      simp only [nextFrames] at hf'
      cases hget : ts[k]? with
      | none => simp [hget] at hf'
      | some t =>
        simp only [hget] at hf'
        exact hseg t (List.mem_of_getElem? hget) f hf'
  have hrec := recoverFC_prefix mode (ts.take k) extra (hlog.take k) hchain
  simp only [recoverSegmentBytes, hscan, framesOf_log, commitsOf_log, hsegs, hrec]
  congr 2
  simp only [applyTorn]
  by_cases hb : m = (encLog cfg H (ts.take k)).length
  · obtain ⟨he, ht⟩ := hiff.mpr hb
    simp [he, ht, hb]
  · rw [if_neg hb]
    by_cases he : extra = []
    · have ht : torn = true := by
        cases torn with
        | true => rfl
        | false => exact absurd (hiff.mp ⟨he, rfl⟩) hb
      simp [he, ht, lastCommittedLsn_log (hlog.take k)]
    · have hne : tailOf mode (lastLsnOf (ts.take k)) ≠ Tail.clean := by
        cases mode <;> cases lastLsnOf (ts.take k) <;> simp [tailOf]
      simp [he, hne]

/-- writer/validator agreement: every transaction produced by `WalTransactionBuilder`
    (`push_record`* then `commit`) passes `validate_transaction_frames` against its own frames. -/
theorem built_tx_validates (cfg : Cfg) (H : HashFn) (p : BuildParams) (txId : Bytes) (txKind firstLsn : Nat)
    (prevFrame prevCommit : Bytes) (recs : List (Kind × Bytes)) (fr : Bytes) (hne : recs ≠ [])
    (hb : firstLsn + recs.length ≤ u64Max + 1) (hi : recs.length ≤ u32Max + 1) :
    validateTx cfg H (mkTx cfg H p txId txKind firstLsn prevFrame prevCommit recs fr).frames
      (mkTx cfg H p txId txKind firstLsn prevFrame prevCommit recs fr).commit = .ok () :=
  mkTx_valid cfg H p txId txKind firstLsn prevFrame prevCommit recs fr hne hb hi

/-- codec round trip of the two record payload kinds (what `append_segment_record` stores is what
    `decode_frame` / `decode_commit` return) -/
theorem codec_roundtrip (cfg : Cfg) (H : HashFn) :
    (∀ f, FrameOK cfg H f → decodeFrame cfg H (encodeFrame f) = .ok f)
    ∧ (∀ c, CommitOK cfg c → decodeCommit cfg (encodeCommit c) = .ok c) :=
  ⟨fun f h => decodeFrame_encodeFrame cfg H f h, fun c h => decodeCommit_encodeCommit cfg c h⟩

/-- `recover_prefix`, end to end and unconditional in the log: for EVERY writer session (any list of
    transaction specs with sane sizes, chained or constant previous-digests, any 32-byte hash `H`),
    and EVERY byte cut `m` of the segment the writer produced, recovery returns exactly the
    transactions that were completely written (commit marker included), never an error. -/
theorem recover_prefix_built (cfg : Cfg) (H : HashFn) (h32 : Hash32 H) (p : BuildParams)
    (hp : ParamsOK cfg p) (chain : Bool) (lsn : Nat) (pf pc : Bytes) (specs : List TxSpec) (mode : Mode)
    (hpf : pf.length = 32) (hpc : pc.length = 32) (hs : ∀ s ∈ specs, SpecOK cfg s)
    (hlsn : lsn + totalRecords specs ≤ 2 ^ 64)
    (m : Nat) (hm : m ≤ (encLog cfg H (buildLog cfg H p chain lsn pf pc specs)).length) :
    let ts := buildLog cfg H p chain lsn pf pc specs
    ∃ k d, k ≤ ts.length
      ∧ (encLog cfg H (ts.take k)).length ≤ m
      ∧ (k < ts.length → m < (encLog cfg H (ts.take (k + 1))).length)
      ∧ recoverSegmentBytes cfg H p.segmentId ((encLog cfg H ts).take m) mode
          = .ok (d, { txs := recoveredOf (ts.take k),
                      tail := if m = (encLog cfg H (ts.take k)).length then .clean
                              else tailOf mode (lastLsnOf (ts.take k)) }) := by
  intro ts
  obtain ⟨hlog, hcodec, hseg⟩ := buildLog_ok cfg H h32 p hp chain lsn pf pc specs hpf hpc hs hlsn
  exact recover_prefix cfg H h32 p.segmentId lsn mode ts hlog hcodec hseg m hm

/-- atomicity, stated separately: whatever the cut, every recovered transaction is one of the
    written transactions, complete with all its frames, in the original order (`List.take`) -/
theorem recovered_is_committed_prefix (cfg : Cfg) (H : HashFn) (h32 : Hash32 H) (seg base : Nat) (mode : Mode)
    (ts : List Tx) (hlog : LogAt cfg H base ts) (hc : Codec cfg H ts)
    (hseg : ∀ t ∈ ts, ∀ f ∈ t.frames, f.header.segmentId = seg)
    (m : Nat) (hm : m ≤ (encLog cfg H ts).length) :
    ∃ k d tail, recoverSegmentBytes cfg H seg ((encLog cfg H ts).take m) mode
      = .ok (d, { txs := (recoveredOf ts).take k, tail := tail }) := by
  obtain ⟨k, d, _, _, _, h⟩ := recover_prefix cfg H h32 seg base mode ts hlog hc hseg m hm
  refine ⟨k, d, (if m = (encLog cfg H (ts.take k)).length then Tail.clean
    else tailOf mode (lastLsnOf (ts.take k))), ?_⟩
  rw [h]; simp [recoveredOf, List.map_take]

/-- non-vacuity of `ParamsOK`/`SpecOK`: a toy configuration and a one-record transaction -/
def toyCfg : Cfg :=
  { magic := [1, 2, 3, 4, 5, 6, 7, 8], diskDomain := [], frameDomain := [], payloadDomain := [],
    recordsRootDomain := [], frontiersRootDomain := [], commitDomain := [], headerChecksumDomain := [],
    frameChecksumDomain := [], segmentDomain := [], frameTag := 1, commitTag := 2, walVersion := 1,
    label := fun c => if c = 1 then some [65] else none, txKindOk := fun _ => true,
    durabilityOk := fun _ => true, compressionOk := fun _ => true, redactionOk := fun _ => true }

def z32 : Bytes := List.replicate 32 0

example : ParamsOK toyCfg ⟨z32, 1, z32, z32, 1, 1, z32, 1⟩ := by
  constructor <;> simp [toyCfg, z32]

example : SpecOK toyCfg ⟨z32, 1, [(⟨1, [65]⟩, [7, 7])], z32⟩ := by
  constructor <;> simp [toyCfg, z32, RecOK, u32Max]

/-- non-vacuity: the hypotheses are satisfiable (constant 32-byte hash, identity decoder) -/
example : Hash32 (fun _ => List.replicate 32 0) := fun _ => by simp

end EchoVerif.C10
