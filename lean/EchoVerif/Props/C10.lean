/-
  C10 — what was acknowledged survives any crash; what was not is invisible (partial: a crash is
  "the segment file is a byte prefix of what was appended").

  Theorems are about `Model/Wal.lean` (the reader `read_segment_bytes`, the writer
  `append_segment_record` / `WalTransactionBuilder`), recovery AS IT IS NOW (`recoverFCT` of
  `Model/WalIntegrity.lean` = `recover_from_frames_and_commits` with the commit-marker tiling check of
  /repo 891bbae) and `Model/WalDurable.lean` (truncation rewrite, host durability discipline), for an
  ARBITRARY hash function `H` returning 32 bytes and arbitrary configuration constants.
-/
import EchoVerif.Lemmas.WalDurable
import EchoVerif.Lemmas.WalHost
import EchoVerif.Lemmas.WalBuilt
set_option linter.unusedSimpArgs false
set_option linter.unusedVariables false

namespace EchoVerif.C10
open EchoVerif EchoVerif.Wal

/-- `record_roundtrip`: one appended record is read back as exactly that record, no torn tail. -/
theorem record_roundtrip {R : Type} (cfg : Cfg) (H : HashFn) (h32 : Hash32 H)
    (dec : UInt8 → Bytes → Except RErr R) (tag : UInt8) (p : Bytes) (v : R)
    (hp : p.length < 2 ^ 64) (hdec : dec tag p = .ok v) :
    scan cfg H dec (encRec cfg H tag p) = .ok ([v], false) := by
  have := scan_encRec_append cfg H h32 dec tag p [] hp
  simp only [List.append_nil] at this
  rw [this, hdec, scan_nil]

/-- `prefix_parse`: for a segment written as records `r₁ … rₙ` back to back and EVERY cut
    `m ≤ |B|`, reading the first `m` bytes succeeds and yields exactly the records whose last byte
    lies inside the cut (`j` = number of record end offsets `≤ m`), and the torn-tail flag is raised
    iff the cut is neither `0` nor a record end. -/
theorem prefix_parse {R : Type} (cfg : Cfg) (H : HashFn) (h32 : Hash32 H)
    (dec : UInt8 → Bytes → Except RErr R) (val : DRec → R) (rs : List DRec)
    (hlen : ∀ r ∈ rs, r.payload.length < 2 ^ 64)
    (hdec : ∀ r ∈ rs, dec r.tag r.payload = .ok (val r))
    (m : Nat) (hm : m ≤ (encRecs cfg H rs).length) :
    ∃ torn : Bool,
      scan cfg H dec ((encRecs cfg H rs).take m)
        = .ok ((rs.take ((ends cfg H 0 rs).filter (fun e => e ≤ m)).length).map val, torn)
      ∧ (torn = true ↔ (m ≠ 0 ∧ m ∉ ends cfg H 0 rs)) := by
  refine ⟨(wholeInside cfg H rs m).2, ?_, ?_⟩
  · rw [prefix_parse_rec cfg H h32 dec val rs hlen hdec m hm, wholeInside_count cfg H h32 rs 0 m]
    simp
  · have := wholeInside_torn cfg H h32 rs 0 m hm
    simpa using this

/-- a pure truncation is never an error, and nothing of a record that is not wholly inside the
    cut is returned: the result is a prefix of the written record list -/
theorem truncation_reads_prefix {R : Type} (cfg : Cfg) (H : HashFn) (h32 : Hash32 H)
    (dec : UInt8 → Bytes → Except RErr R) (val : DRec → R) (rs : List DRec)
    (hlen : ∀ r ∈ rs, r.payload.length < 2 ^ 64)
    (hdec : ∀ r ∈ rs, dec r.tag r.payload = .ok (val r))
    (m : Nat) (hm : m ≤ (encRecs cfg H rs).length) :
    ∃ j torn, scan cfg H dec ((encRecs cfg H rs).take m) = .ok ((rs.map val).take j, torn) := by
  refine ⟨(wholeInside cfg H rs m).1, (wholeInside cfg H rs m).2, ?_⟩
  rw [prefix_parse_rec cfg H h32 dec val rs hlen hdec m hm, List.map_take]

/-- the whole segment reads back completely and cleanly -/
theorem whole_segment_clean {R : Type} (cfg : Cfg) (H : HashFn) (h32 : Hash32 H)
    (dec : UInt8 → Bytes → Except RErr R) (val : DRec → R) (rs : List DRec)
    (hlen : ∀ r ∈ rs, r.payload.length < 2 ^ 64)
    (hdec : ∀ r ∈ rs, dec r.tag r.payload = .ok (val r)) :
    scan cfg H dec (encRecs cfg H rs) = .ok (rs.map val, false) := by
  induction rs with
  | nil => simp [encRecs, scan_nil]
  | cons r rs ih =>
    have hB : encRecs cfg H (r :: rs) = encRec cfg H r.tag r.payload ++ encRecs cfg H rs := by
      simp [encRecs, DRec.enc]
    rw [hB, scan_encRec_append cfg H h32 dec r.tag r.payload _ (hlen r (by simp)),
      hdec r (by simp), ih (fun r' h => hlen r' (by simp [h])) (fun r' h => hdec r' (by simp [h]))]
    simp

/-- `recover_prefix` — the core of C10.  For a log of transactions `ts` appended by
    `append_transaction` (each passes `validate_transaction_frames`, LSNs run on from `base`;
    `LogAt`), cut at EVERY byte position `m`, `recover_wal_segment_bytes` on the first `m` bytes
      * succeeds (a pure truncation is never an error),
      * returns exactly the first `k` transactions, `k` being the number of transactions whose
        bytes — through the end of the commit marker — lie inside the cut
        (`|enc(ts.take k)| ≤ m < |enc(ts.take (k+1))|`): no frame of an incomplete transaction,
      * with tail posture `Clean` iff the cut is exactly a transaction boundary, else
        `TruncatedAfter last_lsn` / `TruncatedAll` (`WouldTruncate…` read-only). -/
theorem recover_prefix (cfg : Cfg) (H : HashFn) (h32 : Hash32 H) (seg base : Nat) (mode : Mode)
    (ts : List Tx) (hlog : LogAt cfg H base ts) (hc : Codec cfg H ts)
    (hseg : ∀ t ∈ ts, ∀ f ∈ t.frames, f.header.segmentId = seg)
    (m : Nat) (hm : m ≤ (encLog cfg H ts).length) :
    ∃ k d, k ≤ ts.length
      ∧ (encLog cfg H (ts.take k)).length ≤ m
      ∧ (k < ts.length → m < (encLog cfg H (ts.take (k + 1))).length)
      ∧ recoverSegmentBytesT cfg H seg ((encLog cfg H ts).take m) mode
          = .ok (d, { txs := recoveredOf (ts.take k),
                      tail := if m = (encLog cfg H (ts.take k)).length then .clean
                              else tailOf mode (lastLsnOf (ts.take k)) }) := by
  obtain ⟨k, extra, torn, hk, ⟨i, hex⟩, hscan, hle, hnext, hiff⟩ := scan_log_prefix cfg H h32 ts hc m hm
  refine ⟨k, segmentDigest cfg H seg (framesOfTxs (ts.take k) ++ extra), hk, hle, hnext, ?_⟩
  have hchain : Chain cfg H base (framesOfTxs (ts.take k) ++ extra) := by
    rw [hex]; exact hlog.chain_next k i
  have hsegs : firstSegmentMismatch seg (framesOfTxs (ts.take k) ++ extra) = none := by
    apply firstSegmentMismatch_none
    intro f hf
    rw [List.mem_append] at hf
    rcases hf with hf | hf
    · simp only [framesOfTxs, List.mem_flatMap] at hf
      obtain ⟨t, ht, hft⟩ := hf
      exact hseg t (List.mem_of_mem_take ht) f hft
    · rw [hex] at hf
      have hf' := List.mem_of_mem_take hf
      simp only [nextFrames] at hf'
      cases hget : ts[k]? with
      | none => simp [hget] at hf'
      | some t =>
        simp only [hget] at hf'
        exact hseg t (List.mem_of_getElem? hget) f hf'
  have hrec := recoverFCT_prefix mode (ts.take k) extra (hlog.take k) hchain
  simp only [recoverSegmentBytesT, hscan, framesOf_log, commitsOf_log, hsegs, hrec]
  congr 2
  simp only [applyTorn]
  by_cases hb : m = (encLog cfg H (ts.take k)).length
  · obtain ⟨he, ht⟩ := hiff.mpr hb
    simp [he, ht, hb]
  · rw [if_neg hb]
    by_cases he : extra = []
    · have ht : torn = true := by
        cases torn with
        | true => rfl
        | false => exact absurd (hiff.mp ⟨he, rfl⟩) hb
      simp [he, ht, lastCommittedLsn_log (hlog.take k)]
    · have hne : tailOf mode (lastLsnOf (ts.take k)) ≠ Tail.clean := by
        cases mode <;> cases lastLsnOf (ts.take k) <;> simp [tailOf]
      simp [he, hne]

/-- `recover_idempotent`.  For EVERY log of validated transactions and EVERY byte cut `m`: writable
    `recover_filesystem_store` succeeds with exactly the transactions wholly inside the cut
    (`Clean` iff `m` is a transaction boundary, else `TruncatedAfter last` / `TruncatedAll`), and leaves
    segment bytes `b2` behind (the rewrite of `rewrite_filesystem_segments_after_truncation` /
    `clear_filesystem_segments`, or the untouched file) such that
      * recovering `b2` again — writable or read-only — yields the SAME transactions with tail `Clean`,
      * a second writable recovery changes nothing: `(report, bytes)` is a fixed point.
    In particular the rewrite keeps every frame and every commit marker of the recovered
    transactions and nothing else. -/
theorem recover_idempotent (cfg : Cfg) (H : HashFn) (h32 : Hash32 H) (base : Nat)
    (ts : List Tx) (hlog : LogAt cfg H base ts) (hc : Codec cfg H ts)
    (m : Nat) (hm : m ≤ (encLog cfg H ts).length) :
    ∃ k b2, k ≤ ts.length
      ∧ (encLog cfg H (ts.take k)).length ≤ m
      ∧ (k < ts.length → m < (encLog cfg H (ts.take (k + 1))).length)
      ∧ afterWritableRecoveryT cfg H ((encLog cfg H ts).take m)
          = .ok ({ txs := recoveredOf (ts.take k),
                   tail := if m = (encLog cfg H (ts.take k)).length then .clean
                           else tailOf .writable (lastLsnOf (ts.take k)) }, b2)
      ∧ (∀ mode, recoverFilesystemT cfg H b2 mode = .ok { txs := recoveredOf (ts.take k), tail := .clean })
      ∧ afterWritableRecoveryT cfg H b2 = .ok ({ txs := recoveredOf (ts.take k), tail := .clean }, b2) := by
  obtain ⟨k, extra, torn, hk, hle, hnext, hscan, hchain, hrec⟩ :=
    recoverFilesystemT_cut cfg H h32 base .writable ts hlog hc m hm
  have hfix : ∀ b2 : Bytes,
      (∀ mode, recoverFilesystemT cfg H b2 mode = .ok { txs := recoveredOf (ts.take k), tail := .clean }) →
      afterWritableRecoveryT cfg H b2 = .ok ({ txs := recoveredOf (ts.take k), tail := .clean }, b2) := by
    intro b2 h
    simp only [afterWritableRecoveryT, h Mode.writable]
  by_cases hb : m = (encLog cfg H (ts.take k)).length
  · -- the cut is a transaction boundary: nothing to truncate, the file stays as it is
    have hboth : ∀ mode, recoverFilesystemT cfg H ((encLog cfg H ts).take m) mode
        = .ok { txs := recoveredOf (ts.take k), tail := .clean } := by
      intro mode
      obtain ⟨k', _, _, _, hle', hnext', _, _, hrec'⟩ :=
        recoverFilesystemT_cut cfg H h32 base mode ts hlog hc m hm
      have hkk : k' = k := by
        rcases Nat.lt_trichotomy k' k with h | h | h
        · have h1 := hnext' (by omega)
          have h2 := encLog_take_mono cfg H ts (j := k' + 1) (k := k) (by omega)
          omega
        · exact h
        · have h1 := hnext (by omega)
          have h2 := encLog_take_mono cfg H ts (j := k + 1) (k := k') (by omega)
          omega
      subst hkk
      rw [hrec', if_pos hb]
    refine ⟨k, (encLog cfg H ts).take m, hk, hle, hnext, ?_, hboth, hfix _ hboth⟩
    simp only [afterWritableRecoveryT, hboth Mode.writable, if_pos hb]
  · rw [if_neg hb] at hrec
    have hrw := fun mode => recoverFilesystemT_rewritten cfg H h32 base mode (ts.take k) (hlog.take k) (hc.take k)
    cases hlast : lastLsnOf (ts.take k) with
    | none =>
      -- no committed transaction inside the cut: `clear_filesystem_segments`
      have hnil : ts.take k = [] := by
        cases htk : ts.take k with
        | nil => rfl
        | cons t rest =>
          have := ((hlog.take k).lastLsn (by simp [htk])).1
          rw [hlast] at this; cases this
      have hempty : ∀ mode, recoverFilesystemT cfg H [] mode
          = .ok { txs := recoveredOf (ts.take k), tail := .clean } := by
        intro mode
        have := hrw mode
        simpa [hnil, encodeRecords, framesOfTxs] using this
      refine ⟨k, [], hk, hle, hnext, ?_, hempty, hfix _ hempty⟩
      simp only [afterWritableRecoveryT, hrec, hlast, tailOf, if_neg hb]
    | some l =>
      have hne : ts.take k ≠ [] := by
        intro h; rw [h] at hlast; simp [lastLsnOf] at hlast
      refine ⟨k, encodeRecords cfg H (framesOfTxs (ts.take k)) ((ts.take k).map (fun t => t.commit)),
        hk, hle, hnext, ?_, hrw, hfix _ hrw⟩
      simp only [afterWritableRecoveryT, hrec, hlast, tailOf, hscan, if_neg hb]
      rw [keptFrames_log (hlog.take k) hne hchain _ (framesOf_log _ _) l hlast,
        keptCommits_log (hlog.take k) hne _ (commitsOf_log _ _) l hlast]

/-- `rewrite_crash_safe` (the staged rewrite of /repo 9800f72, at the level of the bytes left behind).
    While writable recovery replaces the cut segment by the rewritten one, the process may die at any
    point: staging file absent / any byte prefix of the replacement / already renamed.  In EVERY such
    directory state, recovery (either mode) succeeds with exactly the same committed transactions —
    nothing acknowledged before the first crash is lost by a second crash during recovery. -/
theorem rewrite_crash_safe (cfg : Cfg) (H : HashFn) (h32 : Hash32 H) (base : Nat)
    (ts : List Tx) (hlog : LogAt cfg H base ts) (hc : Codec cfg H ts)
    (m : Nat) (hm : m ≤ (encLog cfg H ts).length) :
    ∃ k r1 b2, afterWritableRecoveryT cfg H ((encLog cfg H ts).take m) = .ok (r1, b2)
      ∧ r1.txs = recoveredOf (ts.take k)
      ∧ ∀ d ∈ rewriteCrashStates ((encLog cfg H ts).take m) b2, ∀ mode,
          ∃ tail, recoverDir cfg H d mode = .ok { txs := recoveredOf (ts.take k), tail := tail } := by
  obtain ⟨k, b2, hk, hle, hnext, h1, h2, _⟩ := recover_idempotent cfg H h32 base ts hlog hc m hm
  refine ⟨k, _, b2, h1, rfl, ?_⟩
  have hold : ∀ mode, ∃ tail, recoverFilesystemT cfg H ((encLog cfg H ts).take m) mode
      = .ok { txs := recoveredOf (ts.take k), tail := tail } := by
    intro mode
    obtain ⟨k', _, _, _, hle', hnext', _, _, hrec'⟩ :=
      recoverFilesystemT_cut cfg H h32 base mode ts hlog hc m hm
    have hkk : k' = k := by
      rcases Nat.lt_trichotomy k' k with h | h | h
      · have h1 := hnext' (by omega)
        have h2 := encLog_take_mono cfg H ts (j := k' + 1) (k := k) (by omega)
        omega
      · exact h
      · have h1 := hnext (by omega)
        have h2 := encLog_take_mono cfg H ts (j := k + 1) (k := k') (by omega)
        omega
    subst hkk
    exact ⟨_, hrec'⟩
  intro d hd mode
  simp only [rewriteCrashStates, List.mem_cons, List.mem_append, List.mem_map, List.mem_range,
    List.mem_singleton, List.not_mem_nil, or_false] at hd
  rcases hd with (rfl | ⟨j, _, rfl⟩) | rfl
  · exact hold mode
  · exact hold mode
  · exact ⟨.clean, h2 mode⟩

/-- what 9800f72 bought: with the UNSTAGED rewrite (delete, then append to the live file) there is, for
    every cut that recovers at least one transaction and has a tail to truncate, a crash state in which
    recovery succeeds with NO transaction at all — committed work silently lost. -/
theorem unstaged_rewrite_loses_commits (cfg : Cfg) (H : HashFn) (old new : Bytes) (mode : Mode) :
    ∃ d ∈ rewriteCrashStatesUnstaged old new,
      recoverDir cfg H d mode = .ok { txs := [], tail := .clean } := by
  refine ⟨⟨[], none⟩, ?_, ?_⟩
  · simp only [rewriteCrashStatesUnstaged, List.mem_cons, List.mem_map, List.mem_range]
    right
    exact ⟨0, by omega, by simp⟩
  · simp [recoverDir, recoverFilesystemT, scan, framesOf, commitsOf, sortBy, recoverFCT, validateFrameOrder,
      frameOrderLoop, recoverLoopT, applyTorn]

/-! ### host level: acknowledged ⇒ committed ⇒ recovered -/

/-- `synced_survives_crash` (bytes ↔ "flushed before the stop").  If the commit markers of the first `j`
    transactions had been completely written (and synced) when the process stopped — the file is ANY
    byte prefix at least that long — recovery returns a prefix of the written transactions that
    contains those `j`, each byte-identical (commit marker and all frames). -/
theorem synced_survives_crash (cfg : Cfg) (H : HashFn) (h32 : Hash32 H) (base : Nat) (mode : Mode)
    (ts : List Tx) (hlog : LogAt cfg H base ts) (hc : Codec cfg H ts)
    (j : Nat) (hj : j ≤ ts.length) (m : Nat) (hsync : (encLog cfg H (ts.take j)).length ≤ m)
    (hm : m ≤ (encLog cfg H ts).length) :
    ∃ k tail, j ≤ k ∧ k ≤ ts.length
      ∧ recoverFilesystemT cfg H ((encLog cfg H ts).take m) mode
          = .ok { txs := recoveredOf (ts.take k), tail := tail } := by
  obtain ⟨k, _, _, hk, hle, hnext, _, _, hrec⟩ := recoverFilesystemT_cut cfg H h32 base mode ts hlog hc m hm
  refine ⟨k, _, ?_, hk, hrec⟩
  rcases Nat.lt_or_ge k j with hlt | hge
  · have h1 := hnext (by omega)
    have h2 := encLog_take_mono cfg H ts (j := k + 1) (k := j) (by omega)
    omega
  · exact hge

/-- `inflight_invisible` (bytes ↔ the abstract disk of the host model).  The log holds the whole
    transactions `ts`; `t` is being appended and its commit marker is not completely on disk (the cut
    `m` is anywhere from "nothing of `t`" up to the last byte of its marker, exclusive): recovery
    returns exactly `ts` — nothing of `t`. -/
theorem inflight_invisible (cfg : Cfg) (H : HashFn) (h32 : Hash32 H) (base : Nat) (mode : Mode)
    (ts : List Tx) (t : Tx) (hlog : LogAt cfg H base (ts ++ [t])) (hc : Codec cfg H (ts ++ [t]))
    (m : Nat) (hlo : (encLog cfg H ts).length ≤ m) (hhi : m < (encLog cfg H (ts ++ [t])).length) :
    recoverFilesystemT cfg H ((encLog cfg H (ts ++ [t])).take m) mode
      = .ok { txs := recoveredOf ts,
              tail := if m = (encLog cfg H ts).length then .clean else tailOf mode (lastLsnOf ts) } := by
  obtain ⟨k, _, _, hk, hle, hnext, _, _, hrec⟩ :=
    recoverFilesystemT_cut cfg H h32 base mode (ts ++ [t]) hlog hc m (by omega)
  have htk : (ts ++ [t]).take ts.length = ts := by simp
  have hkeq : k = ts.length := by
    simp only [List.length_append, List.length_singleton] at hk hnext
    rcases Nat.lt_trichotomy k ts.length with h | h | h
    · have h1 := hnext (by omega)
      have h2 := encLog_take_mono cfg H (ts ++ [t]) (j := k + 1) (k := ts.length) (by omega)
      rw [htk] at h2
      omega
    · exact h
    · have hk' : k = ts.length + 1 := by omega
      have : (ts ++ [t]).take k = ts ++ [t] := by
        rw [hk']; exact List.take_of_length_le (by simp)
      rw [this] at hle
      omega
  rw [hkeq, htk] at hrec
  exact hrec

open Host in
/-- `ack_implies_committed` (host level, abstract).  For EVERY sequence of submit / tick operations,
    each with ANY injected store fault (frame append, commit flush, after the marker was synced), with
    the process dying and a fresh host recovering (`enable_runtime_wal`) ANY number of times at ANY
    point — between operations or in the middle of one — in the reached state `h` (which may itself be
    a mid-operation state):
      1. every acknowledged submission and every published tick outcome is a COMMITTED transaction of
         the log, with the same submission id, envelope digest, receipt digest and state root;
      2. if the process dies right here, the recovered host knows every one of them again — as a
         witnessed submission, in the de-dup index, as a decided outcome — with identical values;
      3. everything the recovered host knows comes from a committed transaction: nothing of the
         transaction that was being appended is visible, and the uncommitted tail is gone;
      4. recovery is idempotent and a function of the committed log only (no callback input). -/
theorem ack_implies_committed (sidOf : Nat → Nat) (h : Host.Host) (hr : Reach sidOf h) :
    ((∀ p ∈ h.acked, ATx.accept p.1 p.2 ∈ h.disk.committed)
      ∧ (∀ p ∈ h.published, ATx.tick p.1 p.2.1 p.2.2 ∈ h.disk.committed))
    ∧ ((∀ p ∈ h.acked, (p.2, p.1) ∈ (restart h).subs ∧ p ∈ (restart h).dedup)
      ∧ (∀ p ∈ h.published, p ∈ (restart h).outcomes))
    ∧ ((∀ p ∈ (restart h).subs, ATx.accept p.2 p.1 ∈ h.disk.committed)
      ∧ (∀ p ∈ (restart h).dedup, ATx.accept p.1 p.2 ∈ h.disk.committed)
      ∧ (∀ p ∈ (restart h).outcomes, ATx.tick p.1 p.2.1 p.2.2 ∈ h.disk.committed)
      ∧ (restart h).disk = ⟨h.disk.committed, none⟩)
    ∧ restart (restart h) = restart h := by
  have hi := reach_inv hr
  refine ⟨⟨hi.acked, hi.published⟩, ⟨?_, ?_⟩, ⟨?_, ?_, ?_, rfl⟩, rfl⟩
  · intro p hp
    exact ⟨(mem_subsOf _ (p.2, p.1)).mpr (hi.acked p hp), (mem_accIndex _ p).mpr (hi.acked p hp)⟩
  · intro p hp
    exact (mem_ticksOf _ p).mpr (hi.published p hp)
  · intro p hp; exact (mem_subsOf _ p).mp hp
  · intro p hp; exact (mem_accIndex _ p).mp hp
  · intro p hp; exact (mem_ticksOf _ p).mp hp

open Host in
/-- `retry_after_recovery_is_duplicate`.  Submission ids are derived injectively from the envelope
    digest.  After ANY history and a process death at ANY point, re-submitting an envelope whose
    acknowledgement had been handed out is answered by the recovered host, from the de-dup index rebuilt
    from the log, as a duplicate with the SAME submission id — in one step, with no append (the log,
    the index and the runtime are unchanged), whatever fault is armed. -/
theorem retry_after_recovery_is_duplicate (sidOf : Nat → Nat) (hinj : Function.Injective sidOf)
    (h : Host.Host) (hr : Reach sidOf h) (s e : Nat) (hack : (s, e) ∈ h.acked) (f : Fault) :
    submitStates sidOf (restart h) e f
      = [{ restart h with acked := (s, e) :: (restart h).acked, resps := .ackDup s e :: (restart h).resps }] := by
  have hi := reach_inv hr
  have hi2 := reach_inv2 hr
  have hcomm := hi.acked _ hack
  have hs : s = sidOf e := hi2.log s e hcomm
  -- the runtime restored from the log knows the envelope, with the same submission id
  have hsub : (subsOf h.disk.committed).lookup e = some s := by
    have hsome := mem_lookup_isSome _ e s ((mem_subsOf _ (e, s)).mpr hcomm)
    cases hl : (subsOf h.disk.committed).lookup e with
    | none => rw [hl] at hsome; cases hsome
    | some s' =>
      have := hi2.log s' e ((mem_subsOf _ (e, s')).mp (lookup_some_mem _ _ _ hl))
      rw [this, hs]
  -- … and the rebuilt de-dup index maps the submission id to exactly this envelope
  have hded : (accIndex h.disk.committed).lookup s = some e := by
    have hsome := mem_lookup_isSome _ s e ((mem_accIndex _ (s, e)).mpr hcomm)
    cases hl : (accIndex h.disk.committed).lookup s with
    | none => rw [hl] at hsome; cases hsome
    | some e' =>
      have h1 := hi2.log s e' ((mem_accIndex _ (s, e')).mp (lookup_some_mem _ _ _ hl))
      have : e' = e := hinj (by rw [← h1, hs])
      rw [this]
  simp only [submitStates, restart, hsub, submitWith, hded, and_self, if_true]

/-- non-vacuity: a run in which a submission is acknowledged and its tick is published although the
    store reported an error after syncing the marker; the process then dies and the outcome is recovered -/
example : ∃ h, Host.Reach id h ∧ h.acked = [(7, 7)] ∧ h.published = [(7, 100, 200)]
    ∧ (Host.restart h).outcomes = [(7, 100, 200)] := by
  let h1 := Host.lastState Host.init (Host.submitStates id Host.init 7 .none)
  let h2 := Host.lastState Host.init (Host.tickStates h1 7 100 200 .markerSynced)
  have r1 : Host.Reach id h1 := .step (h := Host.init) (.submit 7 .none) .init (by decide) (by decide)
  have r2 : Host.Reach id h2 := .step (h := h1) (.tick 7 100 200 .markerSynced) r1 (by decide) (by decide)
  exact ⟨h2, r2, by decide, by decide, by decide⟩

/-- writer/validator agreement: every transaction produced by `WalTransactionBuilder`
    (`push_record`* then `commit`) passes `validate_transaction_frames` against its own frames. -/
theorem built_tx_validates (cfg : Cfg) (H : HashFn) (p : BuildParams) (txId : Bytes) (txKind firstLsn : Nat)
    (prevFrame prevCommit : Bytes) (recs : List (Kind × Bytes)) (fr : Bytes) (hne : recs ≠ [])
    (hb : firstLsn + recs.length ≤ u64Max + 1) (hi : recs.length ≤ u32Max + 1) :
    validateTx cfg H (mkTx cfg H p txId txKind firstLsn prevFrame prevCommit recs fr).frames
      (mkTx cfg H p txId txKind firstLsn prevFrame prevCommit recs fr).commit = .ok () :=
  mkTx_valid cfg H p txId txKind firstLsn prevFrame prevCommit recs fr hne hb hi

/-- codec round trip of the two record payload kinds (what `append_segment_record` stores is what
    `decode_frame` / `decode_commit` return) -/
theorem codec_roundtrip (cfg : Cfg) (H : HashFn) :
    (∀ f, FrameOK cfg H f → decodeFrame cfg H (encodeFrame f) = .ok f)
    ∧ (∀ c, CommitOK cfg c → decodeCommit cfg (encodeCommit c) = .ok c) :=
  ⟨fun f h => decodeFrame_encodeFrame cfg H f h, fun c h => decodeCommit_encodeCommit cfg c h⟩

/-- `recover_prefix`, end to end and unconditional in the log: for EVERY writer session (any list of
    transaction specs with sane sizes, chained or constant previous-digests, any 32-byte hash `H`),
    and EVERY byte cut `m` of the segment the writer produced, recovery returns exactly the
    transactions that were completely written (commit marker included), never an error. -/
theorem recover_prefix_built (cfg : Cfg) (H : HashFn) (h32 : Hash32 H) (p : BuildParams)
    (hp : ParamsOK cfg p) (chain : Bool) (lsn : Nat) (pf pc : Bytes) (specs : List TxSpec) (mode : Mode)
    (hpf : pf.length = 32) (hpc : pc.length = 32) (hs : ∀ s ∈ specs, SpecOK cfg s)
    (hlsn : lsn + totalRecords specs ≤ 2 ^ 64)
    (m : Nat) (hm : m ≤ (encLog cfg H (buildLog cfg H p chain lsn pf pc specs)).length) :
    let ts := buildLog cfg H p chain lsn pf pc specs
    ∃ k d, k ≤ ts.length
      ∧ (encLog cfg H (ts.take k)).length ≤ m
      ∧ (k < ts.length → m < (encLog cfg H (ts.take (k + 1))).length)
      ∧ recoverSegmentBytesT cfg H p.segmentId ((encLog cfg H ts).take m) mode
          = .ok (d, { txs := recoveredOf (ts.take k),
                      tail := if m = (encLog cfg H (ts.take k)).length then .clean
                              else tailOf mode (lastLsnOf (ts.take k)) }) := by
  intro ts
  obtain ⟨hlog, hcodec, hseg⟩ := buildLog_ok cfg H h32 p hp chain lsn pf pc specs hpf hpc hs hlsn
  exact recover_prefix cfg H h32 p.segmentId lsn mode ts hlog hcodec hseg m hm

/-- atomicity, stated separately: whatever the cut, every recovered transaction is one of the
    written transactions, complete with all its frames, in the original order (`List.take`) -/
theorem recovered_is_committed_prefix (cfg : Cfg) (H : HashFn) (h32 : Hash32 H) (seg base : Nat) (mode : Mode)
    (ts : List Tx) (hlog : LogAt cfg H base ts) (hc : Codec cfg H ts)
    (hseg : ∀ t ∈ ts, ∀ f ∈ t.frames, f.header.segmentId = seg)
    (m : Nat) (hm : m ≤ (encLog cfg H ts).length) :
    ∃ k d tail, recoverSegmentBytesT cfg H seg ((encLog cfg H ts).take m) mode
      = .ok (d, { txs := (recoveredOf ts).take k, tail := tail }) := by
  obtain ⟨k, d, _, _, _, h⟩ := recover_prefix cfg H h32 seg base mode ts hlog hc hseg m hm
  refine ⟨k, d, (if m = (encLog cfg H (ts.take k)).length then Tail.clean
    else tailOf mode (lastLsnOf (ts.take k))), ?_⟩
  rw [h]; simp [recoveredOf, List.map_take]

/-- non-vacuity of `ParamsOK`/`SpecOK`: a toy configuration and a one-record transaction -/
def toyCfg : Cfg :=
  { magic := [1, 2, 3, 4, 5, 6, 7, 8], diskDomain := [], frameDomain := [], payloadDomain := [],
    recordsRootDomain := [], frontiersRootDomain := [], commitDomain := [], headerChecksumDomain := [],
    frameChecksumDomain := [], segmentDomain := [], frameTag := 1, commitTag := 2, walVersion := 1,
    label := fun c => if c = 1 then some [65] else none, txKindOk := fun _ => true,
    durabilityOk := fun _ => true, compressionOk := fun _ => true, redactionOk := fun _ => true }

def z32 : Bytes := List.replicate 32 0

example : ParamsOK toyCfg ⟨z32, 1, z32, z32, 1, 1, z32, 1⟩ := by
  constructor <;> simp [toyCfg, z32]

example : SpecOK toyCfg ⟨z32, 1, [(⟨1, [65]⟩, [7, 7])], z32⟩ := by
  constructor <;> simp [toyCfg, z32, RecOK, u32Max]

/-- non-vacuity: the hypotheses are satisfiable (constant 32-byte hash, identity decoder) -/
example : Hash32 (fun _ => List.replicate 32 0) := fun _ => by simp

end EchoVerif.C10
