/-
  C07 — replay is path-independent.

  All statements are generic in the graph state `S`, the patch type `P`, the digest type `D` and the
  semantics record `sem` (how patches apply, what the digests are) — they hold for every history.
  `replayRef sem h b t` is "replay ticks 0..t from the initial state" (no checkpoints).
-/
import EchoVerif.Lemmas.Chain

set_option linter.unusedSimpArgs false
set_option linter.unusedVariables false
set_option linter.unusedSectionVars false

namespace EchoVerif.C07
open EchoVerif.Chain

variable {S P D O M : Type} [DecidableEq D] [DecidableEq M] [DecidableEq O]
variable (sem : Sem S P D O M)

/-- **advance_compose**: resuming at `k` from the state replayed up to `k` continues exactly like the
    uninterrupted replay to `t` — same verdict (same typed error at the same tick), and on success
    the same full state (graph, tick history, last materialization, tx counter). -/
theorem advance_compose (h : Hist S P D O M) (b : Base S) (k t : Nat) (wk : WState S D O M)
    (hkt : k ≤ t) (hk : replayRef sem h b k = (wk, none)) :
    (advance sem h wk k t).2 = (replayRef sem h b t).2 ∧
    ((replayRef sem h b t).2 = none → (advance sem h wk k t).1 = (replayRef sem h b t).1) :=
  advance_compose_gen sem h (resetBase sem b) wk 0 k t (Nat.zero_le k) hkt hk

/-- Cursor invariant: the cursor holds what replaying `0..tick` gives. -/
def CurInv (h : Hist S P D O M) (b : Base S) (cur : Cursor S D O M) : Prop :=
  replayRef sem h b cur.tick = (cur.w, none)

/-- Checkpoint soundness: every stored checkpoint holds the replayed state of its tick and its
    recorded hash is that state's root. -/
def CpSound (h : Hist S P D O M) (b : Base S) : Prop :=
  ∀ c ∈ h.cps, replayRef sem h b c.tick = (c.w, none) ∧ c.hash = sem.root c.w.core.g

/-- `replay_worldline_state_at` (which restores the nearest checkpoint ≤ t) agrees with the
    checkpoint-free replay, for every sound checkpoint set. -/
theorem replayAt_eq_ref (h : Hist S P D O M) (b : Base S) (t : Nat) (s : WState S D O M)
    (hb : validateBase sem h b = none) (hcp : CpSound sem h b)
    (hs : replayRef sem h b t = (s, none)) :
    replayAt sem h b t = .ok s := by
  have hlen := replayRef_ok_len sem h b t s hs
  unfold replayAt
  rw [if_neg (by omega), hb]
  simp only []
  unfold restoreBase
  cases hc : cpBefore h.cps (t + 1) with
  | none =>
    simp only []
    have : advance sem h (resetBase sem b) 0 t = (s, none) := hs
    rw [this]
  | some c =>
    simp only []
    obtain ⟨hmem, hlt⟩ := cpBefore_mem hc
    obtain ⟨hrep, hhash⟩ := hcp c hmem
    rw [replayRef_ok_expected sem h b c.tick c.w hb hrep]
    simp only []
    rw [if_neg (by rw [hhash]; exact fun x => x rfl), if_neg (fun x => x rfl)]
    simp only []
    rw [advance_of_ref sem h b c.tick t c.w s (by omega) hrep hs]

/-- **seek_path_free**: from any cursor satisfying the invariant, with any sound checkpoint set, a
    seek to any available target `t` within the pin succeeds, lands on `t`, holds exactly
    `replay 0..t`, and re-establishes the invariant — whichever of the three branches
    (no-op / forward advance / restore from nearest checkpoint or U0 + advance) is taken. -/
theorem seek_path_free (h : Hist S P D O M) (b : Base S) (cur : Cursor S D O M) (t : Nat)
    (s : WState S D O M)
    (hb : validateBase sem h b = none) (hinv : CurInv sem h b cur) (hcp : CpSound sem h b)
    (hpin : t ≤ cur.pin) (hs : replayRef sem h b t = (s, none)) :
    ∃ cur', seekTo sem h b cur t = (cur', none) ∧ cur'.tick = t ∧ cur'.w = s ∧
      cur'.pin = cur.pin ∧ cur'.mode = cur.mode ∧ cur'.reader = cur.reader ∧ CurInv sem h b cur' := by
  have hlen := replayRef_ok_len sem h b t s hs
  unfold CurInv at hinv
  unfold seekTo
  rw [if_neg (by omega), if_neg (by omega)]
  by_cases htk : t = cur.tick
  · -- no-op branch
    rw [if_pos htk]
    have hw : cur.w = s := by
      rw [← htk, hs] at hinv
      exact (Prod.mk.inj hinv).1.symm
    by_cases hval : (!cur.validated) = true ∧ cur.tick = 0
    · rw [if_pos hval, hb]
      exact ⟨_, rfl, htk.symm, hw, rfl, rfl, rfl, hinv⟩
    · rw [if_neg hval]
      exact ⟨_, rfl, htk.symm, hw, rfl, rfl, rfl, hinv⟩
  · rw [if_neg htk]
    by_cases hbr : (decide (t < cur.tick) || viaCheckpoint h cur.tick t) = true
    · -- restore branch (backward, or a checkpoint strictly after the cursor and ≤ t)
      rw [if_pos hbr, replayAt_eq_ref sem h b t s hb hcp hs]
      exact ⟨_, rfl, rfl, rfl, rfl, rfl, rfl, hs⟩
    · -- forward advance
      rw [if_neg hbr]
      have hge : cur.tick ≤ t := by
        simp only [Bool.or_eq_true, decide_eq_true_eq, not_or, Nat.not_lt] at hbr
        exact hbr.1
      have hadv : advance sem h cur.w cur.tick t = (s, none) :=
        advance_of_ref sem h b cur.tick t cur.w s hge hinv hs
      by_cases hval : (!cur.validated) = true
      · rw [if_pos hval, hb]
        simp only [seekForward, hadv]
        exact ⟨_, rfl, rfl, rfl, rfl, rfl, rfl, hs⟩
      · rw [if_neg hval]
        simp only [seekForward, hadv]
        exact ⟨_, rfl, rfl, rfl, rfl, rfl, rfl, hs⟩

/-- The history verifies end to end. -/
def Verifies (h : Hist S P D O M) (b : Base S) : Prop :=
  ∃ w, replayRef sem h b h.entries.length = (w, none)

/-- A seek never breaks the invariant on a verifying history (rejected seeks leave the cursor
    untouched, accepted ones land on the replayed state). -/
theorem seek_keeps_inv (h : Hist S P D O M) (b : Base S) (cur : Cursor S D O M) (t : Nat)
    (hb : validateBase sem h b = none) (hv : Verifies sem h b) (hcp : CpSound sem h b)
    (hinv : CurInv sem h b cur) :
    CurInv sem h b (seekTo sem h b cur t).1 ∧ (seekTo sem h b cur t).1.pin = cur.pin ∧
      (seekTo sem h b cur t).1.mode = cur.mode ∧ (seekTo sem h b cur t).1.reader = cur.reader := by
  by_cases h1 : t > cur.pin
  · unfold seekTo; rw [if_pos h1]; exact ⟨hinv, rfl, rfl, rfl⟩
  by_cases h2 : t > h.entries.length
  · unfold seekTo; rw [if_neg h1, if_pos h2]; exact ⟨hinv, rfl, rfl, rfl⟩
  obtain ⟨wl, hwl⟩ := hv
  obtain ⟨s, hs⟩ := replayRef_prefix_ok sem h b h.entries.length t wl hwl (by omega)
  obtain ⟨cur', he, _, _, hp, hm, hr, hi⟩ := seek_path_free sem h b cur t s hb hinv hcp (by omega) hs
  rw [he]; exact ⟨hi, hp, hm, hr⟩

theorem step_keeps_inv (h : Hist S P D O M) (b : Base S) (cur : Cursor S D O M)
    (hb : validateBase sem h b = none) (hv : Verifies sem h b) (hcp : CpSound sem h b)
    (hinv : CurInv sem h b cur) : CurInv sem h b (stepCursor sem h b cur).1 := by
  have key : ∀ (t : Nat) (f : Cursor S D O M → Cursor S D O M),
      (∀ c, (f c).tick = c.tick ∧ (f c).w = c.w) →
      CurInv sem h b (f (seekTo sem h b cur t).1) := by
    intro t f hf
    have := (seek_keeps_inv sem h b cur t hb hv hcp hinv).1
    unfold CurInv at this ⊢
    rw [(hf _).1, (hf _).2]; exact this
  unfold stepCursor
  cases hm : cur.mode with
  | paused => exact hinv
  | play =>
    simp only []
    split
    · split
      · exact hinv
      · cases hst : seekTo sem h b cur (cur.tick + 1) with
        | mk c r =>
          have := key (cur.tick + 1) id (fun _ => ⟨rfl, rfl⟩)
          rw [hst] at this
          cases r <;> exact this
    · exact hinv
  | stepForward =>
    simp only []
    split
    · split
      · exact hinv
      · cases hst : seekTo sem h b cur (cur.tick + 1) with
        | mk c r =>
          have := key (cur.tick + 1) id (fun _ => ⟨rfl, rfl⟩)
          rw [hst] at this
          cases r <;> exact this
    · exact hinv
  | stepBack =>
    simp only []
    cases hst : seekTo sem h b cur (cur.tick - 1) with
    | mk c r =>
      have := key (cur.tick - 1) id (fun _ => ⟨rfl, rfl⟩)
      rw [hst] at this
      cases r <;> exact this
  | seek target thenPlay =>
    simp only []
    cases hst : seekTo sem h b cur target with
    | mk c r =>
      have := key target id (fun _ => ⟨rfl, rfl⟩)
      rw [hst] at this
      cases r <;> exact this

/-- **seek_path_free, lifted to arbitrary op sequences**: after any sequence of `seek` / `step` /
    mode changes / pin changes the cursor still holds exactly `replay 0..tick`. -/
theorem ops_path_free (h : Hist S P D O M) (b : Base S)
    (hb : validateBase sem h b = none) (hv : Verifies sem h b) (hcp : CpSound sem h b) :
    ∀ (ops : List COp) (cur : Cursor S D O M), CurInv sem h b cur →
      CurInv sem h b (runCOps sem h b cur ops)
  | [], cur, hinv => hinv
  | op :: rest, cur, hinv => by
    have h1 : CurInv sem h b (applyCOp sem h b cur op) := by
      cases op with
      | seek t => exact (seek_keeps_inv sem h b cur t hb hv hcp hinv).1
      | setMode m => exact hinv
      | setPin p => exact hinv
      | step => exact step_keeps_inv sem h b cur hb hv hcp hinv
    exact ops_path_free h b hb hv hcp rest _ h1

/-- A fresh cursor satisfies the invariant. -/
theorem fresh_inv (h : Hist S P D O M) (b : Base S) (reader : Bool) (pin : Nat) :
    CurInv sem h b (Cursor.fresh sem b reader pin) := by
  unfold CurInv Cursor.fresh
  exact replayRef_zero sem h b

/-! ### checkpoints -/

theorem histMatches_unique (es : List (Entry P D O)) :
    ∀ (l1 l2 : List (Art D M)) (i : Nat), histMatches sem es i l1 = true →
      histMatches sem es i l2 = true → l1.length = l2.length → l1 = l2
  | [], [], _, _, _, _ => rfl
  | [], _ :: _, _, _, _, hl => by cases hl
  | _ :: _, [], _, _, _, hl => by cases hl
  | a1 :: r1, a2 :: r2, i, h1, h2, hl => by
    simp only [histMatches] at h1 h2
    cases he : es[i]? with
    | none => rw [he] at h1; cases h1
    | some e =>
      rw [he] at h1 h2
      simp only [] at h1 h2
      cases hp : e.patch with
      | none => rw [hp] at h1; cases h1
      | some p =>
        rw [hp] at h1 h2
        simp only [] at h1 h2
        cases ha : artOf sem i e p with
        | error _ => rw [ha] at h1; cases h1
        | ok a' =>
          rw [ha] at h1 h2
          simp only [Bool.and_eq_true, decide_eq_true_eq] at h1 h2
          have : r1 = r2 := histMatches_unique es r1 r2 (i + 1) h1.2 h2.2 (by simpa using hl)
          rw [h1.1, h2.1, this]

/-- The tick history a successful run appends is the one `validate_checkpoint_for_history` accepts. -/
theorem runFrom_hist (u0 : Nat) (es : List (Entry P D O)) :
    ∀ (n k : Nat) (c c' : Core S D M), runFrom sem u0 es k n c = (c', none) →
      ∃ l, c'.hist = c.hist ++ l ∧ l.length = n ∧ histMatches sem es k l = true
  | 0, k, c, c', h => by
    simp only [runFrom] at h
    have : c' = c := (Prod.mk.inj h).1.symm
    subst this
    exact ⟨[], by simp, rfl, rfl⟩
  | n + 1, k, c, c', h => by
    simp only [runFrom] at h
    cases hk : es[k]? with
    | none => rw [hk] at h; cases h
    | some e =>
      rw [hk] at h
      simp only [] at h
      cases hs : step sem u0 k e c with
      | mk c1 r =>
        rw [hs] at h
        cases r with
        | some err => cases h
        | none =>
          simp only [] at h
          obtain ⟨p, g', a, hp, _, _, _, _, hart, hc1⟩ := step_ok_inv sem hs
          obtain ⟨l, hl1, hl2, hl3⟩ := runFrom_hist u0 es n (k + 1) c1 c' h
          refine ⟨a :: l, ?_, by simp [hl2], ?_⟩
          · rw [hl1, hc1]; simp
          · simp only [histMatches, hk, hp, hart]
            simp [hl3]

/-- **checkpoint_sound**: a checkpoint accepted by `add_checkpoint` holds exactly `replay 0..tick`
    (graph by injectivity of the state root, replay metadata by the field-by-field validation),
    whenever that replay succeeds. -/
theorem checkpoint_sound (h : Hist S P D O M) (b : Base S) (c : Cp S D O M) (s : WState S D O M)
    (hinj : Function.Injective sem.root)
    (hb : validateBase sem h b = none) (hv : validateCp sem h c = none)
    (hs : replayRef sem h b c.tick = (s, none)) :
    c.w = s ∧ c.hash = sem.root c.w.core.g := by
  have hex := replayRef_ok_expected sem h b c.tick s hb hs
  obtain ⟨_, _, _, hhash, ⟨ex, hex2, hroot⟩, hlen, htx, hz, hnz, _, _, _⟩ := validateCp_none_inv sem h c hv
  rw [hex] at hex2
  have hex3 : sem.root s.core.g = ex := by injection hex2
  have hg : c.w.core.g = s.core.g := hinj (by rw [hroot, hex3])
  refine ⟨?_, hhash.symm⟩
  by_cases h0 : c.tick = 0
  · have hlm := hz h0
    rw [h0, replayRef_zero] at hs
    have hs' : s = resetBase sem b := (Prod.mk.inj hs).1.symm
    subst hs'
    have hh : c.w.core.hist = [] := List.eq_nil_of_length_eq_zero (by omega)
    cases hcw : c.w with
    | mk core lm txc =>
      cases hcore : core with
      | mk g hist =>
        rw [hcw] at hg hh hlm htx
        rw [hcore] at hg hh
        simp only [resetBase] at hg ⊢
        simp only [] at hh hlm htx
        subst hg; subst hh; subst hlm
        rw [htx, h0]
  · obtain ⟨hm, e, he, hlm⟩ := hnz h0
    unfold replayRef at hs
    obtain ⟨cc, e', hrun, he', hw⟩ := advance_ok_inv sem h _ s 0 c.tick (by omega) hs
    rw [he] at he'
    have hee : e = e' := by injection he'
    subst hee
    obtain ⟨l, hl1, hl2, hl3⟩ := runFrom_hist sem h.u0 h.entries (c.tick - 0) 0 _ cc hrun
    simp only [resetBase, List.nil_append] at hl1
    have hhist : c.w.core.hist = cc.hist := by
      rw [hl1]
      exact histMatches_unique sem h.entries _ _ 0 hm hl3 (by rw [hlen, hl2]; omega)
    rw [hw] at hg ⊢
    simp only [] at hg
    cases hcw : c.w with
    | mk core lm txc =>
      cases hcore : core with
      | mk g hist =>
        rw [hcw] at hg hhist hlm htx
        rw [hcore] at hg hhist
        simp only [] at hg hhist hlm htx
        cases cc with
        | mk g2 hist2 =>
          simp only [] at hg hhist
          subst hg; subst hhist; subst hlm; subst htx
          rfl

/-- Non-vacuity of `checkpoint_sound`'s injectivity hypothesis: a semantics whose root is the
    identity on `Nat` states. -/
example : Function.Injective
    ({ apply := fun s (p : Nat) => (s + p, none), root := fun s => s, pwarp := fun _ => 0,
       policy := fun _ => 0, stored := fun p => p, computed := fun p => p, decision := fun _ => 0,
       commit := fun _ r _ _ => r, pmeta := fun _ => (), noOut := (), emptyRcpt := 0 } : Sem Nat Nat Nat Unit Unit).root :=
  fun _ _ h => h

theorem mem_insertCp {c x : Cp S D O M} : ∀ {l : List (Cp S D O M)}, x ∈ insertCp c l → x = c ∨ x ∈ l
  | [], hx => by simp [insertCp] at hx; exact Or.inl hx
  | y :: rest, hx => by
    simp only [insertCp] at hx
    split at hx
    · rcases List.mem_cons.mp hx with h | h
      · exact Or.inl h
      · exact Or.inr h
    · split at hx
      · rcases List.mem_cons.mp hx with h | h
        · exact Or.inl h
        · exact Or.inr (List.mem_cons_of_mem _ h)
      · rcases List.mem_cons.mp hx with h | h
        · exact Or.inr (by rw [h]; exact List.mem_cons_self)
        · rcases mem_insertCp h with h' | h'
          · exact Or.inl h'
          · exact Or.inr (List.mem_cons_of_mem _ h')

/-- Replay never reads the checkpoint list. -/
theorem replayRef_cps_irrel (h : Hist S P D O M) (b : Base S) (cps : List (Cp S D O M)) (t : Nat) :
    replayRef sem { h with cps := cps } b t = replayRef sem h b t := rfl

/-- `add_checkpoint` keeps the checkpoint set sound on a verifying history. -/
theorem addCheckpoint_sound (h h' : Hist S P D O M) (b : Base S) (c : Cp S D O M)
    (hinj : Function.Injective sem.root)
    (hb : validateBase sem h b = none) (hv : Verifies sem h b) (hcp : CpSound sem h b)
    (ha : addCheckpoint sem h c = .ok h') : CpSound sem h' b ∧ h'.entries = h.entries := by
  unfold addCheckpoint at ha
  cases hvc : validateCp sem h c with
  | some e => rw [hvc] at ha; cases ha
  | none =>
    rw [hvc] at ha
    simp only [] at ha
    have hh : h' = { h with cps := insertCp c h.cps } := by
      injection ha with ha; exact ha.symm
    subst hh
    refine ⟨?_, rfl⟩
    intro x hx
    rw [replayRef_cps_irrel]
    rcases mem_insertCp hx with hxc | hxo
    · subst hxc
      have hle : x.tick ≤ h.entries.length := (validateCp_none_inv sem h x hvc).1
      obtain ⟨wl, hwl⟩ := hv
      obtain ⟨s, hs⟩ := replayRef_prefix_ok sem h b h.entries.length x.tick wl hwl hle
      obtain ⟨h1, h2⟩ := checkpoint_sound sem h b x s hinj hb hvc hs
      exact ⟨by rw [h1]; exact hs, h2⟩
    · exact hcp x hxo

/-! ### fork -/

/-- **fork_prefix**: `fork src k new` yields a worldline of `k+1` entries on which replaying to any
    `j ≤ k+1` gives exactly what it gives on the source, carrying exactly the source's checkpoints of
    tick `≤ k+1` (so soundness of the checkpoint set is inherited). -/
theorem fork_prefix (h h' : Hist S P D O M) (b : Base S) (src new k : Nat)
    (hf : forkHist h src new k = .ok h') :
    h'.entries.length = k + 1 ∧
    h'.cps = h.cps.filter (fun c => c.tick ≤ k + 1) ∧
    h'.u0 = h.u0 ∧ h'.boundary = h.boundary ∧
    ∀ j, j ≤ k + 1 → replayRef sem h' b j = replayRef sem h b j := by
  unfold forkHist at hf
  by_cases hk : k ≥ h.entries.length
  · rw [if_pos hk] at hf; cases hf
  rw [if_neg hk] at hf
  injection hf with hf
  subst hf
  refine ⟨by simp; omega, rfl, rfl, rfl, ?_⟩
  intro j hj
  have hentry : ∀ i, i < k + 1 →
      ((h.entries.take (k + 1)).map (rewriteEntry src new))[i]? = (h.entries[i]?).map (rewriteEntry src new) := by
    intro i hi
    rw [List.getElem?_map, List.getElem?_take]
    simp [hi]
  have hrun : ∀ n c, n ≤ k + 1 →
      runFrom sem h.u0 ((h.entries.take (k + 1)).map (rewriteEntry src new)) 0 n c
        = runFrom sem h.u0 h.entries 0 n c := by
    intro n c hn
    apply runFrom_congr
    intro i _ hi
    have hik : i < k + 1 := by omega
    rw [hentry i hik]
    cases he : h.entries[i]? with
    | none => exact Or.inl ⟨rfl, rfl⟩
    | some e =>
      exact Or.inr ⟨_, e, rfl, rfl, fun c => step_rewrite sem h.u0 src new i e c⟩
  unfold replayRef advance
  by_cases hj0 : 0 = j
  · rw [if_pos hj0, if_pos hj0]
  · rw [if_neg hj0, if_neg hj0]
    simp only []
    rw [hrun (j - 0) _ (by omega)]
    cases hr : runFrom sem h.u0 h.entries 0 (j - 0) (resetBase sem b).core with
    | mk c r =>
      cases r with
      | some err => rfl
      | none =>
        simp only []
        rw [if_neg (by omega : j ≠ 0), if_neg (by omega : j ≠ 0)]
        rw [hentry (j - 1) (by omega)]
        cases h.entries[j - 1]? with
        | none => rfl
        | some e => rfl

/-- Soundness of checkpoints is inherited by the fork. -/
theorem fork_cps_sound (h h' : Hist S P D O M) (b : Base S) (src new k : Nat)
    (hf : forkHist h src new k = .ok h') (hcp : CpSound sem h b) : CpSound sem h' b := by
  obtain ⟨_, hc, _, _, hr⟩ := fork_prefix sem h h' b src new k hf
  intro c hcm
  rw [hc, List.mem_filter] at hcm
  have hle : c.tick ≤ k + 1 := by simpa using hcm.2
  rw [hr c.tick hle]
  exact hcp c hcm.1

/-! ### live runtime -/

theorem runFrom_append (u0 : Nat) (es : List (Entry P D O)) (e : Entry P D O) (n : Nat)
    (c : Core S D M) (hn : n ≤ es.length) :
    runFrom sem u0 (es ++ [e]) 0 n c = runFrom sem u0 es 0 n c := by
  apply runFrom_congr
  intro i _ hi
  have hi' : i < es.length := by omega
  rw [List.getElem?_append_left hi']
  exact Or.inr ⟨es[i], es[i], List.getElem?_eq_getElem hi', List.getElem?_eq_getElem hi', fun _ => rfl⟩

/-- **live_equals_replay** (one commit): if the live state equals `replay 0..n` on the history so
    far, and the recorded patch is a faithful, canonically-digested delta of the tick
    (`apply g p = g'`, recomputed digest = stored digest, patch belongs to the root warp), then after
    the commit the live state equals `replay 0..n+1` on the extended history. -/
theorem live_equals_replay (h : Hist S P D O M) (b : Base S) (w : WState S D O M)
    (wl headId gtick : Nat) (g' : S) (p : P) (outs : O)
    (hrep : replayRef sem h b h.entries.length = (w, none))
    (happly : sem.apply w.core.g p = (g', none))
    (hdig : sem.computed p = sem.stored p) (hwarp : sem.pwarp p = h.u0) :
    replayRef sem (liveCommit sem h w wl headId gtick g' p outs).1 b (h.entries.length + 1)
      = ((liveCommit sem h w wl headId gtick g' p outs).2, none) := by
  -- the core the loop reaches after the old entries
  have hcore : runFrom sem h.u0 h.entries 0 h.entries.length (resetBase sem b).core = (w.core, none) := by
    by_cases h0 : h.entries.length = 0
    · rw [h0] at hrep ⊢
      rw [replayRef_zero] at hrep
      have : w = resetBase sem b := (Prod.mk.inj hrep).1.symm
      rw [this]; rfl
    · unfold replayRef at hrep
      obtain ⟨c, e, hrun, _, hw⟩ := advance_ok_inv sem h _ w 0 h.entries.length (by omega) hrep
      rw [hw]; simpa using hrun
  have hstep : step sem h.u0 h.entries.length (liveEntry sem h wl headId gtick g' p outs) w.core
      = ((liveCommit sem h w wl headId gtick g' p outs).2.core, none) := by
    simp [step, liveEntry, liveCommit, artOf, hwarp, happly, hdig]
  unfold replayRef advance
  rw [if_neg (by omega : (0 : Nat) ≠ h.entries.length + 1)]
  have hes : (liveCommit sem h w wl headId gtick g' p outs).1.entries = h.entries ++ [liveEntry sem h wl headId gtick g' p outs] := rfl
  have hu0 : (liveCommit sem h w wl headId gtick g' p outs).1.u0 = h.u0 := rfl
  rw [hes, hu0]
  have hsplit : h.entries.length + 1 - 0 = h.entries.length + 1 := by omega
  rw [hsplit, runFrom_add, runFrom_append sem h.u0 h.entries _ h.entries.length _ (Nat.le_refl _), hcore]
  simp only [Nat.zero_add]
  simp only [runFrom]
  rw [List.getElem?_append_right (Nat.le_refl _)]
  simp only [Nat.sub_self, List.getElem?_cons_zero]
  rw [hstep]
  simp only []
  rw [if_neg (by omega : h.entries.length + 1 ≠ 0)]
  have : h.entries.length + 1 - 1 = h.entries.length := by omega
  rw [this, List.getElem?_append_right (Nat.le_refl _)]
  simp only [Nat.sub_self, List.getElem?_cons_zero]
  rw [if_pos (by omega)]
  rfl

/-- One live tick as the engine hands it over. -/
structure LiveTick (S P O : Type) where
  gtick : Nat
  g' : S
  p : P
  outs : O

/-- A run of a writer head: fold of `liveCommit`. -/
def liveRun (wl headId : Nat) :
    Hist S P D O M × WState S D O M → List (LiveTick S P O) → Hist S P D O M × WState S D O M
  | hw, [] => hw
  | hw, t :: rest => liveRun wl headId (liveCommit sem hw.1 hw.2 wl headId t.gtick t.g' t.p t.outs) rest

/-- Every tick of the run is a faithful delta of the state before it. -/
def Faithful (wl headId : Nat) :
    Hist S P D O M × WState S D O M → List (LiveTick S P O) → Prop
  | _, [] => True
  | hw, t :: rest =>
    sem.apply hw.2.core.g t.p = (t.g', none) ∧ sem.computed t.p = sem.stored t.p ∧
      sem.pwarp t.p = hw.1.u0 ∧
      Faithful wl headId (liveCommit sem hw.1 hw.2 wl headId t.gtick t.g' t.p t.outs) rest

/-- **live_equals_replay** (whole run): after any number of faithful commits on a worldline the live
    state is exactly `replay 0..len` of the recorded history. -/
theorem live_run_equals_replay (b : Base S) (wl headId : Nat) :
    ∀ (ticks : List (LiveTick S P O)) (hw : Hist S P D O M × WState S D O M),
      replayRef sem hw.1 b hw.1.entries.length = (hw.2, none) →
      Faithful sem wl headId hw ticks →
      replayRef sem (liveRun sem wl headId hw ticks).1 b (liveRun sem wl headId hw ticks).1.entries.length
        = ((liveRun sem wl headId hw ticks).2, none)
  | [], hw, h0, _ => h0
  | t :: rest, hw, h0, hf => by
    obtain ⟨ha, hd, hwp, hrest⟩ := hf
    have h1 := live_equals_replay sem hw.1 b hw.2 wl headId t.gtick t.g' t.p t.outs h0 ha hd hwp
    have hlen : (liveCommit sem hw.1 hw.2 wl headId t.gtick t.g' t.p t.outs).1.entries.length
        = hw.1.entries.length + 1 := by simp [liveCommit]
    rw [← hlen] at h1
    exact live_run_equals_replay b wl headId rest _ h1 hrest

end EchoVerif.C07
