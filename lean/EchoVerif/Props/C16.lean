/-
  C16 — observation is read-only and bound to its coordinate.
  Theorems over `Model/Observe.lean` (+ the chain model of C05/C07), for ALL runtimes, provenance
  stores, histories, extensions and requests.
-/
import EchoVerif.Model.Observe
import EchoVerif.Lemmas.Chain

set_option linter.unusedSimpArgs false
set_option linter.unusedVariables false

namespace EchoVerif.C16
open EchoVerif EchoVerif.Chain EchoVerif.Observe

variable {S P D M : Type} (env : Env D)

/-! ### small facts about the pieces -/

theorem entryAt_of_get {pv : Prov S P D Outs M} {wl t : Nat} {h : Hist S P D Outs M}
    (hp : pv.get wl = some h) : entryAt pv wl t = h.entries[t]? := by
  simp [entryAt, hp]

theorem entryAt_congr {pv pv' : Prov S P D Outs M} {wl : Nat} (hp : pv'.get wl = pv.get wl) (t : Nat) :
    entryAt pv' wl t = entryAt pv wl t := by
  simp [entryAt, hp]

/-- contract validation of a non-query request does not look at the engine at all. -/
theorem validateContract_nonquery (rt rt' : Runtime D) (req : Request) (hnq : req.proj.kind ≠ .query) :
    validateContract rt' req = validateContract rt req := by
  unfold validateContract
  cases hp : req.proj <;> cases hf : req.frame <;> simp_all [Proj.kind]

/-- `resolve` at an explicit tick reads exactly the entry stored at that tick. -/
theorem resolve_tick (rt : Runtime D) (pv : Prov S P D Outs M) (fr : Front D) (req : Request) (t : Nat)
    (hat : req.at_ = .tick t) :
    resolve rt pv fr req =
      match entryAt pv req.wl t with
      | none => .error (.invalidTick req.wl t)
      | some e => .ok { version := observationVersion, wl := req.wl, requestedAt := .tick t, tick := t,
                        commitGtick := some e.gtick, observedAfter := cycleTick rt.gtick,
                        root := e.expRoot, commit := e.expCommit } := by
  unfold resolve
  rw [hat]
  cases req.frame <;> simp only [] <;> cases entryAt pv req.wl t <;> rfl

theorem basisPosture_tick (fr : Front D) (req : Request) (t : Nat) (hat : req.at_ = .tick t) :
    basisPosture fr req =
      .ok (match fr.strand with | none => .worldline | some si => .strandHistorical si.sid) := by
  unfold basisPosture
  rw [hat]
  cases fr.strand <;> rfl

/-- the observation-time watermark, and nothing else, is erased -/
def eraseOA (a : Artifact D) : Artifact D :=
  { a with resolved := { a.resolved with observedAfter := none } }

def Resolved.withOA (r : Resolved D) (oa : Option Nat) : Resolved D := { r with observedAfter := oa }

theorem payloadOf_oa (rt rt' : Runtime D) (pv pv' : Prov S P D Outs M) (req : Request) (r : Resolved D)
    (oa : Option Nat) (hnq : req.proj.kind ≠ .query)
    (he : entryAt pv' req.wl r.tick = entryAt pv req.wl r.tick) :
    payloadOf rt' pv' req (Resolved.withOA r oa) = payloadOf rt pv req r := by
  unfold payloadOf Resolved.withOA
  cases hp : req.proj <;> cases hf : req.frame <;> simp_all [Proj.kind]

theorem witnessRefs_oa (r : Resolved D) (oa : Option Nat) (f : Frame) :
    witnessRefs (Resolved.withOA r oa) f = witnessRefs r f := by
  rfl

/-- everything downstream of the resolved coordinate ignores the watermark. -/
theorem finish_oa (rt rt' : Runtime D) (pv pv' : Prov S P D Outs M) (req : Request) (r : Resolved D)
    (oa : Option Nat) (posture : Posture D) (hnq : req.proj.kind ≠ .query)
    (he : entryAt pv' req.wl r.tick = entryAt pv req.wl r.tick) :
    (finish env rt' pv' req (Resolved.withOA r oa) posture).map eraseOA
      = (finish env rt pv req r posture).map eraseOA := by
  unfold finish
  rw [payloadOf_oa rt rt' pv pv' req r oa hnq he, witnessRefs_oa]
  cases payloadOf rt pv req r with
  | error e => rfl
  | ok x =>
    obtain ⟨payload, plan, res⟩ := x
    simp only []
    cases budgetPosture env req.budget payload (witnessRefs r req.frame).length with
    | error e => rfl
    | ok bp => simp [Except.map, eraseOA, Resolved.withOA]

/-! ### observe_pure -/

/-- **observe_pure.** `observe` is a function of the request and of exactly three borrowed things: the
    runtime's cycle stamp + the frontier of the requested worldline, the engine's installed observers,
    and the recorded history of the requested worldline. Its result type has no state component, and
    nothing else of the runtime or of provenance (other worldlines, heads, inboxes, other histories,
    checkpoints of other lanes) can influence a reading. -/
theorem observe_pure (rt rt' : Runtime D) (pv pv' : Prov S P D Outs M) (req : Request)
    (hg : rt'.gtick = rt.gtick) (hf : rt'.fronts.lookup req.wl = rt.fronts.lookup req.wl)
    (hq : rt'.queries = rt.queries) (hp : pv'.get req.wl = pv.get req.wl) :
    observe env rt' pv' req = observe env rt pv req := by
  have hE : ∀ t, entryAt pv' req.wl t = entryAt pv req.wl t := entryAt_congr hp
  have hv : validateContract rt' req = validateContract rt req := by
    unfold validateContract; rw [hq]
  have hr : ∀ fr, resolve rt' pv' fr req = resolve rt pv fr req := by
    intro fr; unfold resolve; simp only [hE, hg]
  have hpay : ∀ r, payloadOf rt' pv' req r = payloadOf rt pv req r := by
    intro r; unfold payloadOf; simp only [hE, hq]
  have hfin : ∀ r p, finish env rt' pv' req r p = finish env rt pv req r p := by
    intro r p; unfold finish; rw [hpay]
  unfold observe
  rw [hf, hv]
  cases rt.fronts.lookup req.wl with
  | none => rfl
  | some fr => simp only [hr, hfin]

/-- Serving (artifact + hash pre-image) is pure in the same sense. -/
theorem serve_pure (rt rt' : Runtime D) (pv pv' : Prov S P D Outs M) (req : Request)
    (hg : rt'.gtick = rt.gtick) (hf : rt'.fronts.lookup req.wl = rt.fronts.lookup req.wl)
    (hq : rt'.queries = rt.queries) (hp : pv'.get req.wl = pv.get req.wl) :
    serve env rt' pv' req = serve env rt pv req := by
  unfold serve; rw [observe_pure env rt rt' pv pv' req hg hf hq hp]

/-! ### historical readings -/

/-- The closed form of a reading at an explicit tick whose entry exists. -/
theorem observe_tick_eq (rt : Runtime D) (pv : Prov S P D Outs M) (req : Request) (t : Nat)
    (fr : Front D) (e : Entry P D Outs)
    (hat : req.at_ = .tick t) (hf : rt.fronts.lookup req.wl = some fr)
    (he : entryAt pv req.wl t = some e) :
    observe env rt pv req =
      if !validFP req.frame req.proj.kind then .error (.unsupportedFrameProjection req.frame req.proj.kind)
      else match validateContract rt req with
        | some err => .error err
        | none =>
          finish env rt pv req
            { version := observationVersion, wl := req.wl, requestedAt := .tick t, tick := t,
              commitGtick := some e.gtick, observedAfter := cycleTick rt.gtick,
              root := e.expRoot, commit := e.expCommit }
            (match fr.strand with | none => .worldline | some si => .strandHistorical si.sid) := by
  unfold observe
  rw [hf]
  simp only []
  rw [resolve_tick rt pv fr req t hat, he, basisPosture_tick fr req t hat]
  rfl

/-- **historical_stable.** A reading at an explicit tick `t < len h` is the same — artifact for
    artifact, error for error — whatever was committed afterwards (`h.entries ++ more`), whatever the
    frontier, the live state, the global tick, the other worldlines, the checkpoints or the live strand
    posture have become; only `observed_after_global_tick` (erased by name) may differ. The worldline
    must still be registered and still be / not be the child of the same strand. (Query projections
    are excluded: an installed observer is handed the runtime and may depend on anything.) -/
theorem historical_stable (rt rt' : Runtime D) (pv pv' : Prov S P D Outs M) (req : Request) (t : Nat)
    (fr fr' : Front D) (h h' : Hist S P D Outs M) (more : List (Entry P D Outs))
    (hat : req.at_ = .tick t)
    (hf : rt.fronts.lookup req.wl = some fr) (hf' : rt'.fronts.lookup req.wl = some fr')
    (hs : fr'.strand.map (·.sid) = fr.strand.map (·.sid))
    (hp : pv.get req.wl = some h) (hp' : pv'.get req.wl = some h')
    (hext : h'.entries = h.entries ++ more) (ht : t < h.entries.length)
    (hnq : req.proj.kind ≠ .query) :
    (observe env rt' pv' req).map eraseOA = (observe env rt pv req).map eraseOA := by
  have he : entryAt pv req.wl t = some (h.entries[t]'ht) := by
    rw [entryAt_of_get hp]; exact List.getElem?_eq_getElem ht
  have he' : entryAt pv' req.wl t = some (h.entries[t]'ht) := by
    rw [entryAt_of_get hp', hext, List.getElem?_append_left ht]; exact List.getElem?_eq_getElem ht
  rw [observe_tick_eq env rt pv req t fr _ hat hf he, observe_tick_eq env rt' pv' req t fr' _ hat hf' he']
  rw [validateContract_nonquery rt rt' req hnq]
  have hpost : (match fr'.strand with | none => Posture.worldline | some si => .strandHistorical si.sid)
      = (match fr.strand with | none => (Posture.worldline : Posture D) | some si => .strandHistorical si.sid) := by
    cases h1 : fr.strand <;> cases h2 : fr'.strand <;> simp_all
  rw [hpost]
  cases hv : !validFP req.frame req.proj.kind
  · simp only [Bool.false_eq_true, if_false]
    cases validateContract rt req with
    | some err => rfl
    | none =>
      simp only []
      have := finish_oa env rt rt' pv pv' req
        { version := observationVersion, wl := req.wl, requestedAt := .tick t, tick := t,
          commitGtick := some (h.entries[t]'ht).gtick, observedAfter := cycleTick rt.gtick,
          root := (h.entries[t]'ht).expRoot, commit := (h.entries[t]'ht).expCommit }
        (cycleTick rt'.gtick)
        (match fr.strand with | none => .worldline | some si => .strandHistorical si.sid)
        hnq (by simp only []; rw [he, he'])
      simpa [Resolved.withOA] using this
  · simp

/-- The coordinate-bound core of a reading: what a fork of the prefix must reproduce. -/
def core (a : Artifact D) : Nat × Option Nat × D × D × Payload D :=
  (a.resolved.tick, a.resolved.commitGtick, a.resolved.root, a.resolved.commit, a.payload)

/-! ### bound to the coordinate; typed unavailability -/

/-- **tick_bound.** A successful reading at an explicit tick `t` is a reading of the entry recorded at
    exactly `t` on exactly the requested worldline: resolved tick, commit stamp, state root and commit
    hash are that entry's, the single witness names `(wl, t, that commit)`, and the payload is built from
    that entry (never from the frontier, a neighbouring tick or another lane). -/
theorem tick_bound (rt : Runtime D) (pv : Prov S P D Outs M) (req : Request) (t : Nat) (a : Artifact D)
    (hat : req.at_ = .tick t) (ho : observe env rt pv req = .ok a) :
    ∃ e, entryAt pv req.wl t = some e ∧
      a.resolved.wl = req.wl ∧ a.resolved.requestedAt = .tick t ∧ a.resolved.tick = t ∧
      a.resolved.commitGtick = some e.gtick ∧ a.resolved.root = e.expRoot ∧
      a.resolved.commit = e.expCommit ∧
      a.reading.witnesses = [.resolvedCommit { wl := req.wl, tick := t, commit := e.expCommit }] ∧
      (∀ tk cg r c, a.payload = .head tk cg r c ∨ a.payload = .snapshot tk cg r c →
          tk = t ∧ cg = some e.gtick ∧ r = e.expRoot ∧ c = e.expCommit) ∧
      (∀ chs, a.payload = .truth chs → ∃ filter, req.proj = .truth filter ∧
          chs = match filter with
            | none => e.outputs
            | some f => e.outputs.filter (fun cd => f.contains cd.1)) := by
  cases hfl : rt.fronts.lookup req.wl with
  | none => unfold observe at ho; rw [hfl] at ho; cases ho
  | some fr =>
    cases hE : entryAt pv req.wl t with
    | none =>
      unfold observe at ho
      rw [hfl] at ho
      simp only [] at ho
      rw [resolve_tick rt pv fr req t hat, hE] at ho
      split at ho
      · cases ho
      · split at ho <;> cases ho
    | some e =>
      refine ⟨e, rfl, ?_⟩
      rw [observe_tick_eq env rt pv req t fr e hat hfl hE] at ho
      split at ho
      · cases ho
      · split at ho
        · cases ho
        · unfold finish at ho
          split at ho
          · cases ho
          · rename_i payload plan res hpay
            simp only [] at ho
            split at ho
            · cases ho
            · rename_i bp hbp
              cases ho
              refine ⟨rfl, rfl, rfl, rfl, rfl, rfl, ?_, ?_, ?_⟩
              · cases hfr : req.frame <;> simp [witnessRefs, witnessCommitTick, hfr]
              · intro tk cg r c hpl
                unfold payloadOf at hpay
                cases hp0 : req.proj <;> cases hf0 : req.frame <;> simp [hp0, hf0] at hpay
                all_goals first
                  | (obtain ⟨h1, _, _⟩ := hpay; subst h1; rcases hpl with h | h <;> cases h <;> exact ⟨rfl, rfl, rfl, rfl⟩)
                  | (obtain ⟨h1, _, _⟩ := hpay; subst h1; rcases hpl with h | h <;> cases h)
                  | skip
                all_goals first
                  | (rw [hE] at hpay
                     simp at hpay
                     obtain ⟨h1, _, _⟩ := hpay
                     subst h1
                     rcases hpl with h | h <;> simp at h)
                  | (split at hpay
                     · cases hpay
                     · split at hpay
                       · cases hpay
                       · cases hpay; rcases hpl with h | h <;> cases h)
              · intro chs hpl
                unfold payloadOf at hpay
                cases hp0 : req.proj <;> cases hf0 : req.frame <;> simp [hp0, hf0] at hpay
                all_goals first
                  | (obtain ⟨h1, _, _⟩ := hpay; subst h1; cases hpl; done)
                  | skip
                case truth.recordedTruth filter =>
                  rw [hE] at hpay
                  simp only [Except.ok.injEq, Prod.mk.injEq] at hpay
                  obtain ⟨h1, _, _⟩ := hpay
                  subst h1
                  simp only [Payload.truth.injEq] at hpl
                  refine ⟨filter, rfl, ?_⟩
                  rw [← hpl]
                  cases filter <;> simp
                case query.queryView =>
                  split at hpay
                  · cases hpay
                  · split at hpay
                    · cases hpay
                    · cases hpay; cases hpl

/-- `entry(w, tick)` fails for every tick at or past the end of the history, and for every
    worldline provenance does not know. -/
theorem entryAt_future (pv : Prov S P D Outs M) (wl t : Nat) :
    (∀ h, pv.get wl = some h → h.entries.length ≤ t → entryAt pv wl t = none) ∧
    (pv.get wl = none → entryAt pv wl t = none) := by
  refine ⟨?_, ?_⟩
  · intro h hp hl
    rw [entryAt_of_get hp]
    exact List.getElem?_eq_none hl
  · intro hp; simp [entryAt, hp]

/-- **unavailable_typed.** For a well-formed request (valid frame/projection pairing, accepted
    contract): an unregistered worldline is `InvalidWorldline` (whatever else is wrong with the
    request); an explicit tick without a recorded entry (future tick, empty history, worldline unknown
    to provenance) is `InvalidTick` carrying that worldline and that tick — it is never clamped to the
    frontier or to the last entry; recorded truth at an empty frontier, and any frontier whose last
    committed entry is missing from provenance, is `ObservationUnavailable`. Together with `tick_bound`
    (ok ⇒ the entry at exactly that tick): unavailable history is never answered from another state. -/
theorem unavailable_typed (rt : Runtime D) (pv : Prov S P D Outs M) (req : Request) :
    (rt.fronts.lookup req.wl = none → observe env rt pv req = .error (.invalidWorldline req.wl)) ∧
    (∀ fr t, rt.fronts.lookup req.wl = some fr → req.at_ = .tick t → entryAt pv req.wl t = none →
        validFP req.frame req.proj.kind = true → validateContract rt req = none →
        observe env rt pv req = .error (.invalidTick req.wl t)) ∧
    (∀ fr, rt.fronts.lookup req.wl = some fr → req.at_ = .frontier → req.frame = .recordedTruth →
        fr.tick = 0 → validFP req.frame req.proj.kind = true → validateContract rt req = none →
        observe env rt pv req = .error (.unavailable req.wl .frontier)) ∧
    (∀ fr, rt.fronts.lookup req.wl = some fr → req.at_ = .frontier → 0 < fr.tick →
        entryAt pv req.wl (fr.tick - 1) = none →
        validFP req.frame req.proj.kind = true → validateContract rt req = none →
        observe env rt pv req = .error (.unavailable req.wl .frontier)) := by
  refine ⟨?_, ?_, ?_, ?_⟩
  · intro hf; unfold observe; rw [hf]
  · intro fr t hf hat he hv hc
    unfold observe
    rw [hf]
    simp only [hv, hc, Bool.not_true, Bool.false_eq_true, if_false]
    rw [resolve_tick rt pv fr req t hat, he]
  · intro fr hf hat hfr h0 hv hc
    unfold observe
    rw [hf]
    simp only [hv, hc, Bool.not_true, Bool.false_eq_true, if_false]
    unfold resolve
    rw [hat, hfr]
    simp [h0]
  · intro fr hf hat hpos he hv hc
    unfold observe
    rw [hf]
    simp only [hv, hc, Bool.not_true, Bool.false_eq_true, if_false]
    unfold resolve
    rw [hat]
    have hne : fr.tick ≠ 0 := by omega
    cases req.frame <;> simp [hne, he]

/-! ### historical reading = reading from the replayed state -/

section replay
variable [DecidableEq D] [DecidableEq M] (sem : Sem S P D Outs M)

/-- **historical_equals_replayed.** Whenever the history replays to `t + 1` (`replayRef`, the
    checkpoint-free reference replay of C07; by `replayAt_eq_ref` / `seek_path_free` every other replay
    path gives the same state), a successful reading at `Tick t` carries exactly the replayed state's
    root, and its payload is the one computed from the replayed state: head/snapshot metadata name that
    root at tick `t`, recorded-truth channels are the replayed state's `last_materialization` (filtered
    by the request). The code reads the *recorded* triplet, not a replayed state; this theorem is why
    that is the same thing on every history that verifies. -/
theorem historical_equals_replayed (rt : Runtime D) (pv : Prov S P D Outs M) (req : Request) (t : Nat)
    (h : Hist S P D Outs M) (b : Base S) (w : WState S D Outs M) (a : Artifact D)
    (hat : req.at_ = .tick t) (hp : pv.get req.wl = some h)
    (hb : validateBase sem h b = none) (hr : replayRef sem h b (t + 1) = (w, none))
    (ho : observe env rt pv req = .ok a) :
    a.resolved.tick = t ∧ a.resolved.root = sem.root w.core.g ∧ w.txc = t + 1 ∧
    (∀ tk cg r c, a.payload = .head tk cg r c ∨ a.payload = .snapshot tk cg r c →
        tk = t ∧ r = sem.root w.core.g) ∧
    (∀ chs, a.payload = .truth chs → ∃ filter, req.proj = .truth filter ∧
        chs = match filter with
          | none => w.lastMat
          | some f => w.lastMat.filter (fun cd => f.contains cd.1)) := by
  obtain ⟨e, hE, _, _, htick, _, hroot, _, _, hmeta, htruth⟩ := tick_bound env rt pv req t a hat ho
  rw [entryAt_of_get hp] at hE
  have hexp := replayRef_ok_expected sem h b (t + 1) w hb hr
  unfold expectedRootAt at hexp
  rw [if_neg (by omega : t + 1 ≠ 0)] at hexp
  have ht1 : t + 1 - 1 = t := by omega
  rw [ht1, hE] at hexp
  simp only [Except.ok.injEq] at hexp
  unfold replayRef at hr
  obtain ⟨c, e', _, he', hw⟩ := advance_ok_inv sem h _ w 0 (t + 1) (by omega) hr
  rw [ht1, hE] at he'
  cases he'
  refine ⟨htick, by rw [hroot, hexp], by rw [hw], ?_, ?_⟩
  · intro tk cg r c hpl
    obtain ⟨h1, _, h3, _⟩ := hmeta tk cg r c hpl
    exact ⟨h1, by rw [h3, hexp]⟩
  · intro chs hpl
    obtain ⟨filter, hf, hc⟩ := htruth chs hpl
    refine ⟨filter, hf, ?_⟩
    rw [hc, hw]

end replay

/-! ### artifact hash -/

/-- **artifact_hash_fun.** The artifact-hash pre-image is `domain ‖ canonical-CBOR(hash input)` where
    the hash input is a function of exactly (resolved coordinate, reading envelope — observer plan,
    witnesses, postures —, frame, projection, payload): two artifacts agreeing on those five components
    have the same pre-image, so no other state (runtime, engine, clock) can enter the hash; and the
    served hash is the hash of the served artifact. -/
theorem artifact_hash_fun (a a' : Artifact D)
    (h1 : a'.resolved = a.resolved) (h2 : a'.reading = a.reading) (h3 : a'.frame = a.frame)
    (h4 : a'.proj = a.proj) (h5 : a'.payload = a.payload) :
    artifactHash env a' = artifactHash env a := by
  cases a; cases a'; simp_all

theorem serve_hash_of_artifact (rt : Runtime D) (pv : Prov S P D Outs M) (req : Request)
    (a : Artifact D) (hx : HExpr) (hs : serve env rt pv req = .ok (a, hx)) :
    observe env rt pv req = .ok a ∧ artifactHash env a = .ok hx := by
  unfold serve at hs
  cases ho : observe env rt pv req with
  | error e => rw [ho] at hs; cases hs
  | ok a0 =>
    rw [ho] at hs
    simp only [] at hs
    cases hh : artifactHash env a0 with
    | error e => rw [hh] at hs; cases hs
    | ok h0 =>
      rw [hh] at hs
      cases hs
      exact ⟨rfl, hh⟩

theorem optNat_inj (x y : Option Nat) (h : optNat x = optNat y) : x = y := by
  cases x <;> cases y <;> simp [optNat, natVal] at h
  · rfl
  · exact congrArg some (Int.ofNat.inj h)

/-- The watermark is in the pre-image: this is why a historical artifact's *hash* may move with the
    global tick while everything `historical_stable` names stays put. -/
theorem hash_input_separates_watermark (a : Artifact D) (x y : Option Nat) (hxy : x ≠ y) :
    hashInputVal env { a with resolved := { a.resolved with observedAfter := x } }
      ≠ hashInputVal env { a with resolved := { a.resolved with observedAfter := y } } := by
  intro hcontra
  simp only [hashInputVal, resolvedVal, fld, Cbor.Val.map.injEq, List.cons.injEq, Prod.mk.injEq,
    true_and, and_true] at hcontra
  exact hxy (optNat_inj x y (by simp_all))

/-! ### non-vacuity -/

section examples

def exEnv : Env Nat := { dB := fun n => natToBE 32 n }
def exEntry (t g : Nat) : Entry Unit Nat Outs :=
  { wl := 1, tick := t, gtick := g, head := none, parents := [], localKind := true, expRoot := 100 + t,
    expDigest := 0, expCommit := 200 + t, patch := none, receipt := none, outputs := [(7, [1, 2])],
    atomWrites := 0 }
def exHist (n : Nat) : Hist Unit Unit Nat Outs Unit :=
  { u0 := 0, boundary := 0, entries := (List.range n).map (fun t => exEntry t (t + 1)), cps := [] }
def exRt (n g : Nat) : Runtime Nat :=
  { gtick := g, fronts := [(1, { tick := n, lastSnap := some (100 + n - 1, 200 + n - 1), u0 := (0, 0), strand := none })],
    queries := [] }
def exReq : Request :=
  { wl := 1, at_ := .tick 1, frame := .recordedTruth, proj := .truth none, plan := .builtin .rtChannels,
    inst := none, budget := .unbounded, rights := .kernelPublic }

/-- a historical reading that succeeds, and is unchanged (but for the watermark) after two more commits -/
example : (observe exEnv (exRt 2 2) [(1, exHist 2)] exReq).map core
    = .ok (1, some 2, 101, 201, .truth [(7, [1, 2])]) := by rfl
example : (observe exEnv (exRt 4 9) [(1, exHist 4)] exReq).map eraseOA
    = (observe exEnv (exRt 2 2) [(1, exHist 2)] exReq).map eraseOA := by rfl
example : (observe exEnv (exRt 4 9) [(1, exHist 4)] exReq).map (·.resolved.observedAfter) = .ok (some 9)
    ∧ (observe exEnv (exRt 2 2) [(1, exHist 2)] exReq).map (·.resolved.observedAfter) = .ok (some 2) :=
  ⟨by rfl, by rfl⟩
/-- future tick / unknown worldline / empty recorded truth are typed errors -/
example : observe exEnv (exRt 2 2) [(1, exHist 2)] { exReq with at_ := .tick 2 } = .error (.invalidTick 1 2) := by
  rfl
example : observe exEnv (exRt 2 2) [(1, exHist 2)] { exReq with wl := 5 } = .error (.invalidWorldline 5) := by
  rfl
example : observe exEnv (exRt 0 0) [(1, exHist 0)] { exReq with at_ := .frontier }
    = .error (.unavailable 1 .frontier) := by rfl

end examples

end EchoVerif.C16
