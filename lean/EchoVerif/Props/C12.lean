/-
  C12 — canonical encodings are bijective.
  PROPERTY THEOREMS ONLY (helpers are in Lemmas/Codec/*.lean).
  Model: Model/Codec/Cbor.lean (ABI canonical CBOR, crates/echo-wasm-abi/src/canonical.rs, after
  fix-c12-abi-cbor-floats, fix-c13-abi-cbor-bounds and fix-c12-abi-encoder-nesting: encoder and
  decoder both carry the container depth); extracted table: Generated/CborHead.lean (head widths,
  marker bytes, `maxNesting` + presence of the nesting check in all four container arms).
-/
import EchoVerif.Lemmas.Codec.CborCanon
import EchoVerif.Lemmas.Codec.CborDepth
import EchoVerif.Lemmas.Codec.CborRound
import EchoVerif.Lemmas.Codec.CborFuel
import EchoVerif.Lemmas.Codec.Records
import EchoVerif.Lemmas.Codec.Ingress
import EchoVerif.Lemmas.Codec.WalRecords
import EchoVerif.Lemmas.Codec.WalCommit

namespace EchoVerif.C12
open EchoVerif EchoVerif.Cbor EchoVerif.Generated.CborHead

/-- **head_roundtrip.** For every major type and every argument below 2^64, `read_len` reads back
    exactly the argument `write_major` wrote and leaves the rest of the input untouched
    (thresholds as extracted from canonical.rs). -/
theorem head_roundtrip (n : Nat) (hn : n < 2 ^ 64) (rest : Bytes) :
    readLen (encInfo n).1 (beBytes (encInfo n).2 n ++ rest) = .ok (n, rest) :=
  Cbor.head_roundtrip n hn rest

/-- **head_canonical.** `read_len` accepts a head only in its minimal width: if it returns `n`
    having consumed some bytes, the initial byte followed by those bytes is `write_major major n`. -/
theorem head_canonical {major info : Nat} {bs rest : Bytes} {n : Nat} (hi : info < 32)
    (h : readLen info bs = .ok (n, rest)) :
    UInt8.ofNat (major * 32 + info) :: bs = head major n ++ rest :=
  Cbor.head_canonical hi h

example : readLen 24 [0x18, 0xff] = .ok (24, [0xff]) := by rfl

/-- **head_nonminimal_rejected.** An argument written wider than necessary is rejected
    (`NonCanonicalInt`), for every width arm of `read_len`. -/
theorem head_nonminimal_rejected {info w : Nat} (a rest : Bytes) (hk : decKind info = .width w)
    (hl : a.length = w) (hov : decOverwide info (beVal a) = true) :
    readLen info (a ++ rest) = .error .nonCanonicalInt := by
  unfold readLen
  rw [hk]
  subst hl
  simp [takeN_append, hov]

example : decKind 25 = .width 2 ∧ decOverwide 25 (beVal [0x00, 0xff]) = true := by
  simp [decKind, decOverwide, beVal]

/-- **abi_accepted_canonical.** Every byte string `decode_value` accepts is exactly the encoding
    `encode_value` produces for the decoded value: ints/lengths minimal, floats in their shortest
    exact width (and never integral), NaN only as f9 7e 00, map keys strictly ascending by encoded
    bytes, definite lengths, no tags, no trailing bytes, nesting within the limit the encoder
    enforces as well — all at once, for all inputs. -/
theorem abi_accepted_canonical (b : Bytes) (v : Val) (h : decode b = .ok v) : encode v = .ok b := by
  unfold decode at h
  split at h
  · cases h
  · rename_i v' hd
    injection h with h; subst h
    obtain ⟨e, he, hb⟩ := dec_canon _ _ _ _ _ hd
    rw [hb]; simpa [encode] using he
  · cases h

/-- **abi_roundtrip.** For every well-formed value (integers in the CBOR range, valid UTF-8 text,
    sizes below 2^64) that `encode_value` accepts, `decode_value` of the produced bytes returns the
    value's normal form `norm v`: integral floats in `[-2^63, 2^64)` read back as integers (−0.0 as
    0), every NaN as the canonical NaN, map entries in the order of their encoded keys — applied
    recursively; everything else is returned unchanged.  No hypothesis on the nesting of `v`: the
    encoder refuses (`NestingLimitExceeded`) exactly what the decoder would not read back. -/
theorem abi_roundtrip (v : Val) (hwf : WF v) (e : Bytes) (he : encode v = .ok e) :
    decode e = .ok (norm v) := by
  have h := rt_all v hwf 0 e he (e.length + 1) [] (by omega)
  rw [List.append_nil] at h
  unfold decode
  rw [h]

example : WF (.map [(.int 10, .float 0x3ff0000000000000), (.text [0x61], .array [.null])]) := by
  simp [WF, WFEntries, WFList, utf8Valid]

/-- Values that contain no float and no map are returned exactly. -/
theorem abi_roundtrip_exact_scalars (n : Int) (h1 : -(2 ^ 63 : Int) ≤ n) (h2 : n < 2 ^ 64) :
    ∃ e, encode (.int n) = .ok e ∧ decode e = .ok (.int n) := by
  have hne : ¬ n < -(2 ^ 63 : Int) := by omega
  have he : encode (.int n) = .ok (encInt n) := by
    simp only [encode, enc]; rw [if_neg hne]
  refine ⟨encInt n, he, ?_⟩
  have := abi_roundtrip (.int n) (by simp only [WF]; omega) (encInt n) he
  simpa [norm] using this

/-- **abi_fuel_suffices.** The model decoder's fuel (input length + 1) is never exhausted: every
    nested call sees a strictly shorter input, so the model never rejects for a reason the code
    does not have. -/
theorem abi_fuel_suffices (b : Bytes) : decode b ≠ .error .fuel := decode_no_fuel b

/-- Corollary: the decoder is injective on accepted inputs — one value, one encoding. -/
theorem abi_decode_injective (b₁ b₂ : Bytes) (v : Val) (h₁ : decode b₁ = .ok v) (h₂ : decode b₂ = .ok v) :
    b₁ = b₂ := by
  have e₁ := abi_accepted_canonical b₁ v h₁
  have e₂ := abi_accepted_canonical b₂ v h₂
  rw [e₁] at e₂
  injection e₂

/-- Corollary: anything that is not an encoder output is rejected, not normalised. -/
theorem abi_noncanonical_rejected (b : Bytes) (h : ∀ v, encode v ≠ .ok b) : ∃ e, decode b = .error e := by
  cases hd : decode b with
  | error e => exact ⟨e, rfl⟩
  | ok v => exact absurd (abi_accepted_canonical b v hd) (h v)

/-- **abi_nesting_symmetric.** Encoder and decoder enforce the SAME nesting limit (the extracted
    `MAX_DECODE_NESTING_DEPTH`): whatever `encode_value` accepts has at most `maxNesting` nested
    containers, and so has whatever `decode_value` returns.  Together with `abi_roundtrip` /
    `abi_accepted_canonical`: the limit cuts the value space and the byte space at the same place,
    so it costs no round trip. -/
theorem abi_nesting_symmetric :
    (∀ v e, encode v = .ok e → depth v ≤ maxNesting) ∧
    (∀ b v, decode b = .ok v → depth v ≤ maxNesting) :=
  ⟨fun _ _ he => encode_depth_le he,
   fun b v hd => encode_depth_le (abi_accepted_canonical b v hd)⟩

/-- **abi_nesting_boundary.** The limit is exact on both sides: a scalar inside exactly `maxNesting`
    arrays encodes (to `81 … 81 f6`) and reads back; one more array is refused by the encoder with
    `NestingLimitExceeded` — it never produces the bytes `81^(max+1) f6`, which the decoder rejects
    with the same error. -/
theorem abi_nesting_boundary :
    encode (nestArr maxNesting .null) = .ok (List.replicate maxNesting 0x81 ++ [0xf6]) ∧
    decode (List.replicate maxNesting 0x81 ++ [0xf6]) = .ok (nestArr maxNesting .null) ∧
    depth (nestArr maxNesting .null) = maxNesting ∧
    encode (nestArr (maxNesting + 1) .null) = .error .nestingLimit ∧
    decode (List.replicate (maxNesting + 1) 0x81 ++ [0xf6]) = .error .nestingLimit := by
  have h1 := enc_nestArr_ok maxNesting 0 (by omega)
  have hn : ∀ n, norm (nestArr n .null) = nestArr n .null := by
    intro n
    induction n with
    | zero => rfl
    | succ n ih => simp only [nestArr, norm, normList, ih]
  have hwf : ∀ n, WF (nestArr n .null) := by
    intro n
    induction n with
    | zero => simp [nestArr, WF]
    | succ n ih => simp [nestArr, WF, WFList, ih]
  refine ⟨h1, ?_, depth_nestArr _, enc_nestArr_err maxNesting 0 (by omega),
    decode_nest_err _ (by omega)⟩
  have := abi_roundtrip _ (hwf maxNesting) _ h1
  rw [hn] at this
  exact this

/-- The encoder's depth parameter only gates: the bytes of a value do not depend on where it sits
    (so a map key's bytes are well defined), and a deeper position never encodes more. -/
theorem abi_enc_depth_monotone {d d' : Nat} {v : Val} {e : Bytes} (h : enc d v = .ok e) (hle : d' ≤ d) :
    enc d' v = .ok e := enc_mono h hle

/-- **float_reader_canonical.** The three float arms in isolation: accepted float bytes are
    re-written bit-identically (shortest exact width, canonical NaN only, integral values refused). -/
theorem float_reader_canonical {info : Nat} {bs rest : Bytes} {v : Val} (d : Nat)
    (hi : info = decF16 ∨ info = decF32 ∨ info = decF64)
    (h : decFloat info bs = .ok (v, rest)) :
    ∃ e, enc d v = .ok e ∧ UInt8.ofNat (224 + info) :: bs = e ++ rest :=
  decFloat_canon d hi h

/-- exact narrowing inverts exact widening on every non-NaN f32 / f16 bit pattern -/
theorem narrow32_widen32 (w : Nat) (hw : w < 2 ^ 32) (hn : isNan (widen32 w) = false) :
    narrow32 (widen32 w) = some w := Cbor.narrow32_widen32 w hw hn

theorem narrow16_widen16 (h : Nat) (hh : h < 2 ^ 16) (hn : isNan (widen16 h) = false) :
    narrow16 (widen16 h) = some h := Cbor.narrow16_widen16 h hh hn

/-- **abi_tag_rejected / abi_indefinite_rejected.** Tags and indefinite-length heads are refused at
    the head, whatever follows. -/
theorem abi_tag_rejected (fuel d : Nat) (info : Nat) (hi : info < 32) (rest : Bytes) :
    dec (fuel + 1) d (UInt8.ofNat (6 * 32 + info) :: rest) = .error .tag := by
  have h1 : (UInt8.ofNat (6 * 32 + info)).toNat / 32 = 6 := by
    simp only [UInt8.toNat_ofNat']; omega
  generalize UInt8.ofNat (6 * 32 + info) = b0 at h1
  rw [dec]
  simp only [h1]
  simp [decTagMajor]

theorem abi_indefinite_rejected (fuel d major : Nat) (hm : major < 6 ∨ major = 7) (rest : Bytes) :
    dec (fuel + 1) d (UInt8.ofNat (major * 32 + 31) :: rest) = .error .indefinite := by
  have h1 : (UInt8.ofNat (major * 32 + 31)).toNat / 32 = major := by
    simp only [UInt8.toNat_ofNat']; omega
  have h2 : (UInt8.ofNat (major * 32 + 31)).toNat % 32 = 31 := by
    simp only [UInt8.toNat_ofNat']; omega
  have h3 : ∀ bs, readLen 31 bs = .error .indefinite := by
    intro bs; simp [readLen, decKind]
  generalize UInt8.ofNat (major * 32 + 31) = b0 at h1 h2
  rw [dec]
  simp only [h1, h2, h3]
  rcases hm with hm | hm
  · have : major = 0 ∨ major = 1 ∨ major = 2 ∨ major = 3 ∨ major = 4 ∨ major = 5 := by omega
    rcases this with rfl | rfl | rfl | rfl | rfl | rfl <;> simp
  · subst hm
    simp [decTagMajor, decFalse, decTrue, decNull, decF16, decF32, decF64, decSimpleIndefinite]

/-! ## little-endian binary records (combinator library, Model/Codec/Comb.lean) -/
section records
open EchoVerif.Codec EchoVerif.Generated.LeMagic

/-- **codec_roundtrip / codec_canonical.** The two generic laws, proved once: every codec built from
    lawful parts (`uintLE`, `fixed`, `pair`, `lenBytes`, `counted`, `option`, `tagged2/3`, `magic`,
    `guard`, `iso` — each preservation lemma is in Lemmas/Codec/Comb.lean) decodes its own encoding
    of an in-domain value back to that value, and accepts as a whole buffer only the encoding of
    the value it returns. -/
theorem codec_roundtrip {α : Type} {c : Codec α} (hc : Lawful c) (a : α) (h : c.dom a) :
    decodeAll c (c.enc a) = some a := decodeAll_roundtrip hc a h

theorem codec_canonical {α : Type} {c : Codec α} (hc : Lawful c) (b : Bytes) (a : α)
    (h : decodeAll c b = some a) : b = c.enc a ∧ c.dom a := decodeAll_canonical hc b a h

example : Lawful (pair (uintLE 4) (option (lenBytes 4 100))) :=
  pair_lawful (uintLE_lawful 4) (option_lawful (lenBytes_lawful 4 100))

/-- **eint_roundtrip.** Whatever `pack_intent_v1` produces, `unpack_intent_v1` returns the same
    op id and payload. -/
theorem eint_roundtrip (op : Nat) (vars b : Bytes) (hop : op < 2 ^ 32)
    (h : packIntent op vars = some b) : unpackIntent b = some (op, vars) := by
  unfold packIntent at h
  split at h
  · cases h
  · split at h
    · cases h
    · rename_i hl
      injection h with h; subst h
      exact decodeAll_roundtrip eint_lawful (op, vars) ⟨by simpa [uintLE] using hop,
        by simp only [lenBytes]; omega⟩

/-- **eint_accepted_canonical.** `unpack_intent_v1` accepts only the exact layout
    "EINT" ‖ op u32 LE ‖ len u32 LE ‖ vars: no trailing bytes, no other length, and the fields are
    in range. -/
theorem eint_accepted_canonical (b : Bytes) (op : Nat) (vars : Bytes)
    (h : unpackIntent b = some (op, vars)) :
    b = eintMagic ++ leBytes 4 op ++ leBytes 4 vars.length ++ vars ∧ op < 2 ^ 32 ∧ vars.length < 2 ^ 32 := by
  obtain ⟨hb, hd⟩ := decodeAll_canonical eint_lawful b (op, vars) h
  refine ⟨by rw [hb]; simp [eint, magic, pair, uintLE, lenBytes], ?_, ?_⟩
  · have : op < 256 ^ 4 := hd.1
    omega
  · have : vars.length < 256 ^ 4 := hd.2.1
    omega

/-- **ingress_roundtrip.** Retained ingress envelope v2, with the reader modelled as the code is
    written: cursor walk, constructor (`sort_unstable` + `dedup` of the causal parents in the derived
    `Ord`), RE-ENCODE, byte comparison with the input.  For every envelope with in-range fields and
    ANY parent list (any order, duplicates allowed), the constructor's envelope is written and read
    back exactly. -/
theorem ingress_roundtrip (e : Envelope) (h : ingressRaw.dom e) :
    fromRetainedV2 (toRetainedV2 (mkEnvelope e)) = some (mkEnvelope e) := by
  have hd := mkEnvelope_dom e h
  unfold fromRetainedV2
  have hr : decodeAll ingressRaw (toRetainedV2 (mkEnvelope e)) = some (mkEnvelope e) :=
    decodeAll_roundtrip ingressRaw_lawful _ hd
  rw [hr]
  simp only [mkEnvelope_idem, if_true]

example : ingressRaw.dom (.inl (List.replicate 32 0), [], List.replicate 32 7, [1, 2, 3]) := by
  simp [ingressRaw, magic, pair, targetCodec, tagged3, fixed, counted, lenBytes]

/-- **ingress_accepted_canonical.** Whatever `from_retained_bytes` (v2) accepts is byte-for-byte
    `to_retained_bytes_v2` of the envelope it returns, that envelope is a fixed point of the
    constructor, and its parents are strictly ascending (so duplicate-free) in the derived `Ord`. -/
theorem ingress_accepted_canonical (b : Bytes) (e : Envelope) (h : fromRetainedV2 b = some e) :
    b = toRetainedV2 e ∧ mkEnvelope e = e ∧ strictlySorted e.2.1 = true ∧ ingressRaw.dom e := by
  unfold fromRetainedV2 at h
  split at h
  · cases h
  · rename_i raw hraw
    simp only at h
    split at h
    · rename_i hre
      injection h with h; subst h
      obtain ⟨_, hd⟩ := decodeAll_canonical ingressRaw_lawful b raw hraw
      exact ⟨hre.symm, mkEnvelope_idem raw, canonParents_sorted _, mkEnvelope_dom raw hd⟩
    · cases h

/-- **ingress_gate_iff_sorted.** The byte-level re-encode gate is equivalent, on EVERY input, to the
    cursor walk followed by the check `parents strictly ascending in the derived Ord` (hashes
    bytewise, ticks NUMERICALLY): the two readers are the same function. -/
theorem ingress_gate_iff_sorted (b : Bytes) : fromRetainedV2 b = decodeAll ingressV2 b :=
  fromRetainedV2_eq_guard b

/-- the gate on the walk's output: re-encoding reproduces the bytes iff the parents were sorted -/
theorem ingress_reencode_iff_sorted (e : Envelope) (h : ingressRaw.dom e) :
    toRetainedV2 (mkEnvelope e) = toRetainedV2 e ↔ strictlySorted e.2.1 = true :=
  reencode_eq_iff_sorted e h

/-- the constructor's canonicalisation: always strictly ascending, idempotent, identity exactly on
    strictly ascending lists -/
theorem ingress_constructor_canonical (ps : List Parent) :
    strictlySorted (canonParents ps) = true ∧ canonParents (canonParents ps) = canonParents ps ∧
    (canonParents ps = ps ↔ strictlySorted ps = true) :=
  ⟨canonParents_sorted ps, canonParents_idem ps,
   fun h => by rw [← h]; exact canonParents_sorted ps, canonParents_of_sorted ps⟩

/-- two same-role parents on one worldline whose ticks are 255 and 256 -/
def tickParent (t : Nat) : Parent :=
  .inl (List.replicate 32 0, t, 0, List.replicate 32 0, List.replicate 32 0, List.replicate 32 0,
    List.replicate 32 0)

/-- **ingress_byte_order_is_not_the_gate.** `retained parent records strictly ascending as raw byte
    strings` is a DIFFERENT relation (tick fields are little-endian): the writer's own order
    [tick 255, tick 256] is not bytewise ascending, and the swapped order is bytewise ascending
    without being canonical.  A reader that checks byte order refuses the first (round trip lost) and
    accepts the second (two encodings of one envelope). -/
theorem ingress_byte_order_is_not_the_gate :
    (strictlySorted [tickParent 255, tickParent 256] = true ∧
      bytesAscending [tickParent 255, tickParent 256] = false) ∧
    (bytesAscending [tickParent 256, tickParent 255] = true ∧
      strictlySorted [tickParent 256, tickParent 255] = false) ∧
    canonParents [tickParent 256, tickParent 255] = [tickParent 255, tickParent 256] := by
  decide +kernel

/-- **ingress_v1_accepted_canonical / ingress_v1_roundtrip.** Legacy `EINGR001` material: accepted
    only when it cites no parent and is the v2 form of the returned envelope under the v1 magic;
    every parentless envelope in that form reads back. -/
theorem ingress_v1_accepted_canonical (b : Bytes) (e : Envelope) (h : fromRetainedV1 b = some e) :
    b = toRetainedV1 e ∧ e.2.1 = [] := by
  unfold fromRetainedV1 at h
  split at h
  · cases h
  · rename_i raw hraw
    split at h
    · cases h
    · simp only at h
      split at h
      · rename_i hre
        injection h with h; subst h
        exact ⟨hre.symm, rfl⟩
      · cases h

theorem ingress_v1_roundtrip (e : Envelope) (h : ingressRaw.dom e) (hp : e.2.1 = []) :
    fromRetainedV1 (toRetainedV1 e) = some e := by
  obtain ⟨t, ps, k, ib⟩ := e
  simp only at hp; subst hp
  have henc : toRetainedV1 (t, [], k, ib) = ingressV1Raw.enc (t, [], k, ib) := by
    simp [toRetainedV1, toRetainedV2, ingressRaw, ingressV1Raw, magic, pair, counted, encMany,
      ingressMagicV1, ingressMagicV2]
  have hd : ingressV1Raw.dom (t, [], k, ib) := ⟨h.1, ⟨by simp, by simp⟩, h.2.2⟩
  have hr := decodeAll_roundtrip ingressV1Raw_lawful _ hd
  unfold fromRetainedV1
  rw [henc, hr]
  simp [mkEnvelope, canonParents, canonBy, sortBy, dedupAdj, ← henc]

/-- **ingress_accepted_any_version.** The dispatching reader: every accepted buffer is the v2 encoding
    of the returned envelope, or (legacy) its parentless v1 form — nothing else. -/
theorem ingress_accepted_any_version (b : Bytes) (e : Envelope) (h : fromRetained b = some e) :
    (b = toRetainedV2 e ∨ (b = toRetainedV1 e ∧ e.2.1 = [])) ∧ strictlySorted e.2.1 = true := by
  unfold fromRetained at h
  split at h
  · cases h
  · split at h
    · obtain ⟨h1, _, h3, _⟩ := ingress_accepted_canonical b e h
      exact ⟨Or.inl h1, h3⟩
    · split at h
      · obtain ⟨h1, h2⟩ := ingress_v1_accepted_canonical b e h
        exact ⟨Or.inr ⟨h1, h2⟩, by rw [h2]; rfl⟩
      · cases h

/-! ### WAL payload records (causal_wal.rs `to_payload_bytes` / `from_payload_bytes`) -/

/-- **walrec_laws.** Submission acceptance, submission envelope, tick receipt v2, retained material,
    reading reference, checkpoint and checkpoint publication records are lawful codecs: each reads
    back every in-range value exactly and accepts, as a whole payload, only the encoding of the
    value it returns (unknown enum codes / option tags / magics, short and trailing bytes refused).
    Enum code tables and magics are extracted (Generated/WalRecMagic.lean). -/
theorem walrec_laws :
    Lawful acceptanceRec ∧ Lawful submissionEnvRec ∧ Lawful tickReceiptRec ∧ Lawful materialRec ∧
    Lawful readingRefRec ∧ Lawful checkpointRec ∧ Lawful checkpointPubRec :=
  ⟨acceptanceRec_lawful, submissionEnvRec_lawful, tickReceiptRec_lawful, materialRec_lawful,
   readingRefRec_lawful, checkpointRec_lawful, checkpointPubRec_lawful⟩

/-- the tick-receipt instance spelled out -/
theorem tick_receipt_accepted_canonical (b : Bytes) (r : TickReceipt)
    (h : decodeAll tickReceiptRec b = some r) :
    b = Generated.WalRecMagic.tickReceiptMagicV2 ++ refCodec.enc r.1 ++ [UInt8.ofNat r.2] ∧
    r.2 ∈ Generated.WalRecMagic.tickDecisionCodes := by
  obtain ⟨hb, hd⟩ := decodeAll_canonical tickReceiptRec_lawful b r h
  have hc : (Generated.WalRecMagic.tickDecisionCodes.contains r.2) = true := hd.2.2
  refine ⟨?_, by simpa using hc⟩
  rw [hb]
  simp [tickReceiptRec, magic, pair, enumByte, Codec.guard, uintLE, leBytes]

/-- **correlation_roundtrip / correlation_accepted_canonical.** Receipt correlation v2: the writer
    canonicalises the cited receipts as a set (sort + dedup in the derived `Ord`), omits the count
    when the set is empty; the reader returns exactly that canonical record for every in-range
    input, and accepts only byte strings the writer produces for the record it returns (explicit
    zero count, unsorted or duplicate references, trailing bytes refused). -/
theorem correlation_roundtrip (c : Correlation) (h : correlationDom c) :
    correlationDec (correlationEnc c) = some (c.1, canonBy refCmp c.2) :=
  Codec.correlation_roundtrip c h

theorem correlation_accepted_canonical (b : Bytes) (c : Correlation) (h : correlationDec b = some c) :
    b = correlationEnc c ∧ strictlyAsc refCmp c.2 = true ∧ correlationDom c :=
  Codec.correlation_canonical b c h

example : correlationDom ((List.replicate 32 0, 1, 2, List.replicate 32 0, List.replicate 32 0,
    List.replicate 32 0, List.replicate 32 0), []) := by
  simp [correlationDom, refCodec, pair, fixed, uintLE]

/-- **wal_commit_accepted_canonical / wal_commit_roundtrip.** WAL commit marker (Model/Wal.lean, the
    model C10 runs against the real segment files): `decode_commit` accepts only `encode_commit` of
    the marker it returns (exact length, known transaction-kind and durability codes), and every
    well-sized marker reads back. -/
theorem wal_commit_accepted_canonical (cfg : Wal.Cfg) (bs : Bytes) (c : Wal.Commit)
    (h : Wal.decodeCommit cfg bs = .ok c) :
    bs = Wal.encodeCommit c ∧ cfg.txKindOk c.txKind = true ∧ cfg.durabilityOk c.durability = true :=
  Wal.decodeCommit_canonical cfg bs c h

theorem wal_commit_roundtrip (cfg : Wal.Cfg) (c : Wal.Commit) (h : Wal.CommitOK cfg c) :
    Wal.decodeCommit cfg (Wal.encodeCommit c) = .ok c := Wal.decodeCommit_encodeCommit cfg c h

/-- **elog_header_canonical / elog_frame_canonical.** The ELOG header reader accepts exactly
    "ELOG" ‖ 01 00 ‖ 00 00 ‖ hash ‖ 0^8; a frame is its u32 LE length (≤ MAX_FRAME_LEN) and payload. -/
theorem elog_header_canonical (b rest : Bytes) (hdr : ElogHeader) (h : elogHeader.dec b = some (hdr, rest)) :
    b = elogHeader.enc hdr ++ rest ∧ hdr.1 = 0 ∧ hdr.2.2 = zeros8 := by
  obtain ⟨hd, hb⟩ := elogHeader_lawful.canonical b hdr rest h
  have hg : (hdr.1 == 0 && hdr.2.2 == zeros8) = true := hd.2
  simp only [Bool.and_eq_true, beq_iff_eq] at hg
  exact ⟨hb, hg.1, hg.2⟩

theorem elog_frame_laws : Lawful elogFrame := elogFrame_lawful

end records

end EchoVerif.C12
