/-
  C13 — decoders and byte-level entry points are total (cost-model part).

  Theorems are about the COST MODEL of each decoder (Model/Cost*.lean); the parameters a one-line
  Rust edit can flip (nesting limit, nesting check, capacity rule) are the values extracted from the
  Rust source on every run (Generated/CostAbi.lean), so such an edit breaks a proof here.
  The ABI cost model's result class is PROVED equal to the functional decoder of C12
  (Model/Codec/Cbor.lean), `abi_cost_class_is_decoder_class`: one classification, two views.
  What is NOT proved (runtime): bytes per stack frame, allocator behaviour, abort — those are
  observed by the isolated-child correspondence run.
-/
import EchoVerif.Lemmas.CostCbor
import EchoVerif.Lemmas.CostCborTie
import EchoVerif.Generated.CostAbi
import EchoVerif.Lemmas.CostEdict
import EchoVerif.Generated.CostEdict
import EchoVerif.Lemmas.CostLe
import EchoVerif.Generated.CostLe

namespace EchoVerif.C13
open EchoVerif EchoVerif.CostCbor

/-! ## ABI canonical CBOR (`echo_wasm_abi::decode_value`) -/

/-- Generic form: with the reserve rule, the capacities requested by one whole decode — on the
    accepting path and on every error path — never exceed the input length (in elements). -/
theorem alloc_le_len (p : Params) (hp : p.capRule = .reserve) (bs : Bytes) :
    (decode p bs).1.alloc ≤ bs.length := by
  have h := decValue_bud hp (rootRoom p bs) 0 bs (St.init bs.length)
  unfold decode
  split <;> rename_i heq <;> rw [heq] at h <;> simp [St.init] at h ⊢ <;> omega

/-- `abi_alloc_linear` (k = 1, c = 0): for EVERY byte string, Σ `Vec::with_capacity` requests of
    the decoder as extracted from the source ≤ input length. Breaks if the cap is removed. -/
theorem abi_alloc_linear (bs : Bytes) :
    (decode Generated.abiCostParams bs).1.alloc ≤ 1 * bs.length + 0 := by
  have := alloc_le_len Generated.abiCostParams rfl bs
  omega

/-- Generic form of the depth bound: no call ever runs deeper than the root's `room`. -/
theorem depth_le_room (p : Params) (bs : Bytes) :
    (decode p bs).1.maxDepth ≤ rootRoom p bs := by
  have h := decValue_dp p (rootRoom p bs) 0 bs (St.init bs.length)
  unfold decode
  split <;> rename_i heq <;> rw [heq] at h <;> simp [St.init] at h ⊢ <;> omega

/-- `abi_depth_bounded`: for EVERY byte string the recursion depth of the decoder is at most the
    extracted `MAX_DECODE_NESTING_DEPTH`, and that constant is small enough for an 8 MiB stack with
    multi-KiB frames (≤ 1024). Breaks if the check is removed from either container arm, if a
    recursive call stops passing `depth + 1`, or if the constant is raised past 1024. -/
theorem abi_depth_bounded (bs : Bytes) :
    (decode Generated.abiCostParams bs).1.maxDepth ≤ Generated.abiCostParams.maxDepth
      ∧ Generated.abiCostParams.maxDepth ≤ 1024 := by
  refine ⟨?_, by decide⟩
  have h := depth_le_room Generated.abiCostParams bs
  have hr : rootRoom Generated.abiCostParams bs = Generated.abiCostParams.maxDepth := by
    have hc : Generated.abiCostParams.depthChecked = true := rfl
    simp [rootRoom, hc]
  omega

/-- `abi_work_linear`: decoder calls + bytes copied out of the input ≤ input length + 1, on every
    path (each `dec_value` call consumes its own head byte; string payloads are consumed once). -/
theorem abi_work_linear (bs : Bytes) :
    (decode Generated.abiCostParams bs).1.steps + (decode Generated.abiCostParams bs).1.copied
      ≤ bs.length + 1 := by
  have h := decValue_wk Generated.abiCostParams (rootRoom Generated.abiCostParams bs) 0 bs (St.init bs.length)
  unfold decode
  split <;> rename_i heq <;> rw [heq] at h <;> simp [St.init, WkR, W] at h ⊢ <;> omega

/-- `abi_terminates`: the model recurses structurally on `room = MAX_DECODE_NESTING_DEPTH − depth`
    (no fuel); the only way to run out of `room` is the typed nesting error, never the model-only
    `fuel` outcome. -/
theorem abi_terminates (bs : Bytes) : (decode Generated.abiCostParams bs).2 ≠ .error .fuel := by
  have h := decValue_nf (p := Generated.abiCostParams) rfl (rootRoom Generated.abiCostParams bs) 0 bs
    (St.init bs.length)
  unfold decode
  split <;> rename_i heq <;> rw [heq] at h <;> simp at h ⊢
  exact h

/-- `abi_cost_class_is_decoder_class`: for EVERY byte string the cost model of the decoder as
    extracted (nesting check present, limit = the limit C12's model extracts) and the functional
    model `Cbor.decode` of property C12 compute the same result class: both accept or both reject,
    and the cost model's typed error (`cls`) is the functional model's `CanonError` class. Every
    C12 theorem about accepted inputs (canonical form, round trip, nesting ≤ limit) therefore
    speaks about exactly the inputs this cost model accepts. Breaks if the two extractors disagree
    on the limit or if either model's classification is edited alone. -/
theorem abi_cost_class_is_decoder_class (bs : Bytes) :
    mapE (decode Generated.abiCostParams bs).2 = unitOf (Cbor.decode bs) :=
  decode_tie Generated.abiCostParams rfl rfl bs

/-- accepted by the cost model ⇔ accepted by the functional decoder -/
theorem abi_cost_accepts_iff (bs : Bytes) :
    (decode Generated.abiCostParams bs).2 = .ok () ↔ ∃ v, Cbor.decode bs = .ok v := by
  have h := abi_cost_class_is_decoder_class bs
  constructor
  · intro hok
    rw [hok] at h
    cases hd : Cbor.decode bs with
    | ok v => exact ⟨v, rfl⟩
    | error e => rw [hd] at h; simp [mapE, unitOf] at h
  · rintro ⟨v, hv⟩
    rw [hv] at h
    exact mapE_ok h

example : (decode Generated.abiCostParams [0x82, 0x01, 0xf9, 0x3e, 0x00]).2 = .ok () := by rfl
example : (decode Generated.abiCostParams [0xf9, 0x7e, 0x01]).2 = .error .nonCanonFloat := by rfl

/-- The measured proportionality bucket follows: 64·alloc + copied ≤ 256·len + 64 KiB. -/
theorem abi_alloc_bucket (bs : Bytes) :
    allocOk (decode Generated.abiCostParams bs).1 bs.length = true := by
  have h1 := abi_alloc_linear bs
  have h2 := abi_work_linear bs
  simp only [allocOk, decide_eq_true_eq]
  omega

/-! ### the defects, on the model of the UNFIXED decoder (no check, declared capacity) -/

def unfixedParams : Params := { maxDepth := 0, depthChecked := false, capRule := .declared }

/-- `9b 00 00 00 ff ff ff ff ff`: nine bytes request 2^40 − 1 elements. -/
theorem unfixed_alloc_unbounded :
    (decode unfixedParams [0x9b, 0, 0, 0, 0xff, 0xff, 0xff, 0xff, 0xff]).1.alloc = 0xffffffffff := by
  decide

/-- … and with the extracted (fixed) parameters the same input may reserve its own length. -/
example : (decode Generated.abiCostParams [0x9b, 0, 0, 0, 0xff, 0xff, 0xff, 0xff, 0xff]).1.alloc = 9 := by
  decide

/-- non-vacuity: an accepted nested value exercises alloc, steps and depth. -/
example :
    let r := decode Generated.abiCostParams [0x82, 0x81, 0x01, 0xa1, 0x61, 0x61, 0xf6]
    r.1.alloc = 4 ∧ r.1.copied = 1 ∧ r.1.steps = 6 ∧ r.1.maxDepth = 2 ∧ r.1.reserve = 3
      ∧ (match r.2 with | .ok _ => true | .error _ => false) = true := by
  decide

/-! ## Edict canonical CBOR (`echo_edict_canonical::decode_canonical_cbor_v1`) -/

section Edict
open EchoVerif.CostEdict

/-- `edict_alloc_bounded`: for EVERY byte string the node reservations that precede every
    `Vec::with_capacity` (length per array, 2·length per map) sum to at most the extracted
    `MAX_CANONICAL_DECODE_NODES_V1`, itself ≤ 2^20. Breaks if a reservation is removed or reordered
    after the allocation, or the budget constant is raised past 2^20. -/
theorem edict_alloc_bounded (bs : Bytes) :
    (CostEdict.decode Generated.edictCostParams bs).1.reserved ≤ Generated.edictCostParams.nodeBudget
      ∧ Generated.edictCostParams.nodeBudget ≤ 1048576 := by
  refine ⟨?_, by decide⟩
  have h := decValue_keeps relResv Generated.edictCostParams (CostEdict.rootRoom Generated.edictCostParams bs)
    (fun st depth st1 _ ht => by
      obtain ⟨h1, _⟩ := tick_ok ht
      subst h1
      rfl)
    (fun n st st2 hr => by
      obtain ⟨h1, h2⟩ := reserve_ok_checked (p := Generated.edictCostParams) rfl hr
      subst h1
      show _ + _ = _ + _
      simp only
      omega)
    (fun st c => rfl)
    (CostEdict.rootRoom Generated.edictCostParams bs) 0 (by omega) bs (CostEdict.St.init Generated.edictCostParams)
  have hq : ∀ a b : CostEdict.St, relResv.Q a b ↔ b.reserved + b.resv = a.reserved + a.resv := fun _ _ => Iff.rfl
  rw [hq] at h
  rw [CostEdict.decode_fst]
  simp [CostEdict.St.init] at h ⊢
  omega

/-- `edict_nodes_bounded`: at most `MAX_CANONICAL_DECODE_NODES_V1` `value` calls, whatever the input. -/
theorem edict_nodes_bounded (bs : Bytes) :
    (CostEdict.decode Generated.edictCostParams bs).1.steps ≤ Generated.edictCostParams.nodeBudget := by
  have h := decValue_keeps relNodes Generated.edictCostParams (CostEdict.rootRoom Generated.edictCostParams bs)
    (fun st depth st1 _ ht => by
      obtain ⟨h1, h2⟩ := tick_ok ht
      subst h1
      show _ + _ = _ + _
      simp only
      omega)
    (fun n st st2 hr => by
      obtain ⟨h1, h2, _⟩ := reserve_ok_fields hr
      show _ + _ = _ + _
      omega)
    (fun st c => rfl)
    (CostEdict.rootRoom Generated.edictCostParams bs) 0 (by omega) bs (CostEdict.St.init Generated.edictCostParams)
  have hq : ∀ a b : CostEdict.St, relNodes.Q a b ↔ b.steps + b.nodes = a.steps + a.nodes := fun _ _ => Iff.rfl
  rw [hq] at h
  rw [CostEdict.decode_fst]
  simp [CostEdict.St.init] at h ⊢
  omega

/-- `edict_depth_bounded`: recursion depth ≤ extracted `MAX_CANONICAL_NESTING_DEPTH_V1` (≤ 1024). -/
theorem edict_depth_bounded (bs : Bytes) :
    (CostEdict.decode Generated.edictCostParams bs).1.maxDepth ≤ Generated.edictCostParams.maxDepth
      ∧ Generated.edictCostParams.maxDepth ≤ 1024 := by
  refine ⟨?_, by decide⟩
  have hr : CostEdict.rootRoom Generated.edictCostParams bs = Generated.edictCostParams.maxDepth := by
    have hc : Generated.edictCostParams.depthChecked = true := rfl
    simp [CostEdict.rootRoom, hc]
  have h := decValue_keeps (relDepth Generated.edictCostParams.maxDepth) Generated.edictCostParams
    Generated.edictCostParams.maxDepth
    (fun st depth st1 hd ht => by
      obtain ⟨h1, _⟩ := tick_ok ht
      subst h1
      show _ ≤ _
      simp only
      omega)
    (fun n st st2 hr => by
      obtain ⟨_, _, h3⟩ := reserve_ok_fields hr
      show _ ≤ _
      omega)
    (fun st c => by show _ ≤ _; simp only; omega)
    (CostEdict.rootRoom Generated.edictCostParams bs) 0 (by omega) bs (CostEdict.St.init Generated.edictCostParams)
  have hq : ∀ a b : CostEdict.St, (relDepth Generated.edictCostParams.maxDepth).Q a b ↔
      b.maxDepth ≤ max a.maxDepth Generated.edictCostParams.maxDepth := fun _ _ => Iff.rfl
  rw [hq] at h
  rw [CostEdict.decode_fst]
  simp [CostEdict.St.init] at h ⊢
  omega

/-- `edict_terminates`: structural recursion on the remaining depth; `fuel` is unreachable. -/
theorem edict_terminates (bs : Bytes) :
    (CostEdict.decode Generated.edictCostParams bs).2 ≠ .error .fuel := by
  have h := CostEdict.decValue_nf (p := Generated.edictCostParams) rfl
    (CostEdict.rootRoom Generated.edictCostParams bs) 0 bs (CostEdict.St.init Generated.edictCostParams)
  exact CostEdict.decode_snd_fuel _ _ h

/-- non-vacuity: `{1: [2, 3]}` is accepted and exercises every counter. -/
example :
    let r := CostEdict.decode Generated.edictCostParams [0xa1, 0x01, 0x82, 0x02, 0x03]
    r.1.reserved = 4 ∧ r.1.steps = 5 ∧ r.1.maxDepth = 2
      ∧ (match r.2 with | .ok _ => true | .error _ => false) = true := by
  decide

end Edict

/-! ## LE `Reader` (`echo_wasm_abi::codec`): `read_list` and the length-prefixed reads -/

section Le
open EchoVerif.CostLe

/-- `le_alloc_linear`: for EVERY byte string, decoding the two-level schema `Doc` with the real
    combinators requests at most 2·len elements of `Vec` capacity in total (2 = list nesting of the
    schema; each `read_list` level adds 1, `list_inv`). Stated over the EXTRACTED capacity rule of
    `read_list`; breaks if `min(count, remaining)` is replaced by `count`. -/
theorem le_alloc_linear (bs : Bytes) :
    (CostLe.decode Generated.leCapRule bs).1.alloc ≤ 2 * bs.length + 0 := by
  have hr : Generated.leCapRule = .capped := rfl
  rw [hr]
  have h := doc_inv bs CostLe.St.init
  unfold CostLe.decode
  generalize doc .capped bs CostLe.St.init = r at h ⊢
  obtain ⟨st, _ | rest⟩ := r
  · simp only [InvR, CostLe.St.init] at h ⊢; omega
  · cases rest with
    | nil => simp only [InvR, CostLe.St.init] at h ⊢; omega
    | cons a t => simp only [InvR, CostLe.St.init] at h ⊢; omega

/-- the combinator law behind it, for any element decoder: `read_list` over an element decoder
    that is `d`-linear and consumes ≥ 1 byte per element is `(d+1)`-linear. -/
theorem le_read_list_level {d : Nat} {f : Dec} (hf : Inv d f) (hp : Prog f) :
    Inv (d + 1) (list .capped f) := list_inv hf hp

/-- negation witness for the unchecked rule: 4 bytes request 2^32 − 1 elements. -/
theorem le_declared_unbounded :
    (list .declared (skip 1) [0xff, 0xff, 0xff, 0xff] CostLe.St.init).1.alloc = 4294967295 := by
  decide

example : (CostLe.decode Generated.leCapRule
    [7, 1, 0, 0, 0, 0x61, 1, 0, 0, 0, 2, 1, 2, 0, 0, 0, 1, 0, 2, 0, 0, 0, 0, 0, 0, 0]).1.elems = 3 := by
  decide

end Le

end EchoVerif.C13
