/-
  C06 — the state root commits to exactly the reachable state.
  PROPERTY THEOREMS ONLY (helpers: Lemmas/Root.lean, Lemmas/RootContent.lean).
  Model: Model/Root.lean; extracted constants: Generated/RootTags.lean.
-/
import EchoVerif.Lemmas.RootContent
import EchoVerif.Lemmas.RootBytes
import EchoVerif.Lemmas.RootWf
import EchoVerif.Lemmas.RootAccum
import EchoVerif.Lemmas.RootObs
import EchoVerif.Lemmas.RootAccumOps
import EchoVerif.Lemmas.WscFile

namespace EchoVerif.C06
open EchoVerif EchoVerif.Graph EchoVerif.Root

/-- **bfs_sound.** Everything `collect_reachable_graph` inserts is reachable from the root along
    out-edges and descended portals (α slot of a visited node, β slot of an out-edge). -/
theorem bfs_sound (s : WState) (r k : NKey) (h : k ∈ (reach s r).nodes) :
    Reach (storeView s) r k :=
  ((reach_exact s r).2.1 k).mp h

/-- **bfs_complete.** With the fuel the model supplies (number of edge targets + instances + 2) the
    loop ends because the queue is empty, and the visited sets are exactly the least fixed point:
    every reachable key and every reachable warp has been inserted. -/
theorem bfs_complete (s : WState) (r : NKey) :
    (reach s r).queue = [] ∧
    (∀ k, Reach (storeView s) r k → k ∈ (reach s r).nodes) ∧
    (∀ c, ReachW (storeView s) r c → c ∈ (reach s r).warps) :=
  ⟨(reach_exact s r).1, fun k h => ((reach_exact s r).2.1 k).mpr h,
    fun c h => ((reach_exact s r).2.2 c).mpr h⟩

/-- the accumulator's `compute_reachability` is exact as well (over its own flat tables) -/
theorem bfs_exact_accum (a : Acc) (r : NKey) :
    (accReach a r).queue = [] ∧
    (∀ k, k ∈ (accReach a r).nodes ↔ Reach (accView a) r k) ∧
    (∀ c, c ∈ (accReach a r).warps ↔ ReachW (accView a) r c) :=
  accReach_exact a r

/-- **root_fun_of_reachable.** The hashed stream is a function of the abstract reachable content. -/
theorem root_fun_of_reachable (s s' : WState) (r r' : NKey) (h : content s r = content s' r') :
    rootPreimage s r = rootPreimage s' r' := by
  unfold rootPreimage rootBytes; rw [h]

/-- **root_ignores_unreachable.** If another state reads the same at every *reachable* key
    (out-edges with their β slots, α slot, instance roots behind its portals) and has the same
    rows for every *reachable* warp, the stream is identical — whatever else differs
    (unreachable nodes, edges, attachments, instances, fuel, storage). -/
theorem root_ignores_unreachable (s s' : WState) (r : NKey)
    (hag : ∀ k, Reach (storeView s) r k → AgreeAt (storeView s) (storeView s') k)
    (hinst : ∀ c, ReachW (storeView s) r c →
      storeInst s' (reach s r).nodes c = storeInst s (reach s r).nodes c) :
    rootPreimage s' r = rootPreimage s r := by
  unfold rootPreimage; rw [rootBytes_congr s s' r hag hinst]

/-- **add_unreachable_node.** Inserting a node (of any type) that is not reachable from the root
    leaves the pre-image unchanged. -/
theorem add_unreachable_node (s : WState) (r : NKey) (w n ty : Nat) (st : Store)
    (hst : s.store? w = some st) (hfresh : SMap.find? n st.nodes = none)
    (hun : ¬ Reach (storeView s) r (w, n)) :
    rootPreimage (s.putStore w { st with nodes := SMap.insert n ty st.nodes }) r = rootPreimage s r := by
  unfold rootPreimage; rw [Root.add_unreachable_node s r w n ty st hst hfresh hun]

/-- **replace_unreachable_instance.** Creating, or replacing wholesale (record, nodes, edges,
    attachments), an instance that no reachable portal descends into leaves the pre-image unchanged. -/
theorem replace_unreachable_instance (s : WState) (r : NKey) (inst : Instance) (st : Store)
    (hun : ¬ ReachW (storeView s) r inst.warp) :
    rootPreimage (upsertInstanceWith s inst st) r = rootPreimage s r := by
  unfold rootPreimage; rw [Root.replace_unreachable_instance s r inst st hun]

/-- **build_order_free.** A map (nodes, edges by id, either attachment plane) built by inserting rows
    in arrival order is the same for every arrival order of rows with distinct ids; hence so are the
    store, the state and the pre-image (the model keeps no other trace of insertion order: buckets
    are re-sorted by edge id before hashing, as `sorted_edges.sort_by` does). -/
theorem build_order_free {ν : Type} {xs ys : List (Nat × ν)} (hp : xs.Perm ys)
    (hd : xs.Pairwise (fun a b => a.1 ≠ b.1)) : buildMap xs = buildMap ys := by
  unfold buildMap
  exact foldl_perm_of_comm (fun m (p : Nat × ν) => SMap.insert p.1 p.2 m) SMap.Sorted
    (fun a b => a.1 ≠ b.1) (fun h => fun e => h e.symm) (fun m p h => SMap.sorted_insert _ _ h)
    (fun m a b h hab => SMap.insert_comm b.2 a.2 (fun e => hab e.symm) h) hp hd [] trivial

/-- **stream_format_agrees.** The accumulator's stream uses the same domain prefix and the same tag
    bytes as `snapshot::compute_state_root` (all extracted from the source on every run), and the
    tag table is prefix-free (None≠Some, Atom≠Descend, Node≠Edge, Alpha≠Beta). -/
theorem stream_format_agrees :
    accumTags = storeTags ∧
    Generated.RootTags.accumHasDomain = Generated.RootTags.storeHasDomain ∧
    Generated.RootTags.storeHasDomain = true ∧
    Generated.RootTags.domainStateRoot.length = 19 ∧
    TagsOk storeTags := by
  refine ⟨by decide, by decide, by decide, by decide, ⟨by decide, by decide, by decide, by decide, by decide⟩⟩

/-- **accum_agrees.** For every state with sorted maps in which every instance record has a store
    (what `WarpState::upsert_instance` maintains), and every root key: the accumulator's table-driven
    byte stream (`from_warp_state` + `compute_reachability` + `compute_state_root` over the flat
    tables: global node/edge tables filtered by warp, edges filtered by source AND target and
    regrouped by source) is the store path's stream. No hypothesis on the content walk is left:
    the read-views coincide at every key, the fuels coincide, and the regrouped buckets equal the
    store's buckets because the visited set is closed under out-edges (`reach_closed`). -/
theorem accum_agrees (s : WState) (r : NKey) (hs : s.SortedAll)
    (hk : ∀ w, (SMap.find? w s.instances).isSome = true → (s.store? w).isSome = true) :
    accumPreimage s r = rootPreimage s r := by
  unfold accumPreimage rootPreimage accumBytes rootBytes
  rw [accContent_ofState hs hk r, stream_format_agrees.1, stream_format_agrees.2.1]

/-- **accum_agrees_ops.** For every state in which the instance table and the store set are in step
    (`AccWF`: sorted maps, same key sets, instances stored under their own warp id — what `WarpState`
    maintains and every accepted op preserves) and EVERY op list the store accepts
    (`apply_ops_to_state`, portal validation included): `SnapshotAccumulator::apply_ops` does not hit
    any of its `assert!`/`panic!` sites, ends in exactly `from_warp_state` of the store's post-state,
    and its table-driven pre-image is the store path's pre-image of the post-state. By induction over
    the op list; per op the flat tables are compared by sortedness + lookup (`Tracks`). -/
theorem accum_agrees_ops (s s' : WState) (ops : List Op) (r : NKey) (hw : AccWF s)
    (h : applyOps s ops = .ok s') :
    (Acc.ofState s).applyOps ops = some (Acc.ofState s') ∧ AccWF s' ∧
    accPreimageOf (Acc.ofState s') r = rootPreimage s' r := by
  obtain ⟨h1, h2⟩ := applyOps_acc hw h
  refine ⟨h1, h2, ?_⟩
  obtain ⟨a', ha, hb⟩ := Root.accum_agrees_ops hw h r
  rw [h1] at ha
  cases ha
  unfold accPreimageOf rootPreimage
  rw [hb]

/-- the hypothesis of `accum_agrees` is needed: with an instance record but no store the production
    store path skips the warp (`debug_assert!(false); continue`) while the accumulator hashes its
    header — the two streams differ. -/
def exNoStore : WState :=
  { stores := [(1, { nodes := [(1, 7)], edges := [], nodeAtt := [(1, .descend 2)], edgeAtt := [] })],
    instances := [(1, { warp := 1, root := 1, parent := none }),
                  (2, { warp := 2, root := 5, parent := some (AttKey.nodeAlpha 1 1) })] }

theorem accum_needs_store : accumBytes exNoStore (1, 1) ≠ rootBytes exNoStore (1, 1) := by
  decide +kernel

/-- **root_injective_multi_partial.** For well-formed states (`StateOk`: ids < 2^256, lengths < 2^64,
    sorted node maps, no dangling edge sources): equal pre-images ⇒ equal reachable content, provided
    both contents have the same number of instance entries and, per entry, the same numbers of node
    entries and buckets. The hypothesis cannot be dropped: `root_not_injective_multi`. -/
theorem root_injective_multi_partial (s s' : WState) (r r' : NKey)
    (hs : StateOk s) (hs' : StateOk s') (hr : IdOk r.1 ∧ IdOk r.2) (hr' : IdOk r'.1 ∧ IdOk r'.2)
    (hsh : Lock Root.SameShape (content s r).insts (content s' r').insts)
    (h : rootBytes s r = rootBytes s' r') : content s r = content s' r' := by
  unfold rootBytes at h
  exact encode_inj_shape stream_format_agrees.2.2.2.2 (content_ok hs hr).1 (content_ok hs' hr').1 hsh
    (List.append_cancel_left h)

/-- **root_injective_single.** Well-formed states with one reachable instance on both sides (no
    descended portal): equal pre-images ⇒ equal reachable content, with no assumption on counts —
    node ids ascend strictly and every bucket source is a listed node, which forces the parse. -/
theorem root_injective_single (s s' : WState) (r r' : NKey)
    (hs : StateOk s) (hs' : StateOk s') (hr : IdOk r.1 ∧ IdOk r.2) (hr' : IdOk r'.1 ∧ IdOk r'.2)
    {i i' : InstC} (hi : (content s r).insts = [i]) (hi' : (content s' r').insts = [i'])
    (h : rootBytes s r = rootBytes s' r') : content s r = content s' r' := by
  unfold rootBytes at h
  have hc := content_ok hs hr
  have hc' := content_ok hs' hr'
  exact encode_inj_single stream_format_agrees.2.2.2.2 hc.1 hc'.1 hi hi'
    (hc.2 i (by rw [hi]; simp)) (hc'.2 i' (by rw [hi']; simp)) (List.append_cancel_left h)

/-- **root_injective_typed.** Multi-instance injectivity with NO hypothesis on counts or shapes:
    if some predicate `W` holds of every instance's warp id and of no node id (in both states), equal
    pre-images imply equal reachable content. The colliding pair of C06-H violates exactly this (a
    node whose id is another instance's warp id). -/
theorem root_injective_typed (W : Nat → Prop) (s s' : WState) (r r' : NKey)
    (hs : StateOk s) (hs' : StateOk s') (hr : IdOk r.1 ∧ IdOk r.2) (hr' : IdOk r'.1 ∧ IdOk r'.2)
    (ht : TypedIds W s) (ht' : TypedIds W s')
    (h : rootBytes s r = rootBytes s' r') : content s r = content s' r' := by
  unfold rootBytes at h
  exact encode_inj_regime stream_format_agrees.2.2.2.2 hs hs' hr hr' (Regime.typed W ht ht')
    (List.append_cancel_left h)

/-- **root_injective_hashed_ids.** Id universes produced like `make_warp_id` / `make_node_id`
    (`Hid (prefix ++ label)` with two different prefixes of equal length — `b"warp:"`, `b"node:"` —
    and a collision-free `Hid`): equal pre-images imply equal reachable content. -/
theorem root_injective_hashed_ids (Hid : Bytes → Nat) (hH : Function.Injective Hid) (wp np : Bytes)
    (hl : wp.length = np.length) (hne : wp ≠ np) (s s' : WState) (r r' : NKey)
    (hs : StateOk s) (hs' : StateOk s') (hr : IdOk r.1 ∧ IdOk r.2) (hr' : IdOk r'.1 ∧ IdOk r'.2)
    (hw : ∀ p, p ∈ s.instances → ∃ l, p.2.warp = Hid (wp ++ l))
    (hn : ∀ ws, ws ∈ s.stores → ∀ n, n ∈ ws.2.nodes → ∃ l, n.1 = Hid (np ++ l))
    (hw' : ∀ p, p ∈ s'.instances → ∃ l, p.2.warp = Hid (wp ++ l))
    (hn' : ∀ ws, ws ∈ s'.stores → ∀ n, n ∈ ws.2.nodes → ∃ l, n.1 = Hid (np ++ l))
    (h : rootBytes s r = rootBytes s' r') : content s r = content s' r' := by
  refine root_injective_typed (fun n => ∃ l', n = Hid (wp ++ l')) s s' r r' hs hs' hr hr'
    ⟨hw, ?_⟩ ⟨hw', ?_⟩ h
  · intro ws hws n hnm
    obtain ⟨l, e⟩ := hn ws hws n hnm
    rw [e]; exact hashed_ids_typed Hid hH wp np hl hne l
  · intro ws hws n hnm
    obtain ⟨l, e⟩ := hn' ws hws n hnm
    rw [e]; exact hashed_ids_typed Hid hH wp np hl hne l

example : ([119, 97, 114, 112, 58] : Bytes).length = ([110, 111, 100, 101, 58] : Bytes).length ∧
    ([119, 97, 114, 112, 58] : Bytes) ≠ [110, 111, 100, 101, 58] := by decide

/-- **root_sensitive.** For well-formed states (`StateOk`, sorted maps, instances stored under their
    own warp id) in any regime in which the stream is injective (`Regime`: typed id universe, OR equal
    shapes, OR one reachable instance each — outside them C06-H applies): EVERY single semantic
    difference at a reachable element changes the pre-image, and the digest under a collision-free
    hash. One constructor of `Differs` per kind, each general in state/element/value:
    * root key — `r ≠ r'`;
    * instance root / parent key / plane / record removed — `Differs.inst` (`differs_set_instance`);
    * node type, node removed from the reachable set — `Differs.node` left (`differs_set_node_type`);
    * α attachment presence / Atom↔Descend / type id / bytes / length / portal target —
      `Differs.node` right (`differs_set_node_att`);
    * edge type / target / source, edge removed — `Differs.edge` left (`differs_set_edge`,
      `differs_delete_edge`); β attachment (all of the above kinds) — `Differs.edge` right
      (`differs_set_edge_att`);
    * node / edge / instance ADDED to the reachable set — the same constructors with the two states
      exchanged (third disjunct). -/
theorem root_sensitive {D : Type} (H : Bytes → D) (hH : Function.Injective H)
    (s s' : WState) (r r' : NKey)
    (hs : StateOk s) (hs' : StateOk s') (hr : IdOk r.1 ∧ IdOk r.2) (hr' : IdOk r'.1 ∧ IdOk r'.2)
    (hsa : s.SortedAll) (hsa' : s'.SortedAll) (hk : WarpKeyed s) (hk' : WarpKeyed s')
    (hreg : Regime s s' r r')
    (hd : r ≠ r' ∨ Differs s s' r ∨ Differs s' s r') :
    H (rootBytes s r) ≠ H (rootBytes s' r') := by
  intro h
  have hb := hH h
  unfold rootBytes at hb
  have hc := encode_inj_regime stream_format_agrees.2.2.2.2 hs hs' hr hr' hreg (List.append_cancel_left hb)
  have h1 := content_eq_no_diff hsa' hk hk' hc
  have h2 := content_eq_no_diff hsa hk' hk hc.symm
  rcases hd with hd | hd | hd
  · exact hd h1.1
  · exact h1.2 hd
  · exact h2.2 hd

example : Function.Injective (id : Bytes → Bytes) := fun _ _ h => h

/-! ### the colliding pair of DESIGN §7-H (ids are the big-endian values of the 32-byte ids) -/

def hA : Nat := 0x000000000000000000000000000000000000000000000000000000000000009b
def hB : Nat := 0x0100000000000000000000000000000000000000000000000000000000000000
def hRB1 : Nat := 0x0100000000000000555555555555555555555555555555555555555555555555
def hN : Nat := 0x0000000000010166666666666666666666666666666666666666666666666666
def hTyN : Nat := 0x77777777777777dc000000000000008888888888888888888888888888888888
def hE2 : Nat := 0x5555555555555555555555555555555555555555555555550101010000000000
def hPay1 : Bytes := [0, 0, 0, 0, 0, 0, 0, 0, 0, 0, 0, 0, 0, 0, 0, 0, 0, 0, 0, 0, 0, 0, 0, 0, 0, 0, 0, 0, 0, 0, 0, 0, 0, 0, 0, 0, 0, 0, 0, 0, 0, 0, 0, 0, 0, 0, 0, 0, 0, 0, 0, 0, 0, 0, 0, 0, 0, 17, 17, 17, 17, 17, 17, 17, 17, 17, 17, 17, 17, 17, 17, 17, 17, 17, 17, 17, 17, 17, 17, 17, 17, 17, 17, 17, 17, 17, 17, 17, 17, 0, 1, 0, 0, 0, 0, 0, 0, 0, 0, 0, 0, 0, 0, 0, 0, 0, 0, 0, 0, 0, 0, 0, 0, 0, 0, 0, 0, 0, 0, 0, 0, 0, 34, 34, 34, 34, 34, 34, 34, 34, 34, 34, 34, 34, 34, 34, 34, 34, 34, 34, 34, 34, 34, 34, 34, 34, 34, 34, 34, 34, 34, 34, 34, 34, 0]
def hPay2 : Bytes := [136, 136, 136, 136, 136, 136, 136, 136, 136, 136, 136, 136, 136, 136, 136, 136, 136, 0, 1, 0, 0, 0, 0, 0, 0, 0, 85, 85, 85, 85, 85, 85, 85, 85, 85, 85, 85, 85, 85, 85, 85, 85, 85, 85, 85, 85, 85, 85, 85, 85, 153, 153, 153, 153, 153, 153, 153, 153, 153, 153, 153, 153, 153, 153, 153, 153, 153, 153, 153, 153, 153, 153, 153, 153, 153, 153, 153, 153, 153, 153, 153, 153, 0, 1, 0, 0, 0, 0, 0, 0, 0, 85, 85, 85, 85, 85, 85, 85, 85, 85, 85, 85, 85, 85, 85, 85, 85, 85, 85, 85, 85, 85, 85, 85, 85, 1, 0, 0, 0, 0, 0, 0, 0, 170, 170, 170, 170, 170, 170, 170, 170, 170, 170, 170, 170, 170, 170, 170, 170, 170, 170, 170, 170, 170, 170, 170, 170, 170, 170, 170, 170, 170, 170, 170, 170, 187, 187, 187, 187, 187, 187, 187, 187, 187, 187, 187, 187, 187, 187, 187, 187, 187, 187, 187, 187, 187, 187, 187, 187, 187, 187, 187, 187, 187, 187, 187, 187, 0, 0, 0, 0, 0, 1, 1, 102, 102, 102, 102, 102, 102, 102, 102, 102, 102, 102, 102, 102, 102, 102, 102, 102, 102, 102, 102, 102, 102, 102, 102, 102, 0]
def hParentB : Option AttKey := some (AttKey.nodeAlpha hA 0)

/-- c1: instance A = two nodes + one edge, instance B = two nodes + one edge -/
def collide1 : WState :=
  { stores := [
      (hA, { nodes := [(0, 0x0707070707070707070707070707070707070707070707070707070707070707), (hB, 0)],
             edges := [(0x3333333333333333333333333333333333333333333333333333333333333333, { src := 0, dst := hB, ty := 0x4444444444444444444444444444444444444444444444444444444444444444 })],
             nodeAtt := [(0, .descend hB), (hB, .atom 0x0100000000000000000000000000000000000000000000000000000000000000 hPay1)],
             edgeAtt := [] }),
      (hB, { nodes := [(hN, hTyN), (hRB1, 0x9999999999999999999999999999999999999999999999999999999999999999)],
             edges := [(0xaaaaaaaaaaaaaaaaaaaaaaaaaaaaaaaaaaaaaaaaaaaaaaaaaaaaaaaaaaaaaaaa, { src := hRB1, dst := hN, ty := 0xbbbbbbbbbbbbbbbbbbbbbbbbbbbbbbbbbbbbbbbbbbbbbbbbbbbbbbbbbbbbbbbb })],
             nodeAtt := [], edgeAtt := [] })],
    instances := [(hA, { warp := hA, root := 0, parent := none }),
                  (hB, { warp := hB, root := hRB1, parent := hParentB })] }

/-- c2: instance A = one node, instance B = two nodes + two edges (one carrying a 220-byte atom) -/
def collide2 : WState :=
  { stores := [
      (hA, { nodes := [(0, 0x0707070707070707070707070707070707070707070707070707070707070707)], edges := [], nodeAtt := [(0, .descend hB)], edgeAtt := [] }),
      (hB, { nodes := [(0, 0x1111111111111111111111111111111111111111111111111111111111111111), (hB, 0x2222222222222222222222222222222222222222222222222222222222222222)],
             edges := [(0x3333333333333333333333333333333333333333333333333333333333333333, { src := 0, dst := hB, ty := 0x4444444444444444444444444444444444444444444444444444444444444444 }), (hE2, { src := hB, dst := 0, ty := 0x00000000000000000000000000000000000000000000000000009b0000000000 })],
             nodeAtt := [],
             edgeAtt := [(hE2, .atom 0x6666666666666666666666666666666666666666666666666677777777777777 hPay2)] })],
    instances := [(hA, { warp := hA, root := 0, parent := none }),
                  (hB, { warp := hB, root := 0, parent := hParentB })] }

/-- **root_not_injective_multi.** The unrestricted claim is false of the code: two well-formed,
    fully reachable two-instance states with different reachable content and byte-identical
    pre-images (shapes (2 nodes,1 bucket)+(2,1) versus (1,0)+(2,2)). Replayed on the real
    `compute_state_root` by corpus/C06/collision.case (known finding C06-H). -/
theorem root_not_injective_multi :
    content collide1 (hA, 0) ≠ content collide2 (hA, 0) ∧
    rootBytes collide1 (hA, 0) = rootBytes collide2 (hA, 0) ∧
    accumBytes collide1 (hA, 0) = accumBytes collide2 (hA, 0) := by
  refine ⟨by decide +kernel, by decide +kernel, by decide +kernel⟩

/-! ### non-vacuity -/

def exState : WState :=
  { stores := [(1, { nodes := [(1, 7), (2, 7), (5, 8)],
                     edges := [(9, { src := 1, dst := 2, ty := 3 })],
                     nodeAtt := [(2, .atom 4 [1, 2])], edgeAtt := [] })],
    instances := [(1, { warp := 1, root := 1, parent := none })] }

example : (reach exState (1, 1)).nodes.length = 2 := by decide
example : ¬ Reach (storeView exState) (1, 1) (1, 5) :=
  fun h => absurd (((reach_exact exState (1, 1)).2.1 _).mpr h) (by decide)
example : ∃ i, (content exState (1, 1)).insts = [i] ∧ i.nodes.length = 2 ∧ i.buckets.length = 1 :=
  ⟨_, rfl, by decide, by decide⟩
example : StateOk exState := by
  refine ⟨?_, by decide⟩
  intro p hp
  simp only [exState, List.mem_singleton] at hp
  subst hp
  exact ⟨by simp [SMap.Sorted, SMap.Above, LinOrd.lt], by decide, by decide, by decide, by decide,
    by decide, by decide⟩
def exStore : Store :=
  { nodes := [(1, 7), (2, 7), (5, 8)], edges := [(9, { src := 1, dst := 2, ty := 3 })],
    nodeAtt := [(2, .atom 4 [1, 2])], edgeAtt := [] }
example : Differs exState (exState.putStore 1 { exStore with nodes := SMap.insert 2 9 exStore.nodes }) (1, 1) :=
  differs_set_node_type (ty := 7) (ty' := 9) (st := exStore) (inst := { warp := 1, root := 1, parent := none })
    (((reach_exact exState (1, 1)).2.1 (1, 2)).mp (by decide)) (by decide) (by decide) (by decide) (by decide)
example : Regime exState exState (1, 1) (1, 1) := Regime.single _ _ rfl rfl
example : TypedIds (fun n => n = hA ∨ n = hB) collide2 → False := fun h =>
  h.nodes _ (List.mem_cons_of_mem _ List.mem_cons_self) (hB, _) (List.mem_cons_of_mem _ List.mem_cons_self) (Or.inr rfl)
example : ContentOk (content collide1 (hA, 0)) ∧ ContentOk (content collide2 (hA, 0)) := by decide +kernel
example : exState.SortedAll ∧ ∀ w, (SMap.find? w exState.instances).isSome = true → (exState.store? w).isSome = true := by
  refine ⟨⟨by simp [exState, SMap.Sorted, SMap.Above], ?_⟩, ?_⟩
  · intro w st h
    have : (w, st) ∈ exState.stores := SMap.find?_mem h
    simp only [exState, List.mem_singleton, Prod.mk.injEq] at this
    obtain ⟨_, rfl⟩ := this
    simp [Store.Sorted4, SMap.Sorted, SMap.Above, LinOrd.lt]
  · intro w h
    have : w = 1 := by
      cases hf : SMap.find? w exState.instances with
      | none => rw [hf] at h; cases h
      | some i =>
        have := SMap.find?_mem hf
        simp only [exState, List.mem_singleton, Prod.mk.injEq] at this
        exact this.1
    subst this; decide

end EchoVerif.C06

/-! ### the columnar snapshot format (Model/WscFile.lean, Lemmas/WscFile.lean; statements there) -/
namespace EchoVerif.C06
open EchoVerif EchoVerif.Graph EchoVerif.WscFile

/-- **wsc_layout_agrees.** struct sizes, field lists, magic, tag bytes and alignment extracted from
    wsc/{types,write,build}.rs are the ones the model's row encoders implement. -/
theorem wsc_layout_agrees : type_of% @layout_agrees := @layout_agrees
/-- **wsc_build_ok.** for every `WscOk` store `build_one_warp_input` hits neither the root assert nor
    the `edge_ix` expect. -/
theorem wsc_build_ok : type_of% @build_ok := @build_ok
/-- **wsc_rows_roundtrip.** for every `WscOk` store the rows / index ranges / blob arena of
    `build_one_warp_input` rebuild exactly the store and the root through the view accessors. -/
theorem wsc_rows_roundtrip : type_of% @toStore_build := @toStore_build
/-- **wsc_build_injective.** two `WscOk` stores with the same rows are equal (with their roots). -/
theorem wsc_build_injective : type_of% @build_injective := @build_injective
/-- **wsc_write_ok.** for every input the size assertion of `write_wsc_one_warp` holds and the file is
    header ‖ dir entry ‖ nine sections with no padding byte. -/
theorem wsc_write_ok : type_of% @write_ok := @write_ok
/-- **wsc_build_order_free.** (rfl-like on the model: a `Store` has no insertion order; the real-code
    claim is the oracle key `C06.wscb.order-dependent`.) -/
theorem wsc_build_order_free : type_of% @WscFile.wsc_build_order_free := @WscFile.wsc_build_order_free
/-- **wsc_roundtrip_partial.** build ok, write ok and flat, rows rebuild the store, node/edge
    sections decode. MISSING: composition through `readFile`/`viewNew` and `validateView` accepting
    build's rows (tie + oracle + kernel-checked example only). -/
theorem wsc_roundtrip_partial : type_of% @WscFile.wsc_roundtrip_partial := @WscFile.wsc_roundtrip_partial
example : WscOk sample 2 := sample_ok

end EchoVerif.C06
