/-
  C06 — the state root commits to exactly the reachable state.
  PROPERTY THEOREMS ONLY (helpers: Lemmas/Root.lean, Lemmas/RootContent.lean).
  Model: Model/Root.lean; extracted constants: Generated/RootTags.lean.
-/
import EchoVerif.Lemmas.RootContent
import EchoVerif.Lemmas.RootBytes
import EchoVerif.Lemmas.RootWf

namespace EchoVerif.C06
open EchoVerif EchoVerif.Graph EchoVerif.Root

/-- **bfs_sound.** Everything `collect_reachable_graph` inserts is reachable from the root along
    out-edges and descended portals (α slot of a visited node, β slot of an out-edge). -/
theorem bfs_sound (s : WState) (r k : NKey) (h : k ∈ (reach s r).nodes) :
    Reach (storeView s) r k :=
  ((reach_exact s r).2.1 k).mp h

/-- **bfs_complete.** With the fuel the model supplies (number of edge targets + instances + 2) the
    loop ends because the queue is empty, and the visited sets are exactly the least fixed point:
    every reachable key and every reachable warp has been inserted. -/
theorem bfs_complete (s : WState) (r : NKey) :
    (reach s r).queue = [] ∧
    (∀ k, Reach (storeView s) r k → k ∈ (reach s r).nodes) ∧
    (∀ c, ReachW (storeView s) r c → c ∈ (reach s r).warps) :=
  ⟨(reach_exact s r).1, fun k h => ((reach_exact s r).2.1 k).mpr h,
    fun c h => ((reach_exact s r).2.2 c).mpr h⟩

/-- the accumulator's `compute_reachability` is exact as well (over its own flat tables) -/
theorem bfs_exact_accum (a : Acc) (r : NKey) :
    (accReach a r).queue = [] ∧
    (∀ k, k ∈ (accReach a r).nodes ↔ Reach (accView a) r k) ∧
    (∀ c, c ∈ (accReach a r).warps ↔ ReachW (accView a) r c) :=
  accReach_exact a r

/-- **root_fun_of_reachable.** The hashed stream is a function of the abstract reachable content. -/
theorem root_fun_of_reachable (s s' : WState) (r r' : NKey) (h : content s r = content s' r') :
    rootPreimage s r = rootPreimage s' r' := by
  unfold rootPreimage rootBytes; rw [h]

/-- **root_ignores_unreachable.** If another state reads the same at every *reachable* key
    (out-edges with their β slots, α slot, instance roots behind its portals) and has the same
    rows for every *reachable* warp, the stream is identical — whatever else differs
    (unreachable nodes, edges, attachments, instances, fuel, storage). -/
theorem root_ignores_unreachable (s s' : WState) (r : NKey)
    (hag : ∀ k, Reach (storeView s) r k → AgreeAt (storeView s) (storeView s') k)
    (hinst : ∀ c, ReachW (storeView s) r c →
      storeInst s' (reach s r).nodes c = storeInst s (reach s r).nodes c) :
    rootPreimage s' r = rootPreimage s r := by
  unfold rootPreimage; rw [rootBytes_congr s s' r hag hinst]

/-- **add_unreachable_node.** Inserting a node (of any type) that is not reachable from the root
    leaves the pre-image unchanged. -/
theorem add_unreachable_node (s : WState) (r : NKey) (w n ty : Nat) (st : Store)
    (hst : s.store? w = some st) (hfresh : SMap.find? n st.nodes = none)
    (hun : ¬ Reach (storeView s) r (w, n)) :
    rootPreimage (s.putStore w { st with nodes := SMap.insert n ty st.nodes }) r = rootPreimage s r := by
  unfold rootPreimage; rw [Root.add_unreachable_node s r w n ty st hst hfresh hun]

/-- **replace_unreachable_instance.** Creating, or replacing wholesale (record, nodes, edges,
    attachments), an instance that no reachable portal descends into leaves the pre-image unchanged. -/
theorem replace_unreachable_instance (s : WState) (r : NKey) (inst : Instance) (st : Store)
    (hun : ¬ ReachW (storeView s) r inst.warp) :
    rootPreimage (upsertInstanceWith s inst st) r = rootPreimage s r := by
  unfold rootPreimage; rw [Root.replace_unreachable_instance s r inst st hun]

/-- **build_order_free.** A map (nodes, edges by id, either attachment plane) built by inserting rows
    in arrival order is the same for every arrival order of rows with distinct ids; hence so are the
    store, the state and the pre-image (the model keeps no other trace of insertion order: buckets
    are re-sorted by edge id before hashing, as `sorted_edges.sort_by` does). -/
theorem build_order_free {ν : Type} {xs ys : List (Nat × ν)} (hp : xs.Perm ys)
    (hd : xs.Pairwise (fun a b => a.1 ≠ b.1)) : buildMap xs = buildMap ys := by
  unfold buildMap
  exact foldl_perm_of_comm (fun m (p : Nat × ν) => SMap.insert p.1 p.2 m) SMap.Sorted
    (fun a b => a.1 ≠ b.1) (fun h => fun e => h e.symm) (fun m p h => SMap.sorted_insert _ _ h)
    (fun m a b h hab => SMap.insert_comm b.2 a.2 (fun e => hab e.symm) h) hp hd [] trivial

/-- **stream_format_agrees.** The accumulator's stream uses the same domain prefix and the same tag
    bytes as `snapshot::compute_state_root` (all extracted from the source on every run), and the
    tag table is prefix-free (None≠Some, Atom≠Descend, Node≠Edge, Alpha≠Beta). -/
theorem stream_format_agrees :
    accumTags = storeTags ∧
    Generated.RootTags.accumHasDomain = Generated.RootTags.storeHasDomain ∧
    Generated.RootTags.storeHasDomain = true ∧
    Generated.RootTags.domainStateRoot.length = 19 ∧
    TagsOk storeTags := by
  refine ⟨by decide, by decide, by decide, by decide, ⟨by decide, by decide, by decide, by decide, by decide⟩⟩

/-- **accum_agrees_partial.** (full statement: `accumBytes s r = rootBytes s r` for every state whose
    stores and instance records are in sync.) Proved: the two streams are the same function of the
    abstract content; what is left to the correspondence run (every C06.root/pair/ops case, both
    digests compared with the real code) is `accContent (Acc.ofState s) r = content s r`. -/
theorem accum_agrees_partial (s : WState) (r : NKey)
    (h : accContent (Acc.ofState s) r = content s r) : accumPreimage s r = rootPreimage s r := by
  unfold accumPreimage rootPreimage accumBytes rootBytes
  rw [h, stream_format_agrees.1, stream_format_agrees.2.1]

/-- **root_injective_multi_partial.** For well-formed states (`StateOk`: ids < 2^256, lengths < 2^64,
    sorted node maps, no dangling edge sources): equal pre-images ⇒ equal reachable content, provided
    both contents have the same number of instance entries and, per entry, the same numbers of node
    entries and buckets. The hypothesis cannot be dropped: `root_not_injective_multi`. -/
theorem root_injective_multi_partial (s s' : WState) (r r' : NKey)
    (hs : StateOk s) (hs' : StateOk s') (hr : IdOk r.1 ∧ IdOk r.2) (hr' : IdOk r'.1 ∧ IdOk r'.2)
    (hsh : Lock SameShape (content s r).insts (content s' r').insts)
    (h : rootBytes s r = rootBytes s' r') : content s r = content s' r' := by
  unfold rootBytes at h
  exact encode_inj_shape stream_format_agrees.2.2.2.2 (content_ok hs hr).1 (content_ok hs' hr').1 hsh
    (List.append_cancel_left h)

/-- **root_injective_single.** Well-formed states with one reachable instance on both sides (no
    descended portal): equal pre-images ⇒ equal reachable content, with no assumption on counts —
    node ids ascend strictly and every bucket source is a listed node, which forces the parse. -/
theorem root_injective_single (s s' : WState) (r r' : NKey)
    (hs : StateOk s) (hs' : StateOk s') (hr : IdOk r.1 ∧ IdOk r.2) (hr' : IdOk r'.1 ∧ IdOk r'.2)
    {i i' : InstC} (hi : (content s r).insts = [i]) (hi' : (content s' r').insts = [i'])
    (h : rootBytes s r = rootBytes s' r') : content s r = content s' r' := by
  unfold rootBytes at h
  have hc := content_ok hs hr
  have hc' := content_ok hs' hr'
  exact encode_inj_single stream_format_agrees.2.2.2.2 hc.1 hc'.1 hi hi'
    (hc.2 i (by rw [hi]; simp)) (hc'.2 i' (by rw [hi']; simp)) (List.append_cancel_left h)

/-- **root_sensitive.** For well-formed states: any change of the reachable content that keeps the
    shape — node type, attachment presence / kind / type id / bytes / length, edge type / target /
    attachment, edge added to or removed from an existing bucket, instance root / parent key / plane,
    portal target, the root key — changes the byte stream; and so does *any* change at all when a
    single instance is reachable. With a collision-free hash the digest changes too. -/
theorem root_sensitive {D : Type} (H : Bytes → D) (hH : Function.Injective H)
    (s s' : WState) (r r' : NKey)
    (hs : StateOk s) (hs' : StateOk s') (hr : IdOk r.1 ∧ IdOk r.2) (hr' : IdOk r'.1 ∧ IdOk r'.2)
    (hne : content s r ≠ content s' r')
    (hshape : Lock SameShape (content s r).insts (content s' r').insts ∨
      ∃ i i', (content s r).insts = [i] ∧ (content s' r').insts = [i']) :
    H (rootBytes s r) ≠ H (rootBytes s' r') := by
  intro h
  have hb := hH h
  rcases hshape with hsh | ⟨i, i', hi, hi'⟩
  · exact hne (root_injective_multi_partial s s' r r' hs hs' hr hr' hsh hb)
  · exact hne (root_injective_single s s' r r' hs hs' hr hr' hi hi' hb)

example : Function.Injective (id : Bytes → Bytes) := fun _ _ h => h

/-! ### the colliding pair of DESIGN §7-H (ids are the big-endian values of the 32-byte ids) -/

def hA : Nat := 0x000000000000000000000000000000000000000000000000000000000000009b
def hB : Nat := 0x0100000000000000000000000000000000000000000000000000000000000000
def hRB1 : Nat := 0x0100000000000000555555555555555555555555555555555555555555555555
def hN : Nat := 0x0000000000010166666666666666666666666666666666666666666666666666
def hTyN : Nat := 0x77777777777777dc000000000000008888888888888888888888888888888888
def hE2 : Nat := 0x5555555555555555555555555555555555555555555555550101010000000000
def hPay1 : Bytes := [0, 0, 0, 0, 0, 0, 0, 0, 0, 0, 0, 0, 0, 0, 0, 0, 0, 0, 0, 0, 0, 0, 0, 0, 0, 0, 0, 0, 0, 0, 0, 0, 0, 0, 0, 0, 0, 0, 0, 0, 0, 0, 0, 0, 0, 0, 0, 0, 0, 0, 0, 0, 0, 0, 0, 0, 0, 17, 17, 17, 17, 17, 17, 17, 17, 17, 17, 17, 17, 17, 17, 17, 17, 17, 17, 17, 17, 17, 17, 17, 17, 17, 17, 17, 17, 17, 17, 17, 17, 0, 1, 0, 0, 0, 0, 0, 0, 0, 0, 0, 0, 0, 0, 0, 0, 0, 0, 0, 0, 0, 0, 0, 0, 0, 0, 0, 0, 0, 0, 0, 0, 0, 34, 34, 34, 34, 34, 34, 34, 34, 34, 34, 34, 34, 34, 34, 34, 34, 34, 34, 34, 34, 34, 34, 34, 34, 34, 34, 34, 34, 34, 34, 34, 34, 0]
def hPay2 : Bytes := [136, 136, 136, 136, 136, 136, 136, 136, 136, 136, 136, 136, 136, 136, 136, 136, 136, 0, 1, 0, 0, 0, 0, 0, 0, 0, 85, 85, 85, 85, 85, 85, 85, 85, 85, 85, 85, 85, 85, 85, 85, 85, 85, 85, 85, 85, 85, 85, 85, 85, 153, 153, 153, 153, 153, 153, 153, 153, 153, 153, 153, 153, 153, 153, 153, 153, 153, 153, 153, 153, 153, 153, 153, 153, 153, 153, 153, 153, 153, 153, 153, 153, 0, 1, 0, 0, 0, 0, 0, 0, 0, 85, 85, 85, 85, 85, 85, 85, 85, 85, 85, 85, 85, 85, 85, 85, 85, 85, 85, 85, 85, 85, 85, 85, 85, 1, 0, 0, 0, 0, 0, 0, 0, 170, 170, 170, 170, 170, 170, 170, 170, 170, 170, 170, 170, 170, 170, 170, 170, 170, 170, 170, 170, 170, 170, 170, 170, 170, 170, 170, 170, 170, 170, 170, 170, 187, 187, 187, 187, 187, 187, 187, 187, 187, 187, 187, 187, 187, 187, 187, 187, 187, 187, 187, 187, 187, 187, 187, 187, 187, 187, 187, 187, 187, 187, 187, 187, 0, 0, 0, 0, 0, 1, 1, 102, 102, 102, 102, 102, 102, 102, 102, 102, 102, 102, 102, 102, 102, 102, 102, 102, 102, 102, 102, 102, 102, 102, 102, 102, 0]
def hParentB : Option AttKey := some (AttKey.nodeAlpha hA 0)

/-- c1: instance A = two nodes + one edge, instance B = two nodes + one edge -/
def collide1 : WState :=
  { stores := [
      (hA, { nodes := [(0, 0x0707070707070707070707070707070707070707070707070707070707070707), (hB, 0)],
             edges := [(0x3333333333333333333333333333333333333333333333333333333333333333, { src := 0, dst := hB, ty := 0x4444444444444444444444444444444444444444444444444444444444444444 })],
             nodeAtt := [(0, .descend hB), (hB, .atom 0x0100000000000000000000000000000000000000000000000000000000000000 hPay1)],
             edgeAtt := [] }),
      (hB, { nodes := [(hN, hTyN), (hRB1, 0x9999999999999999999999999999999999999999999999999999999999999999)],
             edges := [(0xaaaaaaaaaaaaaaaaaaaaaaaaaaaaaaaaaaaaaaaaaaaaaaaaaaaaaaaaaaaaaaaa, { src := hRB1, dst := hN, ty := 0xbbbbbbbbbbbbbbbbbbbbbbbbbbbbbbbbbbbbbbbbbbbbbbbbbbbbbbbbbbbbbbbb })],
             nodeAtt := [], edgeAtt := [] })],
    instances := [(hA, { warp := hA, root := 0, parent := none }),
                  (hB, { warp := hB, root := hRB1, parent := hParentB })] }

/-- c2: instance A = one node, instance B = two nodes + two edges (one carrying a 220-byte atom) -/
def collide2 : WState :=
  { stores := [
      (hA, { nodes := [(0, 0x0707070707070707070707070707070707070707070707070707070707070707)], edges := [], nodeAtt := [(0, .descend hB)], edgeAtt := [] }),
      (hB, { nodes := [(0, 0x1111111111111111111111111111111111111111111111111111111111111111), (hB, 0x2222222222222222222222222222222222222222222222222222222222222222)],
             edges := [(0x3333333333333333333333333333333333333333333333333333333333333333, { src := 0, dst := hB, ty := 0x4444444444444444444444444444444444444444444444444444444444444444 }), (hE2, { src := hB, dst := 0, ty := 0x00000000000000000000000000000000000000000000000000009b0000000000 })],
             nodeAtt := [],
             edgeAtt := [(hE2, .atom 0x6666666666666666666666666666666666666666666666666677777777777777 hPay2)] })],
    instances := [(hA, { warp := hA, root := 0, parent := none }),
                  (hB, { warp := hB, root := 0, parent := hParentB })] }

/-- **root_not_injective_multi.** The unrestricted claim is false of the code: two well-formed,
    fully reachable two-instance states with different reachable content and byte-identical
    pre-images (shapes (2 nodes,1 bucket)+(2,1) versus (1,0)+(2,2)). Replayed on the real
    `compute_state_root` by corpus/C06/collision.case (known finding C06-H). -/
theorem root_not_injective_multi :
    content collide1 (hA, 0) ≠ content collide2 (hA, 0) ∧
    rootBytes collide1 (hA, 0) = rootBytes collide2 (hA, 0) ∧
    accumBytes collide1 (hA, 0) = accumBytes collide2 (hA, 0) := by
  refine ⟨by decide +kernel, by decide +kernel, by decide +kernel⟩

/-! ### non-vacuity -/

def exState : WState :=
  { stores := [(1, { nodes := [(1, 7), (2, 7), (5, 8)],
                     edges := [(9, { src := 1, dst := 2, ty := 3 })],
                     nodeAtt := [(2, .atom 4 [1, 2])], edgeAtt := [] })],
    instances := [(1, { warp := 1, root := 1, parent := none })] }

example : (reach exState (1, 1)).nodes.length = 2 := by decide
example : ¬ Reach (storeView exState) (1, 1) (1, 5) :=
  fun h => absurd (((reach_exact exState (1, 1)).2.1 _).mpr h) (by decide)
example : ∃ i, (content exState (1, 1)).insts = [i] ∧ i.nodes.length = 2 ∧ i.buckets.length = 1 :=
  ⟨_, rfl, by decide, by decide⟩
example : StateOk exState := by
  refine ⟨?_, by decide⟩
  intro p hp
  simp only [exState, List.mem_singleton] at hp
  subst hp
  exact ⟨by simp [SMap.Sorted, SMap.Above, LinOrd.lt], by decide, by decide, by decide, by decide,
    by decide, by decide⟩
example : ContentOk (content collide1 (hA, 0)) ∧ ContentOk (content collide2 (hA, 0)) := by decide +kernel
example : accContent (Acc.ofState exState) (1, 1) = content exState (1, 1) := by decide
example : accContent (Acc.ofState collide1) (hA, 0) = content collide1 (hA, 0) := by decide +kernel

end EchoVerif.C06
