/-
  C02 — parallel execution is invisible: every worker schedule commits the same tick.
  PROPERTY THEOREMS ONLY (helpers are in Lemmas/Merge.lean).
  Model: Model/Merge.lean; extracted tables: Generated/Shard.lean, Generated/OpTable.lean.

  The schedule theorems are FULL statements about the model: they quantify over every worker count,
  every assignment of work units to workers, every per-worker claim order and every outcome of the
  claim race of each policy. What no model of this kind can contain — that a worker thread cannot
  observe another worker's delta or a torn store (data races) — is Rust's type system
  (`&GraphStore` shared immutably, private `TickDelta`s); it is listed under `assumptions` in the
  index, and real threads are exercised by the harness.
-/
import EchoVerif.Lemmas.Merge
import EchoVerif.Lemmas.MergePolicy

set_option linter.unusedSimpArgs false
set_option linter.unusedVariables false

namespace EchoVerif.C02
open EchoVerif EchoVerif.Graph EchoVerif.Merge LinOrd

/-! ## the merge is a function of the multiset (indeed the set) of emitted ops -/

private theorem mem_sortBy_flat {rs rs' : List WorkerRes}
    (he : (rs.flatMap WorkerRes.entries).Perm (rs'.flatMap WorkerRes.entries)) (o : Op) :
    o ∈ sortBy Op.sortKey (flatOps rs) ↔ o ∈ sortBy Op.sortKey (flatOps rs') := by
  rw [(sortBy_perm Op.sortKey _).mem_iff, (sortBy_perm Op.sortKey _).mem_iff]
  exact (he.map (·.1)).mem_iff

private theorem mem_sortA_flat {rs rs' : List WorkerRes}
    (he : (rs.flatMap WorkerRes.entries).Perm (rs'.flatMap WorkerRes.entries)) (o : Op) :
    o ∈ (sortBy entryKey (rs.flatMap WorkerRes.entries)).map (·.1) ↔
    o ∈ (sortBy entryKey (rs'.flatMap WorkerRes.entries)).map (·.1) := by
  rw [((sortBy_perm entryKey _).map (·.1)).mem_iff, ((sortBy_perm entryKey _).map (·.1)).mem_iff]
  exact (he.map (·.1)).mem_iff

/-- **merge_perm.** Both merge variants (default build `merge_parallel_deltas` = B,
    `delta_validate` `merge_deltas` = A) return the same result — ops or error class — for any two
    lists of worker results that carry the same multiset of `(op, origin)` entries, however the
    entries are split over workers and in whatever order, provided the same failure flags are
    present. -/
theorem merge_perm {rs rs' : List WorkerRes}
    (hm : rs.any WorkerRes.isMissing = rs'.any WorkerRes.isMissing)
    (hp : rs.any WorkerRes.isPoisoned = rs'.any WorkerRes.isPoisoned)
    (he : (rs.flatMap WorkerRes.entries).Perm (rs'.flatMap WorkerRes.entries)) :
    mergeB rs = mergeB rs' ∧ mergeA rs = mergeA rs' := by
  constructor
  · unfold mergeB
    rw [hm, hp, finishB_congr (sortBy_sorted _ _) (sortBy_sorted _ _) (mem_sortBy_flat he)]
  · unfold mergeA
    rw [hm, hp, finishA_congr (ksorted_fst_of_entry (sortBy_sorted _ _))
      (ksorted_fst_of_entry (sortBy_sorted _ _)) (mem_sortA_flat he)]

/-- **mergeB_any_sort.** `sort_unstable_by` leaves the order inside a run of equal keys
    unspecified: the default-build merge gives the same answer for EVERY key-sorted arrangement of
    the flattened ops, so the model's stable sort loses nothing. -/
theorem mergeB_any_sort (flat s : List Op) (hperm : s.Perm flat) (hsorted : KSorted Op.sortKey s) :
    finishB s = finishB (sortBy Op.sortKey flat) := by
  apply finishB_congr hsorted (sortBy_sorted _ _)
  intro o
  rw [(sortBy_perm Op.sortKey _).mem_iff]
  exact hperm.mem_iff

/-- **merge_spec.** The specification both variants implement: the merge commits `out` iff no
    worker is poisoned or store-less, no sort key carries two distinct ops, `out` is the strictly
    key-sorted list of exactly the distinct emitted ops (one representative per key, in key order),
    and no op targets a warp that an `OpenPortal(Empty)` of the same tick creates. -/
theorem merge_spec (rs : List WorkerRes) (out : List Op) :
    mergeB rs = .ok out ↔
      (rs.any WorkerRes.isMissing = false ∧ rs.any WorkerRes.isPoisoned = false ∧
       NoConflict (flatOps rs) ∧ StrictK out ∧ (∀ o, o ∈ out ↔ o ∈ flatOps rs) ∧
       writesNewWarp out = false) := by
  have hmem : ∀ o, o ∈ sortBy Op.sortKey (flatOps rs) ↔ o ∈ flatOps rs :=
    fun o => (sortBy_perm Op.sortKey _).mem_iff
  have hsorted := sortBy_sorted Op.sortKey (flatOps rs)
  unfold mergeB
  cases hM : rs.any WorkerRes.isMissing
  · cases hP : rs.any WorkerRes.isPoisoned
    · simp only [Bool.false_eq_true, if_false, true_and]
      rw [finishB_eq]
      by_cases hnc : NoConflict (sortBy Op.sortKey (flatOps rs))
      · obtain ⟨o1, e1, st1, m1⟩ := groupRuns_ok hsorted hnc
        have hnc' : NoConflict (flatOps rs) := (noConflict_congr hmem).mp hnc
        rw [e1]
        simp only []
        constructor
        · intro h
          cases hw : writesNewWarp o1 with
          | true => rw [hw] at h; simp at h
          | false =>
            rw [hw] at h
            simp only [Bool.false_eq_true, if_false, Except.ok.injEq] at h
            subst h
            exact ⟨hnc', st1, fun o => by rw [m1 o, hmem o], hw⟩
        · rintro ⟨_, hst, hm, hw⟩
          have : o1 = out := strictK_unique st1 hst (fun o => by rw [m1 o, hmem o, hm o])
          subst this
          simp [hw]
      · rw [groupRuns_conflict hsorted hnc]
        constructor
        · intro h; cases h
        · rintro ⟨hnc', _⟩
          exact absurd ((noConflict_congr hmem).mpr hnc') hnc
    · simp
  · simp

/-- **merge_variants_agree.** The two build variants commit exactly the same op lists; they can
    differ only in the error class reported for a tick that both conflicts and writes to a new warp
    (A reports `newWarp` first, B `conflict` first). -/
theorem merge_variants_agree (rs : List WorkerRes) (out : List Op) :
    mergeA rs = .ok out ↔ mergeB rs = .ok out := by
  unfold mergeA mergeB
  cases rs.any WorkerRes.isMissing
  · cases rs.any WorkerRes.isPoisoned
    · simp only [Bool.false_eq_true, if_false]
      apply finish_agree (ksorted_fst_of_entry (sortBy_sorted _ _)) (sortBy_sorted _ _)
      intro o
      rw [((sortBy_perm entryKey _).map (·.1)).mem_iff, (sortBy_perm Op.sortKey _).mem_iff]
      rfl
    · simp
  · simp

/-! ## schedules -/

section Sched
variable {ι : Type} (f : Nat → ι → ItemOut) (hs : Nat → Bool)

/-- **schedule_commit_value.** If every unit's store exists and no item is poisoned, then for EVERY
    schedule `σ` that claims each unit exactly once — any number of workers (idle ones included),
    any assignment of units to workers, any claim order inside a worker — the merged ops (both
    variants, result or error class) are those of the single delta holding all entries in unit
    order. -/
theorem schedule_commit_value (units : List (WUnit ι)) (hg : ∀ u ∈ units, GoodUnit f hs u)
    {σ : Schedule} (hv : σ.Valid units.length) :
    mergeB (runSchedule f hs units σ) = mergeB [.success (allEntries f units)] ∧
    mergeA (runSchedule f hs units σ) = mergeA [.success (allEntries f units)] := by
  have hrun := runSchedule_good f hs units σ hg
  apply merge_perm
  · rw [hrun]; simp [WorkerRes.isMissing, List.any_map]
  · rw [hrun]; simp [WorkerRes.isPoisoned, List.any_map]
  · rw [entries_of_good f hs units σ hg]
    simp only [List.flatMap_cons, List.flatMap_nil, List.append_nil, WorkerRes.entries, allEntries]
    exact List.Perm.flatMap_right _ (resolve_perm units hv)

/-- one worker claiming every unit in order is a valid schedule. -/
theorem serial_valid (n : Nat) : Schedule.Valid [List.range n] n := by
  unfold Schedule.Valid
  simp

/-- a tick with a bad unit whose stores were all pre-validated is `poisoned` under every schedule. -/
private theorem bad_tick_poisoned (units : List (WUnit ι)) (hst : ∀ u ∈ units, hs u.warp = true)
    {u : WUnit ι} (hu : u ∈ units) (hbad : ¬ GoodUnit f hs u)
    {σ : Schedule} (hv : σ.Valid units.length) :
    mergeB (runSchedule f hs units σ) = .error .poisoned ∧
    mergeA (runSchedule f hs units σ) = .error .poisoned := by
  have hM := runSchedule_no_missing f hs units σ hst
  have hP : (runSchedule f hs units σ).any WorkerRes.isPoisoned = true := by
    rcases bad_unit_flag f hs units hu hbad hv with h | h
    · rw [hM] at h; cases h
    · exact h
  unfold mergeB mergeA
  rw [hM, hP]
  simp

private theorem good_or_bad (units : List (WUnit ι)) :
    (∀ u ∈ units, GoodUnit f hs u) ∨ ∃ u, u ∈ units ∧ ¬ GoodUnit f hs u := by
  apply Classical.byContradiction
  intro hne
  apply hne
  left
  intro u hu
  apply Classical.byContradiction
  intro hb
  exact hne (Or.inr ⟨u, hu, hb⟩)

/-- **schedule_invisible.** For EVERY tick whose stores exist (what `apply_reserved_rewrites`
    validates before building units) — poisoned items, conflicts and new-warp writes included, no
    hypothesis on the executors — and EVERY schedule `σ` that claims each unit exactly once (any
    number of workers, idle ones included, any assignment of units to workers, any claim order
    inside a worker), the result of the merge (both variants; op list or error class) equals that
    of ONE worker claiming all units in order. Hence the post-state `applyOps pre ops`, the patch
    `diffState pre post` and every digest pre-image computed from them do not depend on `σ`, the
    worker count or the policy. -/
theorem schedule_invisible (units : List (WUnit ι)) (hst : ∀ u ∈ units, hs u.warp = true)
    {σ : Schedule} (hv : σ.Valid units.length) :
    mergeB (runSchedule f hs units σ) = mergeB (runSchedule f hs units [List.range units.length]) ∧
    mergeA (runSchedule f hs units σ) = mergeA (runSchedule f hs units [List.range units.length]) := by
  have hv1 := serial_valid units.length
  rcases good_or_bad f hs units with hg | ⟨u, hu, hbad⟩
  · have h1 := schedule_commit_value f hs units hg hv
    have h2 := schedule_commit_value f hs units hg hv1
    exact ⟨h1.1.trans h2.1.symm, h1.2.trans h2.2.symm⟩
  · have h1 := bad_tick_poisoned f hs units hst hu hbad hv
    have h2 := bad_tick_poisoned f hs units hst hu hbad hv1
    exact ⟨h1.1.trans h2.1.symm, h1.2.trans h2.2.symm⟩

/-- any two valid schedules of the same units give the same merge result (ops or error class). -/
theorem schedule_invisible_pair (units : List (WUnit ι)) (hst : ∀ u ∈ units, hs u.warp = true)
    {σ σ' : Schedule} (hv : σ.Valid units.length) (hv' : σ'.Valid units.length) :
    mergeB (runSchedule f hs units σ) = mergeB (runSchedule f hs units σ') ∧
    mergeA (runSchedule f hs units σ) = mergeA (runSchedule f hs units σ') := by
  have h1 := schedule_invisible f hs units hst hv
  have h2 := schedule_invisible f hs units hst hv'
  exact ⟨h1.1.trans h2.1.symm, h1.2.trans h2.2.symm⟩

/-- **poison_no_commit.** If some unit has no store or contains an item whose execution panics or
    violates its footprint, then NO schedule commits: under every valid schedule both variants
    return `poisoned` or `missingStore`, never `ok` (the worker that claims the unit returns early,
    either at that unit or before it). -/
theorem poison_no_commit (units : List (WUnit ι)) {u : WUnit ι} (hu : u ∈ units)
    (hbad : ¬ GoodUnit f hs u) {σ : Schedule} (hv : σ.Valid units.length) :
    (mergeB (runSchedule f hs units σ) = .error .poisoned ∨
      mergeB (runSchedule f hs units σ) = .error .missingStore) ∧
    (mergeA (runSchedule f hs units σ) = .error .poisoned ∨
      mergeA (runSchedule f hs units σ) = .error .missingStore) := by
  obtain ⟨claims, hc, huc⟩ := unit_claimed units hv hu
  have hmem : runWorker f hs (resolve units claims) [] ∈ runSchedule f hs units σ :=
    List.mem_map.mpr ⟨claims, hc, rfl⟩
  have hflag : (runSchedule f hs units σ).any WorkerRes.isMissing = true ∨
      (runSchedule f hs units σ).any WorkerRes.isPoisoned = true := by
    cases hr : runWorker f hs (resolve units claims) [] with
    | success d => exact absurd (runWorker_success f hs _ _ _ hr u huc) hbad
    | poisoned =>
      right; rw [List.any_eq_true]; exact ⟨_, hmem, by rw [hr]; rfl⟩
    | missingStore =>
      left; rw [List.any_eq_true]; exact ⟨_, hmem, by rw [hr]; rfl⟩
  unfold mergeB mergeA
  cases hM : (runSchedule f hs units σ).any WorkerRes.isMissing
  · rcases hflag with h | h
    · rw [hM] at h; cases h
    · simp [h]
  · simp

/-- in particular a poisoned tick is never `ok`. -/
theorem poison_never_ok (units : List (WUnit ι)) {u : WUnit ι} (hu : u ∈ units)
    (hbad : ¬ GoodUnit f hs u) {σ : Schedule} (hv : σ.Valid units.length) (out : List Op) :
    mergeB (runSchedule f hs units σ) ≠ .ok out ∧ mergeA (runSchedule f hs units σ) ≠ .ok out := by
  obtain ⟨hb, ha⟩ := poison_no_commit f hs units hu hbad hv
  constructor
  · rcases hb with h | h <;> rw [h] <;> intro e <;> cases e
  · rcases ha with h | h <;> rw [h] <;> intro e <;> cases e

/-- **schedule_commit_iff.** With NO hypothesis at all (stores may be missing): what is committed
    does not depend on the schedule — two valid schedules commit the same op list or both commit
    nothing. (Without pre-validated stores only the error CLASS of a tick that is both store-less
    and poisoned can differ: a worker that returns early at a poisoned item never reaches a later
    store-less unit.) -/
theorem schedule_commit_iff (units : List (WUnit ι))
    {σ σ' : Schedule} (hv : σ.Valid units.length) (hv' : σ'.Valid units.length) (out : List Op) :
    (mergeB (runSchedule f hs units σ) = .ok out ↔ mergeB (runSchedule f hs units σ') = .ok out) ∧
    (mergeA (runSchedule f hs units σ) = .ok out ↔ mergeA (runSchedule f hs units σ') = .ok out) := by
  rcases good_or_bad f hs units with hg | ⟨u, hu, hbad⟩
  · have h1 := schedule_commit_value f hs units hg hv
    have h2 := schedule_commit_value f hs units hg hv'
    rw [h1.1, h1.2, h2.1, h2.2]
    exact ⟨Iff.rfl, Iff.rfl⟩
  · have h1 := poison_never_ok f hs units hu hbad hv out
    have h2 := poison_never_ok f hs units hu hbad hv' out
    exact ⟨⟨fun h => absurd h h1.1, fun h => absurd h h2.1⟩,
      ⟨fun h => absurd h h1.2, fun h => absurd h h2.2⟩⟩

end Sched

/-! ## policies are schedules -/

private theorem step_eq_mod {i w s : Nat} (hi : i < w) :
    (decide (i ≤ s) && (s - i) % w == 0) = (s % w == i) := by
  rw [Bool.eq_iff_iff]
  simp only [Bool.and_eq_true, decide_eq_true_eq, beq_iff_eq]
  constructor
  · rintro ⟨hle, hmod⟩
    obtain ⟨q, hq⟩ := Nat.dvd_of_mod_eq_zero hmod
    have : s = i + w * q := by omega
    rw [this, Nat.add_mul_mod_self_left, Nat.mod_eq_of_lt hi]
  · intro h
    have hle : i ≤ s := by rw [← h]; exact Nat.mod_le s w
    refine ⟨hle, ?_⟩
    have hd := Nat.div_add_mod s w
    have : s - i = w * (s / w) := by rw [← h]; omega
    rw [this, Nat.mul_mod_right]

theorem shardOf_lt (id : Nat) : shardOf id < Generated.numShards := by
  unfold shardOf
  exact Nat.lt_of_le_of_lt Nat.and_le_right (by decide)

private theorem flatten_drop_empty {α : Type} (g : Nat → List α) : ∀ L : List Nat,
    (L.filterMap (fun s => if (g s).isEmpty then none else some (g s))).flatten = (L.map g).flatten
  | [] => rfl
  | s :: L => by
    rw [List.filterMap_cons, List.map_cons, List.flatten_cons, ← flatten_drop_empty g L]
    by_cases he : (g s).isEmpty = true
    · simp [he, List.isEmpty_iff.mp he]
    · simp [he]

/-- **policy_refines_schedule.** Every way the code distributes shards/units over workers is a
    schedule in the sense of `schedule_invisible` (each index claimed exactly once):
    * `StaticRoundRobin` with `w ≥ 1` workers (`(i..N).step_by(w)`),
    * `DynamicSteal` / `execute_work_queue` for every outcome `owner` of the claim race,
    * `PerShard` accumulation and `DedicatedPerShard` (one delta per shard, shard order),
    the worker clamp keeps `w ≥ 1`, and the (warp, shard) units partition the items of a warp
    (`shard_of` with the extracted mask is `< NUM_SHARDS`). -/
theorem policy_refines_schedule :
    (∀ w n, 0 < w → (staticRoundRobin w n).Valid n) ∧
    (∀ (owner : Nat → Nat) w n, (∀ s, s < n → owner s < w) → (dynamicSteal owner w n).Valid n) ∧
    (∀ n, (perShard n).Valid n) ∧
    (∀ w, 0 < w → 0 < cappedWorkers w ∧ cappedWorkers w ≤ Generated.numShards) ∧
    (∀ {ι : Type} (scope : ι → Nat) (items : List ι), (shardGroups scope items).flatten.Perm items) := by
  have hdyn : ∀ (owner : Nat → Nat) w n, (∀ s, s < n → owner s < w) → (dynamicSteal owner w n).Valid n := by
    intro owner w n h
    exact group_by_owner_perm_all owner (List.range n) w (fun s hs => h s (List.mem_range.mp hs))
  refine ⟨?_, hdyn, ?_, ?_, ?_⟩
  · intro w n hw
    have : staticRoundRobin w n = dynamicSteal (· % w) w n := by
      unfold staticRoundRobin dynamicSteal stepFrom
      apply List.map_congr_left
      intro i hi
      apply List.filter_congr
      intro s _
      exact step_eq_mod (List.mem_range.mp hi)
    rw [this]
    exact hdyn _ w n (fun s _ => Nat.mod_lt s hw)
  · intro n
    unfold perShard Schedule.Valid
    have : ∀ l : List Nat, (l.map (fun s => [s])).flatten = l := by
      intro l; induction l with
      | nil => rfl
      | cons a l ih => simp [ih]
    rw [this]
  · intro w hw
    unfold cappedWorkers
    split
    · exact ⟨hw, by omega⟩
    · exact ⟨by decide, Nat.le_refl _⟩
  · intro ι scope items
    unfold shardGroups
    have := flatten_drop_empty (fun s => items.filter (fun it => shardOf (scope it) == s))
      (List.range Generated.numShards)
    simp only [] at this ⊢
    rw [this]
    exact group_by_owner_perm_all (fun it => shardOf (scope it)) items Generated.numShards
      (fun it _ => shardOf_lt _)

/-- every claim outcome of each of the five `ParallelExecutionPolicy` constants is a valid schedule
    of the `n` shards. -/
theorem policy_schedule_valid (p : Policy) (owner : Nat → Nat) (w n : Nat) (hw : 0 < w)
    (ho : ∀ s, s < n → owner s < w) : (p.schedule owner w n).Valid n := by
  obtain ⟨hst, hdyn, hps, _, _⟩ := policy_refines_schedule
  cases p
  · exact hdyn owner w n ho
  · exact hdyn owner w n ho
  · exact hst w n hw
  · exact hst w n hw
  · exact hps n

/-- **policy_exec_refines_schedule.** The executors themselves (functions returning the list of
    deltas, Model/MergePolicy.lean) are runs of valid schedules:
    * the claim outcome of each of the five policies is a valid schedule, for every race outcome;
    * `PerWorker` accumulation (DynamicPerWorker, StaticPerWorker) returns literally
      `runSchedule` of that schedule on the shard units;
    * `PerShard` accumulation (DynamicPerShard, StaticPerShard, DedicatedPerShard) returns, under
      every claim outcome, one delta per non-empty shard — the `perShard` schedule's deltas with
      the item-less shards dropped;
    * `execute_work_queue` with a non-empty queue is `runSchedule` of a valid schedule for every
      outcome of the claim counter. -/
theorem policy_exec_refines_schedule {ι : Type} (g : ι → List Entry) (sh : Nat → List ι) :
    (∀ (p : Policy) (owner : Nat → Nat) (w n : Nat), 0 < w → (∀ s, s < n → owner s < w) →
      (p.schedule owner w n).Valid n) ∧
    (∀ (warp n : Nat) (σ : Schedule), σ.Valid n →
      (perWorkerDeltas g sh σ).map WorkerRes.success =
        runSchedule (fun _ it => ItemOut.ok (g it)) (fun _ => true) (shardUnits warp sh n) σ) ∧
    (∀ (n : Nat) (σ : Schedule), σ.Valid n →
      (perShardDeltas g sh σ).Perm
        (((List.range n).filter (fun s => !(sh s).isEmpty)).map (shardDelta g sh))) ∧
    (∀ (f : Nat → ι → ItemOut) (hs : Nat → Bool) (units : List (WUnit ι)) (owner : Nat → Nat)
      (w : Nat), units ≠ [] → (∀ s, s < units.length → owner s < w) →
      ∃ σ : Schedule, σ.Valid units.length ∧
        execWorkQueue f hs units owner w = runSchedule f hs units σ) := by
  refine ⟨policy_schedule_valid, ?_, ?_, ?_⟩
  · intro warp n σ hv
    apply perWorker_eq_runSchedule
    intro c hc s hsc
    have : s ∈ σ.flatten := List.mem_flatten.mpr ⟨c, hc, hsc⟩
    exact List.mem_range.mp (hv.mem_iff.mp this)
  · intro n σ hv
    exact perShard_perm g sh hv
  · intro f hs units owner w hne ho
    refine ⟨dynamicSteal owner w units.length, policy_refines_schedule.2.1 owner w _ ho, ?_⟩
    unfold execWorkQueue
    have : units.isEmpty = false := by
      cases units with
      | nil => exact absurd rfl hne
      | cons _ _ => rfl
    rw [this]
    rfl

/-- **policy_invisible.** `execute_parallel_with_policy` + merge: for each of the five policies,
    every worker count `w ≥ 1` and EVERY outcome `owner` of the claim race, merging the returned
    deltas (both variants) gives the result of merging the one delta a single worker produces by
    running the shards in order — the `total_items == 0` early return included. -/
theorem policy_invisible {ι : Type} (g : ι → List Entry) (sh : Nat → List ι) (p : Policy)
    (owner : Nat → Nat) (w n : Nat) (hw : 0 < w) (ho : ∀ s, s < n → owner s < w) :
    mergeB ((execPolicy g sh owner p w n).map WorkerRes.success) =
      mergeB [.success ((List.range n).flatMap (shardDelta g sh))] ∧
    mergeA ((execPolicy g sh owner p w n).map WorkerRes.success) =
      mergeA [.success ((List.range n).flatMap (shardDelta g sh))] := by
  have hf := success_no_flags (execPolicy g sh owner p w n)
  have hf1 := success_no_flags [(List.range n).flatMap (shardDelta g sh)]
  apply merge_perm
  · rw [hf.1]; exact hf1.1.symm
  · rw [hf.2]; exact hf1.2.symm
  · rw [success_entries_flatten]
    simp only [List.flatMap_cons, List.flatMap_nil, List.append_nil, WorkerRes.entries]
    exact execPolicy_flatten_perm g sh owner p w n (policy_schedule_valid p owner w n hw ho)

/-- **units_partition_items.** `build_work_units` neither drops nor duplicates an accepted rewrite:
    the items of all (warp, shard) units are a permutation of the exec items, whatever
    `NUM_SHARDS` / `shard_of` are. With `schedule_invisible` the committed ops are therefore a
    function of the multiset of accepted rewrites alone. -/
theorem units_partition_items {ι : Type} (warp scope : ι → Nat) (items : List ι) :
    ((buildUnits warp scope items).flatMap (·.items)).Perm items := by
  have hsg : ∀ (its : List ι), (shardGroups scope its).flatten.Perm its :=
    fun its => policy_refines_schedule.2.2.2.2 scope its
  unfold buildUnits
  rw [List.flatMap_assoc]
  refine (flatMap_perm_pointwise _ (fun p : Nat × List ι => p.2) _ ?_).trans
    (groupByWarp_perm warp items)
  intro p _
  obtain ⟨w, its⟩ := p
  simp only [List.flatMap_map]
  rw [List.flatMap_id']
  exact hsg its

/-! ## non-vacuity -/

/-- a valid 2-worker schedule of 3 units that is not the identity. -/
example : Schedule.Valid [[2, 0], [1]] 3 := by
  unfold Schedule.Valid; decide

example : (staticRoundRobin 3 8) = [[0, 3, 6], [1, 4, 7], [2, 5]] := by decide

/-- `GoodUnit` and its negation are both inhabited. -/
example : GoodUnit (fun _ (_ : Nat) => ItemOut.ok []) (fun _ => true) { warp := 1, items := [7] } :=
  ⟨rfl, fun _ _ h => by cases h⟩
example : ¬ GoodUnit (fun _ (_ : Nat) => ItemOut.poison) (fun _ => true) { warp := 1, items := [7] } :=
  fun h => h.2 7 (by simp) rfl

/-- the unconditional `schedule_invisible` is not vacuous on bad ticks: a poisoned unit next to a
    good one is `poisoned` under the serial and under a split schedule. -/
example :
    mergeB (runSchedule (fun _ (n : Nat) => if n = 7 then ItemOut.poison else .ok [])
      (fun _ => true) [{ warp := 1, items := [7] }, { warp := 1, items := [8] }] [[1], [0]])
      = .error .poisoned := by rfl

/-- the five policies really differ in the deltas they return (2 shards, 2 workers). -/
example : (Policy.schedule (fun _ => 0) 2 4 .staticPerWorker) = [[0, 2], [1, 3]] ∧
    (Policy.schedule (fun _ => 0) 2 4 .dynamicPerWorker) = [[0, 1, 2, 3], []] ∧
    (Policy.schedule (fun _ => 0) 2 4 .dedicatedPerShard) = [[0], [1], [2], [3]] :=
  ⟨by decide, by decide, by decide⟩

/-- the merge really dedupes and really rejects: same key same op → one op; same key, two ops →
    conflict (both variants). -/
example :
    mergeB [.success [(.upsertNode 1 2 3, Origin.zero)], .success [(.upsertNode 1 2 3, Origin.zero)]]
      = .ok [.upsertNode 1 2 3] ∧
    mergeB [.success [(.upsertNode 1 2 3, Origin.zero)], .success [(.upsertNode 1 2 4, Origin.zero)]]
      = .error .conflict ∧
    mergeA [.success [(.upsertNode 1 2 3, Origin.zero)], .success [(.upsertNode 1 2 4, Origin.zero)]]
      = .error .conflict := ⟨by rfl, by rfl, by rfl⟩

end EchoVerif.C02
