/-
  C03 — admission is the canonical greedy independent set with exact blocking witnesses.
  PROPERTY THEOREMS ONLY (helpers: Lemmas/Reserve.lean, Lemmas/Radix.lean).
  Models: Model/Sched.lean, Model/Footprint.lean; extracted tables: Generated/Radix.lean
  (bucket16 layout, pass count, SMALL_SORT_THRESHOLD, cmp_thin order), Generated/Conflict.lean
  (has_conflict / mark_all / footprints_conflict / independent matrices).
-/
import EchoVerif.Lemmas.Reserve
import EchoVerif.Lemmas.Radix
import EchoVerif.Lemmas.Queue
import EchoVerif.Generated.Radix
import EchoVerif.Generated.Conflict

set_option linter.unusedSimpArgs false
set_option linter.unusedVariables false

namespace EchoVerif.C03
open EchoVerif EchoVerif.Footprint EchoVerif.Sched EchoVerif.Generated

/-- The conflict predicate used for receipts, over the extracted `footprints_conflict` table. -/
abbrev conflict (c a : Footprint) : Bool := pairConflict receiptConflictTable c a

/-! ## the three predicates -/

/-- **three_predicates_agree.** On the extracted matrices: `has_conflict`∘`mark_all`,
    `footprints_conflict` and `¬independent` (mask aside) intersect exactly the same
    (candidate set, prior set) pairs, the relation is symmetric, and no row compares a footprint
    with itself. Finite: `decide` over 8 × 8 set pairs. -/
theorem three_predicates_agree :
    (∀ s ∈ FSet.all, ∀ t ∈ FSet.all,
      hmRel hasConflictTable markAllTable s t = pairRel receiptConflictTable s t
      ∧ pairRel independentTable s t = pairRel receiptConflictTable s t
      ∧ pairRel receiptConflictTable s t = pairRel receiptConflictTable t s)
    ∧ pairTableWf receiptConflictTable = true ∧ pairTableWf independentTable = true
    ∧ independentMaskPrefilter = true := by decide

private theorem agree_hm (s t : FSet) :
    hmRel hasConflictTable markAllTable s t = pairRel receiptConflictTable s t :=
  (three_predicates_agree.1 s (FSet.mem_all s) t (FSet.mem_all t)).1
private theorem agree_ind (s t : FSet) :
    pairRel independentTable s t = pairRel receiptConflictTable s t :=
  (three_predicates_agree.1 s (FSet.mem_all s) t (FSet.mem_all t)).2.1
private theorem agree_symm (s t : FSet) :
    pairRel receiptConflictTable s t = pairRel receiptConflictTable t s :=
  (three_predicates_agree.1 s (FSet.mem_all s) t (FSet.mem_all t)).2.2

/-- **predicates_agree_on_footprints.** Consequently, for *all* footprints the three real
    predicates are one relation: what `has_conflict` tests against the marks left by `a` is
    `footprints_conflict(c, a)`, which is `!independent` up to the mask prefilter, and it is
    symmetric. -/
theorem predicates_agree_on_footprints (c a : Footprint) :
    relB (hmRel hasConflictTable markAllTable) c a = conflict c a
    ∧ pairConflict independentTable c a = conflict c a
    ∧ conflict c a = conflict a c := by
  have w1 := three_predicates_agree.2.1
  have w2 := three_predicates_agree.2.2.1
  refine ⟨?_, ?_, ?_⟩
  · rw [conflict, pairConflict_eq_relB w1]; exact relB_congr agree_hm c a
  · rw [conflict, pairConflict_eq_relB w1, pairConflict_eq_relB w2]; exact relB_congr agree_ind c a
  · show pairConflict _ c a = pairConflict _ a c
    rw [pairConflict_eq_relB w1 c a, pairConflict_eq_relB w1 a c]; exact relB_symm agree_symm c a

/-! ## reservation -/

/-- **reserve_greedy.** Folding the radix scheduler's `reserve` over any drained list, from an
    empty frontier, accepts a candidate iff it conflicts (extracted `footprints_conflict` matrix)
    with no previously *accepted* candidate: the decisions are `greedy conflict`. -/
theorem reserve_greedy (cs : List Footprint) :
    reserveAll (radixReserve conflictCfg) Active.empty cs = greedy conflict [] cs := by
  rw [radix_reserveAll_eq_greedy conflictCfg cs Active.empty [] (markedInv_empty _)]
  apply greedy_congr
  intro c _ a _
  exact (predicates_agree_on_footprints c a).1

/-- **reserve_reject_marks_nothing.** A rejected candidate leaves every marked set unchanged. -/
theorem reserve_reject_marks_nothing (act : Active) (c : Footprint)
    (h : (radixReserve conflictCfg act c).2 = false) : (radixReserve conflictCfg act c).1 = act := by
  unfold radixReserve at *
  by_cases hc : hasConflict conflictCfg.has act c = true
  · simp [hc]
  · simp [hc] at h

/-- **marked_is_union_of_accepted.** After any fold of `reserve`, a key is in marked set `m` iff
    some *accepted* candidate has it in a footprint set that `mark_all` marks into `m`. -/
theorem marked_is_union_of_accepted (cs : List Footprint) (m : MSet) (k : Res) :
    k ∈ (reserveState (radixReserve conflictCfg) Active.empty cs).get m ↔
      ∃ a ∈ acceptedOf (reserveAll (radixReserve conflictCfg) Active.empty cs) cs,
        ∃ s, (s, m) ∈ markAllTable ∧ k ∈ a.get s := by
  have := radix_reserveState_inv conflictCfg cs Active.empty [] (markedInv_empty _) m k
  simpa [conflictCfg] using this

/-- **conflict_rule.** The extracted relation is the stated rule: a write overlapping the other's
    read or write of the same node / edge / attachment key (keys are warp-scoped and class-tagged),
    or any shared boundary port. -/
theorem conflict_rule (c a : Footprint) :
    conflict c a = true ↔
      (∃ k, k ∈ c.nWrite ∧ (k ∈ a.nWrite ∨ k ∈ a.nRead)) ∨ (∃ k, k ∈ c.nRead ∧ k ∈ a.nWrite)
      ∨ (∃ k, k ∈ c.eWrite ∧ (k ∈ a.eWrite ∨ k ∈ a.eRead)) ∨ (∃ k, k ∈ c.eRead ∧ k ∈ a.eWrite)
      ∨ (∃ k, k ∈ c.aWrite ∧ (k ∈ a.aWrite ∨ k ∈ a.aRead)) ∨ (∃ k, k ∈ c.aRead ∧ k ∈ a.aWrite)
      ∨ (∃ k, (k ∈ c.bIn ∨ k ∈ c.bOut) ∧ (k ∈ a.bIn ∨ k ∈ a.bOut)) := by
  have hx : ∀ (x y : List Res), intersects x y = true ↔ ∃ k, k ∈ x ∧ k ∈ y := fun _ _ => intersects_iff
  have hy : ∀ (x y : List Res), (∃ k, k ∈ y ∧ k ∈ x) ↔ ∃ k, k ∈ x ∧ k ∈ y :=
    fun _ _ => ⟨fun ⟨k, a, b⟩ => ⟨k, b, a⟩, fun ⟨k, a, b⟩ => ⟨k, b, a⟩⟩
  simp only [conflict, pairConflict, receiptConflictTable, List.any_cons, List.any_nil, pick,
    Footprint.get, Bool.or_eq_true, Bool.or_false, hx]
  constructor
  · rintro (h | h | h | h | h | h | h | h | h | h | h | h | h) <;> obtain ⟨k, h1, h2⟩ := h
    · exact Or.inr (Or.inr (Or.inr (Or.inr (Or.inr (Or.inr ⟨k, Or.inl h1, Or.inl h2⟩)))))
    · exact Or.inr (Or.inr (Or.inr (Or.inr (Or.inr (Or.inr ⟨k, Or.inl h1, Or.inr h2⟩)))))
    · exact Or.inr (Or.inr (Or.inr (Or.inr (Or.inr (Or.inr ⟨k, Or.inr h1, Or.inl h2⟩)))))
    · exact Or.inr (Or.inr (Or.inr (Or.inr (Or.inr (Or.inr ⟨k, Or.inr h1, Or.inr h2⟩)))))
    · exact Or.inr (Or.inr (Or.inl ⟨k, h1, Or.inl h2⟩))
    · exact Or.inr (Or.inr (Or.inl ⟨k, h1, Or.inr h2⟩))
    · exact Or.inr (Or.inr (Or.inr (Or.inl ⟨k, h2, h1⟩)))
    · exact Or.inr (Or.inr (Or.inr (Or.inr (Or.inl ⟨k, h1, Or.inl h2⟩))))
    · exact Or.inr (Or.inr (Or.inr (Or.inr (Or.inl ⟨k, h1, Or.inr h2⟩))))
    · exact Or.inr (Or.inr (Or.inr (Or.inr (Or.inr (Or.inl ⟨k, h2, h1⟩)))))
    · exact Or.inl ⟨k, h1, Or.inl h2⟩
    · exact Or.inl ⟨k, h1, Or.inr h2⟩
    · exact Or.inr (Or.inl ⟨k, h2, h1⟩)
  · rintro (⟨k, h1, h2 | h2⟩ | ⟨k, h1, h2⟩ | ⟨k, h1, h2 | h2⟩ | ⟨k, h1, h2⟩ | ⟨k, h1, h2 | h2⟩
      | ⟨k, h1, h2⟩ | ⟨k, h1 | h1, h2 | h2⟩)
    · exact Or.inr (Or.inr (Or.inr (Or.inr (Or.inr (Or.inr (Or.inr (Or.inr (Or.inr (Or.inr (Or.inl ⟨k, h1, h2⟩))))))))))
    · exact Or.inr (Or.inr (Or.inr (Or.inr (Or.inr (Or.inr (Or.inr (Or.inr (Or.inr (Or.inr (Or.inr (Or.inl ⟨k, h1, h2⟩)))))))))))
    · exact Or.inr (Or.inr (Or.inr (Or.inr (Or.inr (Or.inr (Or.inr (Or.inr (Or.inr (Or.inr (Or.inr (Or.inr ⟨k, h2, h1⟩)))))))))))
    · exact Or.inr (Or.inr (Or.inr (Or.inr (Or.inl ⟨k, h1, h2⟩))))
    · exact Or.inr (Or.inr (Or.inr (Or.inr (Or.inr (Or.inl ⟨k, h1, h2⟩)))))
    · exact Or.inr (Or.inr (Or.inr (Or.inr (Or.inr (Or.inr (Or.inl ⟨k, h2, h1⟩))))))
    · exact Or.inr (Or.inr (Or.inr (Or.inr (Or.inr (Or.inr (Or.inr (Or.inl ⟨k, h1, h2⟩)))))))
    · exact Or.inr (Or.inr (Or.inr (Or.inr (Or.inr (Or.inr (Or.inr (Or.inr (Or.inl ⟨k, h1, h2⟩))))))))
    · exact Or.inr (Or.inr (Or.inr (Or.inr (Or.inr (Or.inr (Or.inr (Or.inr (Or.inr (Or.inl ⟨k, h2, h1⟩)))))))))
    · exact Or.inl ⟨k, h1, h2⟩
    · exact Or.inr (Or.inl ⟨k, h1, h2⟩)
    · exact Or.inr (Or.inr (Or.inl ⟨k, h1, h2⟩))
    · exact Or.inr (Or.inr (Or.inr (Or.inl ⟨k, h1, h2⟩)))

/-! ## receipts -/

/-- **blockers_exact.** `Engine::reserve_for_receipt` over the radix scheduler never reports
    `InternalCorruption`, and its rows are `greedyRows conflict`: entry `i` is applied iff it
    conflicts with no earlier applied entry; otherwise `blocked_by i` is exactly the ascending list
    of the earlier *applied* entries it conflicts with (hence non-empty). -/
theorem blockers_exact (cs : List Footprint) :
    receiptRadix conflictCfg cs = some (greedyRows conflict [] 0 cs) := by
  unfold receiptRadix
  refine receiptLoop_eq_greedyRows (radixReserve conflictCfg) conflict
    (fun act acc => MarkedInv markAllTable act acc) ?_ ?_ ?_ cs Active.empty [] 0
    (by simpa using markedInv_empty markAllTable)
  · intro act acc c h
    have h1 : (radixReserve conflictCfg act c).2 = !hasConflict hasConflictTable act c := by
      unfold radixReserve; split <;> simp_all [conflictCfg]
    rw [h1, ← noConflict_eq h c]
    rw [Bool.eq_iff_iff, List.all_eq_true, List.all_eq_true]
    constructor <;> intro hh a ha
    · rw [← (predicates_agree_on_footprints c a).1]; exact hh a ha
    · rw [(predicates_agree_on_footprints c a).1]; exact hh a ha
  · intro act acc c h hr
    have : (radixReserve conflictCfg act c).1 = markAll markAllTable act c := by
      unfold radixReserve at *; split at hr <;> simp_all [conflictCfg]
    rw [this]; exact markedInv_mark c h
  · intro act acc c h hr
    rw [reserve_reject_marks_nothing act c hr]; exact h

/-- **receipt_wf.** The rows built by `reserve_for_receipt` satisfy every clause of
    `TickReceipt::try_from_retained_parts` (applied ⇒ no blockers, rejected ⇒ ≥ 1 blocker,
    blockers strictly increasing, each an earlier applied entry). -/
theorem receipt_wf (cs : List Footprint) :
    ∃ rows, receiptRadix conflictCfg cs = some rows ∧ rowsWf rows = true :=
  ⟨_, blockers_exact cs, greedyRows_wf conflict cs [] [] ⟨List.Pairwise.nil, by simp⟩⟩

/-! ## legacy scheduler -/

/-- masks are sound on a candidate list: conflicting footprints share a mask bit -/
def MasksSound (cs : List Footprint) : Prop :=
  ∀ c ∈ cs, ∀ a ∈ cs, conflict c a = true → c.mask &&& a.mask ≠ 0

/-- **legacy_eq_radix.** On the same drained order, if partition masks are sound, the legacy
    scheduler (`Footprint::independent` scan) and the radix scheduler make identical decisions. -/
theorem legacy_eq_radix (cs : List Footprint) (hs : MasksSound cs) :
    reserveAll (legacyReserve conflictCfg) [] cs
      = reserveAll (radixReserve conflictCfg) Active.empty cs := by
  rw [reserve_greedy, legacy_reserveAll_eq_greedy]
  apply greedy_congr
  intro c hc a ha
  have ha : a ∈ cs := by rcases ha with h | h; · cases h
                         · exact h
  have h2 := (predicates_agree_on_footprints c a).2.1
  simp only [independent, conflictCfg, three_predicates_agree.2.2.2, Bool.true_and, h2]
  cases hca : conflict c a with
  | false => simp
  | true =>
    have := hs c hc a ha hca
    simp [this]

/-- **legacy_diverges.** Without mask soundness the hypothesis is needed: two writers of one node
    with `factor_mask = 0` — radix rejects the second, legacy accepts it. -/
theorem legacy_diverges :
    let w : Footprint := { nWrite := [.node 1 0], mask := 0 }
    reserveAll (radixReserve conflictCfg) Active.empty [w, w] = [true, false]
    ∧ reserveAll (legacyReserve conflictCfg) [] [w, w] = [true, true] := by decide

example : MasksSound [{ nWrite := [.node 1 0], mask := 1 }, { nRead := [.node 1 0], mask := 3 }] := by
  intro c hc a ha _
  simp at hc ha
  rcases hc with rfl | rfl <;> rcases ha with rfl | rfl <;> decide

/-! ## sorting -/

/-- **layout_facts.** The extracted `bucket16` table has an arm for each of the 20 passes of
    `radix_sort`, every helper index is in range, and pass `i` buckets on the `i`-th 16-bit digit
    (least significant first) of the key `(scope ‖ rule ‖ nonce)`; `cmp_thin` compares
    scope, rule, nonce in that order. (The threshold is extracted too but no theorem depends on
    its value: both sorts return the same list.) -/
theorem layout_facts :
    layoutOK radixLayout 20 = true ∧ radixPassCount = 20
    ∧ cmpThinOrder = [.scope, .rule, .nonce] := by decide

/-- **small_sort_eq_lex.** `cmp_thin` (extracted field order) is the order of the key value, i.e.
    lexicographic on (scope bytes, rule, nonce); hence the comparison sort returns *the* strictly
    ascending permutation of a queue with distinct keys — whatever algorithm is used. -/
theorem small_sort_eq_lex (l l' : List Thin) (hb : ∀ r ∈ l, Bounded r)
    (hd : l.Pairwise (fun a b => K a ≠ K b))
    (hp : l'.Perm l) (hs : l'.Pairwise (fun a b => K a < K b)) :
    smallSort cmpThinOrder l = l' := by
  rw [layout_facts.2.2]
  obtain ⟨h1, h2⟩ := smallSort_sorted l hb
  refine eq_of_perm_of_strict K (h1.trans hp.symm) ?_ hs
  have hd' : (smallSort [.scope, .rule, .nonce] l).Pairwise (fun a b => K a ≠ K b) :=
    (h1.pairwise_iff (fun h => fun e => h e.symm)).2 hd
  exact (pairwise_and h2 hd').imp (fun ⟨h, hne⟩ => Nat.lt_of_le_of_ne h hne)

/-- **cmp_thin_lex.** `cmp_thin a b` is `lt`/`eq`/`gt` exactly as the triples
    (scope, rule, nonce) compare lexicographically. -/
theorem cmp_thin_lex (a b : Thin) :
    (cmpThin cmpThinOrder a b = .lt ↔ a.scope < b.scope ∨ (a.scope = b.scope ∧
        (a.rule < b.rule ∨ (a.rule = b.rule ∧ a.nonce < b.nonce))))
    ∧ (cmpThin cmpThinOrder a b = .eq ↔ a.scope = b.scope ∧ a.rule = b.rule ∧ a.nonce = b.nonce) := by
  rw [layout_facts.2.2, cmpThin_srn]
  constructor <;> (repeat' split) <;> simp <;> omega

/-- radix_eq_lex, relative to `PassOK` (discharged below by `counting_pass_stable`). With the extracted 20-entry layout, if every
    counting pass is the stable bucket concatenation (`PassOK`, the statement of
    `counting_pass_stable`), `radix_sort` returns — never panicking — *the* strictly ascending
    (in (scope bytes, rule, nonce)) permutation of the queue, i.e. the same list as the comparison
    sort. -/
theorem radix_eq_lex_of_pass (hpass : PassOK) (l : List Thin) (hb : ∀ r ∈ l, Bounded r)
    (hd : l.Pairwise (fun a b => K a ≠ K b)) :
    ∃ l', radixSort radixLayout radixPassCount l = some l' ∧ l'.Perm l
      ∧ l'.Pairwise (fun a b => K a < K b) ∧ l' = smallSort cmpThinOrder l := by
  rw [layout_facts.2.1]
  obtain ⟨l', h1, h2, h3⟩ := radixSort_sorted hpass radixLayout layout_facts.1 l hb
  have hd' : l'.Pairwise (fun a b => K a ≠ K b) :=
    (h2.pairwise_iff (fun h => fun e => h e.symm)).2 hd
  have hs : l'.Pairwise (fun a b => K a < K b) :=
    (pairwise_and h3 hd').imp (fun ⟨h, hne⟩ => Nat.lt_of_le_of_ne h hne)
  exact ⟨l', h1, h2, hs, (small_sort_eq_lex l l' hb hd h2 hs).symm⟩

example : Bounded ⟨2 ^ 256 - 1, 4294967295, 7, 0⟩ := ⟨by decide, by decide, by decide⟩

/-- **counting_pass_stable.** One radix pass as written (histogram over 65536 buckets, exclusive
    prefix sums, scatter into the destination array) never indexes out of bounds and equals the
    stable sort by that pass's digit: buckets in ascending digit order, each bucket in source
    order; it is a permutation of its input. -/
theorem counting_pass_stable (d : Thin → Nat) (src : List Thin) (hd : ∀ r ∈ src, d r < B) :
    countingPass d src = some (bucketConcat d src)
    ∧ (bucketConcat d src).Perm src
    ∧ (bucketConcat d src).Pairwise (fun a b => d a ≤ d b)
    ∧ ∀ R : Thin → Thin → Prop, src.Pairwise R →
        (bucketConcat d src).Pairwise (fun a b => d a = d b → R a b) :=
  ⟨countingPass_eq d src hd, bucketConcat_perm d src hd,
   bucketConcat_pairwise d src (fun _ _ => True) _ (pairwise_of_forall (fun _ _ => trivial) src)
     (fun a b e _ => Nat.le_of_eq e) (fun a b h => Nat.le_of_lt h),
   fun R hR => bucketConcat_pairwise d src R _ hR (fun a b _ h _ => h)
     (fun a b h e => absurd e (Nat.ne_of_lt h))⟩

/-- **radix_eq_lex.** With the extracted 20-entry layout, `radix_sort` never panics and returns
    *the* strictly ascending (scope bytes, rule, nonce) permutation of any queue with distinct
    keys — the same list as the comparison sort. -/
theorem radix_eq_lex (l : List Thin) (hb : ∀ r ∈ l, Bounded r)
    (hd : l.Pairwise (fun a b => K a ≠ K b)) :
    ∃ l', radixSort radixLayout radixPassCount l = some l' ∧ l'.Perm l
      ∧ l'.Pairwise (fun a b => K a < K b) ∧ l' = smallSort cmpThinOrder l :=
  radix_eq_lex_of_pass passOK l hb hd

/-- the queue after an arrival list has been enqueued -/
def enqueueAll (cs : List Cand) : PendingTx Cand :=
  cs.foldl (fun (q : PendingTx Cand) c => q.enqueue c.scope c.compact c) {}

theorem enqueueAll_inv (cs : List Cand)
    (hk : ∀ c ∈ cs, c.scope < 2 ^ 256 ∧ c.compact < 4294967296) : QInv (enqueueAll cs) := by
  unfold enqueueAll
  suffices h : ∀ (q : PendingTx Cand), QInv q →
      QInv (cs.foldl (fun (q : PendingTx Cand) c => q.enqueue c.scope c.compact c) q) from
    h _ qinv_empty
  induction cs with
  | nil => intro q h; exact h
  | cons c cs ih =>
    intro q h
    rw [List.foldl_cons]
    apply ih (fun c' hc' => hk c' (List.mem_cons_of_mem _ hc'))
    exact enqueue_inv q c.scope c.compact c (hk c List.mem_cons_self).1 (hk c List.mem_cons_self).2 h

/-- **drain_order_canonical.** Whatever the arrival order, repeats and batch size (either side of
    the extracted threshold), the sort inside `drain_in_order` succeeds and yields a permutation of
    the queue — one entry per distinct `(scope, rule)` (`enqueue_inv`) — that is strictly
    ascending in (scope bytes, rule id); the nonce never decides. -/
theorem drain_order_canonical (cs : List Cand)
    (hk : ∀ c ∈ cs, c.scope < 2 ^ 256 ∧ c.compact < 4294967296) :
    ∃ sorted, sortThin sortCfg (enqueueAll cs).thin = some sorted
      ∧ sorted.Perm (enqueueAll cs).thin
      ∧ sorted.Pairwise (fun a b => a.scope < b.scope ∨ (a.scope = b.scope ∧ a.rule < b.rule)) := by
  have hq := enqueueAll_inv cs hk
  have hd := qinv_K_distinct hq
  have hb := hq.bounded
  have hkeys := List.pairwise_map.1 hq.distinct
  -- any strictly K-ascending permutation is strictly (scope, rule)-ascending
  have fin : ∀ sorted : List Thin, sorted.Perm (enqueueAll cs).thin →
      sorted.Pairwise (fun a b => K a < K b) →
      sorted.Pairwise (fun a b => a.scope < b.scope ∨ (a.scope = b.scope ∧ a.rule < b.rule)) := by
    intro sorted hp hs
    have hk' : sorted.Pairwise (fun a b => a.key ≠ b.key) :=
      (hp.pairwise_iff (fun h => fun e => h e.symm)).2 hkeys
    refine List.Pairwise.imp_of_mem ?_ (pairwise_and hs hk')
    intro a b ha hb' ⟨hlt, hne⟩
    have := (K_lt_iff (hb a (hp.mem_iff.1 ha)) (hb b (hp.mem_iff.1 hb'))).1 hlt
    rcases this with h | ⟨h1, h | ⟨h2, _⟩⟩
    · exact Or.inl h
    · exact Or.inr ⟨h1, h⟩
    · exact absurd (by unfold Thin.key; rw [h1, h2]) hne
  unfold sortThin
  split
  · split
    · obtain ⟨h1, h2⟩ := smallSort_sorted (enqueueAll cs).thin hb
      have horder : sortCfg.order = [.scope, .rule, .nonce] := layout_facts.2.2
      rw [horder]
      have hd' := (h1.pairwise_iff (fun h => fun e => h e.symm)).2 hd
      have hs := (pairwise_and h2 hd').imp (fun ⟨h, hne⟩ => Nat.lt_of_le_of_ne h hne)
      exact ⟨_, rfl, h1, fin _ h1 hs⟩
    · obtain ⟨l', h1, h2, h3, _⟩ := radix_eq_lex (enqueueAll cs).thin hb hd
      exact ⟨l', h1, h2, fin _ h2 h3⟩
  · rename_i hlen
    refine ⟨_, rfl, List.Perm.refl _, ?_⟩
    match h : (enqueueAll cs).thin with
    | [] => exact List.Pairwise.nil
    | [x] => exact List.pairwise_singleton _ _
    | _ :: _ :: _ => rw [h] at hlen; simp at hlen

/-- **legacy_drain_sorted.** The legacy queue (`BTreeMap<(scope, rule_id), _>`) is strictly
    key-sorted after any arrival list, so `into_values` drains in ascending (scope, rule id). -/
theorem legacy_drain_sorted (cs : List Cand) :
    SMap.Sorted (cs.foldl (fun (m : SMap (Nat × Nat) Cand) c => SMap.insert (c.scope, c.ruleId) c m) []) := by
  suffices h : ∀ (m : SMap (Nat × Nat) Cand), SMap.Sorted m →
      SMap.Sorted (cs.foldl (fun (m : SMap (Nat × Nat) Cand) c => SMap.insert (c.scope, c.ruleId) c m) m) from
    h [] (by simp [SMap.Sorted])
  induction cs with
  | nil => intro m h; exact h
  | cons c cs ih => intro m h; rw [List.foldl_cons]; exact ih _ (SMap.sorted_insert _ _ h)

end EchoVerif.C03
