/-
  C08 — ingress is content-addressed, idempotent and order-free.
  PROPERTY THEOREMS ONLY (helpers are in Lemmas/Inbox.lean). Model: Model/Inbox.lean.
-/
import EchoVerif.Lemmas.Inbox

set_option linter.unusedSimpArgs false
set_option linter.unusedVariables false

namespace EchoVerif.C08
open EchoVerif EchoVerif.Inbox SMap LinOrd

/-- **ingress_id_fun.** The ingress-id pre-image of an envelope is a function of its kind, its
    bytes and the SET of cited causal parents: the id the caller supplies, the routing target, the
    order and the multiplicity of the cited parents do not occur in it. -/
theorem ingress_id_fun (id id' : Nat) (tg tg' : Target) (kind : Nat) (bytes : Bytes)
    {ps ps' : List Parent} (h : ∀ p, p ∈ ps ↔ p ∈ ps') :
    (Envelope.mk' id tg kind bytes ps).preimage = (Envelope.mk' id' tg' kind bytes ps').preimage := by
  simp only [Envelope.mk', Envelope.preimage, canonParents_congr h]

example : (Envelope.mk' 1 (.defaultWriter 0) 7 [1, 2] [((0, 1, 2, 3), (4, 5, 6, 7)), ((1, 1, 2, 3), (4, 5, 6, 7))]).preimage
    = (Envelope.mk' 2 (.exactHead 3 4) 7 [1, 2]
        [((1, 1, 2, 3), (4, 5, 6, 7)), ((0, 1, 2, 3), (4, 5, 6, 7)), ((1, 1, 2, 3), (4, 5, 6, 7))]).preimage :=
  ingress_id_fun _ _ _ _ _ _ (by intro p; simp only [List.mem_cons, List.mem_nil_iff, or_false]; grind)

/-- **parents_canonical.** The constructor stores the cited parents strictly ascending (hence
    duplicate-free) and with exactly the members that were cited. -/
theorem parents_canonical (id : Nat) (tg : Target) (kind : Nat) (bytes : Bytes) (ps : List Parent) :
    (Envelope.mk' id tg kind bytes ps).parents.Pairwise (fun a b => lt a b = true) ∧
    ∀ p, p ∈ (Envelope.mk' id tg kind bytes ps).parents ↔ p ∈ ps :=
  ⟨canonParents_sorted ps, mem_canonParents ps⟩

/-- **ingest_set.** Folding `ingest` over two envelope lists with the same members — any
    permutation, any retry multiplicities — leaves the same pending map and policy, whatever was
    pending before and whatever the policy. (`IdFaithful`: envelopes with equal ids are equal,
    i.e. no BLAKE3 collision and one routing target per intent inside the batch.) -/
theorem ingest_set (ib : HeadInbox) (hs : Sorted ib.pending) {xs ys : List Envelope}
    (hm : ∀ e, e ∈ xs ↔ e ∈ ys) (hf : IdFaithful xs) :
    (ingestAll ib xs).pending = (ingestAll ib ys).pending ∧
    (ingestAll ib xs).policy = (ingestAll ib ys).policy := by
  refine ⟨?_, by rw [ingestAll_policy, ingestAll_policy]⟩
  apply ext (sorted_ingestAll xs ib hs) (sorted_ingestAll ys ib hs)
  intro k
  rw [find?_ingestAll, find?_ingestAll, find?_congr_of_faithful hm hf k ib.policy]

example : IdFaithful [Envelope.mk' 5 (.defaultWriter 0) 1 [] [], Envelope.mk' 9 (.defaultWriter 0) 1 [7] []] := by
  intro a ha b hb h
  simp only [List.mem_cons, List.mem_nil_iff, or_false] at ha hb
  rcases ha with rfl | rfl <;> rcases hb with rfl | rfl <;> first | rfl | (simp [Envelope.mk'] at h)

/-- **ingest_disposition.** The answer to every ingest of a run is determined by the policy, by
    what was pending before the run, and by whether an accepted envelope with the same id came
    EARLIER in the run: the first accepted occurrence is `accepted`, every later one `duplicate`,
    policy misses are `rejected` (and are never stored). -/
theorem ingest_disposition (ib : HeadInbox) (pre : List Envelope) (e : Envelope) :
    (ingest (ingestAll ib pre) e).2 =
      if policyAccepts ib.policy e = true then
        (if (find? e.id ib.pending).isSome
            || pre.any (fun a => decide (e.id = a.id) && policyAccepts ib.policy a)
         then IngestResult.duplicate else IngestResult.accepted)
      else IngestResult.rejected := by
  rw [ingest_result, ingestAll_policy, find?_ingestAll]
  by_cases hp : policyAccepts ib.policy e = true
  · simp only [hp, if_true]
    cases hk : find? e.id ib.pending with
    | some v => simp
    | none => simp only [Option.isSome_none, Bool.false_or, List.find?_isSome, List.any_eq_true]
  · simp [hp]

/-- **admit_canonical.** `admit` returns a prefix of the pending map in strictly ascending id
    order and leaves exactly the matching suffix pending: the whole map for `AcceptAll`/`KindFilter`,
    the first `max_per_tick` entries for `Budgeted`; the policy is unchanged. -/
theorem admit_canonical (ib : HeadInbox) (hs : Sorted ib.pending)
    (hk : ∀ k e, find? k ib.pending = some e → e.id = k) :
    let n := match ib.policy with | .budgeted b => b | _ => ib.pending.length
    (admitBatch ib).2 = values (ib.pending.take n) ∧
    (admitBatch ib).1.pending = ib.pending.drop n ∧
    (admitBatch ib).1.policy = ib.policy ∧
    ((admitBatch ib).2.map (·.id)).Pairwise (fun a b => a < b) ∧
    (admitBatch ib).2 ++ values (admitBatch ib).1.pending = values ib.pending := by
  obtain ⟨n, h1, h2, h3, h4⟩ := admit_split ib
  subst h4
  refine ⟨h1, h2, h3, ?_, ?_⟩
  · rw [h1, keys_eq_ids hs hk]
    exact (pairwise_keys (sorted_take _ hs)).imp (fun h => by simpa [LinOrd.lt] using h)
  · rw [h1, h2]; simp only [values, ← List.map_append, List.take_append_drop]

/-- **policy_retain.** `set_policy` keeps exactly the pending envelopes the new policy accepts
    (same keys, same envelopes, same order), and installs the policy. -/
theorem policy_retain (ib : HeadInbox) (p : Policy) (hs : Sorted ib.pending) :
    (setPolicy ib p).policy = p ∧ Sorted (setPolicy ib p).pending ∧
    ∀ k, find? k (setPolicy ib p).pending = (find? k ib.pending).filter (fun e => policyAccepts p e) :=
  ⟨rfl, sorted_filter _ hs, setPolicy_find? ib p hs⟩

/-- **at_most_once.** For every interleaving of `ingest | tick | set_policy | restart` on a writer
    head (starting from any state satisfying the invariant, e.g. the empty head):
    (1) nothing is ever both pending and committed;
    (2) over the whole run every ingress id occurs in at most one committed batch, and never in one
        if it was committed before the run;
    (3) once an id is committed, every later retry — after any further operations, restarts
        included — is answered `duplicate`. -/
theorem at_most_once (h : Head) (hi : h.Inv) (ops : List Op) :
    (∀ k, contains k (h.run ops).committed = true → find? k (h.run ops).inbox.pending = none) ∧
    ((h.batchIds ops).Nodup ∧ ∀ k ∈ h.batchIds ops, contains k h.committed = false) ∧
    (∀ e, contains e.id h.committed = true → ((h.run ops).ingest e).2 = IngestResult.duplicate) := by
  refine ⟨(Head.inv_run ops h hi).disj, Head.batchIds_spec ops h hi, ?_⟩
  intro e he
  have := Head.committed_mono_run ops h e.id he
  unfold Head.ingest; rw [this]; rfl

example (p : Policy) : (Head.empty p).Inv := Head.inv_empty p

/-- **committed_after_tick.** Whatever a tick commits is in the committed set afterwards, so by
    `at_most_once (3)` a retry after its commit is a duplicate for ever. -/
theorem committed_after_tick (h : Head) (e : Envelope) (he : e ∈ (h.tick).2) :
    contains e.id (h.tick).1.committed = true := by
  obtain ⟨n, _, _, _, hc⟩ := Head.tick_spec h
  rw [hc, contains_recordCommitted]
  simp only [Bool.or_eq_true, decide_eq_true_eq]
  exact Or.inl (List.mem_map.mpr ⟨e, he, rfl⟩)

/-- **retry_while_pending.** A retry of a pending envelope is `duplicate` and changes nothing. -/
theorem retry_while_pending (h : Head) (hi : h.Inv) (e v : Envelope)
    (hp : find? e.id h.inbox.pending = some v) (ha : policyAccepts h.inbox.policy e = true) :
    (h.ingest e).2 = IngestResult.duplicate ∧ (h.ingest e).1.inbox.pending = h.inbox.pending ∧
    (h.ingest e).1.committed = h.committed := by
  have hc : contains e.id h.committed = false := by
    cases hcc : contains e.id h.committed with
    | false => rfl
    | true => rw [hi.disj _ hcc] at hp; cases hp
  unfold Head.ingest Inbox.ingest
  simp [hc, ha, hp]

/-- Ingest a list at a head (`WorldlineRuntime::ingest` after routing). -/
def ingestAllHead (h : Head) (es : List Envelope) : Head := es.foldl (fun h e => (h.ingest e).1) h

theorem ingestAllHead_eq (es : List Envelope) : ∀ (h : Head),
    ingestAllHead h es =
      { h with inbox := ingestAll h.inbox (es.filter (fun e => !contains e.id h.committed)) } := by
  induction es with
  | nil => intro h; rfl
  | cons e es ih =>
    intro h
    show ingestAllHead (h.ingest e).1 es = _
    rw [ih, Head.ingest_committed]
    unfold Head.ingest
    by_cases hc : contains e.id h.committed = true
    · simp [hc, List.filter]
    · simp only [Bool.not_eq_true] at hc
      simp [hc, List.filter, ingestAll]

/-- **tick_order_free.** Between two scheduler passes the arrival order and the retry
    multiplicities of a set of submissions are invisible to the next pass: the head state after
    the submissions, the batch the next tick commits (content and order) and the head state after
    that tick are identical. (Partial with respect to the DESIGN's `ticks_order_free`: the commit
    itself — C01's tick on the admitted batch — is outside this model; it is a function of the
    batch, and is compared across permutations on the real code by the oracle.) -/
theorem tick_order_free_partial (h : Head) (hi : h.Inv) {xs ys : List Envelope}
    (hm : ∀ e, e ∈ xs ↔ e ∈ ys) (hf : IdFaithful xs) :
    (ingestAllHead h xs).tick = (ingestAllHead h ys).tick ∧
    (ingestAllHead h xs).inbox.pending = (ingestAllHead h ys).inbox.pending := by
  have hf' : IdFaithful (xs.filter (fun e => !contains e.id h.committed)) :=
    fun a ha b hb hab => hf a (List.mem_filter.mp ha).1 b (List.mem_filter.mp hb).1 hab
  have hm' : ∀ e, e ∈ xs.filter (fun e => !contains e.id h.committed)
      ↔ e ∈ ys.filter (fun e => !contains e.id h.committed) := by
    intro e; simp only [List.mem_filter, hm e]
  obtain ⟨h1, h2⟩ := ingest_set h.inbox hi.sp hm' hf'
  have heq : ingestAllHead h xs = ingestAllHead h ys := by
    rw [ingestAllHead_eq, ingestAllHead_eq]
    have : ingestAll h.inbox (xs.filter (fun e => !contains e.id h.committed))
        = ingestAll h.inbox (ys.filter (fun e => !contains e.id h.committed)) := by
      cases hx : ingestAll h.inbox (xs.filter (fun e => !contains e.id h.committed))
      cases hy : ingestAll h.inbox (ys.filter (fun e => !contains e.id h.committed))
      rw [hx, hy] at h1 h2
      simp only at h1 h2
      rw [h1, h2]
    rw [this]
  rw [heq]; exact ⟨rfl, rfl⟩

/-- **plain_restart_recommits** (finding C08-restart-plain-ingest). If restart forgets the
    committed-ingress ledger — which is what `restore_causal_runtime_history` does for intents that
    entered through plain `WorldlineRuntime::ingest` — at-most-once fails: the same intent is
    accepted again after the restart and committed a second time on the same head. -/
theorem plain_restart_recommits :
    let e := Envelope.mk' 5 (.defaultWriter 0) 1 [42] []
    let h0 := Head.empty .acceptAll
    let h1 := ((h0.ingest e).1.tick)
    let h2 := (h1.1.restartForgetful.ingest e)
    h1.2.map (·.id) = [5] ∧ h2.2 = IngestResult.accepted ∧ (h2.1.tick).2.map (·.id) = [5] := by
  decide

/-! ### observation: the two pre-image domains overlap -/

private def wps : List Parent := [((0, 1, 2, 3), (4, 5, 6, 7))]
private def wtail : Bytes := ascii "causal:v2" ++ [0] ++ ((idParts 7 [1] wps).drop 1).flatten

/-- **id_domain_overlap** (observation, reproduced on the real code by the oracle tag
    `obs:id-domain-overlap`). `"ingress:"` is a prefix of `"ingress:causal:v2\0"` and the legacy
    domain has no length prefix, so the byte string hashed for a causal intent is also the byte
    string hashed for a parentless intent of a different kind (one starting with `causal:v2\0`):
    two different (kind, bytes, parents) triples share one ingress id without any BLAKE3
    collision. Identity is still a *function* of the triple (`ingress_id_fun`), which is all C08
    states; it is not injective across the two domains. -/
theorem id_domain_overlap :
    (idParts (beNat (wtail.take 32)) (wtail.drop 32) []).flatten = (idParts 7 [1] wps).flatten ∧
    beNat (wtail.take 32) ≠ 7 := by
  decide +kernel

end EchoVerif.C08
