/-
  C15 — speculative lanes fork faithfully and settle lawfully (Model/Settle.lean).
  Property theorems only; helper lemmas live in Lemmas/Settle.lean.
-/
import EchoVerif.Lemmas.Settle

set_option linter.unusedSimpArgs false
set_option linter.unusedVariables false

namespace EchoVerif.C15
open EchoVerif.Settle

/-! ## fork -/

/-- `fork_faithful`: a successful fork gives the child exactly the parent's history prefix `0…k` with
    the lane id rewritten, a frontier equal to the replay of that prefix, the same replay on every
    sub-prefix, a lane (hence a writer-head key `(child, head)`) that did not exist before, and leaves
    every other lane, the global tick and the shells untouched. -/
theorem fork_faithful {init : St} {rq : ForkReq} {rt rt' : Rt} {pv pv' : Pv} {rc : ForkReceipt}
    (h : fork init rq rt pv = .ok (rt', pv', rc)) :
    ∃ hsrc, lookup rq.src pv.hists = some hsrc ∧ rq.tick < hsrc.length ∧
      lookup rq.child pv'.hists = some ((hsrc.take (rq.tick + 1)).map (rewriteEntry rq.child)) ∧
      (∀ j, replay init (((hsrc.take (rq.tick + 1)).map (rewriteEntry rq.child)).take j)
              = replay init ((hsrc.take (rq.tick + 1)).take j)) ∧
      (∃ σ l, replay init (hsrc.take (rq.tick + 1)) = some σ ∧ lookup rq.child rt'.lanes = some l ∧
              l.state = σ ∧ l.pending = none ∧ l.head = rq.head) ∧
      lookup rq.child rt.lanes = none ∧ lookup rq.child pv.hists = none ∧
      (∀ a, a ≠ rq.child → lookup a rt'.lanes = lookup a rt.lanes ∧ lookup a pv'.hists = lookup a pv.hists) ∧
      rt'.gtick = rt.gtick ∧ pv'.shells = pv.shells ∧ pv'.plurals = pv.plurals := by
  unfold fork at h
  cases hl : lookup rq.src rt.lanes with
  | none => simp [hl] at h
  | some lsrc =>
    cases hh : lookup rq.src pv.hists with
    | none => simp [hl, hh] at h
    | some hsrc =>
      simp only [hl, hh] at h
      by_cases c1 : rq.tick > hsrc.length
      · simp [c1] at h
      · simp only [c1, if_false] at h
        cases c2 : lookup rq.child pv.hists with
        | some x => simp [c2] at h
        | none =>
          simp only [c2, Option.isSome_none, Bool.false_eq_true, if_false] at h
          by_cases c3 : rq.tick ≥ hsrc.length
          · simp [c3] at h
          · simp only [c3, if_false, List.map_take] at h
            cases hr : replay init ((hsrc.map (rewriteEntry rq.child)).take (rq.tick + 1)) with
            | none => simp [hr] at h
            | some σ =>
              cases hb : hsrc[rq.tick]? with
              | none => simp [hr, hb] at h
              | some be =>
                simp only [hr, hb] at h
                cases c4 : lookup rq.child rt.lanes with
                | some x => simp [c4] at h
                | none =>
                  simp only [c4, Option.isSome_none, Bool.false_eq_true, if_false] at h
                  cases c5 : lookup rq.sid rt.strands with
                  | some x => simp [c5] at h
                  | none =>
                    simp only [c5, Option.isSome_none, Bool.false_eq_true, if_false] at h
                    simp only [Except.ok.injEq, Prod.mk.injEq] at h
                    obtain ⟨h1, h2, _⟩ := h
                    subst h1; subst h2
                    refine ⟨hsrc, rfl, by omega, ?_, ?_, ?_, rfl, rfl, ?_, rfl, rfl, rfl⟩
                    · simp [lookup_append_none c2, lookup, List.map_take]
                    · intro j
                      rw [← List.map_take]
                      exact replay_map_rewrite _ _ _
                    · rw [← List.map_take, replay_map_rewrite] at hr
                      exact ⟨σ, { state := σ, pending := none, head := rq.head }, hr,
                        by simp [lookup_append_none c4, lookup], rfl, rfl, rfl⟩
                    · intro a ha
                      exact ⟨lookup_append_ne _ ha _, lookup_append_ne _ ha _⟩

/-- non-vacuity: a concrete fork succeeds -/
example : ∃ r, fork (fun _ => none) { sid := 1, src := 1, tick := 0, child := 2, head := 1, shared := true }
    { lanes := [(1, { state := fun _ => none, pending := none, head := 1 })], strands := [], gtick := 1 }
    { hists := [(1, [{ wl := 1, kind := .localCommit 1, patch := some emptyPatch, root := [] }])],
      shells := [], plurals := [] } = .ok r := ⟨_, rfl⟩

/-! ## lane isolation -/

theorem passFold_frame (univ : List Slot) (a : Nat) : ∀ (keys : List Nat) (s : Rt × Pv),
    (∀ l, lookup a s.1.lanes = some l → l.pending = none) →
    lookup a (keys.foldl (fun s w => commitLane univ w s) s).1.lanes = lookup a s.1.lanes ∧
    lookup a (keys.foldl (fun s w => commitLane univ w s) s).2.hists = lookup a s.2.hists
  | [], s, _ => ⟨rfl, rfl⟩
  | w :: ks, s, h => by
    have hf := commitLane_frame univ w s a (Or.inr h)
    have h' : ∀ l, lookup a (commitLane univ w s).1.lanes = some l → l.pending = none := by
      intro l hl; rw [hf.1] at hl; exact h l hl
    have ih := passFold_frame univ a ks (commitLane univ w s) h'
    simp only [List.foldl_cons]
    exact ⟨ih.1.trans hf.1, ih.2.trans hf.2.1⟩

theorem passFold_global (univ : List Slot) : ∀ (keys : List Nat) (s : Rt × Pv),
    (keys.foldl (fun s w => commitLane univ w s) s).1.strands = s.1.strands ∧
    (keys.foldl (fun s w => commitLane univ w s) s).2.shells = s.2.shells ∧
    (keys.foldl (fun s w => commitLane univ w s) s).2.plurals = s.2.plurals
  | [], s => by simp
  | w :: ks, s => by
    have hf := commitLane_frame univ w s (w + 1) (Or.inl (by omega))
    have ih := passFold_global univ ks (commitLane univ w s)
    simp only [List.foldl_cons]
    exact ⟨ih.1.trans hf.2.2.1, ih.2.1.trans hf.2.2.2.2.1, ih.2.2.trans hf.2.2.2.2.2⟩

/-- `lanes_isolated`: a scheduler pass changes neither the frontier (state, inbox, head) nor the
    history of any lane that has no pending work — whichever other lanes (its parent, its strands,
    unrelated worldlines) commit in that pass — and never touches the strand registry or the shells.
    Hence strand ticks never change the parent and parent ticks never change the strand. -/
theorem lanes_isolated (univ : List Slot) (rt : Rt) (pv : Pv) (a : Nat)
    (h : ∀ l, lookup a rt.lanes = some l → l.pending = none) :
    lookup a (pass univ rt pv).1.lanes = lookup a rt.lanes ∧
    lookup a (pass univ rt pv).2.hists = lookup a pv.hists ∧
    (pass univ rt pv).1.strands = rt.strands ∧ (pass univ rt pv).2.shells = pv.shells := by
  unfold pass
  have hf := passFold_frame univ a (sortNats (rt.lanes.map (·.1))) (rt, pv) h
  have hg := passFold_global univ (sortNats (rt.lanes.map (·.1))) (rt, pv)
  exact ⟨hf.1, hf.2, hg.1, hg.2.1⟩

/-! ## the planner -/

/-- `plan_pure`: `plan` returns a value only (its type has no runtime/provenance component) and is a
    function of exactly: the strand record, the parent frontier state, the parent history and the
    child history. Inboxes, other lanes, the global tick, shells and plural bindings do not occur. -/
theorem plan_pure (univ : List Slot) (plural : Bool) (sid : Nat) (rt rt2 : Rt) (pv pv2 : Pv) (st : Strand)
    (hs : lookup sid rt.strands = some st) (hs2 : lookup sid rt2.strands = some st)
    (hl : (lookup st.parent rt.lanes).map (·.state) = (lookup st.parent rt2.lanes).map (·.state))
    (hp : lookup st.parent pv.hists = lookup st.parent pv2.hists)
    (hc : lookup st.child pv.hists = lookup st.child pv2.hists) :
    plan univ plural sid rt pv = plan univ plural sid rt2 pv2 := by
  unfold plan
  simp only [hs, hs2, ← hp, ← hc]
  cases hsh : st.shared <;> simp only [Bool.not_true, Bool.not_false, if_true, if_false, Bool.false_eq_true]
  cases h1 : lookup st.parent rt.lanes with
  | none =>
    rw [h1] at hl
    cases h2 : lookup st.parent rt2.lanes with
    | none => rfl
    | some l2 => rw [h2] at hl; simp at hl
  | some l1 =>
    rw [h1] at hl
    cases h2 : lookup st.parent rt2.lanes with
    | none => rw [h2] at hl; simp at hl
    | some l2 =>
      rw [h2] at hl
      have hl' : l1.state = l2.state := by simpa using hl
      cases lookup st.parent pv.hists <;> cases lookup st.child pv.hists <;> simp [hl']

theorem planGo_blocked (univ : List Slot) (plural : Bool) (basis : Basis) : ∀ (es : List Entry) (a : PlanAcc),
    a.blocked.isSome → ∀ d ∈ (planGo univ plural basis a es).1, d.isImport = false
  | [], a, _, d, hd => by simp [planGo] at hd
  | e :: es, a, hb, d, hd => by
    obtain ⟨r, hr⟩ := Option.isSome_iff_exists.mp hb
    have hstep : (planStep univ plural basis a e).2.isImport = false ∧
        (planStep univ plural basis a e).1.blocked.isSome := by
      simp [planStep, hr, Decision.isImport]
    simp only [planGo, List.mem_cons] at hd
    rcases hd with hd | hd
    · rw [hd]; exact hstep.1
    · exact planGo_blocked univ plural basis es _ hstep.2 d hd

theorem planStep_latch (univ : List Slot) (plural : Bool) (basis : Basis) (a : PlanAcc) (e : Entry)
    (h : (planStep univ plural basis a e).2.isImport = false) :
    (planStep univ plural basis a e).1.blocked.isSome := by
  unfold planStep at h ⊢
  cases hb : a.blocked with
  | some r => simp
  | none =>
    simp only [hb] at h ⊢
    cases hk : e.kind.isLocal with
    | false => simp
    | true =>
      simp only [hk, if_true] at h ⊢
      cases hp : e.patch with
      | none => simp
      | some p =>
        simp only [hp] at h ⊢
        cases ha : applyOps a.sim p.ops with
        | none => simp
        | some cand =>
          simp only [ha] at h ⊢
          split
          · simp
          · split
            · rename_i h1 h2
              simp [h1, h2, Decision.isImport] at h
            · split
              · rename_i h1 h2 h3
                simp [h1, h2, h3, Decision.isImport] at h
              · split <;> simp

/-- `plan_latched`: after the first non-import decision every later decision of the plan is a
    conflict or plural artifact — for every suffix, parent movement, policy and starting state. -/
theorem plan_latched (univ : List Slot) (plural : Bool) (basis : Basis) : ∀ (es : List Entry) (a : PlanAcc)
    (pre post : List Decision) (d : Decision),
    (planGo univ plural basis a es).1 = pre ++ d :: post → d.isImport = false →
    ∀ d' ∈ post, d'.isImport = false
  | [], a, pre, post, d, h, _, _, _ => by
    simp [planGo] at h
  | e :: es, a, pre, post, d, h, hd, d', hd' => by
    simp only [planGo] at h
    cases pre with
    | nil =>
      simp only [List.nil_append, List.cons.injEq] at h
      obtain ⟨h1, h2⟩ := h
      rw [← h1] at hd
      have hb := planStep_latch univ plural basis a e hd
      exact planGo_blocked univ plural basis es _ hb d' (by rw [h2]; exact hd')
    | cons d0 pre' =>
      simp only [List.cons_append, List.cons.injEq] at h
      exact plan_latched univ plural basis es _ pre' post d h.2 hd d' hd'

/-- at most one plural alternative per plan (a plural latches `PluralUpstream`) -/
theorem plan_single_plural (univ : List Slot) (plural : Bool) (basis : Basis) (es : List Entry) (a : PlanAcc)
    (pre post : List Decision) (t : Nat) (sl : List Slot)
    (h : (planGo univ plural basis a es).1 = pre ++ Decision.plur t sl :: post) :
    ∀ d' ∈ post, ∀ t' sl', d' ≠ Decision.plur t' sl' := by
  intro d' hd' t' sl' heq
  have hb := planGo_blocked univ plural basis
  -- after a plural the accumulator is blocked; every later decision is a `conf`
  revert h
  induction es generalizing a pre with
  | nil => intro h; simp [planGo] at h
  | cons e es ih =>
    intro h
    simp only [planGo] at h
    cases pre with
    | nil =>
      simp only [List.nil_append, List.cons.injEq] at h
      obtain ⟨h1, h2⟩ := h
      have hlatch := planStep_latch univ plural basis a e (by rw [h1]; rfl)
      have : ∀ (es : List Entry) (a : PlanAcc), a.blocked.isSome →
          ∀ d ∈ (planGo univ plural basis a es).1, ∀ t' sl', d ≠ Decision.plur t' sl' := by
        intro es
        induction es with
        | nil => intro a _ d hd; simp [planGo] at hd
        | cons e es ih2 =>
          intro a hb d hd t' sl'
          obtain ⟨r, hr⟩ := Option.isSome_iff_exists.mp hb
          simp only [planGo, List.mem_cons] at hd
          rcases hd with hd | hd
          · rw [hd]; simp [planStep, hr]
          · exact ih2 _ (by simp [planStep, hr]) d hd t' sl'
      exact this es _ hlatch d' (by rw [h2]; exact hd') t' sl' heq
    | cons d0 pre' =>
      simp only [List.cons_append, List.cons.injEq] at h
      exact ih _ pre' h.2

/-! ## settlement execution: all-or-nothing -/

/-- what the decision loop may have done to provenance when it stops (anywhere): appended entries to the
    target worldline, nothing else. -/
def Appended (target : Nat) (pv pv' : Pv) : Prop :=
  ∃ h extra, lookup target pv.hists = some h ∧ pv'.hists = setKV target (h ++ extra) pv.hists ∧
    pv'.shells = pv.shells ∧ pv'.plurals = pv.plurals

theorem appendRecorded_appended {univ : List Slot} {target : Nat} {kind : Kind} {p : Patch}
    {ex : Option (List Val)} {s s' : Rt × Pv} {pv0 : Pv} (h0 : Appended target pv0 s.2)
    (h : appendRecorded univ target kind p ex s = .ok s') : Appended target pv0 s'.2 := by
  unfold appendRecorded at h
  cases hl : lookup target s.1.lanes with
  | none => simp [hl] at h
  | some l =>
    cases hh : lookup target s.2.hists with
    | none => simp [hl, hh] at h
    | some hist =>
      simp only [hl, hh] at h
      cases ha : applyOps l.state p.ops with
      | none => simp [ha] at h
      | some σ' =>
        simp only [ha] at h
        split at h
        · cases h
        · simp only [Except.ok.injEq] at h
          subst h
          obtain ⟨h00, extra, hl0, hh0, hs0, hp0⟩ := h0
          rw [hh0, lookup_setKV_same] at hh
          simp only [Option.some.injEq] at hh
          refine ⟨h00, extra ++ [{ wl := target, kind := kind, patch := some p, root := rootOf univ σ' }],
            hl0, ?_, hs0, hp0⟩
          simp only [hh0, setKV_setKV, ← hh, List.append_assoc]

theorem execDecision_appended {univ : List Slot} {pl : Plan} {d : Decision} {s s' : Rt × Pv} {pv0 : Pv}
    (h0 : Appended pl.target pv0 s.2) (h : execDecision univ pl d s = .ok s') :
    Appended pl.target pv0 s'.2 := by
  unfold execDecision at h
  cases d with
  | imp t root rev =>
    simp only at h
    split at h
    · cases h
    · split at h
      · cases h
      · exact appendRecorded_appended (s := ({ s.1 with gtick := s.1.gtick + 1 }, s.2)) h0 h
  | conf t r rev => exact appendRecorded_appended (s := ({ s.1 with gtick := s.1.gtick + 1 }, s.2)) h0 h
  | plur t sl => exact appendRecorded_appended (s := ({ s.1 with gtick := s.1.gtick + 1 }, s.2)) h0 h

theorem execLoop_appended (univ : List Slot) (pl : Plan) (fail : Fail) (pv0 : Pv) :
    ∀ (ds : List Decision) (i : Nat) (s : Rt × Pv), Appended pl.target pv0 s.2 →
    Appended pl.target pv0 (execLoop univ pl fail i ds s).2.2
  | [], i, s, h => by simpa [execLoop] using h
  | d :: ds, i, s, h => by
    unfold execLoop
    split
    · exact h
    · cases hd : execDecision univ pl d s with
      | error e => simpa using h
      | ok s' =>
        simp only
        exact execLoop_appended univ pl fail pv0 ds (i + 1) s' (execDecision_appended h hd)

theorem restore_appended {target : Nat} {pv pv' : Pv} {cp : ProvCheckpoint}
    (hcp : checkpointFor target pv = some cp) (h : Appended target pv pv') : restoreProv cp pv' = pv := by
  obtain ⟨h0, extra, hl, hh, hs, hp⟩ := h
  unfold checkpointFor at hcp
  simp only [hl, Option.map_some, Option.some.injEq] at hcp
  subst hcp
  unfold restoreProv
  simp only [hh, lookup_setKV_same, hs, hp, List.take_left', setKV_setKV, setKV_lookup hl]
  have f1 : pv.shells.filter (fun k => pv.shells.contains k) = pv.shells :=
    List.filter_eq_self.mpr (fun a ha => by simpa using ha)
  have f2 : pv.plurals.filter (fun k => pv.plurals.contains k) = pv.plurals :=
    List.filter_eq_self.mpr (fun a ha => by simpa using ha)
  rw [f1, f2]

/-- `settle_atomic`: whatever makes a settlement fail — a failing plan, the global tick overflowing
    before ANY decision `k`, a patch that does not apply, a state-root mismatch, a missing source entry,
    the shell being refused or a plural id already bound — runtime and provenance are exactly their
    pre-settle values (the provenance part by truncate/prune of a genuinely dirty state). -/
theorem settle_atomic (univ : List Slot) (plural : Bool) (fail : Fail) (sid : Nat) (rt : Rt) (pv : Pv)
    (e : SettleErr) (rt' : Rt) (pv' : Pv)
    (h : settle univ plural fail sid rt pv = (.error e, rt', pv')) : rt' = rt ∧ pv' = pv := by
  unfold settle at h
  cases hp : plan univ plural sid rt pv with
  | error e0 => simp [hp] at h; exact ⟨h.2.1.symm, h.2.2.symm⟩
  | ok pl =>
    simp only [hp] at h
    split at h
    · simp at h
    · cases hc : checkpointFor pl.target pv with
      | none => simp [hc] at h; exact ⟨h.2.1.symm, h.2.2.symm⟩
      | some cp =>
        simp only [hc] at h
        have happ : Appended pl.target pv (execLoop univ pl fail 0 pl.decisions (rt, pv)).2.2 := by
          apply execLoop_appended
          unfold checkpointFor at hc
          cases hl : lookup pl.target pv.hists with
          | none => simp [hl] at hc
          | some h0 => exact ⟨h0, [], hl, by simp [setKV_lookup hl], rfl, rfl⟩
        have hres := restore_appended hc happ
        generalize execLoop univ pl fail 0 pl.decisions (rt, pv) = r at h hres
        cases hr1 : r.1 with
        | some e1 =>
          simp [hr1] at h
          exact ⟨h.2.1.symm, by rw [← h.2.2]; exact hres⟩
        | none =>
          simp only [hr1] at h
          cases hsh : appendShell univ pl fail r.2.2 with
          | error e2 =>
            simp [hsh] at h
            exact ⟨h.2.1.symm, by rw [← h.2.2]; exact hres⟩
          | ok pv2 => simp [hsh] at h

/-- non-vacuity: an injected failure after one append really goes through the dirty path -/
def exPlan : Plan :=
  { sid := 1, target := 1, source := 2, targetLen := 1, basis := Basis.atAnchor,
    decisions := [Decision.conf 1 Reason.overlap none, Decision.conf 2 Reason.overlap none],
    finalSim := fun _ => none }
def exRt : Rt := { lanes := [(1, { state := fun _ => none, pending := none, head := 1 })], strands := [], gtick := 0 }
def exPv : Pv := { hists := [(1, [])], shells := [], plurals := [] }
example : ∃ rt pv, execLoop [] exPlan (.before 1) 0 exPlan.decisions (exRt, exPv) = (some .gtickOverflow, rt, pv)
    ∧ (lookup 1 pv.hists).map List.length = some 1 := ⟨_, _, rfl, rfl⟩

/-! ## never overwrite -/

/-- the basis report covers a movement set `M` for the suffix patches `ps`: whenever a slot of `M`
    occurs in the closed footprint (ins ∪ outs) of a suffix patch, the basis is `RevalidationRequired`
    and lists that slot. -/
def Covers (basis : Basis) (M : List Slot) (ps : List Patch) : Prop :=
  ∀ s ∈ M, ∀ p ∈ ps, (s ∈ p.ins ∨ s ∈ p.outs) → ∃ ov, basis = .reval ov ∧ s ∈ ov

/-- `live_basis_report` covers exactly the parent's movement after the anchor. -/
theorem liveBasis_covers (st : Strand) (parent child : List Entry) :
    Covers (liveBasis st parent child) (movement (parent.drop (st.forkTick + 1)))
      (patchesOf (child.drop (st.forkTick + 1))) := by
  intro s hs p hp hin
  unfold liveBasis
  by_cases hlen : parent.length = st.forkTick + 1
  · have : parent.drop (st.forkTick + 1) = [] := List.drop_eq_nil_of_le (by omega)
    rw [this] at hs
    simp [movement, patchesOf] at hs
  · simp only [hlen, if_false]
    have hclosed : (closedFootprint (child.drop (st.forkTick + 1))).contains s = true := by
      simp only [List.contains_iff_mem, closedFootprint, List.mem_flatMap]
      exact ⟨p, hp, by simpa [List.mem_append] using hin⟩
    have hov : s ∈ (movement (parent.drop (st.forkTick + 1))).filter
        (fun s => (closedFootprint (child.drop (st.forkTick + 1))).contains s) :=
      List.mem_filter.mpr ⟨hs, hclosed⟩
    have hne : ((movement (parent.drop (st.forkTick + 1))).filter
        (fun s => (closedFootprint (child.drop (st.forkTick + 1))).contains s)).isEmpty = false := by
      cases hl : (movement (parent.drop (st.forkTick + 1))).filter
          (fun s => (closedFootprint (child.drop (st.forkTick + 1))).contains s) with
      | nil => rw [hl] at hov; cases hov
      | cons x xs => rfl
    simp only [hne, Bool.false_eq_true, if_false]
    exact ⟨_, rfl, hov⟩

theorem planStep_keeps (univ : List Slot) (plural : Bool) (basis : Basis) (M : List Slot) (a : PlanAcc)
    (e : Entry) (hon : ∀ p, e.patch = some p → p.Honest) (hc : ∀ p, e.patch = some p → Covers basis M [p]) :
    ∀ s ∈ M, (planStep univ plural basis a e).1.sim s = a.sim s := by
  intro s hs
  rcases Decision.isImport_cases (planStep univ plural basis a e).2 with ⟨t, root, rev, hd⟩ | hd
  · obtain ⟨_, p, cand, hp, ha, hsim, _, hov⟩ := planStep_imp hd
    rw [hsim]
    by_cases hin : s ∈ p.ins ∨ s ∈ p.outs
    · obtain ⟨ov, hb, hso⟩ := hc p hp s hs p (List.mem_singleton.mpr rfl) hin
      have : s ∈ entryOverlap basis p := by
        simp only [entryOverlap, hb, Basis.overlap, List.mem_filter, Bool.or_eq_true, List.contains_iff_mem]
        exact ⟨hso, hin⟩
      exact (hov s this).symm
    · apply applyOps_frame ha s
      intro o ho hc'
      exact hin (Or.inr (hon p hp s (List.mem_flatMap.mpr ⟨o, ho, hc'⟩)))
  · rw [planStep_nonimp hd]

theorem planGo_keeps (univ : List Slot) (plural : Bool) (basis : Basis) (M : List Slot) :
    ∀ (es : List Entry) (a : PlanAcc), (∀ e ∈ es, ∀ p, e.patch = some p → p.Honest) →
    Covers basis M (patchesOf es) → ∀ s ∈ M, (planGo univ plural basis a es).2.sim s = a.sim s
  | [], a, _, _, s, _ => rfl
  | e :: es, a, hon, hc, s, hs => by
    simp only [planGo]
    have hce : ∀ p, e.patch = some p → Covers basis M [p] := by
      intro p hp s' hs' p' hp' hin
      rw [List.mem_singleton.mp hp'] at hin
      exact hc s' hs' p (by simp [patchesOf, hp]) hin
    have hcr : Covers basis M (patchesOf es) := by
      intro s' hs' p' hp' hin
      refine hc s' hs' p' ?_ hin
      simp only [patchesOf, List.filterMap_cons] at hp' ⊢
      cases e.patch <;> simp [hp']
    rw [planGo_keeps univ plural basis M es _ (fun e' he' => hon e' (List.mem_cons_of_mem _ he')) hcr s hs]
    exact planStep_keeps univ plural basis M a e (hon e List.mem_cons_self) hce s hs

/-- the decision loop re-applies exactly what the planner simulated: when it completes, the target
    frontier state is the planner's final simulation (source history untouched, target ≠ source). -/
theorem exec_tracks_plan (univ : List Slot) (plural : Bool) (basis : Basis) (pl : Plan) (fail : Fail)
    (ch : List Entry) (hne : pl.source ≠ pl.target) :
    ∀ (es : List Entry) (a : PlanAcc) (i : Nat) (s s' : Rt × Pv) (l : LaneRt),
    ch.drop a.tick = es → lookup pl.source s.2.hists = some ch →
    lookup pl.target s.1.lanes = some l → l.state = a.sim →
    execLoop univ pl fail i (planGo univ plural basis a es).1 s = (none, s') →
    ∃ l', lookup pl.target s'.1.lanes = some l' ∧ l'.state = (planGo univ plural basis a es).2.sim
  | [], a, i, s, s', l, _, _, hl, hst, h => by
    simp only [planGo, execLoop, Prod.mk.injEq, true_and] at h
    subst h
    exact ⟨l, hl, hst⟩
  | e :: es, a, i, s, s', l, hdrop, hsrc, hl, hst, h => by
    simp only [planGo] at h ⊢
    unfold execLoop at h
    split at h
    · simp at h
    · cases hd : execDecision univ pl (planStep univ plural basis a e).2 s with
      | error err => simp [hd] at h
      | ok s1 =>
        simp only [hd] at h
        have hdrop' : ch.drop (planStep univ plural basis a e).1.tick = es := by
          rw [planStep_tick, ← List.drop_drop, hdrop]; rfl
        have hget : ch[a.tick]? = some e := by
          have := congrArg List.head? hdrop
          simpa [List.head?_drop] using this
        -- the step on the target lane
        have key : lookup pl.source s1.2.hists = some ch ∧
            ∃ l1, lookup pl.target s1.1.lanes = some l1 ∧ l1.state = (planStep univ plural basis a e).1.sim := by
          unfold execDecision at hd
          rcases Decision.isImport_cases (planStep univ plural basis a e).2 with ⟨t, root, rev, hdd⟩ | hdd
          · obtain ⟨ht, p, cand, hp, ha, hsim, _, _⟩ := planStep_imp hdd
            rw [hdd] at hd
            simp only [hsrc, Option.bind_some, ht, hget, hp] at hd
            unfold appendRecorded at hd
            simp only [hl] at hd
            cases hth : lookup pl.target s.2.hists with
            | none => simp [hth] at hd
            | some th =>
              simp only [hth, hst, ha] at hd
              split at hd
              · cases hd
              · simp only [Except.ok.injEq] at hd
                subst hd
                refine ⟨?_, _, lookup_setKV_same _ _ _, hsim.symm⟩
                simp only [lookup_setKV_ne _ hne]
                exact hsrc
          · have hsim := planStep_nonimp hdd
            have hempty : ∀ (k : Kind), appendRecorded univ pl.target k emptyPatch none
                ({ s.1 with gtick := s.1.gtick + 1 }, s.2) = .ok s1 →
                lookup pl.source s1.2.hists = some ch ∧
                ∃ l1, lookup pl.target s1.1.lanes = some l1 ∧ l1.state = a.sim := by
              intro k hk
              unfold appendRecorded at hk
              simp only [hl] at hk
              cases hth : lookup pl.target s.2.hists with
              | none => simp [hth] at hk
              | some th =>
                simp only [hth, emptyPatch, applyOps, Option.isSome_none, Bool.false_and, Bool.false_eq_true,
                  if_false, Except.ok.injEq] at hk
                subst hk
                refine ⟨?_, _, lookup_setKV_same _ _ _, hst⟩
                simp only [lookup_setKV_ne _ hne]
                exact hsrc
            rw [hsim]
            cases hdec : (planStep univ plural basis a e).2 with
            | imp t root rev => rw [hdec] at hdd; simp [Decision.isImport] at hdd
            | conf t r rev => rw [hdec] at hd; exact hempty _ hd
            | plur t sl => rw [hdec] at hd; exact hempty _ hd
        obtain ⟨hsrc1, l1, hl1, hst1⟩ := key
        exact exec_tracks_plan univ plural basis pl fail ch hne es _ (i + 1) s1 s' l1 hdrop' hsrc1 hl1 hst1 h

/-- `never_overwrite`: for EVERY history of both lanes, suffix, parent movement, policy and injected
    failure plan — if the suffix patches are honest (C14) and the settlement completes, then every slot
    the parent wrote after the fork coordinate (its whole movement set, a superset of the overlap set)
    holds after `settle` exactly the value it held before. -/
theorem never_overwrite (univ : List Slot) (plural : Bool) (fail : Fail) (sid : Nat) (rt rt' : Rt) (pv pv' : Pv)
    (r : SettleOk) (st : Strand) (lp : LaneRt) (ph ch : List Entry)
    (hst : lookup sid rt.strands = some st) (hne : st.child ≠ st.parent)
    (hlp : lookup st.parent rt.lanes = some lp) (hph : lookup st.parent pv.hists = some ph)
    (hch : lookup st.child pv.hists = some ch)
    (hon : ∀ e ∈ ch.drop (st.forkTick + 1), ∀ p, e.patch = some p → p.Honest)
    (h : settle univ plural fail sid rt pv = (.ok r, rt', pv')) :
    ∃ lp', lookup st.parent rt'.lanes = some lp' ∧
      ∀ s ∈ movement (ph.drop (st.forkTick + 1)), lp'.state s = lp.state s := by
  unfold settle at h
  cases hsh : st.shared with
  | false =>
    have hp : plan univ plural sid rt pv = .error .nonShared := by
      unfold plan; simp [hst, hsh]
    simp [hp] at h
  | true =>
  have hplan : ∃ pl, plan univ plural sid rt pv = .ok pl ∧ pl.target = st.parent ∧ pl.source = st.child ∧
      pl.decisions = (planGo univ plural (liveBasis st ph ch) { sim := lp.state, blocked := none, tick := st.forkTick + 1 }
        (ch.drop (st.forkTick + 1))).1 := by
    refine ⟨{ sid := sid, target := st.parent, source := st.child, targetLen := ph.length,
              basis := liveBasis st ph ch,
              decisions := (planLoop univ plural (liveBasis st ph ch) lp.state (st.forkTick + 1)
                (ch.drop (st.forkTick + 1))).1,
              finalSim := (planLoop univ plural (liveBasis st ph ch) lp.state (st.forkTick + 1)
                (ch.drop (st.forkTick + 1))).2.sim }, ?_, rfl, rfl, rfl⟩
    unfold plan
    simp [hst, hlp, hph, hch, hsh]
  obtain ⟨pl, hplan, htgt, hsrc, hdec⟩ := hplan
  simp only [hplan] at h
  split at h
  · simp only [Prod.mk.injEq] at h
    exact ⟨lp, by rw [← h.2.1]; exact hlp, fun _ _ => rfl⟩
  · cases hc : checkpointFor pl.target pv with
    | none => simp [hc] at h
    | some cp =>
      simp only [hc] at h
      generalize hr : execLoop univ pl fail 0 pl.decisions (rt, pv) = res at h
      cases hr1 : res.1 with
      | some e1 => simp [hr1] at h
      | none =>
        simp only [hr1] at h
        cases hshell : appendShell univ pl fail res.2.2 with
        | error e2 => rw [hshell] at h; simp at h
        | ok pv2 =>
          rw [hshell] at h
          simp only [Prod.mk.injEq] at h
          have hres : execLoop univ pl fail 0 pl.decisions (rt, pv) = (none, res.2) := by
            rw [hr]; exact Prod.ext hr1 rfl
          rw [hdec] at hres
          have hne' : pl.source ≠ pl.target := by rw [hsrc, htgt]; exact hne
          obtain ⟨l', hl', hs'⟩ := exec_tracks_plan univ plural (liveBasis st ph ch) pl fail ch hne'
            (ch.drop (st.forkTick + 1)) { sim := lp.state, blocked := none, tick := st.forkTick + 1 } 0
            (rt, pv) res.2 lp rfl (by rw [hsrc]; exact hch) (by rw [htgt]; exact hlp) rfl hres
          rw [htgt] at hl'
          refine ⟨l', by rw [← h.2.1]; exact hl', ?_⟩
          intro s hs
          rw [hs']
          exact planGo_keeps univ plural (liveBasis st ph ch) _ _ _ hon (liveBasis_covers st ph ch) s hs

/-! ## the parent stays verifiable from its own history -/

/-- lane `w` is replay-verifiable: replaying its provenance from the initial state yields exactly its
    live frontier state (`ProvenanceService::replay_worldline_state` = live). -/
def LaneOk (init : St) (rt : Rt) (pv : Pv) (w : Nat) : Prop :=
  ∀ l h, lookup w rt.lanes = some l → lookup w pv.hists = some h → replay init h = some l.state

theorem appendRecorded_laneOk {init : St} {univ : List Slot} {target : Nat} {kind : Kind} {p : Patch}
    {ex : Option (List Val)} {s s' : Rt × Pv} (w : Nat) (h0 : LaneOk init s.1 s.2 w)
    (h : appendRecorded univ target kind p ex s = .ok s') : LaneOk init s'.1 s'.2 w := by
  unfold appendRecorded at h
  cases hl : lookup target s.1.lanes with
  | none => simp [hl] at h
  | some l =>
    cases hh : lookup target s.2.hists with
    | none => simp [hl, hh] at h
    | some hist =>
      simp only [hl, hh] at h
      cases ha : applyOps l.state p.ops with
      | none => simp [ha] at h
      | some σ' =>
        simp only [ha] at h
        split at h
        · cases h
        · simp only [Except.ok.injEq] at h
          subst h
          intro l2 h2 hl2 hh2
          by_cases hw : w = target
          · subst hw
            simp only [lookup_setKV_same, Option.some.injEq] at hl2 hh2
            subst hl2; subst hh2
            exact replay_append (h0 l hist hl hh) rfl ha
          · simp only [lookup_setKV_ne _ hw] at hl2 hh2
            exact h0 l2 h2 hl2 hh2

theorem execDecision_laneOk {init : St} {univ : List Slot} {pl : Plan} {d : Decision} {s s' : Rt × Pv} (w : Nat)
    (h0 : LaneOk init s.1 s.2 w) (h : execDecision univ pl d s = .ok s') : LaneOk init s'.1 s'.2 w := by
  unfold execDecision at h
  have h0' : LaneOk init ({ s.1 with gtick := s.1.gtick + 1 } : Rt) s.2 w := h0
  cases d with
  | imp t root rev =>
    simp only at h
    split at h
    · cases h
    · split at h
      · cases h
      · exact appendRecorded_laneOk (s := ({ s.1 with gtick := s.1.gtick + 1 }, s.2)) w h0' h
  | conf t r rev => exact appendRecorded_laneOk (s := ({ s.1 with gtick := s.1.gtick + 1 }, s.2)) w h0' h
  | plur t sl => exact appendRecorded_laneOk (s := ({ s.1 with gtick := s.1.gtick + 1 }, s.2)) w h0' h

theorem execLoop_laneOk (init : St) (univ : List Slot) (pl : Plan) (fail : Fail) (w : Nat) :
    ∀ (ds : List Decision) (i : Nat) (s : Rt × Pv), LaneOk init s.1 s.2 w →
    LaneOk init (execLoop univ pl fail i ds s).2.1 (execLoop univ pl fail i ds s).2.2 w
  | [], i, s, h => by simpa [execLoop] using h
  | d :: ds, i, s, h => by
    unfold execLoop
    split
    · exact h
    · cases hd : execDecision univ pl d s with
      | error e => simpa using h
      | ok s' =>
        simp only
        exact execLoop_laneOk init univ pl fail w ds (i + 1) s' (execDecision_laneOk w h hd)

/-- `settle_keeps_verifiable`: whatever a settlement does (imports, conflict and plural artifacts, or a
    rolled-back failure), every lane that replayed from its own history to its live state before still
    does afterwards — in particular the parent, whose appended MergeImport / artifact entries replay to
    exactly the state the settlement left in its frontier. -/
theorem settle_keeps_verifiable (init : St) (univ : List Slot) (plural : Bool) (fail : Fail) (sid : Nat)
    (rt rt' : Rt) (pv pv' : Pv) (res : Except SettleErr SettleOk) (w : Nat)
    (h : settle univ plural fail sid rt pv = (res, rt', pv')) (h0 : LaneOk init rt pv w) :
    LaneOk init rt' pv' w := by
  cases res with
  | error e =>
    obtain ⟨h1, h2⟩ := settle_atomic univ plural fail sid rt pv e rt' pv' h
    rw [h1, h2]; exact h0
  | ok r =>
    unfold settle at h
    cases hp : plan univ plural sid rt pv with
    | error e0 => simp [hp] at h
    | ok pl =>
      simp only [hp] at h
      split at h
      · simp only [Prod.mk.injEq] at h
        rw [← h.2.1, ← h.2.2]; exact h0
      · cases hc : checkpointFor pl.target pv with
        | none => simp [hc] at h
        | some cp =>
          simp only [hc] at h
          have hl := execLoop_laneOk init univ pl fail w pl.decisions 0 (rt, pv) h0
          generalize execLoop univ pl fail 0 pl.decisions (rt, pv) = r0 at h hl
          cases hr1 : r0.1 with
          | some e1 => simp [hr1] at h
          | none =>
            simp only [hr1] at h
            cases hsh : appendShell univ pl fail r0.2.2 with
            | error e2 => rw [hsh] at h; simp at h
            | ok pv2 =>
              rw [hsh] at h
              simp only [Prod.mk.injEq] at h
              rw [← h.2.1, ← h.2.2]
              have hh : pv2.hists = r0.2.2.hists := by
                unfold appendShell at hsh
                split at hsh
                · cases hsh
                · simp only [] at hsh
                  split at hsh
                  · simp only [Except.ok.injEq] at hsh; rw [← hsh]
                  · split at hsh
                    · cases hsh
                    · simp only [Except.ok.injEq] at hsh; rw [← hsh]
              intro l2 h2 hl2 hh2
              rw [hh] at hh2
              exact hl l2 h2 hl2 hh2

/-- a pass keeps every lane verifiable (the committed tick patch replays to the committed state) -/
theorem commitLane_laneOk (init : St) (univ : List Slot) (w a : Nat) (s : Rt × Pv)
    (h0 : LaneOk init s.1 s.2 a) : LaneOk init (commitLane univ w s).1 (commitLane univ w s).2 a := by
  unfold commitLane
  cases hl : lookup w s.1.lanes with
  | none => simpa using h0
  | some l =>
    cases hh : lookup w s.2.hists with
    | none => simpa using h0
    | some hist =>
      cases hp : l.pending with
      | none => simpa [hp] using h0
      | some prog =>
        simp only [hp]
        cases ha : applyOps l.state (prog.patch l.state).ops with
        | none => simpa using h0
        | some σ' =>
          simp only
          intro l2 h2 hl2 hh2
          by_cases hw : a = w
          · subst hw
            simp only [lookup_setKV_same, Option.some.injEq] at hl2 hh2
            subst hl2; subst hh2
            exact replay_append (h0 l hist hl hh) rfl ha
          · simp only [lookup_setKV_ne _ hw] at hl2 hh2
            exact h0 l2 h2 hl2 hh2

theorem pass_keeps_verifiable (init : St) (univ : List Slot) (rt : Rt) (pv : Pv) (a : Nat)
    (h0 : LaneOk init rt pv a) : LaneOk init (pass univ rt pv).1 (pass univ rt pv).2 a := by
  unfold pass
  have : ∀ (keys : List Nat) (s : Rt × Pv), LaneOk init s.1 s.2 a →
      LaneOk init (keys.foldl (fun s w => commitLane univ w s) s).1
        (keys.foldl (fun s w => commitLane univ w s) s).2 a := by
    intro keys
    induction keys with
    | nil => intro s h; exact h
    | cons w ks ih => intro s h; exact ih _ (commitLane_laneOk init univ w a s h)
  exact this _ (rt, pv) h0

/-! ## imports take the strand's values -/

theorem replay_frame : ∀ {es : List Entry} {σ σ' : St}, replay σ es = some σ' →
    ∀ s, (∀ p ∈ patchesOf es, s ∉ p.targets) → σ' s = σ s
  | [], σ, σ', h, s, _ => by simp [replay] at h; subst h; rfl
  | e :: es, σ, σ', h, s, hs => by
    simp only [replay] at h
    cases hp : e.patch with
    | none => simp [hp] at h
    | some p =>
      simp only [hp] at h
      cases ha : applyOps σ p.ops with
      | none => simp [ha] at h
      | some τ =>
        simp only [ha] at h
        have hp' : p ∈ patchesOf (e :: es) := by simp [patchesOf, hp]
        have hrest : ∀ q ∈ patchesOf es, s ∉ q.targets := by
          intro q hq
          apply hs q
          simp only [patchesOf, List.filterMap_cons, hp] at hq ⊢
          exact List.mem_cons_of_mem _ hq
        rw [replay_frame h s hrest]
        apply applyOps_frame ha s
        intro o ho hc
        exact hs p hp' (List.mem_flatMap.mpr ⟨o, ho, hc⟩)

theorem replay_written_agree : ∀ {es : List Entry} {σ1 σ1' σ2 σ2' : St},
    replay σ1 es = some σ1' → replay σ2 es = some σ2' →
    ∀ s, s ∈ (patchesOf es).flatMap Patch.targets → σ1' s = σ2' s
  | [], _, _, _, _, _, _, s, hs => by simp [patchesOf] at hs
  | e :: es, σ1, σ1', σ2, σ2', h1, h2, s, hs => by
    simp only [replay] at h1 h2
    cases hp : e.patch with
    | none => simp [hp] at h1
    | some p =>
      simp only [hp] at h1 h2
      cases ha1 : applyOps σ1 p.ops with
      | none => simp [ha1] at h1
      | some τ1 =>
        cases ha2 : applyOps σ2 p.ops with
        | none => simp [ha2] at h2
        | some τ2 =>
          simp only [ha1] at h1; simp only [ha2] at h2
          by_cases hin : s ∈ (patchesOf es).flatMap Patch.targets
          · exact replay_written_agree h1 h2 s hin
          · have hsp : s ∈ p.targets := by
              simp only [patchesOf, List.filterMap_cons, hp, List.flatMap_cons, List.mem_append] at hs
              rcases hs with hs | hs
              · exact hs
              · exact absurd hs hin
            have hfr : ∀ q ∈ patchesOf es, s ∉ q.targets := by
              intro q hq hc
              exact hin (List.mem_flatMap.mpr ⟨q, hq, hc⟩)
            rw [replay_frame h1 s hfr, replay_frame h2 s hfr]
            exact applyOps_written_agree ha1 ha2 s hsp

theorem planGo_all_import (univ : List Slot) (plural : Bool) (basis : Basis) : ∀ (es : List Entry) (a : PlanAcc),
    (∀ d ∈ (planGo univ plural basis a es).1, d.isImport = true) →
    replay a.sim es = some (planGo univ plural basis a es).2.sim
  | [], a, _ => rfl
  | e :: es, a, h => by
    simp only [planGo] at h ⊢
    have hd := h _ List.mem_cons_self
    rcases Decision.isImport_cases (planStep univ plural basis a e).2 with ⟨t, root, rev, hdd⟩ | hdd
    · obtain ⟨_, p, cand, hp, ha, hsim, _, _⟩ := planStep_imp hdd
      simp only [replay, hp, ha]
      rw [← hsim]
      exact planGo_all_import univ plural basis es _ (fun d hd' => h d (List.mem_cons_of_mem _ hd'))
    · rw [hdd] at hd; cases hd

/-- `import_takes_strand_values`: if a completed settlement imported the whole suffix (every decision an
    import — the case of an unmoved, disjointly moved or cleanly revalidated parent), then on every slot
    the strand suffix wrote the parent afterwards holds exactly the strand's live value, for every
    history and every pre-fork divergence of the two states. -/
theorem import_takes_strand_values (univ : List Slot) (plural : Bool) (fail : Fail) (sid : Nat) (rt rt' : Rt)
    (pv pv' : Pv) (r : SettleOk) (st : Strand) (lp lc : LaneRt) (ph ch : List Entry) (σf : St)
    (hst : lookup sid rt.strands = some st) (hne : st.child ≠ st.parent)
    (hlp : lookup st.parent rt.lanes = some lp) (hph : lookup st.parent pv.hists = some ph)
    (hch : lookup st.child pv.hists = some ch)
    (hchild : replay σf (ch.drop (st.forkTick + 1)) = some lc.state)
    (h : settle univ plural fail sid rt pv = (.ok r, rt', pv'))
    (hall : ∀ d ∈ r.plan.decisions, d.isImport = true) :
    ∃ lp', lookup st.parent rt'.lanes = some lp' ∧
      ∀ s ∈ (patchesOf (ch.drop (st.forkTick + 1))).flatMap Patch.targets, lp'.state s = lc.state s := by
  unfold settle at h
  cases hsh : st.shared with
  | false =>
    have hp : plan univ plural sid rt pv = .error .nonShared := by
      unfold plan; simp [hst, hsh]
    simp [hp] at h
  | true =>
  have hplan : ∃ pl, plan univ plural sid rt pv = .ok pl ∧ pl.target = st.parent ∧ pl.source = st.child ∧
      pl.decisions = (planGo univ plural (liveBasis st ph ch) { sim := lp.state, blocked := none, tick := st.forkTick + 1 }
        (ch.drop (st.forkTick + 1))).1 := by
    refine ⟨{ sid := sid, target := st.parent, source := st.child, targetLen := ph.length,
              basis := liveBasis st ph ch,
              decisions := (planLoop univ plural (liveBasis st ph ch) lp.state (st.forkTick + 1)
                (ch.drop (st.forkTick + 1))).1,
              finalSim := (planLoop univ plural (liveBasis st ph ch) lp.state (st.forkTick + 1)
                (ch.drop (st.forkTick + 1))).2.sim }, ?_, rfl, rfl, rfl⟩
    unfold plan
    simp [hst, hlp, hph, hch, hsh]
  obtain ⟨pl, hplan, htgt, hsrc, hdec⟩ := hplan
  simp only [hplan] at h
  split at h
  · -- empty plan: the suffix is empty, nothing was written
    rename_i hempty
    simp only [Prod.mk.injEq] at h
    refine ⟨lp, by rw [← h.2.1]; exact hlp, ?_⟩
    intro s hs
    have hnil : ch.drop (st.forkTick + 1) = [] := by
      cases hd : ch.drop (st.forkTick + 1) with
      | nil => rfl
      | cons e es =>
        rw [hdec, hd] at hempty
        simp [planGo] at hempty
    rw [hnil] at hs
    simp [patchesOf] at hs
  · cases hc : checkpointFor pl.target pv with
    | none => simp [hc] at h
    | some cp =>
      simp only [hc] at h
      generalize hr : execLoop univ pl fail 0 pl.decisions (rt, pv) = res at h
      cases hr1 : res.1 with
      | some e1 => simp [hr1] at h
      | none =>
        simp only [hr1] at h
        cases hshell : appendShell univ pl fail res.2.2 with
        | error e2 => rw [hshell] at h; simp at h
        | ok pv2 =>
          rw [hshell] at h
          simp only [Prod.mk.injEq, Except.ok.injEq] at h
          have hres : execLoop univ pl fail 0 pl.decisions (rt, pv) = (none, res.2) := by
            rw [hr]; exact Prod.ext hr1 rfl
          rw [hdec] at hres
          have hne' : pl.source ≠ pl.target := by rw [hsrc, htgt]; exact hne
          obtain ⟨l', hl', hs'⟩ := exec_tracks_plan univ plural (liveBasis st ph ch) pl fail ch hne'
            (ch.drop (st.forkTick + 1)) { sim := lp.state, blocked := none, tick := st.forkTick + 1 } 0
            (rt, pv) res.2 lp rfl (by rw [hsrc]; exact hch) (by rw [htgt]; exact hlp) rfl hres
          rw [htgt] at hl'
          refine ⟨l', by rw [← h.2.1]; exact hl', ?_⟩
          intro s hs
          have hall' : ∀ d ∈ (planGo univ plural (liveBasis st ph ch)
              { sim := lp.state, blocked := none, tick := st.forkTick + 1 } (ch.drop (st.forkTick + 1))).1,
              d.isImport = true := by
            rw [← hdec]
            have : r.plan = pl := by rw [← h.1]
            rw [← this]; exact hall
          have hrep := planGo_all_import univ plural (liveBasis st ph ch) _ _ hall'
          rw [hs']
          exact replay_written_agree hrep hchild s hs

/-! ## non-vacuity of the settlement theorems -/

/-- a two-lane world: parent 1 (history: base tick, then a post-fork tick writing `att 1 := 9`), strand
    lane 2 forked at tick 0 whose suffix writes `att 1 := 9` (same value: clean overlap) and `att 2 := 5`. -/
def exInit : St := fun s => match s with | .node _ => some 1 | .att _ => none
def exP (n v : Nat) : Patch := { ins := [.node n, .att n], outs := [.att n], ops := [.set n (some v)] }
def exE (w : Nat) (p : Patch) : Entry := { wl := w, kind := .localCommit 1, patch := some p, root := [] }
def exRt2 : Rt :=
  { lanes := [(1, { state := (exInit.set (.att 3) (some 1)).set (.att 1) (some 9), pending := none, head := 1 }),
              (2, { state := ((exInit.set (.att 3) (some 1)).set (.att 1) (some 9)).set (.att 2) (some 5),
                    pending := none, head := 1 })],
    strands := [(1, { parent := 1, forkTick := 0, child := 2, head := 1, shared := true })], gtick := 3 }
def exPv2 : Pv :=
  { hists := [(1, [exE 1 (exP 3 1), exE 1 (exP 1 9)]), (2, [exE 2 (exP 3 1), exE 2 (exP 1 9), exE 2 (exP 2 5)])],
    shells := [], plurals := [] }

/-- the hypotheses of `never_overwrite` / `import_takes_strand_values` are satisfiable with a moved
    parent, an honest two-entry suffix and a completed all-import settlement -/
example : (∀ e ∈ ([exE 2 (exP 1 9), exE 2 (exP 2 5)] : List Entry), ∀ p, e.patch = some p → p.Honest) := by
  intro e he p hp
  simp only [List.mem_cons, List.mem_singleton, List.not_mem_nil, or_false] at he
  rcases he with he | he <;> subst he <;> simp only [exE, Option.some.injEq] at hp <;> subst hp <;>
    intro s hs <;> simpa [exP, Patch.targets, Op.targets] using hs

example : ((settle [.att 1, .att 2] false .none 1 exRt2 exPv2).1.toOption.map
      (fun r => (r.imports, r.conflicts, r.plan.basis, r.plan.decisions.map Decision.isImport)))
    = some (2, 0, Basis.reval [.att 1], [true, true]) := by decide

example : movement ([exE 1 (exP 1 9)] : List Entry) = [.att 1] := rfl

/-! ## completeness on an unmoved or disjointly moved parent -/

/-- the suffix replays cleanly on state `σ`: every entry is a local commit with a patch that applies in
    sequence; when the parent is at the anchor the recorded roots are the roots of that replay. -/
def CleanSuffix (univ : List Slot) (anchor : Bool) : St → List Entry → Prop
  | _, [] => True
  | σ, e :: es => e.kind.isLocal = true ∧ ∃ p σ', e.patch = some p ∧ applyOps σ p.ops = some σ' ∧
      (anchor = true → e.root = rootOf univ σ') ∧ CleanSuffix univ anchor σ' es

theorem planStep_clean (univ : List Slot) (plural : Bool) (basis : Basis) (hov : basis.overlap = none)
    (a : PlanAcc) (hb : a.blocked = none) (e : Entry) (p : Patch) (σ' : St) (hk : e.kind.isLocal = true)
    (hp : e.patch = some p) (ha : applyOps a.sim p.ops = some σ')
    (hr : basis = .atAnchor → e.root = rootOf univ σ') :
    (planStep univ plural basis a e).2.isImport = true ∧ (planStep univ plural basis a e).1.blocked = none ∧
    (planStep univ plural basis a e).1.sim = σ' := by
  have heo : entryOverlap basis p = [] := by simp [entryOverlap, hov]
  unfold planStep
  simp only [hb, hk, if_true, hp, ha, heo, List.isEmpty_nil]
  by_cases hA : basis = .atAnchor
  · have : (rootOf univ σ' != e.root) = false := by rw [hr hA]; simp
    simp [hA, this, Decision.isImport, hb]
  · simp [hA, Decision.isImport, hb]

/-- `import_complete`: when the basis report shows no overlap (parent unmoved — AtAnchor — or moved
    disjointly) and the planner is not yet latched, every entry of a cleanly replaying suffix is
    imported, under both plural policies. -/
theorem import_complete (univ : List Slot) (plural : Bool) (basis : Basis) (hov : basis.overlap = none) :
    ∀ (es : List Entry) (a : PlanAcc), a.blocked = none →
    CleanSuffix univ (decide (basis = .atAnchor)) a.sim es →
    ∀ d ∈ (planGo univ plural basis a es).1, d.isImport = true
  | [], a, _, _, d, hd => by simp [planGo] at hd
  | e :: es, a, hb, hc, d, hd => by
    obtain ⟨hk, p, σ', hp, ha, hr, hrest⟩ := hc
    have hstep := planStep_clean univ plural basis hov a hb e p σ' hk hp ha
      (fun hA => hr (by simp [hA]))
    simp only [planGo, List.mem_cons] at hd
    rcases hd with hd | hd
    · rw [hd]; exact hstep.1
    · exact import_complete univ plural basis hov es _ hstep.2.1 (by rw [hstep.2.2]; exact hrest) d hd

def exClean : Entry :=
  { wl := 2, kind := .localCommit 1, patch := some (exP 2 5), root := rootOf [.att 2] (exInit.set (.att 2) (some 5)) }
example : CleanSuffix [.att 2] true exInit [exClean] :=
  ⟨rfl, exP 2 5, _, rfl, rfl, fun _ => rfl, trivial⟩

/-! ## imports are constant writes -/

/-- an imported patch leaves, on every slot it writes, the same value on the parent as it left on the
    strand — whatever the two states were (ops are constant writes). -/
theorem import_writes_strand_values {p : Patch} {σp σp' σs σs' : St}
    (hp : applyOps σp p.ops = some σp') (hs : applyOps σs p.ops = some σs') :
    ∀ s ∈ p.targets, σp' s = σs' s :=
  fun s hs' => applyOps_written_agree hp hs s hs'

end EchoVerif.C15
