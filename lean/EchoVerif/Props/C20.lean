/-
  C20 — retained content is returned intact or not at all.
  PROPERTY THEOREMS ONLY (helpers are in Lemmas/Cas.lean).  Model: Model/Cas.lean.
  `H : Bytes → Hash` is abstract everywhere; injectivity is an explicit hypothesis only where the
  statement says "exactly these bytes".
-/
import EchoVerif.Lemmas.Cas
import EchoVerif.Lemmas.WscStore
import EchoVerif.Lemmas.WscExport

set_option linter.unusedSimpArgs false
set_option linter.unusedVariables false

namespace EchoVerif.C20
open EchoVerif EchoVerif.Cas SMap

variable (H : Bytes → Hash)

/-! ## Memory tier -/

/-- **mem_refines_map.** After ANY operation history on a fresh memory tier (with or without a
    budget) `get h` is the first successful write whose hash is `h` — the tier is the
    content-addressed map of its writes; pins, budgets, reads and refused writes are invisible. -/
theorem mem_refines_map (ops : List Op) (h : Hash) (budget : Option Nat) :
    (Mem.run H { blobs := [], pins := [], byteCount := 0, maxBytes := budget } ops).get h
      = refFirst H h ops := by
  rw [Mem.get_run]; rfl

/-- **mem_get_intact.** Whatever `get h` returns hashes to `h` and was supplied by a successful
    write of the history ("intact or not at all"). -/
theorem mem_get_intact (ops : List Op) (h : Hash) (b : Bytes) (budget : Option Nat)
    (hg : (Mem.run H { blobs := [], pins := [], byteCount := 0, maxBytes := budget } ops).get h = some b) :
    H b = h ∧ ∃ op ∈ ops, op = .put b ∨ op = .putv h b := by
  rw [mem_refines_map] at hg
  obtain ⟨op, hop, hw⟩ := refFirst_some hg
  refine ⟨Op.writes_sound hw, op, hop, ?_⟩
  cases op <;> simp only [Op.writes] at hw
  · split at hw
    · cases hw; exact Or.inl rfl
    · cases hw
  · split at hw
    · rename_i e; cases hw; exact Or.inr (by rw [e.2])
    · cases hw
  all_goals cases hw

/-- **mem_get_exact.** Under collision-freedom, `get h = some b` IFF `b` hashes to `h` and was
    written (by `put b`, or by `put_verified` under its own hash). -/
theorem mem_get_exact (hinj : Function.Injective H) (ops : List Op) (h : Hash) (b : Bytes)
    (budget : Option Nat) :
    (Mem.run H { blobs := [], pins := [], byteCount := 0, maxBytes := budget } ops).get h = some b
      ↔ (H b = h ∧ ∃ op ∈ ops, op = .put b ∨ op = .putv h b) := by
  constructor
  · exact mem_get_intact H ops h b budget
  · rintro ⟨hb, op, hop, hw⟩
    rw [mem_refines_map]
    have hwr : op.writes H h = some b := by
      rcases hw with e | e <;> subst e <;> simp [Op.writes, hb]
    obtain ⟨b', hb'⟩ := refFirst_isSome_of_mem hop hwr
    obtain ⟨op', _, hw'⟩ := refFirst_some hb'
    have : H b' = h := Op.writes_sound hw'
    have : b' = b := hinj (this.trans hb.symm)
    rw [hb', this]

/-- **mem_put_idempotent.** Repeating a `put` (or a matching `put_verified`) changes nothing:
    neither content nor byte accounting nor pins. -/
theorem mem_put_idempotent (s : Mem) (b : Bytes) :
    (s.put H b).1.put H b = ((s.put H b).1, H b) ∧
    ((s.put H b).1.putVerified H (H b) b) = ((s.put H b).1, none) := by
  obtain ⟨x, hx⟩ := Mem.present_after_put H s b
  exact ⟨Mem.put_of_present H hx, Mem.putVerified_of_present H hx⟩

/-- **mem_pins_never_change_content.** Deleting every `pin`/`unpin` (and every read) from a history
    does not change what any `get` returns. -/
theorem mem_pins_never_change_content (ops : List Op) (h : Hash) (s : Mem) :
    (Mem.run H s (ops.filter (fun op => match op with | .put _ | .putv _ _ => true | _ => false))).get h
      = (Mem.run H s ops).get h := by
  rw [Mem.get_run, Mem.get_run, refFirst_filter]
  intro op hp
  cases op <;> simp_all [Op.writes]

/-- **mem_put_verified_refuses.** Bytes that do not hash to the declared hash are refused with the
    typed mismatch and the store is unchanged — in EVERY state, in particular when the declared hash
    is already stored (the case the pre-repair fast path accepted). -/
theorem mem_put_verified_refuses (s : Mem) (h : Hash) (b : Bytes) (hne : H b ≠ h) :
    s.putVerified H h b = (s, some { expected := h, computed := H b }) := by
  unfold Mem.putVerified; rw [if_pos hne]

/-- The pre-repair `MemoryTier::put_verified` (stored-hash fast path BEFORE hashing), kept as a
    regression witness: it accepts mismatching bytes for any already-stored hash. -/
def putVerifiedFastPathFirst (s : Mem) (expected : Hash) (b : Bytes) : Mem × Option Mismatch :=
  match find? expected s.blobs with
  | some _ => (s, none)
  | none =>
    if H b ≠ expected then (s, some { expected := expected, computed := H b })
    else ({ s with blobs := insert (H b) b s.blobs, byteCount := s.byteCount + b.length }, none)

/-- **fast_path_first_accepts_mismatch.** The defect of DESIGN §7-G, for every hash function and
    every pair of blobs with different hashes. -/
theorem fast_path_first_accepts_mismatch (s : Mem) (b wrong : Bytes) (hne : H wrong ≠ H b) :
    (putVerifiedFastPathFirst H (s.put H b).1 (H b) wrong).2 = none ∧
    ((s.put H b).1.putVerified H (H b) wrong).2 = some { expected := H b, computed := H wrong } := by
  obtain ⟨x, hx⟩ := Mem.present_after_put H s b
  constructor
  · unfold putVerifiedFastPathFirst; rw [hx]
  · rw [mem_put_verified_refuses H _ _ _ hne]

/-! ## Disk tier (backing files + adversary) -/

/-- **disk_corruption_detected.** For EVERY state of the backing files — hence after every history
    of writes, adversarial overwrites, deletions and reopens — `get h` is absence, or bytes that
    hash to `h` (and are the file), or the typed mismatch naming `h` and the hash of what was found. -/
theorem disk_corruption_detected (s : Disk) (h : Hash) :
    match s.get H h with
    | .absent => find? h s.files = none
    | .found b => H b = h ∧ find? h s.files = some b
    | .corrupt m => m.expected = h ∧ m.computed ≠ h ∧ ∃ b, find? h s.files = some b ∧ m.computed = H b := by
  unfold Disk.get
  cases hf : find? h s.files with
  | none => simp
  | some b =>
    by_cases e : H b = h
    · simp [e]
    · simp [e]

/-- History form: no sequence of operations, adversarial ones included, makes `get h` return bytes
    that do not hash to `h`. -/
theorem disk_never_wrong_bytes (s0 : Disk) (ops : List Op) (h : Hash) (b : Bytes)
    (hg : (Disk.run H s0 ops).get H h = .found b) : H b = h := by
  have := disk_corruption_detected H (Disk.run H s0 ops) h
  rw [hg] at this; exact this.1

/-- **disk_refines_map.** For every history from an empty tier and every hash `h` whose backing file
    the adversary did not touch (it may touch all others), `get h` is exactly the last successful
    write under `h`, or absence. Reopening and pinning are invisible. -/
theorem disk_refines_map (ops : List Op) (h : Hash) (ht : ∀ op ∈ ops, op.tampers h = false) :
    (Disk.run H Disk.empty ops).get H h =
      match refLast H h ops with
      | some b => .found b
      | none => .absent := by
  unfold Disk.get
  rw [Disk.files_run, find?_foldl_stepFiles H h ops _ (by exact True.intro) ht]
  cases hr : refLast H h ops with
  | none => rfl
  | some b => simp [refLast_sound hr]

/-- **disk_put_heals.** A `put` makes its blob readable whatever was in the backing file before
    (absent, correct, or corrupted). -/
theorem disk_put_heals (s : Disk) (b : Bytes) : (s.put H b).1.get H (H b) = .found b := by
  simp [Disk.put, Disk.putVerified, Disk.get, find?_insert]

/-- **disk_put_verified_refuses.** Mismatching bytes are refused and the tier is unchanged. -/
theorem disk_put_verified_refuses (s : Disk) (h : Hash) (b : Bytes) (hne : H b ≠ h) :
    s.putVerified H h b = (s, some { expected := h, computed := H b }) := by
  unfold Disk.putVerified; rw [if_pos hne]

/-- **disk_reopen_pins_inert.** Dropping every `reopen`, `pin`, `unpin` and read from a history
    leaves the backing files — hence every `get`, `has`, `list` — literally unchanged. -/
theorem disk_reopen_pins_inert (ops : List Op) (s : Disk) :
    (Disk.run H s (ops.filter (fun op => match op with
        | .put _ | .putv _ _ | .advWrite _ _ | .advDelete _ => true | _ => false))).files
      = (Disk.run H s ops).files := by
  rw [Disk.files_run, Disk.files_run]
  apply foldl_filter_inert
  intro a x hx
  cases x <;> simp_all [stepFiles]

/-! ## Semantic retention index -/

/-- **retention_conflict.** A coordinate that already names content refuses different content
    (different hash OR different length) with the typed conflict, and neither the index nor the store
    changes. -/
theorem retention_conflict (ix : Index) (s : Mem) (c : Coord) (b : Bytes) (ex : Desc)
    (hf : ix.find c = some ex) (hd : ex.contentHash ≠ H b ∨ ex.byteLen ≠ b.length) :
    retain H ix s c b = (ix, s, .error (.conflict ex.contentHash (H b))) := by
  unfold retain; rw [hf]; simp only; rw [if_pos hd]

/-- **retention_descriptor_stable.** Once a coordinate names a descriptor, no later `retain` — of any
    coordinate, any bytes, against any store — changes it; and a new descriptor is filed under
    exactly the coordinate it was retained for. -/
theorem retention_descriptor_stable (ix : Index) (s : Mem) (c c' : Coord) (b : Bytes) (d : Desc)
    (hf : ix.find c = some d) : (retain H ix s c' b).1.find c = some d := by
  unfold retain
  cases hc : ix.find c' with
  | some ex =>
    simp only
    split <;> exact hf
  | none =>
    simp only
    rw [Index.find_cons]
    have : c' ≠ c := by intro e; subst e; rw [hf] at hc; cases hc
    rw [if_neg this]; exact hf

/-- **retention_no_alias.** The index stays well-formed (every descriptor sits under its own
    coordinate) and a successful `retain` returns a descriptor for the requested coordinate whose
    hash and length are those of the supplied bytes. -/
theorem retention_no_alias (ix : Index) (s : Mem) (c : Coord) (b : Bytes) (hwf : IndexWF ix) :
    IndexWF (retain H ix s c b).1 ∧
    ∀ d, (retain H ix s c b).2.2 = .ok d →
      d.coord = c ∧ d.contentHash = H b ∧ d.byteLen = b.length ∧ (retain H ix s c b).1.find c = some d := by
  unfold retain
  cases hc : ix.find c with
  | some ex =>
    simp only
    split
    · exact ⟨hwf, fun d hd => by cases hd⟩
    · rename_i hn
      refine ⟨hwf, fun d hd => ?_⟩
      cases hd
      have h1 : ex.contentHash = H b := by
        by_cases e : ex.contentHash = H b
        · exact e
        · exact absurd (Or.inl e) hn
      have h2 : ex.byteLen = b.length := by
        by_cases e : ex.byteLen = b.length
        · exact e
        · exact absurd (Or.inr e) hn
      exact ⟨hwf c _ hc, h1, h2, hc⟩
  | none =>
    simp only
    refine ⟨?_, fun d hd => ?_⟩
    · intro c2 d2 h2
      rw [Index.find_cons] at h2
      split at h2
      · rename_i e; cases h2; exact e
      · exact hwf c2 d2 h2
    · cases hd
      refine ⟨rfl, ?_, rfl, ?_⟩
      · simp [Mem.put]; split <;> rfl
      · rw [Index.find_cons, if_pos rfl]

/-- **retention_typed_obstruction.** `load` answers exactly: unknown coordinate ⇒
    `MissingSemanticCoordinate`; known coordinate whose content the store lacks ⇒ `MissingBlob` naming
    that hash; otherwise the descriptor of THAT coordinate with the store's bytes for its hash —
    which hash to it whenever the store is hash-sound (an invariant of every memory-tier history). -/
theorem retention_typed_obstruction (ix : Index) (s : Mem) (c : Coord) :
    (ix.find c = none → load ix s c = .error .missingCoord) ∧
    (∀ d, ix.find c = some d → s.get d.contentHash = none → load ix s c = .error (.missingBlob d.contentHash)) ∧
    (∀ d b, load ix s c = .ok (d, b) →
      ix.find c = some d ∧ s.get d.contentHash = some b ∧ (Sound H s.blobs → H b = d.contentHash)) := by
  refine ⟨?_, ?_, ?_⟩
  · intro hn; unfold load; rw [hn]
  · intro d hd hg; unfold load loadByHash; rw [hd]; simp only; rw [hg]
  · intro d b hl
    unfold load loadByHash at hl
    cases hd : ix.find c with
    | none => rw [hd] at hl; cases hl
    | some d' =>
      rw [hd] at hl; simp only at hl
      cases hg : s.get d'.contentHash with
      | none => rw [hg] at hl; cases hl
      | some b' =>
        rw [hg] at hl; simp only at hl
        cases hl
        exact ⟨rfl, hg, fun hs => hs _ _ hg⟩

/-- **retention_retain_then_load.** After a successful `retain` against a hash-sound store, `load` of
    the same coordinate from that store returns the descriptor and bytes hashing to `H b`; under
    collision-freedom, exactly `b`. -/
theorem retention_retain_then_load (ix : Index) (s : Mem) (c : Coord) (b : Bytes) (d : Desc)
    (hs : Sound H s.blobs) (hr : (retain H ix s c b).2.2 = .ok d) :
    ∃ b', load (retain H ix s c b).1 (retain H ix s c b).2.1 c = .ok (d, b') ∧ H b' = H b ∧
      (Function.Injective H → b' = b) := by
  -- the store after the retain still is hash-sound and holds `H b`
  have hput : ∃ x, (s.put H b).1.get (H b) = some x ∧ H x = H b := by
    rw [Mem.get_put]
    cases hg : s.get (H b) with
    | some x => exact ⟨x, rfl, hs _ _ hg⟩
    | none => exact ⟨b, by simp, rfl⟩
  unfold retain at hr ⊢
  cases hc : ix.find c with
  | some ex =>
    rw [hc] at hr
    simp only at hr ⊢
    split at hr
    · cases hr
    · rename_i hn
      cases hr
      have h1 : d.contentHash = H b := by
        by_cases e : d.contentHash = H b
        · exact e
        · exact absurd (Or.inl e) hn
      rw [if_neg hn]
      simp only [load, hc, loadByHash]
      by_cases hh : s.has d.contentHash = true
      · simp only [hh, if_true]
        have : ∃ x, find? d.contentHash s.blobs = some x := by
          unfold Mem.has at hh
          cases hf : find? d.contentHash s.blobs with
          | none => rw [hf] at hh; cases hh
          | some x => exact ⟨x, rfl⟩
        obtain ⟨x, hx⟩ := this
        refine ⟨x, by simp [Mem.get, Mem.pin, hx], ?_, ?_⟩
        · rw [← h1]; exact hs _ _ hx
        · intro hinj; exact hinj ((hs _ _ hx).trans h1)
      · simp only [hh]
        obtain ⟨x, hx, hxh⟩ := hput
        refine ⟨x, ?_, hxh, fun hinj => hinj hxh⟩
        rw [h1]
        simp only [Mem.get, Mem.pin] at hx ⊢
        simp [hx]
  | none =>
    rw [hc] at hr
    simp only at hr ⊢
    cases hr
    obtain ⟨x, hx, hxh⟩ := hput
    refine ⟨x, ?_, hxh, fun hinj => hinj hxh⟩
    simp only [load, Index.find_cons, if_true, loadByHash]
    have hh : (s.put H b).2 = H b := by unfold Mem.put; split <;> rfl
    simp only [Mem.get, Mem.pin, hh] at hx ⊢
    simp [hx]

/-- **retention_range_bounded.** A successful `load_range` stays within the caller's budget and
    within the retained blob, and is the requested slice of the loaded bytes. -/
theorem retention_range_bounded (ix : Index) (s : Mem) (c : Coord) (off len max : Nat) (d : Desc) (r : Bytes)
    (hl : loadRange ix s c off len max = .ok (d, r)) :
    len ≤ max ∧ off + len ≤ d.byteLen ∧
    ∃ b, load ix s c = .ok (d, b) ∧ r = (b.drop off).take len ∧ (b.length = d.byteLen → r.length = len) := by
  unfold loadRange at hl
  cases hld : load ix s c with
  | error e => rw [hld] at hl; cases hl
  | ok p =>
    obtain ⟨d', b⟩ := p
    rw [hld] at hl
    simp only at hl
    split at hl
    · cases hl
    · rename_i h1
      split at hl
      · cases hl
      · rename_i h2
        cases hl
        refine ⟨by omega, by omega, b, rfl, rfl, fun hb => ?_⟩
        simp [List.length_take, List.length_drop]; omega

/-! ## Snapshot store (wsc/store.rs): retained-evidence export / re-import, two-file publication -/

section WscStore
open EchoVerif.Wsc

variable {ρ κ : Type} [DecidableEq ρ] [DecidableEq κ] [LinOrd κ] (key : ρ → κ) (ident : ρ → Nat)

/-- **wsc_canonical_conflict_iff.** The export/import canonicalisation is obstructed EXACTLY when two
    different records claim one identity (material digest / reading id): such records are never
    merged or aliased, and a consistent record set is never refused. -/
theorem wsc_canonical_conflict_iff (rs : List ρ) :
    canonical key ident rs = none ↔ ∃ a ∈ rs, ∃ b ∈ rs, ident a = ident b ∧ a ≠ b := by
  unfold canonical
  constructor
  · intro h
    apply Classical.byContradiction
    intro hno
    have hc : ∀ a ∈ ([] : List ρ) ++ rs, ∀ b ∈ ([] : List ρ) ++ rs, ident a = ident b → a = b := by
      intro a ha b hb e
      apply Classical.byContradiction
      intro ne
      exact hno ⟨a, by simpa using ha, b, by simpa using hb, e, ne⟩
    obtain ⟨st, hst⟩ := foldl_some_of_consistent key ident rs [] [] []
      (fun x hx => by cases hx) (fun x ⟨y, hy⟩ => by cases hy) hc
    rw [hst] at h; cases h
  · rintro ⟨a, ha, b, hb, e, ne⟩
    cases hf : rs.foldl (canonStep key ident) (some ([], [])) with
    | none => rfl
    | some st =>
      exfalso
      have hI := idInv_foldl key ident rs [] [] [] st (fun x hx => by cases hx) hf
      have h1 := hI a (by simpa using ha)
      have h2 := hI b (by simpa using hb)
      rw [e, h2] at h1
      cases h1; exact ne rfl

/-- **wsc_canonical_exact.** With an injective sort key (the payload bytes), a successful
    canonicalisation returns exactly the input records — nothing lost, nothing invented — strictly
    ordered by key (so duplicate-free). -/
theorem wsc_canonical_exact (hinj : Function.Injective key) (rs out : List ρ)
    (h : canonical key ident rs = some out) :
    ∃ bk : SMap κ ρ, Sorted bk ∧ out = values bk ∧ (∀ p ∈ bk, p.1 = key p.2) ∧ ∀ r, r ∈ out ↔ r ∈ rs := by
  unfold canonical at h
  cases hf : rs.foldl (canonStep key ident) (some ([], [])) with
  | none => rw [hf] at h; cases h
  | some st =>
    rw [hf] at h; simp only at h; cases h
    have hK := keyInv_foldl key ident hinj rs [] [] [] st ⟨True.intro, (fun k r hk => by cases hk), (fun r hr => by cases hr)⟩ hf
    obtain ⟨hs, h1, h2⟩ := hK
    refine ⟨st.1, hs, rfl, ?_, ?_⟩
    · intro p hp
      exact (h1 p.1 p.2 (mem_find? hs hp)).1
    · intro r
      simp only [values, List.mem_map]
      constructor
      · rintro ⟨p, hp, rfl⟩
        simpa using (h1 p.1 p.2 (mem_find? hs hp)).2
      · intro hr
        exact ⟨(key r, r), find?_mem (h2 r (by simpa using hr)), rfl⟩

/-- **wsc_canonical_order_free.** Export and import do not depend on the order (or multiplicity)
    in which records arrive: any two inputs with the same members canonicalise identically. -/
theorem wsc_canonical_order_free (hinj : Function.Injective key) (rs rs' : List ρ)
    (hm : ∀ r, r ∈ rs ↔ r ∈ rs') : canonical key ident rs = canonical key ident rs' := by
  cases h1 : canonical key ident rs with
  | none =>
    obtain ⟨a, ha, b, hb, e, ne⟩ := (wsc_canonical_conflict_iff key ident rs).mp h1
    exact ((wsc_canonical_conflict_iff key ident rs').mpr ⟨a, (hm a).mp ha, b, (hm b).mp hb, e, ne⟩).symm
  | some out =>
    cases h2 : canonical key ident rs' with
    | none =>
      obtain ⟨a, ha, b, hb, e, ne⟩ := (wsc_canonical_conflict_iff key ident rs').mp h2
      have := (wsc_canonical_conflict_iff key ident rs).mpr ⟨a, (hm a).mpr ha, b, (hm b).mpr hb, e, ne⟩
      rw [h1] at this; cases this
    | some out' =>
      obtain ⟨bk, hs, ho, hk, hmem⟩ := wsc_canonical_exact key ident hinj rs out h1
      obtain ⟨bk', hs', ho', hk', hmem'⟩ := wsc_canonical_exact key ident hinj rs' out' h2
      have hfind : ∀ (b1 b2 : SMap κ ρ) (o1 o2 : List ρ), Sorted b2 → o1 = values b1 → o2 = values b2 →
          (∀ p ∈ b1, p.1 = key p.2) → (∀ p ∈ b2, p.1 = key p.2) → (∀ r, r ∈ o1 → r ∈ o2) →
          ∀ k r, find? k b1 = some r → find? k b2 = some r := by
        intro b1 b2 o1 o2 s2 e1 e2 k1 k2 sub k r hf
        have hp := find?_mem hf
        have hk1 : k = key r := k1 _ hp
        have hr2 : r ∈ o2 := sub r (by rw [e1]; exact List.mem_map.mpr ⟨(k, r), hp, rfl⟩)
        rw [e2] at hr2
        obtain ⟨q, hq, hqr⟩ := List.mem_map.mp hr2
        have hq1 : q.1 = k := by rw [k2 q hq, hqr, hk1]
        have hqe : q = (k, r) := by
          cases q; simp only at hq1 hqr; subst hq1; subst hqr; rfl
        rw [hqe] at hq
        exact mem_find? s2 hq
      have hsub : ∀ r, r ∈ out → r ∈ out' := fun r hr => (hmem' r).mpr ((hm r).mp ((hmem r).mp hr))
      have hsub' : ∀ r, r ∈ out' → r ∈ out := fun r hr => (hmem r).mpr ((hm r).mpr ((hmem' r).mp hr))
      have hext : bk = bk' := by
        apply SMap.ext hs hs'
        intro k
        cases hf : find? k bk with
        | some r => exact (hfind bk bk' out out' hs' ho ho' hk hk' hsub k r hf).symm
        | none =>
          cases hf' : find? k bk' with
          | none => rfl
          | some r =>
            have := hfind bk' bk out' out hs ho' ho hk' hk hsub' k r hf'
            rw [hf] at this; cases this
      rw [ho, ho', hext]

/-- **wsc_canonical_idempotent.** Re-importing what was exported changes nothing: canonicalising a
    canonical record list returns it unchanged (export ∘ import is the identity on records). -/
theorem wsc_canonical_idempotent (hinj : Function.Injective key) (rs out : List ρ)
    (h : canonical key ident rs = some out) : canonical key ident out = some out := by
  obtain ⟨bk, hs, ho, hk, hmem⟩ := wsc_canonical_exact key ident hinj rs out h
  rw [wsc_canonical_order_free key ident hinj out rs hmem, h]

/-! ### the store: envelope file + commit marker, both under attack -/

/-- **wsc_read_ok_iff_intact.** For EVERY state of the two backing files (so after every history of
    writes, deletions, bit flips and planted foreign envelopes): `read_envelope id` succeeds exactly
    when both the envelope file and the commit marker are byte-identical to what the store writes for
    `id`; it reports `MissingEnvelope` exactly when both are absent. Everything else is a typed
    obstruction — never other content. -/
theorem wsc_read_ok_iff_intact (s : Store) (id : Nat) :
    (s.read id = .ok ↔ matOf s.envs id = .good ∧ matOf s.marks id = .good) ∧
    (s.read id = .missing ↔ matOf s.envs id = .absent ∧ matOf s.marks id = .absent) := by
  unfold Store.read
  cases matOf s.envs id <;> cases matOf s.marks id <;> simp [readOf]

/-- **wsc_acknowledged_write_readable.** In every state, a `write_envelope` that returns Ok leaves
    the envelope readable; one that is obstructed leaves both files untouched. -/
theorem wsc_acknowledged_write_readable (s : Store) (id : Nat) :
    ((s.write id).2 = .ok → (s.write id).1.read id = .ok) ∧
    ((s.write id).2 ≠ .ok → (s.write id).1 = s) := by
  cases he : matOf s.envs id <;> cases hm : matOf s.marks id <;>
    simp [Store.write, Store.stage, Store.commit, Store.read, stageOf, commitOf, readOf, he, hm,
      matOf_insert_self]

/-- **wsc_staged_invisible.** Staging without a commit marker never makes the envelope readable
    (a half-finished write is reported `IncompleteEnvelopeWrite`, not served). -/
theorem wsc_staged_invisible (s : Store) (id : Nat) (hm : matOf s.marks id = .absent) :
    (s.stage id).1.read id ≠ .ok := by
  cases he : matOf s.envs id <;>
    simp [Store.stage, Store.read, stageOf, readOf, he, hm, matOf_insert_self]

/-- **wsc_import_needs_every_envelope.** A store import that returns records has read EVERY listed
    envelope successfully: one withheld or corrupted file blocks the import with its obstruction. -/
theorem wsc_import_needs_every_envelope (s : Store) (recs : Nat → List Material × List Reading)
    (ms : List Material) (rs : List Reading) (h : s.importRetention recs = .records ms rs) :
    ∀ id ∈ s.list, s.read id = .ok := by
  have key : ∀ ids : List Nat, firstBlocked s ids = none → ∀ id ∈ ids, s.read id = .ok := by
    intro ids
    induction ids with
    | nil => intro _ id hid; cases hid
    | cons x xs ih =>
      intro hf id hid
      simp only [firstBlocked] at hf
      cases hx : s.read x with
      | ok =>
        rw [hx] at hf
        rcases List.mem_cons.mp hid with e | hm
        · rw [e]; exact hx
        · exact ih hf id hm
      | missing => rw [hx] at hf; cases hf
      | incomplete => rw [hx] at hf; cases hf
      | obstructed => rw [hx] at hf; cases hf
  apply key
  unfold Store.importRetention at h
  cases hb : firstBlocked s s.list with
  | none => rfl
  | some r => rw [hb] at h; cases h

end WscStore

/-! ## WAL causal-history export profiles (wsc/store.rs: `wsc_*_wal_export` / `validate_wsc_*_wal_export`)

  The rule the code implements: EVERY embedded payload hashes to the digest it is filed under,
  whatever the posture of the retained-material record that digest belongs to; only coverage is
  posture-dependent (required for `Present`, allowed for every recorded digest, refused otherwise). -/

section WscExport
open EchoVerif.Wsc EchoVerif.WscExp

/-- Canonical retention records are a fixed point, with the members of the input. -/
theorem canonRecords_fix {ms : List Material} {rs : List Reading} {cms : List Material} {crs : List Reading}
    (h : canonRecords ms rs = some (cms, crs)) :
    canonRecords cms crs = some (cms, crs) ∧ (∀ r, r ∈ cms ↔ r ∈ ms) ∧ (∀ r, r ∈ crs ↔ r ∈ rs) ∧
      (∀ a ∈ cms, ∀ b ∈ cms, a.digest = b.digest → a = b) := by
  unfold canonRecords at h
  cases hm : canonMaterials ms with
  | none => rw [hm] at h; cases h
  | some a =>
    cases hr : canonReadings rs with
    | none => rw [hm, hr] at h; cases h
    | some b =>
      rw [hm, hr] at h
      cases h
      have i1 := wsc_canonical_idempotent Material.key Material.digest Material.key_injective ms cms hm
      have i2 := wsc_canonical_idempotent Reading.key Reading.readingId Reading.key_injective rs crs hr
      obtain ⟨_, _, _, _, m1⟩ := wsc_canonical_exact Material.key Material.digest Material.key_injective ms cms hm
      obtain ⟨_, _, _, _, m2⟩ := wsc_canonical_exact Reading.key Reading.readingId Reading.key_injective rs crs hr
      refine ⟨?_, m1, m2, ?_⟩
      · unfold canonRecords
        rw [show canonMaterials cms = some cms from i1, show canonReadings crs = some crs from i2]
      · intro x hx y hy e
        apply Classical.byContradiction
        intro ne
        have := (wsc_canonical_conflict_iff Material.key Material.digest cms).mpr ⟨x, hx, y, hy, e, ne⟩
        rw [show canonical Material.key Material.digest cms = some cms from i1] at this
        cases this

/-- **embedded_payload_exact.** Whatever a self-contained import hands back in `retained_payloads` for
    a digest `d` hashes to `d` — for EVERY posture of the record filed under `d` (no hypothesis on
    `m.posture`); it is one of the embedded payloads, it is the only payload returned for `d`, and
    under collision-freedom it is exactly the content of `d`. -/
theorem embedded_payload_exact (sameRoot : Bool) (e imp : ScExport) (h : scImport H sameRoot e = .ok imp) :
    ∀ p ∈ imp.payloads,
      H p.bytes = p.material.digest ∧
      (∀ m ∈ imp.ms, m.digest = p.material.digest → H p.bytes = m.digest) ∧
      p ∈ e.payloads ∧
      (∀ q ∈ imp.payloads, q.material.digest = p.material.digest → q = p) ∧
      (Function.Injective H → ∀ b, H b = p.material.digest → p.bytes = b) := by
  unfold scImport at h
  cases sameRoot with
  | false => simp at h
  | true =>
    simp only [Bool.not_true, Bool.false_eq_true, if_false] at h
    cases hc : canonPayloads e.payloads with
    | error d => rw [hc] at h; cases h
    | ok cps =>
      rw [hc] at h
      simp only at h
      cases hr : canonRecords e.ms e.rs with
      | none => rw [hr] at h; cases h
      | some pr =>
        obtain ⟨cms, crs⟩ := pr
        rw [hr] at h
        simp only at h
        cases hv : validatePayloads H cms cps with
        | some err => rw [hv] at h; cases h
        | none =>
          rw [hv] at h
          cases h
          obtain ⟨hall, _, _⟩ := (validatePayloads_none_iff H cms cps).mp hv
          intro p hp
          have hp1 := hall p hp
          refine ⟨hp1, fun m _ em => by rw [em]; exact hp1, (canonBy_mem _ _ _ _ hc p).mp hp, ?_, ?_⟩
          · intro q hq eq
            exact canonBy_key_unique _ _ _ _ hc q hq p hp eq
          · intro hinj b hb
            exact hinj (hp1.trans hb.symm)

/-- **exported_payload_exact.** The same on the write side: a self-contained export that is produced
    embeds only payloads that hash to their digest (mismatching bytes are refused on write). -/
theorem exported_payload_exact (ms : List Material) (rs : List Reading) (ps : List Payload) (x : ScExport)
    (h : scExport H ms rs ps = .ok x) :
    ∀ p ∈ x.payloads, H p.bytes = p.material.digest ∧ p ∈ ps ∧ ∃ m ∈ ms, m.digest = p.material.digest := by
  unfold scExport at h
  cases hc : canonPayloads ps with
  | error d => rw [hc] at h; cases h
  | ok cps =>
    rw [hc] at h
    simp only at h
    cases hv : validatePayloads H ms cps with
    | some err => rw [hv] at h; cases h
    | none =>
      rw [hv] at h
      simp only at h
      cases hr : canonRecords ms rs with
      | none => rw [hr] at h; cases h
      | some pr =>
        obtain ⟨cms, crs⟩ := pr
        rw [hr] at h
        cases h
        obtain ⟨hall, _, hex⟩ := (validatePayloads_none_iff H ms cps).mp hv
        intro p hp
        exact ⟨hall p hp, (canonBy_mem _ _ _ _ hc p).mp hp, hex p hp⟩

/-- **present_only_accepts_mismatch.** Regression witness: a validator that hashes a payload only when
    it resolves a `Present` record accepts ANY bytes filed under the digest of a non-Present record;
    the rule the code implements refuses them with the typed digest mismatch. -/
theorem present_only_accepts_mismatch (m : Material) (p : Payload) (hp : isPresent m = false)
    (hd : p.material.digest = m.digest) (hb : H p.bytes ≠ m.digest) :
    validatePayloadsPresentOnly H [m] [p] = none ∧
    validatePayloads H [m] [p] = some (.digestMismatch m.digest p.bytes) := by
  constructor
  · simp [validatePayloadsPresentOnly, validatePayloadsPresentOnly.go, hp, hd]
  · have : H p.bytes ≠ p.material.digest := by rw [hd]; exact hb
    simp [validatePayloads, firstHashMismatch, this, hd, hb]

/-- **export_import_id_self_contained.** Importing a self-contained export under its own root returns
    exactly the exported payloads and records. -/
theorem export_import_id_self_contained (ms : List Material) (rs : List Reading) (ps : List Payload)
    (x : ScExport) (h : scExport H ms rs ps = .ok x) : scImport H true x = .ok x := by
  unfold scExport at h
  cases hc : canonPayloads ps with
  | error d => rw [hc] at h; cases h
  | ok cps =>
    rw [hc] at h
    simp only at h
    cases hv : validatePayloads H ms cps with
    | some err => rw [hv] at h; cases h
    | none =>
      rw [hv] at h
      simp only at h
      cases hr : canonRecords ms rs with
      | none => rw [hr] at h; cases h
      | some pr =>
        obtain ⟨cms, crs⟩ := pr
        rw [hr] at h
        cases h
        obtain ⟨hfix, hm, _, _⟩ := canonRecords_fix hr
        unfold scImport
        simp only [Bool.not_true, Bool.false_eq_true, if_false]
        rw [show canonPayloads cps = .ok cps from canonBy_idem _ _ _ _ hc]
        simp only
        rw [hfix]
        simp only
        rw [validatePayloads_none_congr H ms cms cps hm hv]

/-- **export_import_id_cas_addressed.** With every referenced blob in the store, importing a
    CAS-addressed export returns exactly the exported references and records. -/
theorem export_import_id_cas_addressed (cas : Nat → Option Bytes) (ms : List Material) (rs : List Reading)
    (refs : List CasRef) (x : CasExport) (h : casExport ms rs refs = .ok x)
    (hb : ∀ r ∈ x.refs, ∃ b, cas r.contentHash = some b ∧ H b = r.contentHash ∧ b.length = r.byteLen) :
    casImport H cas true x = .ok x := by
  unfold casExport at h
  cases hc : canonRefs refs with
  | error d => rw [hc] at h; cases h
  | ok crefs =>
    rw [hc] at h
    simp only at h
    cases hv : refsMismatch ms crefs with
    | some pr => obtain ⟨a, b⟩ := pr; rw [hv] at h; cases h
    | none =>
      rw [hv] at h
      simp only at h
      cases hr : canonRecords ms rs with
      | none => rw [hr] at h; cases h
      | some pr =>
        obtain ⟨cms, crs⟩ := pr
        rw [hr] at h
        cases h
        obtain ⟨hfix, hm, _, _⟩ := canonRecords_fix hr
        unfold casImport
        simp only [Bool.not_true, Bool.false_eq_true, if_false]
        rw [show canonRefs crefs = .ok crefs from canonBy_idem _ _ _ _ hc]
        simp only
        rw [hfix]
        simp only
        rw [refsMismatch_none_congr ms cms crefs hm hv]
        simp only
        rw [(firstBlobFault_none_iff H cas crefs).mpr hb]

/-- **export_import_id_ref_only.** Importing a reference-only export returns the exported records. -/
theorem export_import_id_ref_only (ms : List Material) (rs : List Reading) (x : List Material × List Reading)
    (h : refExport ms rs = .ok x) : refImport true x = .ok x := by
  unfold refExport at h
  cases hr : canonRecords ms rs with
  | none => rw [hr] at h; cases h
  | some pr =>
    obtain ⟨cms, crs⟩ := pr
    rw [hr] at h
    cases h
    obtain ⟨hfix, _⟩ := canonRecords_fix hr
    unfold refImport
    simp only [Bool.not_true, Bool.false_eq_true, if_false]
    rw [hfix]

/-- **withheld_or_corrupt_obstructs** (self-contained).  For envelopes that decode (payloads `cps`,
    records `cms`/`crs`): the import succeeds EXACTLY when every payload is intact, every Present
    record is covered and no payload is unrecorded; a corrupt payload (under a record of ANY posture)
    is answered with the typed digest mismatch naming a really mismatching payload; with intact
    payloads a withheld Present payload is answered with the typed `missing` naming it. -/
theorem withheld_or_corrupt_obstructs (e : ScExport) (cps : List Payload) (cms : List Material) (crs : List Reading)
    (hp : canonPayloads e.payloads = .ok cps) (hr : canonRecords e.ms e.rs = some (cms, crs)) :
    (scImport H true e = .ok { payloads := cps, ms := cms, rs := crs } ↔
      (∀ p ∈ cps, H p.bytes = p.material.digest) ∧
      (∀ m ∈ cms, isPresent m = true → ∃ p ∈ cps, p.material.digest = m.digest) ∧
      (∀ p ∈ cps, ∃ m ∈ cms, m.digest = p.material.digest)) ∧
    ((∃ p ∈ cps, H p.bytes ≠ p.material.digest) →
      ∃ p ∈ cps, H p.bytes ≠ p.material.digest ∧
        scImport H true e = .error (.pay (.digestMismatch p.material.digest p.bytes))) ∧
    ((∀ p ∈ cps, H p.bytes = p.material.digest) →
      (∃ m ∈ cms, isPresent m = true ∧ ∀ p ∈ cps, p.material.digest ≠ m.digest) →
      ∃ m ∈ cms, isPresent m = true ∧ (∀ p ∈ cps, p.material.digest ≠ m.digest) ∧
        scImport H true e = .error (.pay (.missing m.digest))) := by
  have himp : scImport H true e = match validatePayloads H cms cps with
      | some err => .error (.pay err)
      | none => .ok { payloads := cps, ms := cms, rs := crs } := by
    unfold scImport
    simp only [Bool.not_true, Bool.false_eq_true, if_false, hp, hr]
    cases validatePayloads H cms cps <;> rfl
  refine ⟨?_, ?_, ?_⟩
  · rw [himp, ← validatePayloads_none_iff]
    cases validatePayloads H cms cps <;> simp
  · rintro ⟨p0, hp0, hne0⟩
    cases hh : firstHashMismatch H cps with
    | none => exact absurd ((firstHashMismatch_none_iff H cps).mp hh p0 hp0) hne0
    | some x =>
      obtain ⟨d, b⟩ := x
      obtain ⟨p, hpm, hd, hb, hne⟩ := firstHashMismatch_some H cps d b hh
      refine ⟨p, hpm, by rw [hd, hb]; exact hne, ?_⟩
      rw [himp]
      unfold validatePayloads
      rw [hh, hd, hb]
  · intro hall ⟨m0, hm0, hp0, hun0⟩
    have hh := (firstHashMismatch_none_iff H cps).mpr hall
    cases hf : List.find? (fun m => !(cps.any (fun p => decide (p.material.digest = m.digest)))) (cms.filter isPresent) with
    | none =>
      have := List.find?_eq_none.mp hf m0 (List.mem_filter.mpr ⟨hm0, hp0⟩)
      simp only [Bool.not_eq_true, Bool.not_eq_false', List.any_eq_true, decide_eq_true_eq] at this
      obtain ⟨p, hp', e'⟩ := this
      exact absurd e' (hun0 p hp')
    | some m =>
      have hmem := List.mem_of_find?_eq_some hf
      have hprop := List.find?_some hf
      obtain ⟨hm1, hm2⟩ := List.mem_filter.mp hmem
      simp only [Bool.not_eq_true', List.any_eq_false, decide_eq_true_eq] at hprop
      refine ⟨m, hm1, hm2, hprop, ?_⟩
      rw [himp]
      unfold validatePayloads
      rw [hh]; simp only; rw [hf]

/-- **cas_withheld_or_corrupt_obstructs.** CAS-addressed import, for envelopes that decode and whose
    references are exactly the Present records: it succeeds EXACTLY when every referenced blob is in
    the store, hashes to the reference and has the referenced length; otherwise the error is the typed
    blob fault of a really faulty reference.  A successful import references exactly the Present
    records — a record of any other posture never carries a reference. -/
theorem cas_withheld_or_corrupt_obstructs (cas : Nat → Option Bytes) (e : CasExport) (crefs : List CasRef)
    (cms : List Material) (crs : List Reading)
    (hp : canonRefs e.refs = .ok crefs) (hr : canonRecords e.ms e.rs = some (cms, crs)) :
    (casImport H cas true e = .ok { refs := crefs, ms := cms, rs := crs } ↔
      refsMismatch cms crefs = none ∧
      ∀ r ∈ crefs, ∃ b, cas r.contentHash = some b ∧ H b = r.contentHash ∧ b.length = r.byteLen) ∧
    (∀ imp, casImport H cas true e = .ok imp →
      (∀ m ∈ imp.ms, isPresent m = true → ∃ r ∈ imp.refs, (r.kind, r.contentHash, r.coord) = (m.kind, m.digest, m.coord)) ∧
      (∀ r ∈ imp.refs, ∃ m ∈ imp.ms, isPresent m = true ∧ (m.kind, m.digest, m.coord) = (r.kind, r.contentHash, r.coord))) ∧
    (refsMismatch cms crefs = none → ∀ err, casImport H cas true e = .error err →
      ∃ r ∈ crefs,
        (cas r.contentHash = none ∧ err = .missingBlob r.contentHash r.coord) ∨
        (∃ b, cas r.contentHash = some b ∧ H b ≠ r.contentHash ∧ err = .blobHashMismatch r.contentHash b) ∨
        (∃ b, cas r.contentHash = some b ∧ H b = r.contentHash ∧ b.length ≠ r.byteLen ∧
          err = .blobLenMismatch r.byteLen b.length)) := by
  have himp : casImport H cas true e = match refsMismatch cms crefs with
      | some (a, b) => .error (.refsMismatch a b)
      | none => match firstBlobFault H cas crefs with
        | some err => .error err
        | none => .ok { refs := crefs, ms := cms, rs := crs } := by
    unfold casImport
    simp only [Bool.not_true, Bool.false_eq_true, if_false, hp, hr]
    cases refsMismatch cms crefs with
    | some pr => obtain ⟨a, b⟩ := pr; rfl
    | none => cases firstBlobFault H cas crefs <;> rfl
  refine ⟨?_, ?_, ?_⟩
  · rw [himp, ← firstBlobFault_none_iff]
    cases refsMismatch cms crefs with
    | some pr => obtain ⟨a, b⟩ := pr; simp
    | none => cases firstBlobFault H cas crefs <;> simp
  · intro imp h
    rw [himp] at h
    cases hm : refsMismatch cms crefs with
    | some pr => obtain ⟨a, b⟩ := pr; rw [hm] at h; cases h
    | none =>
      rw [hm] at h
      simp only at h
      cases hf : firstBlobFault H cas crefs with
      | some err => rw [hf] at h; cases h
      | none =>
        rw [hf] at h
        cases h
        exact (refsMismatch_none_iff cms crefs).mp hm
  · intro hm err h
    rw [himp, hm] at h
    simp only at h
    cases hf : firstBlobFault H cas crefs with
    | none => rw [hf] at h; cases h
    | some err' =>
      rw [hf] at h
      cases h
      exact firstBlobFault_some H cas crefs _ hf

end WscExport

/-! ## Non-vacuity -/

/-- A collision-free `H : Bytes → Hash` exists (bijective base-256 numeration), so `mem_get_exact`
    and the injective branch of `retention_retain_then_load` are not vacuous. -/
def encNat : Bytes → Nat
  | [] => 0
  | x :: xs => 256 * encNat xs + x.toNat + 1

theorem encNat_injective : Function.Injective encNat := by
  intro a
  induction a with
  | nil =>
    intro b h
    cases b with
    | nil => rfl
    | cons y ys => simp only [encNat] at h; omega
  | cons x xs ih =>
    intro b h
    cases b with
    | nil => simp only [encNat] at h; omega
    | cons y ys =>
      simp only [encNat] at h
      have hx := x.toNat_lt
      have hy := y.toNat_lt
      have h1 : encNat xs = encNat ys := by omega
      have h2 : x.toNat = y.toNat := by omega
      rw [ih h1, UInt8.toNat_inj.mp h2]

example (ops : List Op) (h : Hash) (b : Bytes) :=
  mem_get_exact encNat encNat_injective ops h b none

/-- The hypotheses of `mem_put_verified_refuses` / `fast_path_first_accepts_mismatch` are met by a
    concrete state: with `H := List.length`, a one-byte blob offered under the stored hash 0. -/
example : ((Mem.new.put (fun b => b.length) []).1.putVerified (fun b => b.length) 0 [7]).2
    = some { expected := 0, computed := 1 } := by decide

example : (putVerifiedFastPathFirst (fun b => b.length) (Mem.new.put (fun b => b.length) []).1 0 [7]).2 = none := by
  decide

/-- A tampered file is reported, an untouched one is served (`H := length`). -/
example : (((Disk.empty.put (fun b => b.length) [1, 2]).1.advWrite 2 [9]).get (fun b => b.length) 2)
    = .corrupt { expected := 2, computed := 1 } := by decide

/-- The snapshot-store theorems instantiate at the real record types (payload key injective). -/
example (ms ms' : List Wsc.Material) (h : ∀ r, r ∈ ms ↔ r ∈ ms') : Wsc.canonMaterials ms = Wsc.canonMaterials ms' :=
  wsc_canonical_order_free Wsc.Material.key Wsc.Material.digest Wsc.Material.key_injective ms ms' h
example (rs out : List Wsc.Reading) (h : Wsc.canonReadings rs = some out) : Wsc.canonReadings out = some out :=
  wsc_canonical_idempotent Wsc.Reading.key Wsc.Reading.readingId Wsc.Reading.key_injective rs out h

/-- Same material digest re-filed under another semantic coordinate: refused, not aliased. -/
example : Wsc.canonMaterials [⟨1, 10, 1, 1⟩, ⟨1, 11, 1, 1⟩] = none := by decide
example : Wsc.canonMaterials [⟨2, 10, 1, 1⟩, ⟨1, 10, 1, 1⟩, ⟨2, 10, 1, 1⟩] = some [⟨1, 10, 1, 1⟩, ⟨2, 10, 1, 1⟩] := by decide

/-- A planted foreign envelope obstructs; a staged one is incomplete; write-then-read is Ok. -/
example : ((Wsc.Store.empty.write 5).1.plantEnv 5 6).read 5 = .obstructed := by decide
example : (Wsc.Store.empty.stage 5).1.read 5 = .incomplete := by decide
example : (Wsc.Store.empty.write 5).1.read 5 = .ok := by decide

/-- Export profiles, `H := length`: a one-byte payload filed under digest 1 of a RedactedByPolicy
    record round-trips; the same record with a two-byte payload is refused on write and on read; the
    present-only validator of the seeded regression accepts it. -/
example : WscExp.scExport (fun b => b.length) [⟨1, 10, 5, 2⟩] [] [⟨⟨1, 10, 5, 2⟩, [7]⟩]
    = .ok { payloads := [⟨⟨1, 10, 5, 2⟩, [7]⟩], ms := [⟨1, 10, 5, 2⟩], rs := [] } := by rfl
example : WscExp.scExport (fun b => b.length) [⟨1, 10, 5, 2⟩] [] [⟨⟨1, 10, 5, 2⟩, [7, 7]⟩]
    = .error (.pay (.digestMismatch 1 [7, 7])) := by rfl
example : WscExp.scImport (fun b => b.length) true { payloads := [⟨⟨1, 10, 5, 2⟩, [7, 7]⟩], ms := [⟨1, 10, 5, 2⟩], rs := [] }
    = .error (.pay (.digestMismatch 1 [7, 7])) := by rfl
example : WscExp.validatePayloadsPresentOnly (fun b => b.length) [⟨1, 10, 5, 2⟩] [⟨⟨1, 10, 5, 2⟩, [7, 7]⟩] = none := by decide
/-- A Present record whose payload is withheld; a CAS reference whose blob is withheld / corrupt. -/
example : WscExp.scImport (fun b => b.length) true { payloads := [], ms := [⟨1, 10, 5, 1⟩], rs := [] }
    = .error (.pay (.missing 1)) := by rfl
example : WscExp.casImport (fun b => b.length) (fun _ => none) true { refs := [⟨5, 1, 10, 1⟩], ms := [⟨1, 10, 5, 1⟩], rs := [] }
    = .error (.missingBlob 1 10) := by rfl
example : WscExp.casImport (fun b => b.length) (fun _ => some [7, 7]) true { refs := [⟨5, 1, 10, 1⟩], ms := [⟨1, 10, 5, 1⟩], rs := [] }
    = .error (.blobHashMismatch 1 [7, 7]) := by rfl
example (ms : List Wsc.Material) (rs : List Wsc.Reading) (ps : List WscExp.Payload) (x : WscExp.ScExport)
    (h : WscExp.scExport encNat ms rs ps = .ok x) := embedded_payload_exact encNat true x x
      (export_import_id_self_contained encNat ms rs ps x h)

end EchoVerif.C20
